import PsV.Model.CApi
import PsV.Generated.C18
import PsV.Driver.Common
/-!
Driver for the C18 correspondence.  Reads the op script enriched with the twin's outcome and prints, per op, what the
model (`wrapRet` on the generated wrapper table, `step` on the generated life-cycle facts) predicts the C caller sees.

input lines
  `SEQ <id> <nh> <nr>`                                           reset: nh handles, nr result slots
  `OP <kind> <wrapper> <h> <slot> <sel> <nullparam|-> <outcome>` outcome ∈ ok | fail | throw | inv
  `END`   /   `CHECK`
output lines
  `S`  /  `P <ret> valid=<0|1> h=<null|live|dangling>`  /  `E tables=.. ndObjs=.. ndArrays=.. buffers=.. ub=<0|1>`
  ret ∈ z | nz | ptr | null | val | void | escape | crash | unknown-wrapper
-/
namespace PsV.Driver.C18
open PsV.CApi PsV.Generated.C18 PsV.Driver

def findWrapper (n : String) : Option Wrapper := wrappers.find? (·.name == n)

/-- the call whose outcome the twin reports: the `sel`-th call of the wrapper's principal operation
    (the last operation that is not a helper; getters count only when nothing else is called) -/
def principal (w : Wrapper) (sel : Nat) : Option Call :=
  let cs := w.calls.filter fun c => c.op != .other && c.op != .wrapperFree
  let cs' := if cs.any (·.op != .getter) then cs.filter (·.op != .getter) else cs
  match cs'.getLast? with
  | none => none
  | some l =>
    let same := cs'.filter (·.op == l.op)
    match same[sel]? with
    | some c => some c
    | none => some l

def showRet (w : Wrapper) : CRet → String
  | .success => match w.ret with | .pointer => "ptr" | _ => "z"
  | .failure => match w.ret with | .pointer => "null" | _ => "nz"
  | .value => "val"
  | .void => "void"
  | .escapes => "escape"

def parseOutcome : String → Option Outcome
  | "ok" => some .ok | "fail" => some .fail | "throw" => some .throws | _ => none

def predict (w : Wrapper) (sel : Nat) (nullparam outcome : String) : String :=
  if outcome == "inv" then
    if w.nullChecked.contains nullparam || w.mustBeNull.contains nullparam then showRet w (guardRet w) else "crash"
  else
    match parseOutcome outcome, principal w sel with
    | some o, some c => if possible c.op o then showRet w (wrapRet w c o) else "impossible-outcome"
    | _, _ => "bad-input"

def toOps (kind : String) (h slot : Nat) (o : Outcome) : List Op :=
  match kind with
  | "init" => [.init h o]
  | "free" => [.free h]
  | "readfile" => [.readFile h o]
  | "readmem" => [.readMem h o]
  | "grideval" => [.grideval h slot o]
  | "nddestroy" => [.destroy slot]
  | "writemem" => if o == .ok then [.writeMem h o, .freeBuffer] else [.writeMem h o]   -- the caller frees the buffer at once
  | _ => [.use h]

def showH : HState → String
  | .null => "null" | .live => "live" | .dangling => "dangling"

partial def loop (inp out : IO.FS.Stream) (s : St) : IO Unit := do
  let line ← inp.getLine
  if line.isEmpty then return ()
  match words line with
  | ["SEQ", _, nh, nr] =>
    out.putStrLn "S"
    loop inp out (St.init (nh.toNat?.getD 0) (nr.toNat?.getD 0))
  | ["CHECK"] =>
    -- which generated wrapper records fail the decidable check the theorems rest on (diagnosis for the runner)
    let bad := (wrappers.filter (fun w => !wrapperOk w)).map (·.name)
    let fs := facts
    let badFacts := [("initStoresNew", fs.initStoresNew), ("freeDeletesTyped", fs.freeDeletesTyped), ("freeResetsHandle", fs.freeResetsHandle),
      ("readFileFreesOccupied", fs.readFileFreesOccupied), ("readFileStoresNew", fs.readFileStoresNew), ("readMemAllocsOnlyIfNull", fs.readMemAllocsOnlyIfNull),
      ("gridevalReleasesResult", fs.gridevalReleasesResult), ("gridevalClearsResult", fs.gridevalClearsResult), ("destroyDeletesDerived", fs.destroyDeletesDerived),
      ("writeMemHandsOverBuffer", fs.writeMemHandsOverBuffer)].filter (fun p => !p.2) |>.map (·.1)
    out.putStrLn s!"C wrappers={wrappers.length} bad=[{",".intercalate bad}] badfacts=[{",".intercalate badFacts}]"
    loop inp out s
  | ["END"] =>
    out.putStrLn s!"E tables={s.led.tables} ndObjs={s.led.ndObjs} ndArrays={s.led.ndArrays} buffers={s.led.buffers} ub={if s.ub then 1 else 0}"
    loop inp out s
  | ["OP", kind, wname, h, slot, sel, nullparam, outcome] =>
    let h := h.toNat?.getD 0; let slot := slot.toNat?.getD 0; let sel := sel.toNat?.getD 0
    match findWrapper wname with
    | none => out.putStrLn "P unknown-wrapper valid=0 h=null"; loop inp out s
    | some w =>
      let r := predict w sel nullparam outcome
      -- a guarded NULL argument returns before anything happens; otherwise the ownership model advances
      let (s', valid) :=
        if outcome == "inv" then (s, true) else
        match parseOutcome outcome with
        | none => (s, false)
        | some o =>
          let ops := toOps kind h slot o
          (run facts s ops, validRun facts s ops)
      out.putStrLn s!"P {r} valid={if valid then 1 else 0} h={showH (hget s' h)}"
      loop inp out s'
  | _ => out.putStrLn "bad-input"; loop inp out s

def run : IO Unit := do
  loop (← IO.getStdin) (← IO.getStdout) (St.init 0 0)

end PsV.Driver.C18
