import PsV.Model.CApi
import PsV.Model.CApiRefine
import PsV.Generated.C18
import PsV.Driver.Common
/-!
Driver for the C18 correspondence.  Reads the op script enriched with what the C++ twin did and prints, per op, what the
model predicts for the C side: it runs the C machine `cstep` (Model/CApiRefine.lean — pointers and ledger from the
generated life-cycle facts, return codes by `wrapRet` / `guardRet` / `oomRet` on the generated wrapper table) with the
twin's observation as the semantics of the C++ operation (outcome and object digest afterwards), i.e. exactly the
definitions `C18_refines` is about.

input lines
  `SEQ <id> <nh> <nr>`                                                      reset: nh handles, nr result slots
  `OP <kind> <wrapper> <h> <slot> <sel> <nullparam|-> <outcome> <tdg> <oom>`
        outcome ∈ ok | fail | throw | inv | allocfail     (what the twin did; inv = the call cannot be written in C++;
                                                            allocfail = readsplinefitstable_mem: `new` itself threw)
        tdg = digest of the twin object after the call (`null` = no object);  oom = 1: the injected allocation failure hit
        the wrapper's own first request (before the C++ operation was reached)
  `END`   /   `CHECK`
output lines
  `S`  /  `P <ret> valid=<0|1> h=<null|dangling|digest of the object behind the handle> af=<0|1>`
       /  `E tables=.. ndObjs=.. ndArrays=.. buffers=.. ub=<0|1>`
  ret ∈ z | nz | ptr | null | val | void | escape | crash | unknown-wrapper;  valid = inside `cDefined`;
  af = 1: no call of the wrapper can throw (`Wrapper.mayThrow = false`) — the harness must count 0 heap requests
-/
namespace PsV.Driver.C18
open PsV.CApi PsV.Generated.C18 PsV.Driver

def findWrapper (n : String) : Option Wrapper := lookup wrappers n

def showRet (w : Wrapper) : CRet → String
  | .success => match w.ret with | .pointer => "ptr" | _ => "z"
  | .failure => match w.ret with | .pointer => "null" | _ => "nz"
  | .value => "val"
  | .void => "void"
  | .escapes => "escape"

def parseOutcome : String → Option Outcome
  | "ok" => some .ok | "fail" => some .fail | "throw" => some .throws | "allocfail" => some .throws | _ => none

/-- the twin's observation as the semantics of the C++ operation -/
def mkSem (o : Outcome) (tdg : String) : Sem String Unit String :=
  { empty := tdg, load := fun _ => if o == .ok then some tdg else none, member := fun _ _ _ => (o, tdg, "") }

abbrev MSt := CSt String String

/-- the call(s) of the C interface an op line stands for -/
def toCalls (kind : String) (w : Wrapper) (h slot sel : Nat) (nullparam outcome : String) (o : Outcome) (oom : Bool) : List (CCall Unit) :=
  if outcome == "inv" && nullparam != "table->data" then
    if kind == "grideval" then (if nullparam == "table" then [.grideval true h slot () false] else [.nullArg w nullparam h])
    else [.nullArg w nullparam h]
  else
    match kind with
    | "init" => [.init h (o != .ok)]
    | "free" => [.free h]
    | "readfile" => [.readFile h () oom]
    | "readmem" => [.readMem h () (outcome == "allocfail")]
    | "grideval" => [.grideval false h slot () oom]
    | "nddestroy" => [.destroy slot]
    | "writemem" => if o == .ok && outcome != "inv" then [.writeMem h () oom, .freeBuffer] else [.writeMem h () oom]   -- the caller frees the buffer at once
    | _ => [.member w h () sel oom]

def runCalls (sem : Sem String Unit String) : MSt → List (CCall Unit) → MSt × Bool × Option CRet
  | s, [] => (s, true, none)
  | s, e :: es =>
    let v := cDefined wrappers s e
    let r := cstep facts wrappers sem s e
    let rest := runCalls sem r.1 es
    (rest.1, v && rest.2.1, some r.2.ret)     -- the C-visible result is that of the first call (the wrapper)

def showH : HPtr String → String
  | .null => "null" | .live x => x | .dangling => "dangling"

/-- is the twin's outcome one the behaviour classes allow for the wrapper's principal operation? -/
def outcomePossible (w : Wrapper) (sel : Nat) (o : Outcome) : Bool :=
  match principal w sel with
  | some c => possible c.op o
  | none => o == .ok

partial def loop (inp out : IO.FS.Stream) (s : MSt) : IO Unit := do
  let line ← inp.getLine
  if line.isEmpty then return ()
  match words line with
  | ["SEQ", _, nh, nr] =>
    out.putStrLn "S"
    loop inp out (CSt.init (nh.toNat?.getD 0) (nr.toNat?.getD 0))
  | ["CHECK"] =>
    -- which generated wrapper records fail the decidable checks the theorems rest on (diagnosis for the runner)
    let bad := (wrappers.filter (fun w => !wrapperOk2 w)).map (·.name)
    let fs := facts
    let badFacts := [("initStoresNew", fs.initStoresNew), ("freeDeletesTyped", fs.freeDeletesTyped), ("freeResetsHandle", fs.freeResetsHandle),
      ("readFileFreesOccupied", fs.readFileFreesOccupied), ("readFileStoresNew", fs.readFileStoresNew), ("readMemAllocsOnlyIfNull", fs.readMemAllocsOnlyIfNull),
      ("gridevalReleasesResult", fs.gridevalReleasesResult), ("gridevalClearsResult", fs.gridevalClearsResult), ("destroyDeletesDerived", fs.destroyDeletesDerived),
      ("writeMemHandsOverBuffer", fs.writeMemHandsOverBuffer)].filter (fun p => !p.2) |>.map (·.1)
    out.putStrLn s!"C wrappers={wrappers.length} bad=[{",".intercalate bad}] badfacts=[{",".intercalate badFacts}]"
    loop inp out s
  | ["END"] =>
    out.putStrLn s!"E tables={s.led.tables} ndObjs={s.led.ndObjs} ndArrays={s.led.ndArrays} buffers={s.led.buffers} ub={if s.ub then 1 else 0}"
    loop inp out s
  | ["OP", kind, wname, h, slot, sel, nullparam, outcome, tdg, oom] =>
    let h := h.toNat?.getD 0; let slot := slot.toNat?.getD 0; let sel := sel.toNat?.getD 0
    match findWrapper wname with
    | none => out.putStrLn "P unknown-wrapper valid=0 h=null af=0"; loop inp out s
    | some w =>
      let af := if w.mayThrow then 0 else 1
      let o := if outcome == "inv" then some Outcome.fail else parseOutcome outcome
      match o with
      | none => out.putStrLn s!"P bad-input valid=0 h={showH (hptr s h)} af={af}"; loop inp out s
      | some o =>
        if outcome != "inv" && !outcomePossible w sel o then
          out.putStrLn s!"P impossible-outcome valid=0 h={showH (hptr s h)} af={af}"; loop inp out s
        else
          let calls := toCalls kind w h slot sel nullparam outcome o (oom == "1")
          let (s', valid, ret) := runCalls (mkSem o tdg) s calls
          let r := match ret with | some r => showRet w r | none => "bad-input"
          -- a NULL argument the wrapper does not test, a wrapper without a `table->data` test on a handle that owns nothing
          let r := if valid then r else if outcome == "inv" then "crash" else r
          out.putStrLn s!"P {r} valid={if valid then 1 else 0} h={showH (hptr s' h)} af={af}"
          loop inp out s'
  | _ => out.putStrLn "bad-input"; loop inp out s

def run : IO Unit := do
  loop (← IO.getStdin) (← IO.getStdout) (CSt.init 0 0)

end PsV.Driver.C18
