import PsV.Spec.BSpline
import PsV.Model.DerivAbs
import PsV.Driver.Common
/-!
Driver for the evaluation correspondences (C01, C02, C03 tie, C04, C05).

Lines
  `T ndim (order nknots stride padded-knot-bits{nknots+2*order})*ndim ncoef coef-bits32{ncoef}`
  `S xbits*`                               lookup on order-isomorphic keys (NaN → none)
  `V prec mask xbits* centers*`            ndsplineeval at F64/F32 (bits) + exact model, spec, magnitude, cmax, proved majorant
                                           (`evalModesAbs` of the |coef| table: the majorant of `C02_rounding_envelope_partial`; `-` when a
                                           dimension uses the recursive arbitrary-order routine)
  `GX xbits* centers*`                     exact gradient lanes and their proved majorants (`C02_gradient_rounding_envelope`):
                                           `e_0 m_0 e_1 m_1 …`, or `refused` / `inexact`
  `D prec k* xbits* centers*`              ndsplineeval_deriv likewise
  `G prec xbits* centers*`                 gradient lanes (bits only)
  `B prec xbits* centers*`                 bits only for mask 0 (cheap; no exact part)
-/
namespace PsV.Driver.Eval
open PsV PsV.Driver

def ratOfBits (u : UInt64) : Option Rat :=
  let sign := (u >>> 63) != 0
  let e := ((u >>> 52) &&& 0x7ff).toNat
  let m := (u &&& 0xfffffffffffff).toNat
  if e == 0x7ff then none else
  let (mant, ex) : Nat × Int := if e == 0 then (m, -1074) else (m + 2^52, (e : Int) - 1075)
  let mag : Rat := if ex ≥ 0 then ((mant * 2^ex.toNat : Nat) : Rat) else (mant : Rat) / ((2^(-ex).toNat : Nat) : Rat)
  some (if sign then -mag else mag)

/-- order-isomorphic key; `none` for NaN; ±0 ↦ 0; ±inf are ordinary extreme keys -/
def keyOfBits (u : UInt64) : Option Int :=
  let e := ((u >>> 52) &&& 0x7ff).toNat
  let m := (u &&& 0xfffffffffffff).toNat
  if e == 0x7ff && m != 0 then none else
  let mag : Int := ((u &&& 0x7fffffffffffffff).toNat : Int)
  some (if (u >>> 63) != 0 then -mag else mag)

def cbits (f : Float) : UInt64 := if f.isNaN then 0x7ff8000000000000 else f.toBits

structure RawDim where
  order : Nat
  nknots : Nat
  stride : Nat
  kbits : Array UInt64   -- nknots + 2*order, padding included
deriving Inhabited

structure RawTable where
  dims : List RawDim
  coef : Array UInt32
deriving Inhabited

def RawDim.knotBits (d : RawDim) (i : Int) : Option UInt64 :=
  let j := i + d.order
  if j < 0 then none else d.kbits[j.toNat]?

def RawDim.toF64 (d : RawDim) : Dim F64 :=
  ⟨d.order, d.nknots, d.nknots - d.order - 1, d.stride,
   fun i => ⟨match d.knotBits i with | some u => Float.ofBits u | none => Float.ofBits 0x7ff8000000000000⟩⟩
def RawDim.toF32 (d : RawDim) : Dim F32 :=
  ⟨d.order, d.nknots, d.nknots - d.order - 1, d.stride,
   fun i => ⟨match d.knotBits i with | some u => Float.ofBits u | none => Float.ofBits 0x7ff8000000000000⟩⟩
/-- exact carrier: padding / non-finite values become 0 (results are proved independent of padding) -/
def RawDim.toRat (d : RawDim) : Dim Rat :=
  let tab : Array Rat := d.kbits.map fun u => (ratOfBits u).getD 0
  let ord : Int := d.order
  ⟨d.order, d.nknots, d.nknots - d.order - 1, d.stride,
   fun i => let j := i + ord; if j < 0 then 0 else tab.getD j.toNat 0⟩
def RawDim.toKeys (d : RawDim) : Axis (Option Int) :=
  ⟨d.order, d.nknots, fun i => match d.knotBits i with | some u => keyOfBits u | none => none⟩

def coefFloat (c : Array UInt32) (i : Int) : Float :=
  if i < 0 then Float.ofBits 0x7ff8000000000000 else
  match c[i.toNat]? with
  | some u => (Float32.ofBits u).toFloat
  | none => Float.ofBits 0x7ff8000000000000

def RawTable.toF64 (t : RawTable) : Table F64 := ⟨t.dims.map RawDim.toF64, fun i => ⟨coefFloat t.coef i⟩⟩
def RawTable.toF32 (t : RawTable) : Table F32 := ⟨t.dims.map RawDim.toF32, fun i => ⟨coefFloat t.coef i⟩⟩
def RawTable.toRat (t : RawTable) : Table Rat :=
  let tab : Array Rat := t.coef.map fun u => (ratOfBits (Float32.ofBits u).toFloat.toBits).getD 0
  ⟨t.dims.map RawDim.toRat, fun i => if i < 0 then 0 else tab.getD i.toNat 0⟩

def parseDims : Nat → List String → Option (List RawDim × List String)
  | 0, rest => some ([], rest)
  | n+1, o :: nk :: st :: rest => do
    let order ← o.toNat?
    let nknots ← nk.toNat?
    let stride ← st.toNat?
    let (ks, rest) ← takeN (nknots + 2*order) rest
    let kb ← ks.mapM (fun s => s.toNat?.map (·.toUInt64))
    let (ds, rest) ← parseDims n rest
    pure (⟨order, nknots, stride, kb.toArray⟩ :: ds, rest)
  | _, _ => none

def parseTable (ws : List String) : Option RawTable := do
  match ws with
  | nd :: rest =>
    let ndim ← nd.toNat?
    let (dims, rest) ← parseDims ndim rest
    match rest with
    | nc :: cs =>
      let ncoef ← nc.toNat?
      if cs.length ≠ ncoef then none else
      let cb ← cs.mapM (fun s => s.toNat?.map (·.toUInt32))
      pure ⟨dims, cb.toArray⟩
    | [] => none
  | [] => none

def natList (l : List String) : Option (List Nat) := l.mapM String.toNat?
def bitsList (l : List String) : Option (List UInt64) := l.mapM (fun s => s.toNat?.map (·.toUInt64))

def showRat (r : Rat) : String := s!"{r.num}/{r.den}"

def ratAbs (r : Rat) : Rat := if r < 0 then -r else r

/-- magnitude sum `Σ |coef| Π |f|` over the whole table, for the rounding envelope -/
def absTable (T : Table Rat) : Table Rat := ⟨T.dims, fun i => ratAbs (T.coef i)⟩
def absRows (rs : List (Nat × List Rat)) : List (Nat × List Rat) := rs.map fun (s, fs) => (s, fs.map ratAbs)

/-- magnitude companion of `Dind`: the two terms of every knot-difference step enter with their
absolute values (for the rounding envelope of derivative evaluations) -/
def Dmag (ind : Int → Bool) (t : Int → Rat) (x : Rat) : (k : Nat) → (n : Nat) → Int → Rat
  | 0, n, i => ratAbs (Bind ind t x n i)
  | _+1, 0, _ => 0
  | k+1, n+1, i =>
    ((n+1 : Nat) : Rat) * (Dmag ind t x k n i / ratAbs (t (i + n + 1) - t i) + Dmag ind t x k n (i+1) / ratAbs (t (i + n + 2) - t (i + 1)))

def magRows : List (Dim Rat) → List Rat → List BasisMode → List (Nat × List Rat)
  | d :: ds, x :: xs, m :: ms =>
    (d.stride, (List.range d.naxes).map fun i => Dmag (selInd d x) d.knots x (derivOrder m) d.order (i : Nat)) :: magRows ds xs ms
  | _, _, _ => []

/-- exact part shared by V and D lines: model value, spec value, magnitude -/
structure DState where
  raw : RawTable
  rat : Table Rat          -- exact copy of the table, converted once per `T` line
  cmax : Rat

instance : Inhabited DState := ⟨⟨default, ⟨[], fun _ => 0⟩, 0⟩⟩

def mkState (t : RawTable) : DState :=
  ⟨t, t.toRat, t.coef.foldl (fun m u => let r := ratAbs ((ratOfBits (Float32.ofBits u).toFloat.toBits).getD 0); if m < r then r else m) (0 : Rat)⟩

/-- the rounding theorems of C02 cover rows of plain values and single derivatives -/
def provedModes (ms : List BasisMode) : Bool :=
  ms.all fun m => match m with | .value => true | .deriv1 => true | .derivK _ => false

def exactPart (st : DState) (xs : List UInt64) (cs : List Nat) (ms : List BasisMode) : String :=
  match xs.mapM ratOfBits with
  | none => "inexact"
  | some xr =>
    let T := st.rat
    let model := evalModes T xr cs ms
    let rows := specRows T.dims xr ms
    let spec := specSum T.coef rows Arith.one 0
    let mag := specSum (absTable T).coef (magRows T.dims xr ms) Arith.one 0
    let maj := if provedModes ms then showRat (evalModesAbs (absTable T) xr cs ms) else "-"
    s!"{showRat model} {showRat spec} {showRat mag} {showRat st.cmax} {maj}"

/-- exact lanes of `ndsplineeval_gradient` and the majorant `ndsplineevalAbs |T| x c (laneMask lane)` of each -/
def gradExact (st : DState) (xs : List UInt64) (cs : List Nat) : String :=
  match xs.mapM ratOfBits with
  | none => "inexact"
  | some xr =>
    let T := st.rat
    match ndsplineevalGradient maxDimDefault T xr cs with
    | none => "refused"
    | some lanes =>
      let majs := (List.range (T.dims.length + 1)).map fun lane =>
        ndsplineevalAbs (absTable T) xr cs (laneMask lane)
      " ".intercalate ((lanes.zip majs).map fun (e, m) => s!"{showRat e} {showRat m}")

def evalBits (t : RawTable) (prec : String) (xs : List UInt64) (cs : List Nat) (ms : List BasisMode) : UInt64 :=
  if prec == "d" then cbits (evalModes t.toF64 (xs.map fun u => (⟨Float.ofBits u⟩ : F64)) cs ms).v
  else cbits (evalModes t.toF32 (xs.map fun u => (⟨Float.ofBits u⟩ : F32)) cs ms).v

def step (ds : DState) (ws : List String) : DState × String :=
  let st := ds.raw
  let nd := st.dims.length
  match ws with
  | "T" :: rest =>
    match parseTable rest with
    | some t => (mkState t, "table")
    | none => (ds, "bad-table")
  | "S" :: rest =>
    match bitsList rest with
    | some xs =>
      if xs.length ≠ nd then (ds, "bad-input") else
      match searchCenters (st.dims.map RawDim.toKeys) (xs.map keyOfBits) with
      | .reject => (ds, "reject")
      | .nonterm => (ds, "nonterm")
      | .ok cs => (ds, "ok " ++ joinNat cs)
    | none => (ds, "bad-input")
  | "V" :: prec :: mask :: rest =>
    match mask.toNat?, bitsList (rest.take nd), natList (rest.drop nd) with
    | some m, some xs, some cs =>
      if xs.length ≠ nd || cs.length ≠ nd then (ds, "bad-input") else
      let ms := maskModes nd m
      (ds, s!"{evalBits st prec xs cs ms} {exactPart ds xs cs ms}")
    | _, _, _ => (ds, "bad-input")
  | "U" :: prec :: mask :: rest =>
    match mask.toNat?, bitsList (rest.take nd), natList (rest.drop nd) with
    | some m, some xs, some cs =>
      if xs.length ≠ nd || cs.length ≠ nd then (ds, "bad-input") else
      (ds, s!"{evalBits st prec xs cs (maskModes nd m)}")
    | _, _, _ => (ds, "bad-input")
  | "B" :: prec :: mask :: rest =>
    match mask.toNat?, bitsList (rest.take nd), natList (rest.drop nd) with
    | some m, some xs, some cs =>
      if xs.length ≠ nd || cs.length ≠ nd then (ds, "bad-input") else
      (ds, s!"{evalBits st prec xs cs (maskModes nd m)}")
    | _, _, _ => (ds, "bad-input")
  | "E" :: prec :: rest =>
    match natList (rest.take nd), bitsList ((rest.drop nd).take nd), natList (rest.drop (2*nd)) with
    | some ks, some xs, some cs =>
      if ks.length ≠ nd || xs.length ≠ nd || cs.length ≠ nd then (ds, "bad-input") else
      (ds, s!"{evalBits st prec xs cs (derivModes ks)}")
    | _, _, _ => (ds, "bad-input")
  | "G" :: prec :: rest =>
    match bitsList (rest.take nd), natList (rest.drop nd) with
    | some xs, some cs =>
      if xs.length ≠ nd || cs.length ≠ nd then (ds, "bad-input") else
      let r : Option (List UInt64) :=
        if prec == "d" then (ndsplineevalGradient maxDimDefault st.toF64 (xs.map fun u => (⟨Float.ofBits u⟩ : F64)) cs).map (·.map fun v => cbits v.v)
        else (ndsplineevalGradient maxDimDefault st.toF32 (xs.map fun u => (⟨Float.ofBits u⟩ : F32)) cs).map (·.map fun v => cbits v.v)
      match r with
      | none => (ds, "refused")
      | some l => (ds, " ".intercalate (l.map toString))
    | _, _ => (ds, "bad-input")
  | "GX" :: rest =>
    match bitsList (rest.take nd), natList (rest.drop nd) with
    | some xs, some cs =>
      if xs.length ≠ nd || cs.length ≠ nd then (ds, "bad-input") else (ds, gradExact ds xs cs)
    | _, _ => (ds, "bad-input")
  | "D" :: prec :: rest =>
    match natList (rest.take nd), bitsList ((rest.drop nd).take nd), natList (rest.drop (2*nd)) with
    | some ks, some xs, some cs =>
      if ks.length ≠ nd || xs.length ≠ nd || cs.length ≠ nd then (ds, "bad-input") else
      let ms := derivModes ks
      (ds, s!"{evalBits st prec xs cs ms} {exactPart ds xs cs ms}")
    | _, _, _ => (ds, "bad-input")
  | _ => (ds, "bad-input")

partial def loop (h out : IO.FS.Stream) (st : DState) : IO Unit := do
  let line ← h.getLine
  if line.isEmpty then return ()
  let (st', o) := step st (words line)
  out.putStrLn o
  loop h out st'

def run : IO Unit := do loop (← IO.getStdin) (← IO.getStdout) default

end PsV.Driver.Eval
