import PsV.Model.AuxKeys
import PsV.Driver.Common
/-! Driver for C16: replays the operation lines of `harness/c16_harness.cpp` on `PsV.Aux.step`
    and prints the outcome token and the full ordered store after every operation.
    Strings cross the boundary hex-encoded (`-` = empty string). -/
namespace PsV.Driver.C16
open PsV PsV.Aux PsV.Driver

def hexVal (c : Char) : Nat :=
  if c.isDigit then c.toNat - 48 else if 'a'.toNat ≤ c.toNat ∧ c.toNat ≤ 'f'.toNat then c.toNat - 87 else 0

def unhexL : List Char → List Char
  | a :: b :: r => Char.ofNat (hexVal a * 16 + hexVal b) :: unhexL r
  | _ => []

def unhex (s : String) : Str := if s == "-" then [] else unhexL s.toList

def hexDigit (n : Nat) : Char := if n < 10 then Char.ofNat (48 + n) else Char.ofNat (87 + n)

def hex (s : Str) : String :=
  if s.isEmpty then "-" else String.ofList (s.flatMap fun c => [hexDigit (c.toNat / 16), hexDigit (c.toNat % 16)])

def showStore (st : Store) : String :=
  if st.isEmpty then "." else ",".intercalate (st.map fun (k, v) => hex k ++ ":" ++ hex v)

def wTok : WOut → String
  | .appended => "appended" | .updated => "updated"
  | .threw .reserved => "reserved" | .threw .shortChar => "shortchar"
  | .threw .hasEq => "haseq" | .threw .hasLower => "haslower"
  | .threw .keyTooLong => "keytoolong" | .threw .valueTooLong => "valuetoolong"
  | .threw .edgeBlank => "edgeblank" | .threw .keyNonPrintable => "keynonprint" | .threw .valueNonPrintable => "valuenonprint"

def outTok (tag : String) : Out → String
  | .w o => "w:" ++ wTok o
  | .rm b => "rm:" ++ (if b then "1" else "0")
  | .got none => tag ++ ":absent"
  | .got (some v) => tag ++ ":text:" ++ hex v
  | .int .absent => "ri:absent"
  | .int (.parsed ok (some n)) => s!"ri:{if ok then 1 else 0}:{n}"
  | .int (.parsed ok none) => s!"ri:{if ok then 1 else 0}:untouched"
  | .str .absent => "rs:absent"
  | .str (.parsed _ (some v)) => "rs:1:" ++ hex v
  | .str (.parsed _ none) => "rs:1:untouched"
  | .fitsOk => "f:ok"
  | .fitsWriteFailed => "f:writefail"

def parseOp : List String → Option (Op × String)
  | ["W", k, v] => some (.writeStr (unhex k) (unhex v), "")
  | ["D", k, v] => some (.writeText (unhex k) (unhex v), "")
  | ["I", k, n] => n.toInt?.map fun n => (.writeInt (unhex k) n, "")
  | ["X", k] => some (.remove (unhex k), "")
  | ["G", k] => some (.get (unhex k), "g")
  | ["RD", k] => some (.readText (unhex k), "rd")
  | ["RI", k] => some (.readInt (unhex k), "")
  | ["RS", k] => some (.readStr (unhex k), "")
  | ["F"] => some (.fits, "")
  | _ => none

/-- `K key value`: the card cfitsio writes for the entry, and the name / raw value it reads back -/
def cardLine (k v : Str) : String :=
  match cardOf (k, v) with
  | none => "k:err"
  | some card =>
    let c := rstrip card
    s!"k:{hex c}:{hex (ffgknm c)}:{hex (ffpsvc c)}"

partial def loop (h out : IO.FS.Stream) (st : Store) : IO Unit := do
  let line ← h.getLine
  if line.isEmpty then return ()
  match words line with
  | ["N"] => out.putStrLn "new | ."; loop h out []
  | ["K", k, v] => out.putStrLn (cardLine (unhex k) (unhex v) ++ " | " ++ showStore st); loop h out st
  | ws =>
    match parseOp ws with
    | none => out.putStrLn "bad-input"; loop h out st
    | some (op, tag) =>
      let (o, st') := step st op
      out.putStrLn (outTok tag o ++ " | " ++ showStore st')
      loop h out st'

def run : IO Unit := do loop (← IO.getStdin) (← IO.getStdout) []

end PsV.Driver.C16
