import PsV.Spec.Grid
import PsV.Model.Glam
import PsV.Model.GlamIdx
import PsV.Driver.Eval
/-!
Driver for C17 (grid evaluation) and the array kernels of splineutil.c.  Lines (see harness/c17_harness.cpp):
  `B order nknots knotbits* npts xbits*`          → `nrow ncol bits*` of `bsplineBasis` at `F64` (row-major)
  `S ndim ranges* nent (idx* val)* dim nrow ncol b*` → `sliceMultiply` at `Rat`:
        `fail` | `ndim ranges* | nlisted (idx*)* | value at every index of the result range (row-major) | safe=b`
        (`b` = `sliceIdxSafe`: fewer than 2^31 columns in the flattened section, the hypothesis of `slicemultiply_int_arith_exact`)
  `T …` (fields of `S`, large ranges) → `fail` | `ndim ranges* | nlisted (idx*)* | value at every listed index (same order) | safe=b`
  `G ndim (order nknots stride knotbits*)* ncoef coefbits32* (npts xbits*)*` → `gridEval` at `Rat`:
        `none` | `ndim ranges* | nlisted (idx*)* | per grid point (row-major): get gridSpec specEval magnitude majorant N | safe=b | K0=k`
        (`b` = `gridIdxSafe`, the hypothesis of `grideval_int_arith_exact`; `majorant` = the cell of `gridEval dims |coef| coords`,
        `N` = `NdSparse.nlisted` of the result at the cell, `k` = `gridRoundCount dims`: the quantities of
        `C17_grideval_rounding_envelope_partial`, whose envelope is `gfac ε (k + N) · majorant`)
-/
namespace PsV.Driver.C17
open PsV PsV.Driver PsV.Driver.Eval

def nanBits : UInt64 := 0x7ff8000000000000

/-- all index tuples of a range list, row-major (last index fastest) -/
def allIdx : List Nat → List (List Nat)
  | [] => [[]]
  | r :: rs => (List.range r).flatMap fun i => (allIdx rs).map (i :: ·)

def idxLt : List Nat → List Nat → Bool
  | [], [] => false
  | a :: as, b :: bs => a < b || (a == b && idxLt as bs)
  | [], _ => true
  | _, [] => false

def insertSorted (x : List Nat) : List (List Nat) → List (List Nat)
  | [] => [x]
  | y :: ys => if x == y then y :: ys else if idxLt x y then x :: y :: ys else y :: insertSorted x ys

/-- sorted, duplicate-free list of the listed index tuples -/
def listed (s : NdSparse Rat) : List (List Nat) :=
  s.entries.foldl (fun acc e => insertSorted e.1 acc) []

def showIdxs (l : List (List Nat)) : String :=
  s!"{l.length}" ++ String.join (l.map fun i => " " ++ joinNat i)

def handleB (ws : List String) : String :=
  match ws with
  | o :: nk :: rest =>
    match o.toNat?, nk.toNat? with
    | some order, some nknots =>
      match takeN nknots rest with
      | some (ks, np :: xs) =>
        match bitsList ks, np.toNat?, bitsList xs with
        | some kb, some npts, some xb =>
          if xb.length ≠ npts then "bad-input" else
          let karr := kb.toArray
          let t : Int → F64 := fun i => ⟨if i < 0 then Float.ofBits nanBits else match karr[i.toNat]? with | some u => Float.ofBits u | none => Float.ofBits nanBits⟩
          let m := bsplineBasis t nknots order (xb.map fun u => (⟨Float.ofBits u⟩ : F64))
          let vals := (List.range m.nrow).flatMap fun r => (List.range m.ncol).map fun c => toString (cbits (m.val r c).v)
          s!"{m.nrow} {m.ncol} " ++ " ".intercalate vals
        | _, _, _ => "bad-input"
      | _ => "bad-input"
    | _, _ => "bad-input"
  | _ => "bad-input"

def parseEntries (nd : Nat) : Nat → List String → Option (List (List Nat × Rat) × List String)
  | 0, rest => some ([], rest)
  | n+1, rest => do
    let (iw, rest) ← takeN nd rest
    let idx ← natList iw
    match rest with
    | v :: rest =>
      let x ← v.toInt?
      let (es, rest) ← parseEntries nd n rest
      pure ((idx, (x : Rat)) :: es, rest)
    | [] => none

def handleS (ws : List String) (dense : Bool := true) : String :=
  let r : Option String := do
    match ws with
    | ndw :: rest =>
      let nd ← ndw.toNat?
      let (rw, rest) ← takeN nd rest
      let ranges ← natList rw
      match rest with
      | ne :: rest =>
        let nent ← ne.toNat?
        let (es, rest) ← parseEntries nd nent rest
        match rest with
        | dw :: nrw :: ncw :: bw =>
          let dim ← dw.toNat?
          let nrow ← nrw.toNat?
          let ncol ← ncw.toNat?
          let bv ← bw.mapM String.toInt?
          if bv.length ≠ nrow * ncol then none else
          let barr := bv.toArray
          let b : Mat Rat := ⟨nrow, ncol, fun i j => if i < nrow ∧ j < ncol then ((barr[i * ncol + j]?).getD 0 : Int) else 0⟩
          match sliceMultiply (⟨ranges, es⟩ : NdSparse Rat) b dim with
          | none => pure "fail"
          | some a =>
            let vals := (if dense then allIdx a.ranges else listed a).map fun idx => showRat (a.get idx)
            let safe := if sliceIdxSafe ranges dim ncol then "1" else "0"
            pure (s!"{a.ranges.length} {joinNat a.ranges} | {showIdxs (listed a)} | " ++ " ".intercalate vals ++ s!" | safe={safe}")
        | _ => none
      | [] => none
    | [] => none
  r.getD "bad-input"

structure GDim where
  order : Nat
  nknots : Nat
  stride : Nat
  kbits : Array UInt64

def GDim.toRat (d : GDim) : Dim Rat :=
  let kr : Array Rat := d.kbits.map fun u => (ratOfBits u).getD 0      -- converted once
  ⟨d.order, d.nknots, d.nknots - d.order - 1, d.stride, fun i => if i < 0 then 0 else kr.getD i.toNat 0⟩

def parseGDims : Nat → List String → Option (List GDim × List String)
  | 0, rest => some ([], rest)
  | n+1, o :: nk :: st :: rest => do
    let order ← o.toNat?
    let nknots ← nk.toNat?
    let stride ← st.toNat?
    let (ks, rest) ← takeN nknots rest
    let kb ← bitsList ks
    let (ds, rest) ← parseGDims n rest
    pure (⟨order, nknots, stride, kb.toArray⟩ :: ds, rest)
  | _, _ => none

def parseCoords : Nat → List String → Option (List (List UInt64) × List String)
  | 0, rest => some ([], rest)
  | n+1, np :: rest => do
    let npts ← np.toNat?
    let (xs, rest) ← takeN npts rest
    let xb ← bitsList xs
    let (cs, rest) ← parseCoords n rest
    pure (xb :: cs, rest)
  | _, _ => none

def coefRat (c : Array UInt32) (i : Int) : Rat :=
  if i < 0 then 0 else
  match c[i.toNat]? with
  | some u => (ratOfBits (Float32.ofBits u).toFloat.toBits).getD 0
  | none => 0

def handleG (ws : List String) : String :=
  let r : Option String := do
    match ws with
    | ndw :: rest =>
      let nd ← ndw.toNat?
      let (gd, rest) ← parseGDims nd rest
      match rest with
      | nc :: rest =>
        let ncoef ← nc.toNat?
        let (cw, rest) ← takeN ncoef rest
        let cb ← cw.mapM (fun s => s.toNat?.map (·.toUInt32))
        let (cbits, _) ← parseCoords nd rest
        let coords ← cbits.mapM (fun l => l.mapM ratOfBits)
        let dims := gd.map GDim.toRat
        let carr := cb.toArray
        let coef := coefRat carr
        -- the majorant run of `C17_grideval_rounding_envelope_partial`: the same `gridEval` on the magnitudes
        match gridEval dims coef coords, gridEval dims (fun i => ratAbs (coef i)) coords with
        | some a, some am =>
          let T : Table Rat := ⟨dims, coef⟩
          let Tabs : Table Rat := ⟨dims, fun i => ratAbs (coef i)⟩
          let modes := List.replicate nd BasisMode.value
          let pts := (allIdx (coords.map List.length)).map fun g =>
            match gridPoint coords g with
            | none => "bad-point"
            | some xs =>
              let rows := gridRows dims xs
              let mag := specSum Tabs.coef (absRows rows) Arith.one 0
              s!"{showRat (a.get g)} {showRat (gridSpec dims coef xs)} {showRat (specEval T xs modes)} {showRat mag} {showRat (am.get g)} {a.nlisted g}"
          let safe := if gridIdxSafe (dims.map (·.naxes)) 0 (coords.map List.length) then "1" else "0"
          pure (s!"{a.ranges.length} {joinNat a.ranges} | {showIdxs (listed a)} | " ++ " ".intercalate pts ++ s!" | safe={safe} | K0={gridRoundCount dims}")
        | _, _ => pure "none"
      | [] => none
    | [] => none
  r.getD "bad-input"

def handle (ws : List String) : String :=
  match ws with
  | "B" :: rest => handleB rest
  | "S" :: rest => handleS rest
  | "T" :: rest => handleS rest false
  | "G" :: rest => handleG rest
  | _ => "bad-input"

end PsV.Driver.C17
