import PsV.Model.Alloc
import PsV.Driver.Common
/-! Driver for C19: evaluates `estimate`, `readEvents`, `convolveEvents`, `peak` on the file description the
    harness prints (plus the destructor's releases, the level after them, and the peak an arena with 16-byte blocks sees).  Line: `C objsize ndim n cdim doconv nauxK naux {order nknots naxes}*ndim {keylen vallen storedlen}*naux`.
    A file whose shape the reader's (generated) validation refuses answers `rejected`: the call sites are then not
    executed to the end and the event model does not apply. -/
namespace PsV.Driver.C19
open PsV.C19 PsV.Driver

def parseDims : Nat → List Nat → Option (List Dim × List Nat)
  | 0, rest => some ([], rest)
  | k+1, o :: nk :: na :: rest => (parseDims k rest).map fun (ds, r) => (⟨o, nk, na⟩ :: ds, r)
  | _, _ => none

def parseAux : Nat → List Nat → Option (List AuxEntry × List Nat)
  | 0, rest => some ([], rest)
  | k+1, a :: b :: c :: rest => (parseAux k rest).map fun (as, r) => (⟨a, b, c⟩ :: as, r)
  | _, _ => none

def showEvents (es : List Event) : String :=
  String.join (es.map fun e => match e with | .alloc n => s!" a{n}" | .free n => s!" f{n}")

def handle (ws : List String) : String :=
  match ws with
  | "C" :: rest =>
    match rest.mapM String.toNat? with
    | some (objsize :: ndim :: n :: cdim :: doconv :: nauxK :: naux :: nums) =>
      match parseDims ndim nums with
      | some (dims, nums) =>
        match parseAux naux nums with
        | some (aux, []) =>
          let p : Params := { objsize, dims, aux, nauxKnotsHdu := nauxK, n, cdim }
          if !loadable p then "rejected" else
          let r := readEvents p
          let c := if doconv = 1 then convolveEvents p else []
          let all := r ++ c
          -- the destructor runs on the shape the table has then
          let d := destroyEvents p (if doconv = 1 then convDims p else p.dims)
          let life := all ++ d
          let pdef : Params := { p with objsize := PsV.Generated.C19.sizeofSplinetable }
          s!"est {estimate p} estdef {estimate pdef} peak {peak all} live {liveAfter 0 all} pad16 {peak (padEvents 16 all)} end {liveAfter 0 life} ev{showEvents r} |{showEvents c} |{showEvents d}" ++
            (if balanced 0 life then "" else " UNBALANCED")
        | _ => "bad-input"
      | none => "bad-input"
    | _ => "bad-input"
  | _ => "bad-input"

end PsV.Driver.C19
