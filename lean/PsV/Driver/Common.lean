/-! Line-protocol plumbing shared by all property drivers (Mathlib-free). -/
namespace PsV.Driver

def words (line : String) : List String :=
  (line.trimAscii.toString.splitOn " ").filter (· ≠ "")

partial def lineLoop (h : IO.FS.Stream) (out : IO.FS.Stream) (f : List String → String) : IO Unit := do
  let line ← h.getLine
  if line.isEmpty then return ()
  out.putStrLn (f (words line))
  lineLoop h out f

/-- `some n` for a decimal integer token, `none` otherwise (used for NaN as the token `nan`). -/
def key? (s : String) : Option Int := s.toInt?

def takeN {α} : Nat → List α → Option (List α × List α)
  | 0, l => some ([], l)
  | _+1, [] => none
  | n+1, x :: xs => (takeN n xs).map fun (a, b) => (x :: a, b)

def joinNat (l : List Nat) : String := " ".intercalate (l.map toString)

end PsV.Driver
