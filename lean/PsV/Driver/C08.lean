import PsV.Model.FitsWrite
import PsV.Model.FitsBytes
import PsV.Model.FitsCrash
import PsV.Driver.Common
/-! Driver for C08: runs the control-flow model on observed environments, the encoder, the crash-state builder and
    the byte-level reader.  Stateful line protocol (see harness/c08_harness.cpp). -/
namespace PsV.Driver.C08
open PsV.C08 PsV.Driver

structure St where
  table : Option Table := none
  enc : Bytes := []
  ops : Array Op := #[]
  cacheK : Nat := 0
  cache : Bytes := []

def fnv (bs : Bytes) : UInt64 :=
  bs.foldl (fun h b => (h ^^^ b.toUInt64) * 1099511628211) 14695981039346656037

def hexVal (c : Char) : Nat :=
  if '0' ≤ c ∧ c ≤ '9' then c.toNat - 48 else if 'a' ≤ c ∧ c ≤ 'f' then c.toNat - 87 else 0

def unhex : List Char → Bytes
  | a :: b :: rest => (16 * hexVal a + hexVal b) :: unhex rest
  | _ => []

def nats (ws : List String) : Option (List Nat) := ws.mapM String.toNat?

/-- `order naxis nknots knots…` per dimension -/
def parseDims : Nat → List Nat → Option ((List Nat × List Nat × List (List Nat)) × List Nat)
  | 0, rest => some (([], [], []), rest)
  | n+1, o :: ax :: nk :: rest =>
    match takeN nk rest with
    | none => none
    | some (ks, rest) =>
      match parseDims n rest with
      | none => none
      | some ((os, axs, kss), rest) => some ((o :: os, ax :: axs, ks :: kss), rest)
  | _, _ => none

def parseTable (ws : List String) : Option Table := do
  -- numeric part up to the extra cards, which are hex
  let nd ← (← ws.head?).toNat?
  let rest := ws.drop 1
  -- find the split: parse numbers greedily
  let numsAll := rest.map String.toNat?
  let nums := (numsAll.takeWhile Option.isSome).filterMap id
  let ((os, axs, kss), r1) ← parseDims nd nums
  let nc ← r1.head?
  let (coefs, r2) ← takeN nc (r1.drop 1)
  let hasE ← r2.head?
  let (ext, r3) ← if hasE = 1 then (takeN (2 * nd) (r2.drop 1)).map (fun (e, r) => (some e, r)) else some (none, r2.drop 1)
  let nx ← r3.head?
  -- the hex cards are the last nx tokens
  let cards := (ws.drop (ws.length - nx)).map (fun w => unhex w.toList)
  some ⟨os, axs, coefs, kss, ext, cards⟩

def defaultExtents (c : Core) : List Nat :=
  (List.range c.orders.length).flatMap fun i =>
    let k := c.knots.getD i []
    let o := c.orders.getD i 0
    [k.getD o 0, k.getD (k.length - o - 1) 0]

def verdict (t : Table) (bs : Bytes) : String :=
  match readBytes bs with
  | none => "rej"
  | some v =>
    if v.core == t.core then
      let ref := match t.extents with | some e => e | none => defaultExtents t.core
      let got := match v.extents with | some e => e | none => defaultExtents v.core
      if ref == got then "eq x1" else "eq x0"
    else "diff"

def toOp (enc : Bytes) (ws : List String) : Option Op :=
  match ws with
  | ["W", off, len, d] => do
    let off ← off.toNat?; let len ← len.toNat?
    some (.pwrite off (if d = "same" then (enc.drop off).take len else unhex d.toList))
  | "T" :: len :: _ => len.toNat?.map .truncate
  | "F" :: _ => some .flush
  | "C" :: _ => some .close
  | _ => none

def stateAt (st : St) (k : Nat) : St :=
  let (k0, s0) := if st.cacheK ≤ k then (st.cacheK, st.cache) else (0, [])
  let s := applyOps s0 ((st.ops.toList.drop k0).take (k - k0))
  { st with cacheK := k, cache := s }

def envOf (ss : List String) : Env := fun i => (ss.getD i "0") == "0"

def showTrace (tr : List (Step × Bool)) : String := ",".intercalate (tr.map (fun p => p.1.name))

def runE (variant : String) (sh : Shape) (env : Env) : String :=
  let fmt (ret : Nat) (tr : List (Step × Bool)) := s!"ret={ret} steps={showTrace tr}"
  let res (r : Result) := fmt (if r.outcome == .success then 0 else 1) r.trace
  let new := match variant with
    | "cpp" => res (writeFits sh env)
    | "c" => let r := cWrapper true (writeFits sh env); fmt r.1 r.2
    | "mem" => res (writeFitsMem sh env)
    | _ => let r := cWrapper true (writeFitsMem sh env); fmt r.1 r.2
  let old := match variant with
    | "cpp" => res (writeFitsOld sh env)
    | "c" => let r := cWrapper true (writeFitsOld sh env); fmt r.1 r.2
    | _ => match writeFitsMemOld sh env with
      | none => "ret=crash steps=imem"
      | some r => res r
  let pre3 := match variant with
    | "cpp" => res (writeFitsPre3 sh env)
    | "c" => let r := cWrapper true (writeFitsPre3 sh env); fmt r.1 r.2
    | "mem" => res (writeFitsMemPre3 sh env)
    | _ => let r := cWrapper true (writeFitsMemPre3 sh env); fmt r.1 r.2
  -- what the run leaves under the file name (disk model of Model/FitsCrash.lean; nothing there before, no operation
  -- log needed: only "a file / no file" is compared with the implementation)
  let disk := match variant with
    | "cpp" | "c" =>
      let d (ra : Bool) := (diskAfter (coreSteps sh) ⟨env, fun _ => [], false, ra⟩ none).isSome
      -- a clean-up call which reports an error may or may not have removed the file
      if d false != d true then "either" else if d false then "present" else "absent"
    | _ => "n/a"
  new ++ " | old " ++ old ++ " | pre3 " ++ pre3 ++ " | disk " ++ disk

/-- `off hex off hex …`: overwrite the bytes at the given offsets -/
def patch (bs : Bytes) : List String → Option Bytes
  | [] => some bs
  | off :: hx :: rest =>
    match off.toNat? with
    | none => none
    | some off =>
      let d := unhex hx.toList
      patch (bs.take off ++ d ++ bs.drop (off + d.length)) rest
  | _ => none

partial def handle (st : St) (ws : List String) : St × String :=
  match ws with
  | "T" :: rest =>
    match parseTable rest with
    | none => (st, "bad-input")
    | some t =>
      let enc := encode t
      let rt := readCoreBytes enc == some t.core
      ({ table := some t, enc := enc, ops := #[], cacheK := 0, cache := [] },
       s!"enc {enc.length} {fnv enc} rt={if rt then 1 else 0} wf={if t.wf then 1 else 0}")
  | "O" :: rest =>
    match toOp st.enc rest with
    | none => (st, "bad-input")
    | some op => ({ st with ops := st.ops.push op }, "op")
  | ["B", _, _, "0"] => (st, "skip")
  | ["P", _, "0"] => (st, "skip")
  | ["B", k, b, "1"] => handle st ["B", k, b]
  | ["P", n, "1"] => handle st ["P", n]
  | ["K", k] =>
    match k.toNat?, st.table with
    | some k, some t => let st := stateAt st k; (st, verdict t st.cache)
    | _, _ => (st, "bad-input")
  | ["B", k, b] =>
    match k.toNat?, b.toNat?, st.table with
    | some k, some b, some t =>
      let st := stateAt st k
      (st, verdict t (crashStep st.cache st.ops[k]? b))
    | _, _, _ => (st, "bad-input")
  | ["P", n] =>
    match n.toNat?, st.table with
    | some n, some t => (st, verdict t (st.enc.take n))
    | _, _ => (st, "bad-input")
  | ["A"] =>
    -- hypotheses of C08_crash_safe on the recorded log: it writes front to back, and its result is the encoding
    let st := stateAt st st.ops.size
    (st, s!"ao={if appendOnly 0 st.ops.toList then 1 else 0} fin={if st.cache == st.enc then 1 else 0}")
  | ["Z", b] =>
    match b.toNat?, st.table with
    | some b, some t => (st, verdict t (st.enc.take (2880 * b) ++ List.replicate 2880 0 ++ st.enc.drop (2880 * (b + 1))))
    | _, _ => (st, "bad-input")
  | "X" :: rest =>
    match st.table, patch st.enc rest with
    | some t, some bs => (st, verdict t bs)
    | _, _ => (st, "bad-input")
  | "E" :: variant :: nd :: hp :: na :: he :: "|" :: ss =>
    match nd.toNat?, na.toNat? with
    | some nd, some na => (st, runE variant ⟨nd, hp == "1", na, he == "1"⟩ (envOf ss))
    | _, _ => (st, "bad-input")
  | ["N"] =>
    let r := cWrapper false (writeFits ⟨1, true, 0, true⟩ (fun _ => true))
    (st, s!"null {r.1} {r.1}")
  | _ => (st, "bad-input")

partial def loop (h out : IO.FS.Stream) (st : St) : IO Unit := do
  let line ← h.getLine
  if line.isEmpty then return ()
  let (st, r) := handle st (words line)
  out.putStrLn r
  loop h out st

def run : IO Unit := do loop (← IO.getStdin) (← IO.getStdout) {}

end PsV.Driver.C08
