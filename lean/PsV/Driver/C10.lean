import PsV.Driver.Eval
import PsV.Driver.C11
import PsV.Model.Monotone
import PsV.Model.KnotScale
/-!
Driver for C10 (monotonic fits).  Same protocol as the evaluation driver (`T`, `V`, … lines are handed to
`PsV.Driver.Eval.step`, which answers a `V d mask …` line with `bits exact-model exact-spec magnitude`), plus

  `M m`  →  `mono=<0/1> s1=<stride1> n=<naxes_m> s2=<stride2> inc=<0/1>`

`mono` is decided by `PsV.monoAlongB` — the hypothesis of `C10_monotone_B` / `C10_surface_monotone_B` — and `inc` by
`PsV.incNonnegB` (every T-spline coordinate `diffAlong` of the table is `≥ 0`: the table is the cumulative sum of a
non-negative vector, `increments_nonneg_iff`) on the exact rational values of the float coefficients of the current table.
A `V d 0 …` line (handled by the evaluation driver) returns the exact value of the spline, which `C10_surface_monotone_B`
says is non-decreasing along `m`.

  `K order porder nk knotbits* hbits nk scaledknotbits*`  →  `pen n thm=<0/1> exact=<0/1> <4·n² double bit patterns>`

the penalty matrix `DᵀD` of one dimension (`n = nk − order − 1` coefficients) as `calc_penalty` must build it, computed exactly
(`Rat`) by `dtd (finiteDiffMono …)` (monotonic branch: `finitediff · tril`) and `dtd (finiteDiff …)` (plain branch) of
Model/KnotScale.lean / Model/FitGlam.lean, for the knots at scale 1 and for the knots the harness handed to the real code on the
rescaled axis — in this order: mono at scale 1, plain at scale 1, mono at scale h, plain at scale h; every entry printed as the
double nearest to the exact value (to 1e-15; the check compares with the doubles of the real `calc_penalty` to 1e-10).
`thm`: the instance of `finiteDiff_knot_scale` on these executed definitions — every entry of `finiteDiff` / `finiteDiffMono` on the
knots `scaleKnots h t` times `h^p` equals the entry on `t`, exactly; `exact`: the scaled knots handed to the code are exactly `h·t`
(true when `h` is a power of two).
-/
namespace PsV.Driver.C10
open PsV PsV.Driver PsV.Driver.Eval

def monoLine (t : RawTable) (m : Nat) : String :=
  let T := t.toRat
  let naxes := T.dims.map Dim.naxes
  match naxes[m]? with
  | none => "bad-input"
  | some n =>
    let s1 := stride1 naxes m
    let s2 := stride2 naxes m
    let ok := monoAlongB (fun (a b : Rat) => decide (a ≤ b)) s1 n s2 (fun p => T.coef (p : Int))
    let inc := incNonnegB (fun (a : Rat) => decide (0 ≤ a)) (· - ·) s1 n s2 (fun p => T.coef (p : Int))
    s!"mono={if ok then 1 else 0} s1={s1} n={n} s2={s2} inc={if inc then 1 else 0}"

def knotFn (a : Array Rat) : Int → Rat := fun i => if i < 0 then 0 else a.getD i.toNat 0

def tabBits (T : Tab2 Rat) : List String :=
  (List.range (T.n * T.m)).map fun k => toString (C11.ratToFloat (T.get (k / T.m) (k % T.m))).toBits

def penLine (order p : Nat) (kb ksb : List UInt64) (hb : UInt64) : String :=
  match kb.mapM ratOfBits, ksb.mapM ratOfBits, ratOfBits hb with
  | some kr, some ksr, some h =>
    let n := kr.length - order - 1
    let t := knotFn kr.toArray
    let ts := knotFn ksr.toArray
    let th := scaleKnots h t
    let Dp := finiteDiff t order p n
    let Dm := finiteDiffMono t order p n
    let Dph := finiteDiff th order p n
    let Dmh := finiteDiffMono th order p n
    let hp := powN h p
    let thm := (List.range ((n - p) * n)).all fun k =>
      let r := k / n; let c := k % n
      Dph.get r c * hp == Dp.get r c && Dmh.get r c * hp == Dm.get r c
    let exact := kr.length == ksr.length && (List.range kr.length).all fun i => ts i == th i
    let mats := [dtd Dm, dtd Dp, dtd (finiteDiffMono ts order p n), dtd (finiteDiff ts order p n)]
    s!"pen {n} thm={if thm then 1 else 0} exact={if exact then 1 else 0} " ++ " ".intercalate (mats.flatMap tabBits)
  | _, _, _ => "bad-input"

def penParse (ws : List String) : String :=
  match ws with
  | o :: p :: nk :: rest =>
    match o.toNat?, p.toNat?, nk.toNat? with
    | some o, some p, some nk =>
      match takeN nk rest with
      | some (ks, hb :: nk2 :: rest2) =>
        match bitsList ks, hb.toNat?, nk2.toNat? with
        | some kb, some hb, some nk2 =>
          match takeN nk2 rest2 with
          | some (ks2, []) =>
            match bitsList ks2 with
            | some ksb => if nk < o + 2 + p then "bad-input" else penLine o p kb ksb hb.toUInt64
            | none => "bad-input"
          | _ => "bad-input"
        | _, _, _ => "bad-input"
      | _ => "bad-input"
    | _, _, _ => "bad-input"
  | _ => "bad-input"

partial def loop (h out : IO.FS.Stream) (st : Eval.DState) : IO Unit := do
  let line ← h.getLine
  if line.isEmpty then return ()
  let ws := words line
  match ws with
  | ["M", m] =>
    out.putStrLn (match m.toNat? with | some m => monoLine st.raw m | none => "bad-input")
    loop h out st
  | "K" :: rest =>
    out.putStrLn (penParse rest)
    loop h out st
  | _ =>
    let (st', o) := Eval.step st ws
    out.putStrLn o
    loop h out st'

def run : IO Unit := do loop (← IO.getStdin) (← IO.getStdout) default

end PsV.Driver.C10
