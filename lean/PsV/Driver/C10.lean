import PsV.Driver.Eval
import PsV.Model.Monotone
/-!
Driver for C10 (monotonic fits).  Same protocol as the evaluation driver (`T`, `V`, … lines are handed to
`PsV.Driver.Eval.step`, which answers a `V d mask …` line with `bits exact-model exact-spec magnitude`), plus

  `M m`  →  `mono=<0/1> s1=<stride1> n=<naxes_m> s2=<stride2> inc=<0/1>`

`mono` is decided by `PsV.monoAlongB` — the hypothesis of `C10_monotone_B` / `C10_surface_monotone_B` — and `inc` by
`PsV.incNonnegB` (every T-spline coordinate `diffAlong` of the table is `≥ 0`: the table is the cumulative sum of a
non-negative vector, `increments_nonneg_iff`) on the exact rational values of the float coefficients of the current table.
A `V d 0 …` line (handled by the evaluation driver) returns the exact value of the spline, which `C10_surface_monotone_B`
says is non-decreasing along `m`.
-/
namespace PsV.Driver.C10
open PsV PsV.Driver PsV.Driver.Eval

def monoLine (t : RawTable) (m : Nat) : String :=
  let T := t.toRat
  let naxes := T.dims.map Dim.naxes
  match naxes[m]? with
  | none => "bad-input"
  | some n =>
    let s1 := stride1 naxes m
    let s2 := stride2 naxes m
    let ok := monoAlongB (fun (a b : Rat) => decide (a ≤ b)) s1 n s2 (fun p => T.coef (p : Int))
    let inc := incNonnegB (fun (a : Rat) => decide (0 ≤ a)) (· - ·) s1 n s2 (fun p => T.coef (p : Int))
    s!"mono={if ok then 1 else 0} s1={s1} n={n} s2={s2} inc={if inc then 1 else 0}"

partial def loop (h out : IO.FS.Stream) (st : Eval.DState) : IO Unit := do
  let line ← h.getLine
  if line.isEmpty then return ()
  let ws := words line
  match ws with
  | ["M", m] =>
    out.putStrLn (match m.toNat? with | some m => monoLine st.raw m | none => "bad-input")
    loop h out st
  | _ =>
    let (st', o) := Eval.step st ws
    out.putStrLn o
    loop h out st'

def run : IO Unit := do loop (← IO.getStdin) (← IO.getStdout) default

end PsV.Driver.C10
