import PsV.Model.FitEntry
import PsV.Driver.Common
/-! Driver for the C13 correspondence: parses a case line of harness/fit_harness.cpp, runs `PsV.Fit.fitEntry repaired head`
    (the whole member function: occupied-table check, sanity block, width-aware index arithmetic, storage guard) and
    `PsV.Fit.cGlamfitEntry repaired head`, and prints the verdict in the harness' vocabulary:
    `<verdict on an empty table> pop=<verdict on a populated table> gf=<table after a GLAM failure> nowrap=<NoWrapB>
     ud=<UnderdeterminedB> c=<C return> cnull=..`. -/
namespace PsV.Driver.C13
open PsV.Fit PsV.Driver

/-- order-isomorphic key of a double given by its bit pattern; `none` = NaN -/
def keyOfBits (u : Nat) : Option Int :=
  let mag : Nat := u % 2^63
  if mag > 0x7ff0000000000000 then none
  else if u / 2^63 % 2 == 1 then some (-(mag : Int)) else some (mag : Int)

def nonZeroBits (u : Nat) : Bool := u % 2^63 != 0

def nats (l : List String) : Option (List Nat) := l.mapM String.toNat?

def takeNats (n : Nat) (l : List String) : Option (List Nat × List String) := do
  let (a, rest) ← takeN n l
  pure (← nats a, rest)

/-- `count (len v[len])*count` -/
def takeVecs : Nat → List String → Option (List (List Nat) × List String)
  | 0, rest => some ([], rest)
  | n+1, l :: rest => do
    let (v, rest) ← takeNats (← l.toNat?) rest
    let (vs, rest) ← takeVecs n rest
    pure (v :: vs, rest)
  | _, _ => none

def takeCols : Nat → Nat → List String → Option (List (List Nat) × List String)
  | 0, _, rest => some ([], rest)
  | n+1, rows, rest => do
    let (v, rest) ← takeNats rows rest
    let (vs, rest) ← takeCols n rows rest
    pure (v :: vs, rest)

def parse (ws : List String) : Option Args := do
  match ws with
  | "F" :: nd :: rows :: rest =>
    let nd ← nd.toNat?
    let rows ← rows.toNat?
    let (ranges, rest) ← takeNats nd rest
    let (idx, rest) ← takeCols nd rows rest
    let (_, rest) ← takeN rows rest
    match rest with
    | nw :: rest =>
      let nw ← nw.toNat?
      let (_, rest) ← takeN nw rest
      match rest with
      | nc :: rest =>
        let (coords, rest) ← takeVecs (← nc.toNat?) rest
        match rest with
        | no :: rest =>
          let (orders, rest) ← takeNats (← no.toNat?) rest
          match rest with
          | nk :: rest =>
            let (knots, rest) ← takeVecs (← nk.toNat?) rest
            match rest with
            | ns :: rest =>
              let (smooth, rest) ← takeNats (← ns.toNat?) rest
              match rest with
              | np :: rest =>
                let (pen, rest) ← takeNats (← np.toNat?) rest
                match rest with
                | md :: _ =>
                  pure { data := ⟨rows, nd, ranges, idx⟩, nweights := nw, coordLens := coords.map List.length,
                         orders := orders, knots := knots.map (·.map keyOfBits), smoothNZ := smooth.map nonZeroBits,
                         penalty := pen, monodim := ← md.toNat? }
                | _ => none
              | _ => none
            | _ => none
          | _ => none
        | _ => none
      | _ => none
    | _ => none
  | _ => none

def errStr : Err → String
  | .weights => "weights" | .noDims => "noDims" | .noData => "noData" | .indexRange d => s!"indexRange {d}"
  | .ncoords => "ncoords" | .coordLen d => s!"coordLen {d}" | .norders => "norders" | .nknotvecs => "nknotvecs"
  | .unsorted d => s!"unsorted {d}" | .fewKnots d => s!"fewKnots {d}" | .nsmooth => "nsmooth"
  | .npenalty => "npenalty" | .penaltyOrder d => s!"penaltyOrder {d}" | .monodim => "monodim" | .glam => "glam"

def keyStr : Option Int → String
  | none => "nan"
  | some k => toString k

def shapeStr (s : Shape) : String :=
  let dims := (List.range s.ndim).map fun i =>
    let e := s.extents.getD i (none, none)
    s!"{s.orders.getD i 0} {s.nknots.getD i 0} {s.naxes.getD i 0} {s.strides.getD i 0} {keyStr e.1} {keyStr e.2}"
  s!"{s.ndim} " ++ " ".intercalate dims

/-- the C caller's arrays are the C++ containers; the wrapper is applicable when its views reproduce the arguments -/
def cOf (a : Args) : CArgs := ⟨a.data, a.orders, a.knots, a.smoothNZ, a.penalty, a.monodim⟩

/-- the populated table the harness uses for its second call (1-d, order 1, knots 0..3, two coefficients) -/
def popShape : Shape := ⟨1, [1], [4], [2], [1], [(some 0, some 0)]⟩

def b01 (b : Bool) : String := if b then "1" else "0"

def handle (ws : List String) : String :=
  match parse ws with
  | none => "bad-input"
  | some a =>
    let cpart :=
      -- the C caller's buffers must really hold `ndim` entries each (the views are cut to that length unseen)
      let nd := a.data.ndim
      if a.orders.length == nd && a.knots.length == nd && a.smoothNZ.length == nd && a.penalty.length == nd
          && (cOf a).view == a then
        let r := cGlamfitEntry repaired head false false (cOf a) .done none
        let n1 := (cGlamfitEntry repaired head true false (cOf a) .done none).1
        let n2 := (cGlamfitEntry repaired head false true (cOf a) .done none).1
        let rg := cGlamfitEntry repaired head false false (cOf a) .glamFailed none
        s!" c={r.1} cgf={rg.1}{if rg.2.isNone then "e" else "b"} cnull={n1}{n2}"
      else " c=na"
    -- the same call on a populated table
    let pop := match fitEntry repaired head a .done (some popShape) with
      | (.occupied, some s) => if s == popShape then "occupied" else "occupied-CHANGED"
      | (.arg e, some s) => (if s == popShape then "reject:" else "reject-CHANGED:") ++ (errStr e).replace " " "_"
      | (.ok, _) => "ok"
      | _ => "other"
    -- … and on an empty one when glamfit_complex fails
    let gf := match fitEntry repaired head a .glamFailed none with
      | (.glam, none) => "empty"
      | (.glam, some _) => "built"
      | _ => "na"
    let extra := s!" pop={pop} gf={gf} nowrap={b01 (NoWrapB a)} ud={b01 (UnderdeterminedB a)}"
    match fitEntry repaired head a .done none with
    | (.ok, some s) => "ok shape " ++ shapeStr s ++ extra ++ cpart
    | (.arg e, none) => "reject " ++ errStr e ++ extra ++ cpart
    | (.fault f, _) => "fault " ++ (reprStr f).replace " " "_" ++ extra ++ cpart
    | _ => "model-inconsistent"

end PsV.Driver.C13
