import PsV.Model.Permute
import PsV.Driver.Common
/-!
Driver for C15: runs `PsV.Permute.permuteDimensions` / `splinetablePermute` on the table and
argument of each line and prints outcome and table in the harness's dump format.

Line:  `P|Q|C ndim order* naxes* strides* nknots* (L bits{L})* (lo hi)* hasperiods periods* ncoef coef* # n arg{n}`
Reply: `<outcome> <dump>` with outcome ∈ none, wrongNumber, tooLarge, duplicate, missing (C++ call) or `rc0`/`rc1` (C wrapper).
Knot arrays, doubles and coefficients are opaque bit patterns (`Nat`): the routine only moves them.
-/
namespace PsV.Driver.C15
open PsV.Permute PsV.Driver

abbrev Tbl := PTable (List Nat) Nat Nat

def takeNats (n : Nat) (ws : List String) : Option (List Nat × List String) := do
  let (a, rest) ← takeN n ws
  let v ← a.mapM String.toNat?
  pure (v, rest)

def takeKnots : Nat → List String → Option (List (List Nat) × List String)
  | 0, ws => some ([], ws)
  | n+1, l :: ws => do
    let len ← l.toNat?
    let (k, rest) ← takeNats len ws
    let (ks, rest) ← takeKnots n rest
    pure (k :: ks, rest)
  | _, _ => none

def pairs : List Nat → List (Nat × Nat)
  | a :: b :: r => (a, b) :: pairs r
  | _ => []

def parseTable (ws : List String) : Option (Tbl × List String) := do
  match ws with
  | nd :: rest =>
    let ndim ← nd.toNat?
    let (order, rest) ← takeNats ndim rest
    let (naxes, rest) ← takeNats ndim rest
    let (strides, rest) ← takeNats ndim rest
    let (nknots, rest) ← takeNats ndim rest
    let (knots, rest) ← takeKnots ndim rest
    let (ext, rest) ← takeNats (2*ndim) rest
    match rest with
    | hp :: rest =>
      let (periods, rest) ← (if hp == "1" then (takeNats ndim rest).map fun (p, r) => (some p, r) else some (none, rest))
      match rest with
      | nc :: rest =>
        let ncoef ← nc.toNat?
        let (coef, rest) ← takeNats ncoef rest
        pure (⟨ndim, order, naxes, strides, nknots, knots, pairs ext, periods, coef⟩, rest)
      | [] => none
    | [] => none
  | [] => none

def dump (t : Tbl) : String :=
  let knots := t.knots.map fun k => toString k.length ++ (if k.isEmpty then "" else " " ++ joinNat k)
  let ext := t.extents.map fun (a, b) => s!"{a} {b}"
  let per := match t.periods with
    | some p => "1" ++ (if p.isEmpty then "" else " " ++ joinNat p)
    | none => "0"
  " ".intercalate ([toString t.ndim, joinNat t.order, joinNat t.naxes, joinNat t.strides, joinNat t.nknots]
    ++ knots ++ ext ++ [per, toString t.coef.length] ++ (if t.coef.isEmpty then [] else [joinNat t.coef]))

def errName : Option PermErr → String
  | none => "none"
  | some .wrongNumber => "wrongNumber"
  | some .tooLarge => "tooLarge"
  | some .duplicate => "duplicate"
  | some .missing => "missing"

/-- marker that must not survive in any coefficient slot -/
def junk : Nat := 0xdeadbeef00

def handle (ws : List String) : String :=
  match ws with
  | kind :: rest =>
    match parseTable rest with
    | some (t, "#" :: n :: args) =>
      match n.toNat?, args.mapM String.toNat? with
      | some n, some a =>
        if a.length ≠ n then "bad-input" else
        if kind == "C" then
          let (t', rc) := splinetablePermute junk t a
          s!"rc{rc} {dump t'}"
        else
          let (t', e) := permuteDimensions junk t a
          s!"{errName e} {dump t'}"
      | _, _ => "bad-input"
    | _ => "bad-input"
  | [] => "bad-input"

end PsV.Driver.C15
