import PsV.Model.Search
import PsV.Driver.Common
/-! Driver for C04/C05 lookup correspondence: runs `PsV.searchCenters` on integer keys. -/
namespace PsV.Driver.C04
open PsV PsV.Driver

/-- parse `order nknots key*nknots` repeated ndim times, then ndim coordinate tokens -/
def parseAxes : Nat → List String → Option (List (Axis (Option Int)) × List String)
  | 0, rest => some ([], rest)
  | n+1, o :: nk :: rest => do
    let order ← o.toNat?
    let nknots ← nk.toNat?
    let (ks, rest) ← takeN nknots rest
    let arr : Array (Option Int) := (ks.map key?).toArray
    let (as, rest) ← parseAxes n rest
    pure (⟨order, nknots, fun i => (arr[i]?).getD none⟩ :: as, rest)
  | _, _ => none

def handle (ws : List String) : String :=
  match ws with
  | nd :: rest =>
    match nd.toNat? with
    | none => "bad-input"
    | some ndim =>
      match parseAxes ndim rest with
      | none => "bad-input"
      | some (axes, xs) =>
        if xs.length ≠ ndim then "bad-input" else
        match searchCenters axes (xs.map key?) with
        | .reject => "reject"
        | .nonterm => "nonterm"
        | .ok cs => "ok " ++ joinNat cs
  | [] => "bad-input"

end PsV.Driver.C04
