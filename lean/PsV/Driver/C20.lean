import PsV.Model.Lifecycle
import PsV.Driver.Common
/-! Driver for C20: replays operation histories on `PsV.Lifecycle.step c` and prints, per operation,
    result / allocator events / abstract state of every slot / ledger totals.  `c` is `Cfg.head` (the
    library as it is in /repo) unless the input starts with the line `CFG repaired` (a tree which also has
    the proposed fixes C20-13 … C20-15). -/
namespace PsV.Driver.C20
open PsV.Lifecycle PsV.Driver

def nats (ws : List String) : Option (List Nat) := ws.mapM (·.toNat?)

def takeDims : Nat → List Nat → Option (List Dim × List Nat)
  | 0, r => some ([], r)
  | n+1, o :: k :: a :: r => do let (ds, r) ← takeDims n r; pure (⟨o, k, a⟩ :: ds, r)
  | _, _ => none

def takeFitDims : Nat → List Nat → Option (List Dim × List Nat)
  | 0, r => some ([], r)
  | n+1, o :: k :: r => do let (ds, r) ← takeFitDims n r; pure (⟨o, k, k - o - 1⟩ :: ds, r)
  | _, _ => none

def takeAux : Nat → List Nat → Option (List AuxIn × List Nat)
  | 0, r => some ([], r)
  | n+1, i :: k :: raw :: st :: r => do let (as, r) ← takeAux n r; pure (⟨i, k, raw, st⟩ :: as, r)
  | _, _ => none

def parseFile : List Nat → Option FileDesc
  | kind :: arg :: nd :: r => do
    let (dims, r) ← takeDims nd r
    match r with
    | hk :: na :: r => do
      let (aux, _) ← takeAux na r
      pure ⟨kind, arg, dims, hk != 0, aux⟩
    | _ => none
  | _ => none

def parseOp (tag : String) (a : List Nat) : Option Op :=
  match tag, a with
  | "C", [i] => some (.construct i)
  | "F", i :: r => (parseFile r).map (.constructFile i)
  | "R", i :: r => (parseFile r).map (.read i)
  | "M", i :: r => (parseFile r).map (.read i)
  | "T", i :: v :: g :: nd :: r => (takeFitDims nd r).map fun (d, _) => .fit i ⟨v != 0, g != 0, d⟩
  | "W", [i, kind, id, k, v] => some (.writeKey i ⟨kind, id, k, v⟩)
  | "K", [i, id] => some (.removeKey i id)
  | "G", [i, id] => some (.getKey i id)
  | "V", [i, dim, nk] => some (.convolve i dim nk)
  | "P", i :: _ :: p => some (.permute i p)
  | "X", [i, j] => some (.moveConstruct i j)
  | "A", [i, j] => some (.moveAssign i j)
  | "E", [i, j] => some (.compare i j)
  | "O", [i, ok] => some (.writeFits i (ok != 0))
  | "Q", [i, ok] => some (.writeFits i (ok != 0))
  | "D", [i] => some (.destroy i)
  | "Y", i :: order :: _ :: srcs => some (.stack i srcs order)
  | _, _ => none

def showEvs (evs : List Ev) : String :=
  if evs.isEmpty then "-" else " ".intercalate (evs.map fun | .a n => s!"a{n}" | .d n => s!"d{n}")

def showRes : Res → String
  | .ok => "ok" | .tt => "tt" | .ff => "ff" | .threw => "threw" | .crash => "crash"

def b (x : Bool) : String := if x then "1" else "0"

def showTab : Option Tab → String
  | none => "-"
  | some t => s!"{t.ndim},{t.aux.length},{if t.core then "y" else "n"},{b t.periods},{b t.auxArr},{b (t.core && !t.noExtents)}"

def showState (w : World) (nslots : Nat) : String :=
  " ".intercalate ((List.range nslots).map fun i => showTab (w.get i))

def totals (w : World) : String :=
  let ls := (w.objs.filterMap id).map (fun t => (t.ledger, t.bad)) ++ w.retired
  let blocks := (ls.map (·.1.length)).foldl (· + ·) 0
  let bytes := (ls.map (·.1.foldl (· + ·) 0)).foldl (· + ·) 0
  let bad := (ls.map (·.2)).foldl (· + ·) 0
  s!"{blocks} {bytes} {bad}"

def nslots : Nat := 3

/-- self-check printed with every line: the invariant proved for the configuration that is run
    (`C20_ownership_inv` … for `Cfg.repaired`, `C20_head_invX` for `Cfg.head`) -/
def selfCheck (c : Cfg) (w : World) : Bool := if c.stackExtents then w.okB else w.okXB

partial def loop (h out : IO.FS.Stream) (c : Cfg) (w : World) : IO Unit := do
  let line ← h.getLine
  if line.isEmpty then return ()
  match words line with
  | ["CFG", name] =>
    out.putStrLn "CFG"
    loop h out (if name = "repaired" then Cfg.repaired else if name = "asIs" then Cfg.asIs else Cfg.head) w
  | "S" :: _ :: f :: _ =>
    let fail := f.toNat?.getD 0
    out.putStrLn "S"
    loop h out c (World.init (if fail = 0 then none else some (fail - 1)))
  | ["Z"] =>
    let ops := (List.range nslots).map Op.destroy
    let evs := (ops.foldl (fun (acc : World × List Ev) op => let r := step c acc.1 op; (r.w, acc.2 ++ r.evs)) (w, [])).2
    let w' := destroyAll c { w with objs := w.objs ++ List.replicate (nslots - w.objs.length) none }
    out.putStrLn s!"ok | {showEvs evs} | {showState w' nslots} | {totals w'} | {b (selfCheck c w')}"
    loop h out c w'
  | tag :: rest =>
    match (nats rest).bind (parseOp tag) with
    | none => out.putStrLn "bad-input"; loop h out c w
    | some op =>
      let r := step c w op
      out.putStrLn s!"{if r.done then showRes r.res else "skip"} | {showEvs r.evs} | {showState r.w nslots} | {totals r.w} | {b (selfCheck c r.w)}"
      loop h out c r.w
  | [] => out.putStrLn "bad-input"; loop h out c w

def run : IO Unit := do
  loop (← IO.getStdin) (← IO.getStdout) Cfg.head (World.init none)

end PsV.Driver.C20
