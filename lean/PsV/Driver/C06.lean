import PsV.Model.Fits
import PsV.Model.FitsCodec
import PsV.Model.FitsRead
import PsV.Model.FitsLayout
import PsV.Driver.Common
/-!
Driver for the C06 / C07 correspondences.  One output line per input line.

```
T <id> <table>            remember the table                          → T <id> ok
B <id> <hex>              bytes the real writer produced for table id → A <id> <decoded> <store-equal> <bytes-equal> <layout-equal>
                          (layout-equal: the independent layout specification `Layout.layoutBytes` gives the same bytes)
V <id> <single> <mode>    encode a variant of table id                → V <id> <hex> | <model read-back dump>
F <name> <hex>            any bytes: decode + readCore (code as is)   → F <name> undecodable | unmodelled | err <site> | ok <dump>
R <name> <hex>            any bytes: decode + repaired reader         → R <name> undecodable | unmodelled | err <site> <cleanup> old=<verdict of the unrepaired reader> | ok <wf> old=.. | <dump>
P                         → the reserved-prefix table of the model
```
Table syntax: `nd order*nd naxes*nd strides*nd (nk knot*nk)*nd ncoef coef* hasExt ext* hasPer per* naux (hkey hval)*`
(all numbers decimal, doubles/floats as bit patterns, strings as `h`+hex).
-/
namespace PsV.Driver.C06
open PsV PsV.Driver PsV.Fits

def hexVal (c : Char) : Option Nat :=
  if '0' ≤ c ∧ c ≤ '9' then some (c.toNat - 48)
  else if 'a' ≤ c ∧ c ≤ 'f' then some (c.toNat - 87)
  else none

partial def unhexAux (cs : List Char) (acc : Array UInt8) : Option (Array UInt8) :=
  match cs with
  | [] => some acc
  | a :: b :: r => do
    let x ← hexVal a; let y ← hexVal b
    unhexAux r (acc.push (UInt8.ofNat (16 * x + y)))
  | _ => none

def unhex (s : String) : Option Bytes := (unhexAux s.toList #[]).map (·.toList)

def hexDigit (n : Nat) : Char := if n < 10 then Char.ofNat (48 + n) else Char.ofNat (87 + n)

def hex (b : Bytes) : String :=
  String.ofList (b.foldr (fun x acc => hexDigit (x.toNat / 16) :: hexDigit (x.toNat % 16) :: acc) [])

def strTok (s : Str) : String := "h" ++ hex (s.map byt)
def tokStr (t : String) : Option Str :=
  match t.toList with
  | 'h' :: r => (unhex (String.ofList r)).map (·.map chr)
  | _ => none

/-! native instances of the external operations -/

def fmtD (b : UInt64) : Str :=
  let x := Float.ofBits b
  let neg := x < 0
  let a := if neg then -x else x
  let k := (a * 4).toUInt64.toNat
  if (k.toFloat / 4 == a) && k < 4000000000 then
    let frac := match k % 4 with | 0 => "" | 1 => "25" | 2 => "5" | _ => "75"
    ((if neg then "-" else "") ++ toString (k / 4) ++ "." ++ frac).toList
  else "?".toList

def parseD (s : Str) : Option UInt64 :=
  let (neg, r) := match s with | '-' :: r => (true, r) | '+' :: r => (false, r) | _ => (false, s)
  let ip := r.takeWhile Char.isDigit
  let rest := r.dropWhile Char.isDigit
  let fp := match rest with | '.' :: q => some q | [] => some [] | _ => none
  match fp with
  | none => none
  | some fp =>
    if ¬ fp.all Char.isDigit ∨ (ip = [] ∧ fp = []) ∨ ip.length + fp.length > 15 then none else
    match parseNat (ip ++ fp) with
    | none => none
    | some m =>
      let x := Float.ofScientific m true fp.length
      some (if neg then (-x).toBits else x.toBits)

/-- `(float) d` as SSE does it; NaN handled on the bits (sign kept, quiet bit set, payload truncated) because
    `Float32.toBits` canonicalises NaNs -/
def d2f (b : UInt64) : UInt32 :=
  let n := b.toNat
  if n / 4503599627370496 % 2048 = 2047 ∧ n % 4503599627370496 ≠ 0 then
    UInt32.ofNat ((n / 9223372036854775808) * 2147483648 + 2143289344 + (n % 2251799813685248) / 536870912)
  else (Float.ofBits b).toFloat32.toBits

def f2d (b : UInt32) : UInt64 :=
  let n := b.toNat
  if n / 8388608 % 256 = 255 ∧ n % 8388608 ≠ 0 then
    UInt64.ofNat ((n / 2147483648) * 9223372036854775808 + 9221120237041090560 + (n % 4194304) * 536870912)
  else (Float32.ofBits b).toFloat.toBits

def ext : Ext := ⟨fmtD, parseD, d2f, f2d⟩

/-- Raw header text inside the scope of the card parser model: printable ASCII, and a card either is commentary,
    or has the standard value indicator `= ` in columns 9-10, or contains no `=` at all (cfitsio 4 also takes
    `KEY     =value` and, for a card without the indicator, the text after the first `=` anywhere as the value;
    the model's `parseCard` follows the standard).  Files outside are reported as `unmodelled`. -/
def rawCardOK (s : Str) : Bool :=
  s.all (fun c => 32 ≤ c.toNat && c.toNat ≤ 126)
  && (isCommentary (trimRight (s.take 8)) || (s.drop 8).take 2 == ['=', ' '] || !(s.drop 8).contains '=')

partial def rawOK (p : Bool) (b : Bytes) : Bool :=
  if b.isEmpty then true else
  match splitHeader (b.length / 80 + 1) 0 b, decodeHdu p b with
  | some (raw, _), some (_, rest) => raw.all rawCardOK && rawOK false rest
  | _, _ => true

/-! parsing / printing tables -/

def nats (ws : List String) : Option (List Nat) := ws.mapM String.toNat?

def takeNats (n : Nat) (ws : List String) : Option (List Nat × List String) := do
  let (a, r) ← takeN n ws
  let a ← nats a
  pure (a, r)

def takeKnots : Nat → List String → Option (List (List UInt64) × List String)
  | 0, ws => some ([], ws)
  | n+1, nk :: ws => do
    let nk ← nk.toNat?
    let (k, r) ← takeNats nk ws
    let (ks, r) ← takeKnots n r
    pure (k.map UInt64.ofNat :: ks, r)
  | _, _ => none

def takeAuxs : Nat → List String → Option (List (Str × Str) × List String)
  | 0, ws => some ([], ws)
  | n+1, k :: v :: ws => do
    let k ← tokStr k; let v ← tokStr v
    let (r, ws) ← takeAuxs n ws
    pure ((k, v) :: r, ws)
  | _, _ => none

def parseTable (ws : List String) : Option Table :=
  match ws with
  | nd :: ws => do
    let nd ← nd.toNat?
    let (order, ws) ← takeNats nd ws
    let (naxes, ws) ← takeNats nd ws
    let (strides, ws) ← takeNats nd ws
    let (knots, ws) ← takeKnots nd ws
    match ws with
    | nc :: ws =>
      let nc ← nc.toNat?
      let (coef, ws) ← takeNats nc ws
      match ws with
      | he :: ws =>
        let he ← he.toNat?
        let (e, ws) ← takeNats (if he = 1 then 2 * nd else 0) ws
        match ws with
        | hp :: ws =>
          let hp ← hp.toNat?
          let (p, ws) ← takeNats (if hp = 1 then nd else 0) ws
          match ws with
          | na :: ws =>
            let na ← na.toNat?
            let (aux, _) ← takeAuxs na ws
            pure ⟨order, knots, naxes, strides, coef.map UInt32.ofNat,
                  if he = 1 then some (e.map UInt64.ofNat) else none,
                  if hp = 1 then some (p.map UInt64.ofNat) else none, aux⟩
          | _ => none
        | _ => none
      | _ => none
    | _ => none
  | _ => none

def dumpTable (t : Table) : String :=
  let n (l : List Nat) := l.map toString
  let toks : List String :=
    [toString t.ndim] ++ n t.order ++ n t.naxes ++ n t.strides
    ++ t.knots.flatMap (fun k => toString k.length :: k.map (toString ·.toNat))
    ++ [toString t.coef.length] ++ t.coef.map (toString ·.toNat)
    ++ (match t.extents with | none => ["0"] | some e => "1" :: e.map (toString ·.toNat))
    ++ (match t.periods with | none => ["0"] | some e => "1" :: e.map (toString ·.toNat))
    ++ [toString t.aux.length] ++ t.aux.flatMap (fun kv => [strTok kv.1, strTok kv.2])
  " ".intercalate toks

def errName : RErr → String
  | .noHdu => "noHdu" | .badDim => "badDim" | .order i => s!"order:{i}" | .readPix => "readPix"
  | .knotSize i => s!"knotSize:{i}" | .knotCount i => s!"knotCount:{i}" | .knotData i => s!"knotData:{i}"
  | .extData => "extData" | .invalid i w => s!"invalid:{i}:{w}"

def showRead (r : Except RErr Table) : String :=
  match r with
  | .error e => "err " ++ errName e
  | .ok t => "ok " ++ dumpTable t

/-- the variants an independent / older writer produces: single ORDER key, no PERIODn, no EXTENTS -/
def variant (t : Table) (single : Bool) (mode : Nat) : Fits :=
  let t := if mode % 2 = 1 then { t with extents := none } else t
  let t := if mode / 2 % 2 = 1 then { t with periods := none } else t
  writeGen ext single t

def handle (tabs : Option Table) (ws : List String) : Option Table × String :=
  match ws with
  | "T" :: id :: rest =>
    match parseTable rest with
    | some t => (some t, s!"T {id} ok")
    | none => (tabs, s!"T {id} bad-input")
  | ["B", id, hx] =>
    match tabs, unhex hx with
    | some t, some b =>
      let model := writeCore ext t
      let dec := decodeFits b
      let se := decide (dec = some model)
      let be := decide (encodeFits model = b)
      let le := decide (Layout.layoutBytes ext t = b)
      (tabs, s!"A {id} {if dec.isSome then 1 else 0} {if se then 1 else 0} {if be then 1 else 0} {if le then 1 else 0}")
    | _, _ => (tabs, s!"A {id} bad-input")
  | ["V", id, single, mode] =>
    match tabs, single.toNat?, mode.toNat? with
    | some t, some s, some m =>
      let f := variant t (s = 1) m
      (tabs, s!"V {id} {hex (encodeFits f)} | {showRead (readFixed ext f)}")
    | _, _, _ => (tabs, s!"V {id} bad-input")
  | ["F", name, hx] =>
    match unhex hx with
    | none => (tabs, s!"F {name} bad-input")
    | some b =>
      match decodeFits b with
      | none => (tabs, s!"F {name} undecodable")
      | some f => if ¬ (modelledE ext f && rawOK true b) then (tabs, s!"F {name} unmodelled") else (tabs, s!"F {name} {showRead (readFixed ext f)}")
  | ["R", name, hx] =>
    match unhex hx with
    | none => (tabs, s!"R {name} bad-input")
    | some b =>
      match decodeFits b with
      | none => (tabs, s!"R {name} undecodable")
      | some f =>
        if ¬ (modelledE ext f && rawOK true b) then (tabs, s!"R {name} unmodelled") else
        let old := match readCore ext f with | .error e => "err:" ++ errName e | .ok t => if decide t.WF then "ok:wf" else "ok:NOT-WF"
        match readFixed ext f with
        | .error e =>
          let st := stateAt true (f.headD default).axes.length (stopOf e)
          let cl := match cleanup st with | .ok o => if o = Obj.empty then "clean" else "LEAK" | .error _ => "FAULT"
          (tabs, s!"R {name} err {errName e} {cl} old={old}")
        | .ok t => (tabs, s!"R {name} ok {if decide t.WF then 1 else 0} old={old} | {dumpTable t}")
  | ["P"] => (tabs, "P " ++ " ".intercalate reservedPrefixes)
  | _ => (tabs, "bad-input")

partial def loop (h out : IO.FS.Stream) (tabs : Option Table) : IO Unit := do
  let line ← h.getLine
  if line.isEmpty then return ()
  let (tabs, r) := handle tabs (words line)
  out.putStrLn r
  loop h out tabs

def run : IO Unit := do
  loop (← IO.getStdin) (← IO.getStdout) none

end PsV.Driver.C06
