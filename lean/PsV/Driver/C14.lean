import PsV.Spec.Convolve
import PsV.Driver.Eval
/-!
Driver for C14 (convolution).

Input lines
  `F n`                 → `factorialC n`
  `C ndim dim n ckbits{n} (order nknots extlo exthi knotbits{nknots}){ndim} ncoef coefbits32{ncoef} npts xbits{ndim*npts}`
Output for `C` (sections separated by ` | `):
  `dims (order nknots naxes stride){ndim}` | `kn knotbits…` | `ext (lo hi){ndim}` | `bl blossom-bits{nNew*nOld}` |
  `co coefbits32…` | `pt (spec S exactModelValue){npts}` | `area kernelArea`
The first five sections are the F32-carrier model (double working precision, float coefficient storage), to be
compared bit for bit with the C++; `pt`: exact `specConv`, magnitude sum (spec with |coef|), and the exact value
(`specEval`) of the table produced by the model at `Rat`.
-/
namespace PsV.Driver.C14
open PsV PsV.Driver PsV.Driver.Eval

structure RawCDim where
  order : Nat
  nknots : Nat
  extLo : UInt64
  extHi : UInt64
  knots : List UInt64

structure RawCase where
  dim : Nat
  ck : List UInt64
  dims : List RawCDim
  coef : Array UInt32
  pts : List (List UInt64)

def toNats (l : List String) : Option (List Nat) := l.mapM String.toNat?

def parseCDims : Nat → List Nat → Option (List RawCDim × List Nat)
  | 0, rest => some ([], rest)
  | n+1, o :: nk :: lo :: hi :: rest => do
    let (ks, rest) ← takeN nk rest
    let (ds, rest) ← parseCDims n rest
    pure (⟨o, nk, lo.toUInt64, hi.toUInt64, ks.map (·.toUInt64)⟩ :: ds, rest)
  | _, _ => none

def chunks {β} : Nat → Nat → List β → List (List β)
  | 0, _, _ => []
  | n+1, w, l => l.take w :: chunks n w (l.drop w)

def parseCase (ws : List Nat) : Option RawCase := do
  match ws with
  | ndim :: dim :: n :: rest =>
    let (ck, rest) ← takeN n rest
    let (dims, rest) ← parseCDims ndim rest
    match rest with
    | nc :: rest =>
      let (cs, rest) ← takeN nc rest
      match rest with
      | npts :: xs =>
        if xs.length ≠ ndim * npts then none else
        pure ⟨dim, ck.map (·.toUInt64), dims, (cs.map (·.toUInt32)).toArray, chunks npts ndim (xs.map (·.toUInt64))⟩
      | [] => none
    | [] => none
  | _ => none

def naxesOf (d : RawCDim) : Nat := d.nknots - d.order - 1

def stridesOf (dims : List RawCDim) : List Nat := (rowMajor (dims.map naxesOf)).1

def f64 (u : UInt64) : F32 := ⟨Float.ofBits u⟩
def rat (u : UInt64) : Rat := (ratOfBits u).getD 0

def RawCase.toF (c : RawCase) : CTable F32 :=
  ⟨(c.dims.zip (stridesOf c.dims)).map fun (d, s) =>
      ⟨d.order, d.nknots, naxesOf d, s, d.knots.map f64, f64 d.extLo, f64 d.extHi⟩,
   c.coef.map fun u => ⟨(Float32.ofBits u).toFloat⟩⟩

def RawCase.toR (c : RawCase) (abs : Bool) : CTable Rat :=
  ⟨(c.dims.zip (stridesOf c.dims)).map fun (d, s) =>
      ⟨d.order, d.nknots, naxesOf d, s, d.knots.map rat, rat d.extLo, rat d.extHi⟩,
   c.coef.map fun u => let r := rat (Float32.ofBits u).toFloat.toBits; if abs then ratAbs r else r⟩

def fbits (x : F32) : String := toString (cbits x.v)
def f32bits (x : F32) : String :=
  let f := x.v.toFloat32
  toString (if f.isNaN then (0x7fc00000 : UInt32) else f.toBits)

def sp (l : List String) : String := " ".intercalate l

/-- the `bl` section: raw blossoms exactly as `convolve` requests them -/
def blossoms (c : RawCase) : List String :=
  match (c.toF).dims[c.dim]? with
  | none => []
  | some d =>
    let ck := c.ck.map f64
    let n := ck.length
    let rho := sortKnots (pairSums (d.knots.take d.nknots) ck)
    let k := d.order + 1
    let q := n - 1
    let nNew := rho.length - (d.order + n - 1) - 1
    (List.range nNew).flatMap fun i => (List.range d.naxes).map fun j =>
      fbits (trafoEntry d.knots ck rho k q (⟨1.0⟩ : F32) i j)

/-- all `B_{i,p}(x)`, `i < nknots-p-1`, by the Cox–de Boor recursion level by level (the memoised form of
`PsV.Bind` with the `selInd` convention); used only to evaluate the table produced by the exact model. -/
def basisAll (d : CDim Rat) (x : Rat) : List Rat :=
  let D := ConvSpec.toDim d
  let t := fun (i : Nat) => d.knots.getD i 0
  let lvl0 : List Rat := (List.range (d.nknots - 1)).map fun (i : Nat) => if selInd D x (Int.ofNat i) then (1 : Rat) else 0
  let step := fun (r : Nat) (prev : List Rat) =>
    -- prev = level r (degree r), produce degree r+1
    (List.range (d.nknots - r - 2)).map fun i =>
      (x - t i) / (t (i + r + 1) - t i) * prev.getD i 0 + (t (i + r + 2) - x) / (t (i + r + 2) - t (i + 1)) * prev.getD (i+1) 0
  loopN d.order step lvl0

/-- `Σ coef · Π_d B_d(x_d)` over all stored coefficients of the exact-model table -/
def evalExact (T : CTable Rat) (xs : List Rat) : Rat :=
  let rows := (T.dims.zip xs).map fun (d, x) => (d.stride, some (basisAll d x))
  ConvSpec.contract (fun p => T.coef.getD p 0) rows 0 0

def handleCase (c : RawCase) : String :=
  let TF := c.toF
  match convolve TF c.dim (c.ck.map f64) with
  | none => "bad-dim"
  | some R =>
    let dimsS := sp (R.dims.map fun d => s!"{d.order} {d.nknots} {d.naxes} {d.stride}")
    let knS := sp (R.dims.flatMap fun d => d.knots.map fbits)
    let extS := sp (R.dims.map fun d => s!"{fbits d.extLo} {fbits d.extHi}")
    let blS := sp (blossoms c)
    let coS := sp (R.coef.toList.map f32bits)
    let TR := c.toR false
    let TA := c.toR true
    let ckR := c.ck.map rat
    let exact := convolve TR c.dim ckR
    let ptS := sp (c.pts.map fun p =>
      let xs := p.map rat
      let s := ConvSpec.specConv TR c.dim ckR xs
      let m := ConvSpec.specConv TA c.dim ckR xs
      let e := match exact with
        | some E => evalExact E xs
        | none => 0
      s!"{showRat s} {showRat m} {showRat e}")
    let area := ConvSpec.kernelArea (fun i => ckR.getD i 0) (ckR.length - 1)
    s!"dims {dimsS} | kn {knS} | ext {extS} | bl {blS} | co {coS} | pt {ptS} | area {showRat area}"

def handle (ws : List String) : String :=
  match ws with
  | ["F", n] => match n.toNat? with
    | some n => toString (factorialC n)
    | none => "bad-input"
  | "C" :: rest =>
    match toNats rest with
    | none => "bad-input"
    | some ns => match parseCase ns with
      | none => "bad-input"
      | some c => handleCase c
  | _ => "bad-input"

def run : IO Unit := do lineLoop (← IO.getStdin) (← IO.getStdout) handle

end PsV.Driver.C14
