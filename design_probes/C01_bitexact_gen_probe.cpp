#include <photospline/bspline.h>
#include <cstdio>
#include <cstring>
#include <cstdint>
#include <random>
#include <vector>
#include <algorithm>
static uint64_t bits(double d){uint64_t u;memcpy(&u,&d,8);return u;}
static uint32_t bits(float d){uint32_t u;memcpy(&u,&d,4);return u;}
int main(int argc,char**argv){
  FILE* in=fopen("in.txt","w"); FILE* out=fopen("out_cpp.txt","w");
  std::mt19937_64 rng(atoi(argv[1]));
  for(int it=0;it<20000;it++){
    int order=rng()%6; int nknots=2*order+2+rng()%6;
    std::vector<double> store(nknots+2*order);
    for(auto&v:store) v=std::uniform_real_distribution<>(-100,100)(rng); // garbage padding
    std::vector<double> k(nknots); for(auto&v:k) v=std::uniform_real_distribution<>(-10,10)(rng);
    std::sort(k.begin(),k.end());
    if(rng()%4==0) for(int i=1;i<nknots;i++) if(rng()%3==0) k[i]=k[i-1];
    std::sort(k.begin(),k.end());
    std::copy(k.begin(),k.end(),store.begin()+order);
    const double* knots=store.data()+order;
    int naxes=nknots-order-1;
    // choose x
    double x; int mode=rng()%4;
    if(mode==0) x=k[rng()%nknots]; else x=std::uniform_real_distribution<>(k[0],k[nknots-1])(rng);
    if(!(x>k[0] && x<=k[nknots-1])) continue;
    int center;
    if(x<k[order]) center=order; else if(x>=k[naxes]) center=naxes-1; else { center=order; while(!(k[center]<=x && x<k[center+1])) center++; }
    bool dbl=rng()%2;
    fprintf(in,"%s %d %d %d %llu",dbl?"d":"f",nknots,order,center,(unsigned long long)bits(x));
    for(auto v:store) fprintf(in," %llu",(unsigned long long)bits(v));
    fprintf(in,"\n");
    if(dbl){ std::vector<double> b(order+1); photospline::bsplvb_simple<double>(knots,nknots,x,center,order+1,b.data()); for(int i=0;i<=order;i++) fprintf(out,"%s%llu",i?" ":"",(unsigned long long)bits(b[i])); }
    else { std::vector<float> b(order+1); photospline::bsplvb_simple<float>(knots,nknots,x,center,order+1,b.data()); for(int i=0;i<=order;i++) fprintf(out,"%s%u",i?" ":"",bits(b[i])); }
    fprintf(out,"\n");
  }
}
