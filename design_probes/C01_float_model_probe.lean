namespace Ps
/-- storage/working arithmetic bundle: D = working (double), S = storage (Float or Float32) -/
class Arith (D : Type) (S : Type) where
  add : D → D → D
  sub : D → D → D
  mul : D → D → D
  div : D → D → D
  lt : D → D → Bool
  zero : D
  one : D
  toS : D → S
  toD : S → D

/-- bsplvb_simple model (interior + margins), knots as Int → D -/
def bsplvbSimple {D S} [Inhabited D] [Inhabited S] [A : Arith D S] (knots : Int → D) (nknots : Nat) (x : D) (left0 : Int) (degree : Nat) : Array S := Id.run do
  let mut left := left0
  -- margin shift
  if left == (degree : Int) - 1 then
    let mut fuel := nknots + 1
    while fuel > 0 && left >= 0 && A.lt x (knots left) do
      left := left - 1; fuel := fuel - 1
  else if left == (nknots : Int) - degree - 1 then
    let mut fuel := nknots + 1
    while fuel > 0 && left < (nknots : Int) - 1 && A.lt (knots (left+1)) x do
      left := left + 1; fuel := fuel - 1
  let mut biatx : Array S := Array.replicate degree (A.toS A.zero)
  biatx := biatx.set! 0 (A.toS A.one)
  let mut dr : Array D := Array.replicate degree (A.zero)
  let mut dl : Array D := Array.replicate degree (A.zero)
  for j in [0:degree-1] do
    dr := dr.set! j (A.sub (knots (left + j + 1)) x)
    dl := dl.set! j (A.sub x (knots (left - j)))
    let mut saved := A.zero
    for i in [0:j+1] do
      let term := A.div (A.toD (biatx[i]!)) (A.add dr[i]! dl[j-i]!)
      biatx := biatx.set! i (A.toS (A.add saved (A.mul dr[i]! term)))
      saved := A.mul dl[j-i]! term
    biatx := biatx.set! (j+1) (A.toS saved)
  -- rearrangement
  let i1 : Int := (degree : Int) - 1 - left
  if i1 > 0 then
    let sh := i1.toNat
    let mut out := biatx
    for j in [0:(left+1).toNat] do
      out := out.set! j out[j+sh]!
    for j in [(left+1).toNat:degree] do
      out := out.set! j (A.toS (A.zero))
    return out
  else
    let i2 : Int := left + degree + 1 - nknots
    if i2 > 0 then
      let sh := i2.toNat
      let mut out := biatx
      for jj in [0:degree - sh] do
        let j := degree - 1 - jj
        out := out.set! j out[j-sh]!
      for j in [0:sh] do
        out := out.set! j (A.toS (A.zero))
      return out
    else return biatx

instance : Arith Float Float := ⟨(·+·),(·-·),(·*·),(·/·),(fun a b => a < b),0,1,id,id⟩
instance : Arith Float Float32 := ⟨(·+·),(·-·),(·*·),(·/·),(fun a b => a < b),0,1,Float.toFloat32,Float32.toFloat⟩
end Ps
