#include <stdio.h>
#include <stdlib.h>
#include <math.h>
#include <cholmod.h>
#include "photospline/detail/splineutil.h"
static double frand(unsigned* s){ *s=*s*1664525u+1013904223u; return ((*s>>8)&0xffff)/65536.0; }
int main(int argc,char**argv){
  unsigned seed=argc>1?atoi(argv[1]):1; int n=argc>2?atoi(argv[2]):6; int which=argc>3?atoi(argv[3]):3;
  cholmod_common c; cholmod_l_start(&c);
  // A = B^T B + 0.1 I dense as sparse; b random
  double *B=malloc(sizeof(double)*n*n), *A=malloc(sizeof(double)*n*n), *b=malloc(sizeof(double)*n);
  for(int i=0;i<n*n;i++) B[i]=frand(&seed)-0.5;
  for(int i=0;i<n;i++) for(int j=0;j<n;j++){ double s=(i==j)?0.1:0; for(int k=0;k<n;k++) s+=B[k*n+i]*B[k*n+j]; A[i*n+j]=s; }
  for(int i=0;i<n;i++) b[i]=frand(&seed)-0.5;
  cholmod_dense* Ad=cholmod_l_allocate_dense(n,n,n,CHOLMOD_REAL,&c); for(int i=0;i<n;i++) for(int j=0;j<n;j++) ((double*)Ad->x)[j*n+i]=A[i*n+j];
  cholmod_sparse* As=cholmod_l_dense_to_sparse(Ad,1,&c);
  cholmod_dense* bd=cholmod_l_allocate_dense(n,1,n,CHOLMOD_REAL,&c); for(int i=0;i<n;i++) ((double*)bd->x)[i]=b[i];
  cholmod_dense* x=NULL;
  if(which==3) x=nnls_normal_block3(As,bd,0,&c);
  else if(which==1) x=nnls_normal_block(As,bd,0,&c);
  else if(which==2) x=nnls_normal_block_updown(As,bd,0,&c);
  else x=nnls_lawson_hanson(As,bd,1e-10,0,1000,0,1,0,&c);
  double worst=0; int neg=0;
  for(int i=0;i<n;i++){ double g=-b[i]; for(int j=0;j<n;j++) g+=A[i*n+j]*((double*)x->x)[j]; double xi=((double*)x->x)[i];
    if(xi<0) neg++; double v = xi>0? fabs(g) : (g<0?-g:0); if(v>worst) worst=v; }
  printf("solver=%d n=%d neg=%d worstKKT=%.3e x0=%g\n",which,n,neg,worst,((double*)x->x)[0]);
  return 0;
}
