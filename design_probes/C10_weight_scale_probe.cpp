// C10 probe: the monotonic fit depends on the overall SCALE of the weights — it should depend only on the ratio
// weights : smoothing (the fit with weights c*w and smoothing c*lambda minimises c times the same objective), as the
// unconstrained fit does. glamfit_complex normalises the right-hand side A'Wz before nnls_normal_block3 but not the
// matrix A'WA + lambda*P, whose entries are proportional to c, and the solver compares them (and the solution of the
// normalised system, which is proportional to 1/c) with absolute numbers:
//   * cholmod_l_drop(DBL_EPSILON, AtA): for small weights (large variances) genuine entries of the matrix are removed;
//   * x[F[i]] < kkt_tolerance ("the coefficient already sits on its bound"): for large weights true of every coefficient,
//     so the solver never takes a descent step, constrains instead, cycles and gives up after 120 iterations.
// Deterministic data (no random numbers): a table that falls and then rises, with scatter, on a 2-d grid, monotonic in
// dimension 0, order 4, irregular knots, 9 x 5 coefficients, 11 x 7 points, smoothing 1e-3 * c or 0; weights c * (1 + (i*7+j*3)%5), c = 16^k
// (scaling by a power of four is exact in every operation of the fit, including the square roots of the factorisation).
//
// Build (T = tree of the library):
//   for f in cholesky_solve glam nnls splineutil; do gcc -O2 -w -c -I$T/include -I/usr/include/suitesparse \
//       -DPHOTOSPLINE_INCLUDES_SPGLAM $T/src/fitter/$f.c -o $f.o; done
//   g++ -std=c++11 -O2 -w -I$T/include -I/usr/include/suitesparse -DPHOTOSPLINE_INCLUDES_SPGLAM C10_weight_scale_probe.cpp \
//       $T/src/core/{bspline,convolve,fitsio}.cpp {cholesky_solve,glam,nnls,splineutil}.o -o probe \
//       -lcfitsio -lcholmod -lspqr -lsuitesparseconfig -lopenblas -lpthread -lm
// Run: OMP_NUM_THREADS=1 ./probe     (exit 0: every weight scale gives the fit of scale 1; 1: not)
#include "photospline/splinetable.h"
#include <cstdio>
#include <cmath>
#include <vector>

static std::vector<float> run(int k, bool mono, double lambda0) {
  const uint32_t order = 4; const size_t nk0 = 14, nk1 = 10;                 // 9 x 5 coefficients
  std::vector<std::vector<double>> knots(2), coords(2);
  for (size_t j = 0; j < nk0; j++) knots[0].push_back(j + 0.35 * std::sin(2.0 * j));          // irregular knots
  for (size_t j = 0; j < nk1; j++) knots[1].push_back(0.5 * j + 0.15 * std::sin(3.0 * j));
  const size_t n0 = nk0 - order - 1 + 2, n1 = nk1 - order - 1 + 2;                             // two abscissae more than coefficients
  for (size_t j = 0; j < n0; j++) coords[0].push_back(knots[0][order] + (knots[0][nk0 - 1 - order] - knots[0][order]) * (j + 0.5) / n0);
  for (size_t j = 0; j < n1; j++) coords[1].push_back(knots[1][order] + (knots[1][nk1 - 1 - order] - knots[1][order]) * (j + 0.5) / n1);
  photospline::ndsparse data(n0 * n1, 2);
  std::vector<double> w;
  double c = std::ldexp(1.0, 2 * k);
  for (unsigned i = 0; i < n0; i++) for (unsigned j = 0; j < n1; j++) {
    double t = (i + 0.5) / n0, u = (j + 0.5) / n1;
    double z = 2.0 - 3.0 * t + 4.0 * t * t + 6.0 * std::sin(1000.0 * (i * 31 + j * 17 + 1)) + 0.3 * u;   // falls, then rises, with scatter
    unsigned idx[2] = {i, j}; data.insertEntry(z, idx);
    w.push_back(c * (1 + (i * 7 + j * 3) % 5));
  }
  photospline::splinetable<> s;
  s.fit(data, w, coords, std::vector<uint32_t>{order, order}, knots, std::vector<double>{lambda0 * c, lambda0 * c}, std::vector<uint32_t>{2, 2},
        mono ? 0 : photospline::splinetable<>::no_monodim, false);
  return std::vector<float>(s.get_coefficients(), s.get_coefficients() + s.get_ncoeffs(0) * s.get_ncoeffs(1));
}

static double reldiff(const std::vector<float>& a, const std::vector<float>& b) {
  double d = 0, m = 0;
  for (size_t j = 0; j < a.size(); j++) { double e = std::fabs((double)a[j] - b[j]); if (!(e <= d)) d = e; m = std::max(m, std::fabs((double)b[j])); }
  return d / m;
}

int main() {
  int bad = 0;
  for (double lambda0 : {1e-3, 0.0}) {
    std::vector<float> ref = run(0, true, lambda0), uref = run(0, false, lambda0);
    for (int k = -20; k <= 20; k += 4) {
      double d = reldiff(run(k, true, lambda0), ref), du = reldiff(run(k, false, lambda0), uref);
      printf("smoothing %g*c, weights c*(1..5), c = 4^%-3d (%.1e): monotonic fit vs the one with c = 1: %.3e of the largest coefficient  %s   (unconstrained fit: %.1e)\n",
             lambda0, k, std::ldexp(1.0, 2 * k), d, d <= 2e-5 ? "ok" : "DIFFERS", du);
      if (!(d <= 2e-5)) bad++;
    }
  }
  printf(bad ? "FAIL: the monotonic fit depends on the overall scale of the weights (%d scales)\n" : "OK: the monotonic fit does not depend on the overall scale of the weights\n", bad);
  return bad ? 1 : 0;
}
