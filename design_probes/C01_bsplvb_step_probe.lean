import Mathlib.Tactic.Ring
import Mathlib.Tactic.FieldSimp
import Mathlib.Tactic.Linarith
import Mathlib.Algebra.Field.Basic
/-! Probe: de Boor BSPLVB inner recurrence = Cox–de Boor on the polynomial piece `left`. -/
namespace Ps
variable {α : Type} [Field α]

/-- Cox–de Boor recurrence for the polynomial piece selected by `left` (order-0 indicator `i = left`).
    Mirrors `photospline::bspline` except for the order-0 test. Division by zero is 0. -/
def Bp (t : Int → α) (x : α) (left : Int) : Nat → Int → α
  | 0, i => if i = left then 1 else 0
  | n+1, i => (x - t i) / (t (i+n+1) - t i) * Bp t x left n i
            + (t (i+n+2) - x) / (t (i+n+2) - t (i+1)) * Bp t x left n (i+1)

theorem Bp_zero_of_not_mem (t : Int → α) (x : α) (left : Int) :
    ∀ (n : Nat) (i : Int), (left < i ∨ i + n < left) → Bp t x left n i = 0 := by
  intro n
  induction n with
  | zero => intro i h; simp only [Bp]; have : i ≠ left := by omega
            simp [this]
  | succ n ih =>
    intro i h
    simp only [Bp]
    rcases h with h | h
    · rw [ih i (Or.inl h), ih (i+1) (Or.inl (by omega))]; simp
    · rw [ih i (Or.inr (by push_cast at h; omega)), ih (i+1) (Or.inr (by push_cast at h; omega))]; simp

/-- inner loop of bsplvb at level `j` (old list has j+1 entries), starting at position `i` with carry `saved` -/
def vbStep (t : Int → α) (x : α) (left : Int) (j : Nat) : Nat → α → List α → List α
  | _, saved, [] => [saved]
  | i, saved, b :: bs =>
    let dr := t (left + i + 1) - x
    let dl := x - t (left - (j - i : Nat))
    let term := b / (dr + dl)
    (saved + dr * term) :: vbStep t x left j (i+1) (dl * term) bs

/-- generalised invariant for the inner loop -/
theorem vbStep_spec (t : Int → α) (x : α) (left : Int) (j : Nat) :
    ∀ (bs : List α) (i : Nat) (saved : α), i + bs.length = j + 1 →
      (∀ m (hm : m < bs.length), bs[m] = Bp t x left j (left - j + i + m)) →
      saved = (x - t (left - j - 1 + i)) / (t (left + i) - t (left - j - 1 + i)) * Bp t x left j (left - j - 1 + i) →
      ∀ m (hm : m < (vbStep t x left j i saved bs).length),
        (vbStep t x left j i saved bs)[m] = Bp t x left (j+1) (left - j - 1 + i + m) := by
  intro bs
  induction bs with
  | nil =>
    intro i saved hlen _ hsaved m hm
    simp only [vbStep, List.length_singleton] at hm ⊢
    have hm0 : m = 0 := by omega
    subst hm0
    simp only [List.getElem_cons_zero, Bp]
    have hi : (i:Int) = j + 1 := by simp at hlen; omega
    have e1 : left - (j:Int) - 1 + i + (0:Nat) = left := by rw [hi]; push_cast; ring
    have e2 : left - (j:Int) - 1 + i = left := by rw [hi]; ring
    rw [e1, Bp_zero_of_not_mem t x left j (left+1) (Or.inl (by omega))]
    rw [hsaved, e2]
    have e3 : left + (i:Int) = left + j + 1 := by rw [hi]; ring
    rw [e3]; ring
  | cons b bs ih =>
    intro i saved hlen hold hsaved m hm
    simp only [vbStep]
    have hij : i ≤ j := by simp at hlen; omega
    have hb : b = Bp t x left j (left - j + i) := by
      have := hold 0 (by simp); simpa using this
    cases m with
    | zero =>
      simp only [List.getElem_cons_zero, Bp]
      rw [hsaved, hb]
      have e0 : left - (j:Int) - 1 + i + (0:Nat) = left - j - 1 + i := by simp
      rw [e0]
      have e1 : left - (j:Int) - 1 + i + j + 1 = left + i := by ring
      have e2 : left - (j:Int) - 1 + i + j + 2 = left + i + 1 := by ring
      have e3 : left - (j:Int) - 1 + i + 1 = left - j + i := by ring
      have e4 : left - ((j - i : Nat) : Int) = left - j + i := by
        rw [Nat.cast_sub hij]; ring
      rw [e1, e2, e3, e4]
      have e5 : t (left + i + 1) - x + (x - t (left - j + i)) = t (left + i + 1) - t (left - j + i) := by ring
      rw [e5]; ring
    | succ m =>
      simp only [List.getElem_cons_succ]
      have e4 : left - ((j - i : Nat) : Int) = left - j + i := by rw [Nat.cast_sub hij]; ring
      have key := ih (i+1)
        ((x - t (left - ((j - i : Nat) : Int))) * (b / (t (left + i + 1) - x + (x - t (left - ((j - i : Nat) : Int))))))
        (by simp at hlen ⊢; omega)
        (by intro m' hm'
            have := hold (m'+1) (by simp; omega)
            simp only [List.getElem_cons_succ] at this
            rw [this]; congr 1; push_cast; ring)
        (by rw [e4, hb]
            have e5 : t (left + i + 1) - x + (x - t (left - j + i)) = t (left + i + 1) - t (left - j + i) := by ring
            rw [e5]
            have e6 : left - (j:Int) - 1 + ((i+1:Nat):Int) = left - j + i := by push_cast; ring
            have e7 : left + ((i+1:Nat):Int) = left + i + 1 := by push_cast; ring
            rw [e6, e7]; ring)
        m (by simpa [vbStep] using hm)
      rw [key]; congr 1; push_cast; ring

end Ps
#print axioms Ps.vbStep_spec
