import Mathlib.Algebra.Order.Field.Rat
import Mathlib.Tactic.Ring
namespace T
class Arith (D : Type) where
  add : D → D → D
  mul : D → D → D
  div : D → D → D
  lt : D → D → Bool
instance gen {α} [Add α] [Mul α] [Div α] [LT α] [DecidableLT α] : Arith α := ⟨(·+·),(·*·),(·/·),fun a b => decide (a<b)⟩
def f {α} [A : Arith α] (a b : α) : α := if A.lt a b then A.div (A.add a b) b else A.mul a b
theorem f_spec {α} [Field α] [LinearOrder α] (a b : α) (h : a < b) : f a b = (a+b)/b := by
  simp [f, Arith.lt, Arith.div, Arith.add, gen, h]
-- the driver's instance: core Rat ops
def drv (a b : Rat) : Rat := f a b
theorem drv_spec (a b : Rat) (h : a < b) : drv a b = (a+b)/b := by
  unfold drv
  exact f_spec a b h
#eval drv (1/2) (3/4)
end T
#print axioms T.drv_spec
