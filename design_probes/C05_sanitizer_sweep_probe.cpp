#include <algorithm>
#include <cassert>
#include <memory>
#include <numeric>
#include <sstream>
#include <vector>
#include <cstdlib>
#include <iostream>
#include <random>
#include <chrono>
#include <string>
#include <array>
#include <cstring>
#include <fitsio.h>
#include <fitsio2.h>
#define private public
#include <photospline/splinetable.h>
#undef private
#include <cstdio>
using T=photospline::splinetable<>;
// build a table directly through the (now visible) members, using the table's own allocate()
void build(T& t, const std::vector<uint32_t>& ord, const std::vector<std::vector<double>>& kn, std::mt19937& rng){
  uint32_t nd=ord.size(); t.ndim=nd;
  t.order=t.allocate<uint32_t>(nd); t.nknots=t.allocate<uint64_t>(nd); t.naxes=t.allocate<uint64_t>(nd); t.strides=t.allocate<uint64_t>(nd);
  t.knots=t.allocate<double*>(nd); t.extents=t.allocate<double*>(nd); t.extents[0]=t.allocate<double>(2*nd); t.periods=nullptr;
  for(uint32_t i=0;i<nd;i++){ t.order[i]=ord[i]; t.nknots[i]=kn[i].size(); t.naxes[i]=kn[i].size()-ord[i]-1;
    t.knots[i]=t.allocate<double>(kn[i].size()+2*ord[i])+ord[i]; std::copy(kn[i].begin(),kn[i].end(),t.knots[i]);
    t.extents[i]=&t.extents[0][2*i]; t.extents[i][0]=kn[i][ord[i]]; t.extents[i][1]=kn[i][t.naxes[i]]; }
  t.strides[nd-1]=1; for(int i=nd-1;i>0;i--) t.strides[i-1]=t.strides[i]*t.naxes[i];
  uint64_t nc=t.strides[0]*t.naxes[0]; t.coefficients=t.allocate<float>(nc);
  for(uint64_t i=0;i<nc;i++) t.coefficients[i]=std::uniform_real_distribution<float>(-1,1)(rng);
}
#include <cmath>
#include <limits>
int main(){
  std::mt19937 rng(5); std::mt19937_64 r64(7);
  long evals=0, oks=0;
  for(int it=0; it<3000; it++){
    uint32_t nd=1+rng()%4; T t; std::vector<uint32_t> ord(nd); std::vector<std::vector<double>> kn(nd);
    for(uint32_t d=0; d<nd; d++){ ord[d]=rng()%6; int nk=2*ord[d]+2+rng()%4; double v=-3; for(int j=0;j<nk;j++){ kn[d].push_back(v); if(rng()%4) v+=0.1+(rng()%100)/37.0; } }
    build(t,ord,kn,rng);
    for(int p=0;p<40;p++){
      std::vector<double> x(nd); std::vector<int> c(nd);
      for(uint32_t d=0; d<nd; d++){
        int m=rng()%8; auto&k=kn[d];
        if(m==0){ uint64_t b=r64(); memcpy(&x[d],&b,8); if(x[d]!=x[d]) x[d]=0;} else if(m==1) x[d]=k[k.size()-1]; else if(m==2) x[d]=k[rng()%k.size()];
        else if(m==3) x[d]=std::nextafter(k[rng()%k.size()], (rng()%2)?1e300:-1e300); else if(m==4) x[d]=(rng()%2)?INFINITY:-INFINITY; else x[d]=k.front()+(k.back()-k.front())*((rng()%100000)/99999.0);
      }
      evals++;
      if(!t.searchcenters(x.data(),c.data())) continue; oks++; { FILE* f=fopen("last.txt","w"); for(uint32_t d=0;d<nd;d++) fprintf(f,"d=%u order=%u nknots=%zu x=%g center=%d naxes=%llu\n",d,ord[d],kn[d].size(),x[d],c[d],(unsigned long long)t.naxes[d]); fclose(f);}
      volatile double s=0; s+=t.ndsplineeval<double>(x.data(),c.data(),0); s+=t.ndsplineeval<float>(x.data(),c.data(),rng()%(1u<<nd));
      std::vector<double> g(nd+1); t.ndsplineeval_gradient<float>(x.data(),c.data(),g.data()); t.ndsplineeval_gradient<double>(x.data(),c.data(),g.data());
      std::vector<unsigned> dv(nd); for(auto&q:dv) q=rng()%4; s+=t.ndsplineeval_deriv(x.data(),c.data(),dv.data());
      auto ev=t.get_evaluator<float>(); s+=ev.ndsplineeval(x.data(),c.data(),0); ev.ndsplineeval_gradient(x.data(),c.data(),g.data()); s+=t(x.data());
    }
  }
  printf("evals=%ld lookups_ok=%ld\n",evals,oks);
}
