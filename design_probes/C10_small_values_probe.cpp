// C10 probe: the monotonic fit is not scale-equivariant — nnls_normal_block3 stops on the ABSOLUTE tolerance
// nvar*DBL_EPSILON*1e5, so a table with small values (a probability density, say) is fitted badly or returned as zero,
// although the constraint is inactive and the unconstrained fit of the same data is accurate.
//
// Build (T = tree of the library):
//   for f in cholesky_solve glam nnls splineutil; do gcc -O2 -w -c -I$T/include -I/usr/include/suitesparse \
//       -DPHOTOSPLINE_INCLUDES_SPGLAM $T/src/fitter/$f.c -o $f.o; done
//   g++ -std=c++11 -O2 -w -I$T/include -I/usr/include/suitesparse -DPHOTOSPLINE_INCLUDES_SPGLAM C10_small_values_probe.cpp \
//       $T/src/core/{bspline,bspline_multi,convolve,fitsio}.cpp {cholesky_solve,glam,nnls,splineutil}.o -o probe \
//       -lcfitsio -lcholmod -lspqr -lsuitesparseconfig -lopenblas -lpthread -lm
// Run: OMP_NUM_THREADS=1 ./probe     (exit 0: every scale agrees with the unconstrained fit; 1: not)
#include "photospline/splinetable.h"
#include <cstdio>
#include <cmath>
#include <vector>

static double run(double scale, bool& allzero) {
  const uint32_t order = 2; const size_t nk = 15, ns = 40;
  std::vector<std::vector<double>> knots(1), coords(1);
  for (size_t j = 0; j < nk; j++) knots[0].push_back((double)j);
  double lo = knots[0][order], hi = knots[0][nk - order - 1];
  for (size_t j = 0; j < ns; j++) coords[0].push_back(lo + (hi - lo) * (j + 0.5) / ns);
  photospline::ndsparse data(ns, 1);
  std::vector<double> w(ns, 1.0);
  for (unsigned j = 0; j < ns; j++) { double t = (coords[0][j] - lo) / (hi - lo); data.insertEntry(scale * (1.4 + 3 * t + 0.5 * t * t), &j); }
  photospline::splinetable<> mono, unc;
  mono.fit(data, w, coords, std::vector<uint32_t>{order}, knots, std::vector<double>{1e-3}, std::vector<uint32_t>{2}, 0, false);
  unc.fit(data, w, coords, std::vector<uint32_t>{order}, knots, std::vector<double>{1e-3}, std::vector<uint32_t>{2}, photospline::splinetable<>::no_monodim, false);
  size_t n = mono.get_ncoeffs(0); const float *a = mono.get_coefficients(), *b = unc.get_coefficients();
  double d = 0, m = 0; allzero = true;
  for (size_t j = 0; j < n; j++) { d = std::max(d, std::fabs((double)a[j] - b[j])); m = std::max(m, std::fabs((double)b[j])); if (a[j] != 0) allzero = false; }
  return d / m;
}

int main() {
  int bad = 0;
  for (int e = 0; e >= -13; e--) {
    bool z; double d = run(std::pow(10.0, e), z);
    printf("data = 1e%-3d * (1.4 + 3t + t^2/2), increasing: monotonic fit vs unconstrained fit, max difference %.3e of the largest coefficient%s  %s\n",
           e, d, z ? " (monotonic fit identically zero)" : "", d > 2e-5 ? "DIFFERS" : "ok");
    if (d > 2e-5) bad++;
  }
  return bad ? 1 : 0;
}
