#include <photospline/splinetable.h>
#include <cstdio>
int main(){
  try{
    photospline::splinetable<> t("/tmp/p07/wrap16.fits");
    printf("accepted: ndim=%u ncoeffs=%llu\n", t.get_ndim(), (unsigned long long)t.get_ncoeffs());
    std::vector<double> x(16,8.5); std::vector<int> c(16);
    if(t.searchcenters(x.data(),c.data())){ double v=t.ndsplineeval(x.data(),c.data(),0); printf("value %g\n",v);} 
    return 1;
  }catch(std::exception& e){ printf("rejected: %s\n", e.what()); return 0; }
}
