import struct
def card(k,v,quote=False):
    if quote: s="%-8s= '%-8s'"%(k,v)
    else: s="%-8s= %20s"%(k,v)
    return s.ljust(80)
def hdr(cards):
    s="".join(cards)+"END".ljust(80)
    s=s.ljust((len(s)+2879)//2880*2880)
    return s.encode()
nd=16
c=[card("SIMPLE","T"),card("BITPIX","-32"),card("NAXIS",str(nd))]+[card("NAXIS%d"%(i+1),"16") for i in range(nd)]+[card("EXTEND","T"),card("TYPE","Spline Coefficient Table",True)]+[card("ORDER%d"%i,"0") for i in range(nd)]
out=hdr(c)
for i in range(nd):
    h=[card("XTENSION","IMAGE",True),card("BITPIX","-64"),card("NAXIS","1"),card("NAXIS1","17"),card("PCOUNT","0"),card("GCOUNT","1"),card("EXTNAME","KNOTS%d"%i,True)]
    out+=hdr(h)
    d=b"".join(struct.pack(">d",float(j)) for j in range(17))
    out+=d.ljust((len(d)+2879)//2880*2880,b"\0")
open("wrap16.fits","wb").write(out)
print(len(out))
