#include <photospline/splinetable.h>
#include <cstdio>
struct Ledger{ size_t live=0, peak=0, nalloc=0; };
static Ledger L;
template<typename T> struct CountAlloc{
  typedef T value_type;
  CountAlloc(){}
  template<typename U> CountAlloc(const CountAlloc<U>&){}
  T* allocate(size_t n){ L.live+=n*sizeof(T); L.nalloc++; if(L.live>L.peak) L.peak=L.live; return static_cast<T*>(::operator new(n*sizeof(T))); }
  void deallocate(T* p,size_t n){ L.live-=n*sizeof(T); ::operator delete(p); }
  template<typename U> struct rebind{ typedef CountAlloc<U> other; };
  bool operator==(const CountAlloc&)const{return true;} bool operator!=(const CountAlloc&)const{return false;}
};
int main(int argc,char**argv){
  for(int f=1; f<argc; f++) for(int nconv=1; nconv<=6; nconv++){
    L=Ledger();
    size_t est=photospline::splinetable<CountAlloc<void>>::estimateMemory(argv[f], nconv, 0);
    {
      photospline::splinetable<CountAlloc<void>> t(argv[f]);
      size_t afterRead=L.live;
      if(nconv>1){ std::vector<double> k; for(int i=0;i<nconv;i++) k.push_back(-0.1+0.2*i/(nconv-1)); t.convolve(0,k.data(),k.size()); }
      printf("%s nconv=%d est=%zu peak=%zu afterRead=%zu live=%zu ok=%d\n",argv[f],nconv,est,L.peak,afterRead,L.live,L.peak<=est);
    }
    if(L.live!=0) printf("  LEAK live=%zu after destructor\n",L.live);
  }
}
