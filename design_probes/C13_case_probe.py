# C13: hand-made case lines for harness/fit_harness.cpp (`fit_harness run <cases> <out>`).
#   C <npts> <nknots>  1-d order-0 fit whose dense basis has npts*(nknots-1) cells (C 65536 32770: int counter of bsplinebasis overflows)
#   A [nd nk] / A2 nd nk order pen smoothing monodim   nd-dimensional consistent fits of absurd size (coefficient count wraps)
#   E  ncoeffs = 2^56 (std::bad_alloc, as-shipped build only)   B / B2  underdetermined   D w sm md  odd weights
import struct, sys
def b(x): return str(struct.unpack("Q", struct.pack("d", float(x)))[0])
def case(ndim, rows, ranges, idx, x, w, coords, orders, knots, smooth, pen, monodim, tag):
    o = ["F", str(ndim), str(rows)] + [str(r) for r in ranges]
    for col in idx: o += [str(v) for v in col]
    o += [b(v) for v in x]
    o += [str(len(w))] + [b(v) for v in w]
    o += [str(len(coords))]
    for c in coords: o += [str(len(c))] + [b(v) for v in c]
    o += [str(len(orders))] + [str(v) for v in orders]
    o += [str(len(knots))]
    for k in knots: o += [str(len(k))] + [b(v) for v in k]
    o += [str(len(smooth))] + [b(v) for v in smooth]
    o += [str(len(pen))] + [str(v) for v in pen]
    o += [str(monodim), tag]
    return " ".join(o)
NM = 0xffffffff
which = sys.argv[1]
if which == "A":   # 8-d, 256 coefficients per dimension: 2^64 coefficients
    nd = int(sys.argv[2]) if len(sys.argv) > 2 else 8
    nk = int(sys.argv[3]) if len(sys.argv) > 3 else 257
    print(case(nd, 1, [1]*nd, [[0]]*nd, [1.0], [1.0], [[0.5]]*nd, [0]*nd, [list(range(nk))]*nd, [0.0], [0], NM, "np:wrapA"))
elif which == "B":
    print(case(1, 1, [1], [[0]], [1.0], [1.0], [[2.5]], [1], [[0,1,2,3,4,5]], [0.0], [0], NM, "np:underdet"))
elif which == "B2":
    print(case(1, 1, [1], [[0]], [1.0], [1.0], [[2.5]], [1], [[0,1,2,3,4,5]], [0.0], [0], 0, "np:underdet-mono"))
elif which == "C":
    npts, nk = int(sys.argv[2]), int(sys.argv[3])
    print(case(1, 1, [npts], [[0]], [1.0], [1.0], [[ (i+0.5)*nk/npts for i in range(npts)]], [0], [list(range(nk))], [0.0], [0], NM, "np:intk"))
if which == "A2":   # as A with smoothing and monodim
    nd, nk, order, pen, sm, md = [int(v) for v in sys.argv[2:8]]
    print(case(nd, 1, [1]*nd, [[0]]*nd, [1.0], [1.0], [[nk/2.0+0.25]]*nd, [order]*nd, [list(range(nk))]*nd, [float(sm)], [pen], md if md >= 0 else NM, "np:wrapA2"))
if which == "D":   # negative weights / zero weights / nan
    wv = float(sys.argv[2]); sm = float(sys.argv[3]); md = int(sys.argv[4])
    n = 8
    print(case(1, n, [n], [list(range(n))], [1.0+0.1*i for i in range(n)], [wv]*n, [[0.3+0.6*i for i in range(n)]], [1], [[0,1,2,3,4,5]], [sm], [1], md if md >= 0 else NM, "np:negw"))
if which == "E":   # 7 dims of 256 splines and one of 257: ncoeffs = 2^56*257 mod 2^64 = 2^56
    nd = 8
    kn = [list(range(257))]*7 + [list(range(258))]
    print(case(nd, 1, [1]*nd, [[0]]*nd, [1.0], [1.0], [[0.5]]*nd, [0]*nd, kn, [0.0], [0], NM, "np:badalloc"))
