#define _GNU_SOURCE 1
#include <pthread.h>
#include <unistd.h>
#include <sys/syscall.h>
static inline int vp_lock(pthread_mutex_t*m){ if(syscall(SYS_gettid)==getpid()) usleep(100000); return pthread_mutex_lock(m);}
#define pthread_mutex_lock(m) vp_lock(m)
