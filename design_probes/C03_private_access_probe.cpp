#include <algorithm>
#include <cassert>
#include <memory>
#include <numeric>
#include <sstream>
#include <vector>
#include <cstdlib>
#include <iostream>
#include <random>
#include <chrono>
#include <string>
#include <array>
#include <cstring>
#include <fitsio.h>
#include <fitsio2.h>
#define private public
#include <photospline/splinetable.h>
#undef private
#include <cstdio>
using T=photospline::splinetable<>;
// build a table directly through the (now visible) members, using the table's own allocate()
void build(T& t, const std::vector<uint32_t>& ord, const std::vector<std::vector<double>>& kn, std::mt19937& rng){
  uint32_t nd=ord.size(); t.ndim=nd;
  t.order=t.allocate<uint32_t>(nd); t.nknots=t.allocate<uint64_t>(nd); t.naxes=t.allocate<uint64_t>(nd); t.strides=t.allocate<uint64_t>(nd);
  t.knots=t.allocate<double*>(nd); t.extents=t.allocate<double*>(nd); t.extents[0]=t.allocate<double>(2*nd); t.periods=nullptr;
  for(uint32_t i=0;i<nd;i++){ t.order[i]=ord[i]; t.nknots[i]=kn[i].size(); t.naxes[i]=kn[i].size()-ord[i]-1;
    t.knots[i]=t.allocate<double>(kn[i].size()+2*ord[i])+ord[i]; std::copy(kn[i].begin(),kn[i].end(),t.knots[i]);
    t.extents[i]=&t.extents[0][2*i]; t.extents[i][0]=kn[i][ord[i]]; t.extents[i][1]=kn[i][t.naxes[i]]; }
  t.strides[nd-1]=1; for(int i=nd-1;i>0;i--) t.strides[i-1]=t.strides[i]*t.naxes[i];
  uint64_t nc=t.strides[0]*t.naxes[0]; t.coefficients=t.allocate<float>(nc);
  for(uint64_t i=0;i<nc;i++) t.coefficients[i]=std::uniform_real_distribution<float>(-1,1)(rng);
}
int main(){
  std::mt19937 rng(1);
  for(uint32_t nd=1; nd<=9; nd++){
    T t; std::vector<uint32_t> ord(nd,2); std::vector<std::vector<double>> kn(nd);
    for(auto&k:kn) for(int j=0;j<7;j++) k.push_back(j);
    build(t,ord,kn,rng);
    std::vector<double> x(nd,3.3); std::vector<int> c(nd);
    bool ok=t.searchcenters(x.data(),c.data());
    double a=t.ndsplineeval<double>(x.data(),c.data(),0);
    auto ev=t.get_evaluator<double>(); double b=ev.ndsplineeval(x.data(),c.data(),0);
    printf("nd=%u ok=%d generic=%.17g evaluator=%.17g same=%d\n",nd,ok,a,b,a==b);
  }
}
