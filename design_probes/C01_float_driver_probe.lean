import Psprobe.Basic
open Ps
def parseBits (s : String) : Float := Float.ofBits (s.toNat!.toUInt64)
partial def loop (h : IO.FS.Stream) : IO Unit := do
  let line ← h.getLine
  if line.isEmpty then return ()
  let ws := (line.trimAscii.toString.splitOn " ")
  -- format: prec nknots order left x k0 k1 ... (bits as decimal)
  match ws with
  | prec :: nk :: ord :: left :: x :: ks =>
    let nknots := nk.toNat!
    let order := ord.toNat!
    let karr : Array Float := (ks.map parseBits).toArray
    let knots : Int → Float := fun i => karr[(i + order).toNat]!
    if prec == "d" then
      let r := bsplvbSimple (S := Float) knots nknots (parseBits x) (left.toInt!) (order+1)
      IO.println (" ".intercalate (r.toList.map (fun f => toString f.toBits)))
    else
      let r := bsplvbSimple (S := Float32) knots nknots (parseBits x) (left.toInt!) (order+1)
      IO.println (" ".intercalate (r.toList.map (fun f => toString f.toBits)))
  | _ => IO.println "bad"
  loop h
def main : IO Unit := do loop (← IO.getStdin)
