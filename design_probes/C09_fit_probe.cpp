#include <photospline/splinetable.h>
#include <cstdio>
#include <cmath>
#include <random>
int main(int argc,char**argv){
  int order=atoi(argv[1]), porder=atoi(argv[2]); double lam=atof(argv[3]); int seed=atoi(argv[4]);
  std::mt19937 rng(seed); std::uniform_real_distribution<> U(0,1);
  std::vector<std::vector<double>> knots(1), coords(1);
  double v=-1; for(int j=0;j<2*order+2+5;j++){ knots[0].push_back(v); v+=0.3+U(rng);} 
  double lo=knots[0][order], hi=knots[0][knots[0].size()-order-1];
  int npts=25; for(int j=0;j<npts;j++) coords[0].push_back(lo+(hi-lo)*(j+0.5*U(rng))/npts);
  photospline::ndsparse data(npts,1); std::vector<double> w(npts);
  std::vector<double> z(npts);
  for(unsigned j=0;j<(unsigned)npts;j++){ unsigned idx[1]={j}; z[j]=sin(coords[0][j])+0.3*U(rng); w[j]=0.2+U(rng); data.insertEntry(z[j],idx);} 
  photospline::splinetable<> s;
  s.fit(data,w,coords,std::vector<uint32_t>{(uint32_t)order},knots,std::vector<double>{lam},std::vector<uint32_t>{(uint32_t)porder},photospline::splinetable<>::no_monodim,false);
  printf("{\"order\":%d,\"porder\":%d,\"lam\":%.17g,\"knots\":[",order,porder,lam); for(size_t i=0;i<knots[0].size();i++) printf("%s%.17g",i?",":"",knots[0][i]);
  printf("],\"x\":["); for(int i=0;i<npts;i++) printf("%s%.17g",i?",":"",coords[0][i]);
  printf("],\"z\":["); for(int i=0;i<npts;i++) printf("%s%.17g",i?",":"",z[i]);
  printf("],\"w\":["); for(int i=0;i<npts;i++) printf("%s%.17g",i?",":"",w[i]);
  printf("],\"c\":["); for(unsigned i=0;i<s.get_ncoeffs();i++) printf("%s%.9g",i?",":"",s.get_coefficients()[i]); printf("]}\n");
}
