// C11 probe (observation, not part of the check): the three normal-equation NNLS solvers of src/fitter/nnls.c assume that
// AtA is handed over in FULL storage (both triangles present, stype 0, as glamfit's cholmod_l_add(Fmat, penalty, ...) produces
// it); they set AtA->stype themselves.  With CHOLMOD's symmetric storage (stype = 1 / -1, one triangle stored)
//   * nnls_normal_block dereferences the NULL that cholmod_l_submatrix returns ("symmetric upper or lower case not
//     supported") and dies with SIGSEGV,
//   * nnls_normal_block_updown and nnls_normal_block3 return points that are not KKT points (the dual update
//     y[G] = A[G,F] x[F] - b[G] sees one triangle only): 45 .. 157 of 200 random 3..8-variable systems.
// The header (include/photospline/detail/splineutil.h) does not state the storage requirement.
//
// build: gcc -c -O1 -DPHOTOSPLINE_INCLUDES_SPGLAM -I/repo/include -I/usr/include/suitesparse /repo/src/fitter/{nnls,cholesky_solve,splineutil,glam}.c
//        g++ -std=c++11 -O1 -DPHOTOSPLINE_INCLUDES_SPGLAM -I/repo/include -I/usr/include/suitesparse C11_symmetric_storage_probe.cpp *.o \
//            -lcfitsio -lcholmod -lspqr -lsuitesparseconfig -lopenblas -lpthread -lm -o probe
// run:   OMP_NUM_THREADS=1 ./probe <stype: 0 | 1 | -1> [<solver: 1 block | 2 updown | 3 block3>]
// seen:  stype 0: 0/0/0 not KKT;  stype 1: solver 1 SIGSEGV, updown 82/200, block3 45/200;  stype -1: SIGSEGV, 134/200, 157/200
#include <cholmod.h>
#include <cstdio>
#include <cstdlib>
#include <cmath>
#include <vector>
extern "C" {
#include "photospline/detail/splineutil.h"
}
int main(int argc, char** argv) {
  int stype = argc > 1 ? atoi(argv[1]) : 0;
  int s_lo = argc > 2 ? atoi(argv[2]) : 1, s_hi = argc > 2 ? atoi(argv[2]) : 3;
  cholmod_common c; cholmod_l_start(&c);
  srand(5);
  int bad[4] = {0, 0, 0, 0}, tot = 0;
  for (int t = 0; t < 200; t++) {
    int n = 3 + rand() % 6, m = n + 2;
    std::vector<double> B(m * n), A(n * n), b(n);
    for (auto& e : B) e = (rand() % 65 - 32) / 16.0;
    for (int i = 0; i < n; i++) for (int j = 0; j < n; j++) { double s = (i == j) ? 0.5 : 0; for (int k = 0; k < m; k++) s += B[k * n + i] * B[k * n + j]; A[i * n + j] = s; }
    for (auto& e : b) e = (rand() % 129 - 64) / 16.0;
    for (int solver = s_lo; solver <= s_hi; solver++) {
      cholmod_triplet* T = cholmod_l_allocate_triplet(n, n, n * n, 0, CHOLMOD_REAL, &c);
      int k = 0; for (int i = 0; i < n; i++) for (int j = 0; j < n; j++) { ((long*)T->i)[k] = i; ((long*)T->j)[k] = j; ((double*)T->x)[k] = A[i * n + j]; k++; }
      T->nnz = k;
      cholmod_sparse* S0 = cholmod_l_triplet_to_sparse(T, k, &c);
      cholmod_sparse* S = stype ? cholmod_l_copy(S0, stype, 1, &c) : S0;
      cholmod_dense* bd = cholmod_l_allocate_dense(n, 1, n, CHOLMOD_REAL, &c);
      for (int i = 0; i < n; i++) ((double*)bd->x)[i] = b[i];
      cholmod_dense* x = solver == 1 ? nnls_normal_block(S, bd, 0, &c) : solver == 2 ? nnls_normal_block_updown(S, bd, 0, &c) : nnls_normal_block3(S, bd, 0, &c);
      double worst = 0;
      for (int i = 0; i < n; i++) {
        double g = -b[i]; for (int j = 0; j < n; j++) g += A[i * n + j] * ((double*)x->x)[j];
        double xi = ((double*)x->x)[i]; double v = xi > 1e-6 ? fabs(g) : (g < 0 ? -g : 0); if (xi < -1e-6) v = 1; if (v > worst) worst = v;
      }
      if (worst > 1e-5) bad[solver]++;
    }
    tot++;
  }
  printf("stype=%d systems=%d not KKT (|violation| > 1e-5): block=%d updown=%d block3=%d\n", stype, tot, bad[1], bad[2], bad[3]);
  return 0;
}
