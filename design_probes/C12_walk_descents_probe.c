#include <stdio.h>
#include <cholmod.h>
#include "/repo/src/fitter/cholesky_solve.h"
int main(){
  cholmod_common c; cholmod_l_start(&c);
  cholmod_sparse* A=cholmod_l_speye(2,2,CHOLMOD_REAL,&c);
  cholmod_dense* b=cholmod_l_zeros(2,1,CHOLMOD_REAL,&c); ((double*)b->x)[0]=-1; ((double*)b->x)[1]=2;
  cholmod_dense* x=cholmod_l_zeros(2,1,CHOLMOD_REAL,&c); ((double*)x->x)[0]=1; ((double*)x->x)[1]=1;
  cholmod_dense* xF=cholmod_l_zeros(2,1,CHOLMOD_REAL,&c); ((double*)xF->x)[0]=-1; ((double*)xF->x)[1]=2;
  long F[2]={0,1}; long nF=2; long H1[2]; long nH1=0; double res=1e300; int calcs=0;
  int feas=walk_descents(A,b,x,xF,F,&nF,H1,&nH1,&res,&calcs,1,&c);
  printf("feasible=%d x=%g %g nH1=%ld res=%g\n",feas,((double*)x->x)[0],((double*)x->x)[1],nH1,res);
  return 0;
}
