#include <initializer_list>
#include <photospline/bspline.h>
#include <cstdio>
int main(){
  double store[10]={0,0,0,1,2,3,4,5,0,0}; const double* k=store+2; // order 2, nknots 6 (minimum), knots 0..5
  double b[3];
  for(double x : {2.5, 3.0, 3.5, 4.5}){
    int naxes=3, center = x<k[2]?2:(x>=k[naxes]?naxes-1:2);
    photospline::bsplvb_simple<double>(k,6,x,center,3,b);
    printf("x=%g center=%d local=[%g %g %g] sum=%g | exact B0..B2 = %g %g %g\n",x,center,b[0],b[1],b[2],b[0]+b[1]+b[2],
      photospline::bspline(k,x,0,2),photospline::bspline(k,x,1,2),photospline::bspline(k,x,2,2));
  }
}
