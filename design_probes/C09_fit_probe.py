import json,sys,numpy as np
def B(t,x,i,n):
    if n==0: return 1.0 if (t[i]<=x<t[i+1]) else 0.0
    a=(x-t[i])/(t[i+n]-t[i])*B(t,x,i,n-1) if t[i+n]!=t[i] else 0.0
    b=(t[i+n+1]-x)/(t[i+n+1]-t[i+1])*B(t,x,i+1,n-1) if t[i+n+1]!=t[i+1] else 0.0
    return a+b
def dmat(t,n,p,ns):
    # coefficients of the p-th derivative in terms of c: rows ns-p, standard de Boor formula
    D=np.eye(ns)
    for q in range(1,p+1):
        m=D.shape[0]; E=np.zeros((m-1,ns))
        for j in range(m-1):
            # derivative coefficient j of level q: (n-q+1)*(c_{j+1}-c_j)/(t[j+n+1]-t[j+q])
            E[j]=(n-q+1)*(D[j+1]-D[j])/(t[j+n+1]-t[j+q])
        D=E
    return D
for line in sys.stdin:
    d=json.loads(line); t=d['knots']; n=d['order']; p=d['porder']; ns=len(t)-n-1
    Bm=np.array([[B(t,x,i,n) for i in range(ns)] for x in d['x']]); W=np.diag(d['w']); z=np.array(d['z'])
    D=dmat(t,n,p,ns) if p>0 else np.eye(ns)
    M=Bm.T@W@Bm+d['lam']*D.T@D; r=Bm.T@W@z
    c=np.linalg.solve(M,r); ci=np.array(d['c'])
    print("order",n,"porder",p,"lam",d['lam'],"cond %.2e"%np.linalg.cond(M),"max|c_impl-c_spec| %.3e"%np.max(np.abs(c-ci)),"rel %.2e"%(np.max(np.abs(c-ci))/np.max(np.abs(c))))
