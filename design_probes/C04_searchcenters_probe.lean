import Mathlib.Order.Defs.LinearOrder
/-! Probe: model of splinetable::searchcenters (one axis) and its specification. -/
namespace Ps

/-- Comparison primitives exactly as the C++ uses them on doubles. For NaN both are `false`. -/
class Cmp (α : Type) where
  lt : α → α → Bool
  le : α → α → Bool

/-- one step of the do-while binary search; returns `none` when fuel runs out -/
def bsearch {α} [Cmp α] (k : Nat → α) (x : α) : (fuel min max : Nat) → Option Nat
  | 0, _, _ => none
  | fuel+1, min, max =>
    let c := (max + min) / 2
    let min' := if Cmp.lt x (k c) then min else c + 1
    let max' := if Cmp.lt x (k c) then c - 1 else max
    if Cmp.lt x (k c) || Cmp.le (k (c+1)) x then bsearch k x fuel min' max' else some c

/-- `searchcenters` for one dimension. `none` = the C++ `return false`. -/
def searchAxis {α} [Cmp α] (order nknots : Nat) (k : Nat → α) (x : α) : Option Nat :=
  let naxes := nknots - order - 1
  if Cmp.le x (k 0) || Cmp.lt (k (nknots-1)) x then none
  else if Cmp.lt x (k order) then some order
  else if Cmp.le (k naxes) x then some (naxes - 1)
  else
    match bsearch k x (nknots) order (nknots - 2) with
    | none => none
    | some c => if c = naxes then some (c-1) else some c

end Ps

namespace Ps
variable {α : Type} [LinearOrder α]

instance : Cmp α := ⟨fun a b => decide (a < b), fun a b => decide (a ≤ b)⟩

theorem bsearch_spec (k : Nat → α) (x : α) (hmono : ∀ i j, i ≤ j → k i ≤ k j) :
    ∀ (fuel min max : Nat), min ≤ max → max - min < fuel → k min ≤ x → x < k (max+1) →
      ∃ c, bsearch k x fuel min max = some c ∧ min ≤ c ∧ c ≤ max ∧ k c ≤ x ∧ x < k (c+1) := by
  intro fuel
  induction fuel with
  | zero => intro min max _ h; omega
  | succ fuel ih =>
    intro min max hle hf hlo hhi
    unfold bsearch
    simp only [Cmp.lt, Cmp.le, Bool.or_eq_true, decide_eq_true_eq]
    by_cases h1 : x < k ((max+min)/2)
    · simp only [h1, true_or, if_true]
      have hc : min < (max+min)/2 := by
        rcases Nat.lt_or_ge min ((max+min)/2) with h | h
        · exact h
        · exfalso
          have : (max+min)/2 = min := by omega
          rw [this] at h1
          exact absurd hlo (not_le.mpr h1)
      have := ih min ((max+min)/2 - 1) (by omega) (by omega) hlo (by
        have : (max+min)/2 - 1 + 1 = (max+min)/2 := by omega
        rw [this]; exact h1)
      obtain ⟨c, hc1, hc2, hc3, hc4, hc5⟩ := this
      exact ⟨c, hc1, hc2, by omega, hc4, hc5⟩
    · simp only [h1, false_or, if_false]
      by_cases h2 : k ((max+min)/2 + 1) ≤ x
      · simp only [h2, if_true]
        have hc : (max+min)/2 < max := by
          rcases Nat.lt_or_ge ((max+min)/2) max with h | h
          · exact h
          · exfalso
            have : (max+min)/2 = max := by omega
            rw [this] at h2
            exact absurd hhi (not_lt.mpr h2)
        have := ih ((max+min)/2 + 1) max (by omega) (by omega) h2 hhi
        obtain ⟨c, hc1, hc2, hc3, hc4, hc5⟩ := this
        exact ⟨c, hc1, by omega, hc3, hc4, hc5⟩
      · simp only [h2, if_false]
        exact ⟨(max+min)/2, rfl, by omega, by omega, not_lt.mp h1, not_le.mp h2⟩

/-- C04 (one axis): success iff in (first, last]; result bounds; bracketing. -/
theorem searchAxis_spec (order nknots : Nat) (k : Nat → α) (x : α)
    (hn : 2*order + 2 ≤ nknots) (hmono : ∀ i j, i ≤ j → k i ≤ k j) :
    (¬ (k 0 < x ∧ x ≤ k (nknots-1)) → searchAxis order nknots k x = none) ∧
    ((k 0 < x ∧ x ≤ k (nknots-1)) → ∃ c, searchAxis order nknots k x = some c ∧
        order ≤ c ∧ c ≤ nknots - order - 2 ∧
        (x < k order → c = order) ∧
        (k (nknots-order-1) ≤ x → c = nknots-order-2) ∧
        (k order ≤ x → x < k (nknots-order-1) → k c ≤ x ∧ x < k (c+1))) := by
  constructor
  · intro h
    unfold searchAxis
    simp only [Cmp.lt, Cmp.le, Bool.or_eq_true, decide_eq_true_eq]
    have : x ≤ k 0 ∨ k (nknots-1) < x := by
      by_cases h0 : k 0 < x
      · right; exact not_le.mp (fun h1 => h ⟨h0, h1⟩)
      · left; exact not_lt.mp h0
    simp [this]
  · intro ⟨h0, h1⟩
    unfold searchAxis
    simp only [Cmp.lt, Cmp.le, Bool.or_eq_true, decide_eq_true_eq]
    have hn0 : ¬ (x ≤ k 0 ∨ k (nknots-1) < x) := by
      intro h; rcases h with h | h
      · exact absurd h0 (not_lt.mpr h)
      · exact absurd h1 (not_le.mpr h)
    simp only [hn0, if_false]
    by_cases ha : x < k order
    · simp only [ha, if_true]
      refine ⟨order, rfl, Nat.le_refl _, by omega, fun _ => rfl, ?_, ?_⟩
      · intro hb
        have : k order ≤ k (nknots-order-1) := hmono _ _ (by omega)
        exact absurd (lt_of_lt_of_le ha (le_trans this hb)) (lt_irrefl _)
      · intro hb; exact absurd ha (not_lt.mpr hb)
    · simp only [ha, if_false]
      by_cases hb : k (nknots-order-1) ≤ x
      · simp only [hb, if_true]
        refine ⟨nknots-order-1-1, rfl, by omega, by omega, fun h => h.elim, fun _ => by omega, ?_⟩
        intro _ hc; exact absurd hb (not_le.mpr hc)
      · simp only [hb, if_false]
        have hx1 : k order ≤ x := not_lt.mp ha
        have hx2 : x < k (nknots-order-1) := not_le.mp hb
        have hx3 : x < k (nknots-2+1) := lt_of_lt_of_le hx2 (hmono _ _ (by omega))
        obtain ⟨c, hc1, hc2, hc3, hc4, hc5⟩ :=
          bsearch_spec k x hmono nknots order (nknots-2) (by omega) (by omega) hx1 hx3
        have hcn : c < nknots-order-1 := by
          rcases Nat.lt_or_ge c (nknots-order-1) with h | h
          · exact h
          · exact absurd (lt_of_lt_of_le hx2 (le_trans (hmono _ _ h) hc4)) (lt_irrefl _)
        simp only [hc1]
        have hne : c ≠ nknots-order-1 := by omega
        simp only [hne, if_false]
        exact ⟨c, rfl, hc2, by omega, fun h => h.elim, fun h => h.elim, fun _ _ => ⟨hc4, hc5⟩⟩

end Ps
#print axioms Ps.searchAxis_spec
