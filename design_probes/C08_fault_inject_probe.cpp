#include <photospline/splinetable.h>
#include <dlfcn.h>
#include <cstdio>
#include <cerrno>
static int g_fail_at=-1, g_count=0; static int g_log=0;
extern "C" size_t fwrite(const void* p,size_t s,size_t n,FILE* f){
  static auto real=(size_t(*)(const void*,size_t,size_t,FILE*))dlsym(RTLD_NEXT,"fwrite");
  if(f!=stdout && f!=stderr){ int k=g_count++; if(g_log) fprintf(stderr,"[op %d fwrite %zu]\n",k,s*n); if(k==g_fail_at){errno=ENOSPC; return 0;} }
  return real(p,s,n,f);
}
extern "C" int fflush(FILE* f){
  static auto real=(int(*)(FILE*))dlsym(RTLD_NEXT,"fflush");
  if(f && f!=stdout && f!=stderr){ int k=g_count++; if(g_log) fprintf(stderr,"[op %d fflush]\n",k); if(k==g_fail_at){errno=ENOSPC; return EOF;} }
  return real(f);
}
extern "C" int fclose(FILE* f){
  static auto real=(int(*)(FILE*))dlsym(RTLD_NEXT,"fclose");
  int k=g_count++; if(g_log) fprintf(stderr,"[op %d fclose]\n",k); int r=real(f); if(k==g_fail_at){errno=ENOSPC; return EOF;} return r;
}
int main(int argc,char**argv){
  photospline::splinetable<> t(argv[1]);
  g_count=0; g_log=1; g_fail_at=-1;
  t.write_fits("/tmp/probe/h/out.fits");
  int total=g_count; g_log=0;
  for(int k=0;k<total;k++){
    g_count=0; g_fail_at=k; bool threw=false;
    try{ t.write_fits("/tmp/probe/h/out.fits"); }catch(std::exception&e){threw=true;}
    g_fail_at=-1;
    bool readok=false, equal=false;
    try{ photospline::splinetable<> r("/tmp/probe/h/out.fits"); readok=true; equal=(r==t);}catch(std::exception&e){}
    printf("fail@%d threw=%d readback_ok=%d equal=%d\n",k,threw,readok,equal);
  }
}
