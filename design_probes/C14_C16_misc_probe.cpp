#include <photospline/splinetable.h>
#include <cstdio>
int main(int argc,char**argv){
  printf("factorial(0)=%u factorial(1)=%u factorial(3)=%u\n",photospline::factorial(0),photospline::factorial(1),photospline::factorial(3));
  photospline::splinetable<> t(argv[1]);
  t.write_key("ABC", std::string("it's"));
  t.write_key("N", 42);
  auto buf=t.write_fits_mem();
  photospline::splinetable<> r; r.read_fits_mem(buf.first,buf.second);
  std::string s; r.read_key("ABC",s); printf("ABC -> [%s]\n",s.c_str()); int n=0; bool ok=r.read_key("N",n); printf("N -> %d ok=%d raw=[%s]\n",n,ok,r.get_aux_value("N"));
  try{ t.write_key("A_B", 1); printf("A_B accepted\n"); }catch(std::exception&e){ printf("A_B rejected: %.60s\n",e.what()); }
  free(buf.first);
}
