// C20 correspondence harness: random operation histories on splinetable<CountingAlloc> (the real code,
// built from /repo's working tree), with one injected allocation failure at every position and a failing
// read at every stage.  For every executed operation one line goes to the cases file (input of the Lean
// driver `psvdriver C20`) and one to the impl file (result, allocator events, abstract state, ledger totals).
//
// Besides allocation failures and failing reads the histories contain fits whose GLAM step fails (the call of
// glamfit_complex is redirected with -Wl,--wrap to a wrapper which returns 1 when armed) and writes which hit an
// I/O error (a path that cannot be created; a cfitsio output step or libc fwrite failing, interposed in this
// executable and forwarded with dlsym(RTLD_NEXT) as in c08_harness.cpp), and the stacking constructor.
//
// usage: c20_harness <cases> <impl> <stats.json> <first_seq> <n_seq> <scratch_dir>
//        c20_harness probe <name> <scratch_dir>     one known-defect demonstration in a process of its own
// Failing reads are produced at EVERY stage of read_fits / read_fits_mem / read_fits_core, on the disk and the memory
// route: (a) damaged real files (garbage, missing, no ORDERi, no KNOTSi, empty primary array, KNOTSi not non-decreasing,
// KNOTSi of the wrong length), (b) the real file cut short at every FITS block boundary and inside every block, (c) every
// cfitsio call the reader makes (open, HDU count / move, image dimension, header space, ORDER / ORDERi / PERIODi keys,
// image size, coefficient pixels, per knot vector: move by name / size / pixels, EXTENTS: move / size / pixels, close)
// made to fail in turn, once or for good (interposed entry points).  The stage at which such a read ends (FileDesc.kind
// of the model) is worked out by `ref_walk`, an independent restatement of the reader as its cfitsio call sequence.
//
// env:   VERIF_SEED; PSV_ONLY="seq fail rfop rfkind rfarg" runs that single variant; PSV_KEEP="0110..." keeps
//        only the ops whose character is '1' (shrinking); PSV_MAXFAIL caps the failure positions per sequence;
//        PSV_C20_CFG=head|repaired: which stacking constructor the tree has (head: /repo as it is; the harness then
//        does not execute calls that are undefined behaviour there, see `avoided`).
#include "common.h"
#include <dlfcn.h>
#include <cerrno>
#include <fstream>
#include <set>
#include <unistd.h>
#if defined(__SANITIZE_ADDRESS__)
#include <sanitizer/lsan_interface.h>
#define PSV_LSAN 1
#endif

using psv::Rng;

// ------------------------------------------------------------------ counting allocator
struct Ledger {
  std::map<void*, size_t> live;
  std::map<void*, int> arena_of;   // which allocator instance (arena) handed the block out
  long foreign = 0;                 // blocks returned to another arena than the one they came from
  std::vector<std::string> ev;
  long bad = 0, nulld = 0;
  long countdown = -1; // -1: never fail; k>=0: k more allocations succeed, then one throws
  long nalloc = 0;
  size_t bytes() const { size_t s = 0; for (auto& p : live) s += p.second; return s; }
};
static Ledger G;

// The allocator is stateful: every table object is constructed with its own arena number, and a block must go
// back to the arena it came from (instances are NOT interchangeable: operator== compares the arena), as for a
// pool or shared-memory allocator.  A default-constructed allocator is arena 0.
static int g_next_arena = 1;
template <typename T> struct CA {
  typedef T value_type;
  int arena;
  CA() : arena(0) {}
  explicit CA(int a) : arena(a) {}
  template <typename U> CA(const CA<U>& o) : arena(o.arena) {}
  T* allocate(size_t n) {
    if (G.countdown == 0) { G.countdown = -1; throw std::bad_alloc(); }
    if (G.countdown > 0) G.countdown--;
    size_t b = n * sizeof(T);
    void* p = malloc(b ? b : 1);
    G.live[p] = b; G.arena_of[p] = arena; G.nalloc++;
    G.ev.push_back("a" + std::to_string(b));
    return static_cast<T*>(p);
  }
  void deallocate(T* p, size_t n) {
    size_t b = n * sizeof(T);
    if (!p) { G.nulld++; return; } // deallocate(nullptr, n): tolerated, counted
    auto it = G.live.find((void*)p);
    if (it == G.live.end()) { G.bad++; G.ev.push_back("x" + std::to_string(b)); return; }           // double free / foreign
    if (it->second != b) { G.bad++; G.ev.push_back("d" + std::to_string(b)); return; }               // wrong size: block stays live
    if (G.arena_of[(void*)p] != arena) { G.foreign++; G.bad++; }                                      // returned to the wrong arena
    G.ev.push_back("d" + std::to_string(b));
    G.live.erase(it); G.arena_of.erase((void*)p); free(p);
  }
  template <typename U> struct rebind { typedef CA<U> other; };
  bool operator==(const CA& o) const { return arena == o.arena; }
  bool operator!=(const CA& o) const { return arena != o.arena; }
};
template <> struct CA<void> {
  typedef void value_type;
  int arena;
  CA() : arena(0) {}
  explicit CA(int a) : arena(a) {}
  template <typename U> CA(const CA<U>& o) : arena(o.arena) {}
  template <typename U> struct rebind { typedef CA<U> other; };
};
typedef photospline::splinetable<CA<void>> CT;

// ------------------------------------------------------------------ injected GLAM and output failures
static bool g_glam_fail = false; static long g_glam_fired = 0;
extern "C" int __real_glamfit_complex(const struct ndsparse*, const double*, const double* const*, uint32_t, const uint64_t*,
                                      const double* const*, const uint64_t*, float*, const uint32_t*, cholmod_sparse*, uint32_t, int, cholmod_common*);
extern "C" int __wrap_glamfit_complex(const struct ndsparse* d, const double* w, const double* const* c, uint32_t nd, const uint64_t* nk,
                                      const double* const* k, const uint64_t* na, float* co, const uint32_t* o, cholmod_sparse* pen, uint32_t mono, int verbose, cholmod_common* cc) {
  if (g_glam_fail) { g_glam_fired++; return 1; }   // what glamfit_complex reports when the solver gives up ("Solution FAILED")
  return __real_glamfit_complex(d, w, c, nd, nk, k, na, co, o, pen, mono, verbose, cc);
}
// input: the cfitsio entry points read_fits / read_fits_mem / read_fits_core call.  While `g_rd_on`, every call made from
// outside cfitsio (cfitsio calls some of these itself: depth guard) is counted; call number `g_rd_at` reports an error
// (and, `g_rd_sticky`, so does every later one: a medium that has gone away) without doing anything.
static bool g_rd_on = false, g_rd_sticky = false; static long g_rd_at = -1, g_rd_seen = 0, g_rd_fired = 0; static int g_rd_depth = 0;
struct RdDepth { RdDepth() { g_rd_depth++; } ~RdDepth() { g_rd_depth--; } };
static bool rd_hit(int* status) {
  if (!g_rd_on || g_rd_depth != 1) return false;
  long n = g_rd_seen++;
  if (g_rd_at < 0 || !(n == g_rd_at || (g_rd_sticky && n > g_rd_at))) return false;
  if (*status > 0) return false;   // cfitsio's convention: a call entered with an error status does nothing and returns it
  g_rd_fired++; return true;
}
struct RdArm {
  RdArm(long at, bool sticky) { g_rd_on = true; g_rd_at = at; g_rd_sticky = sticky; g_rd_seen = 0; g_rd_fired = 0; }
  ~RdArm() { g_rd_on = false; g_rd_at = -1; }
};
// output: which step fails (0 = none).  1 ffcrim (create image), 2 ffppx (write pixels), 3 ffpky (write key), 4 ffclos (close),
// 5 libc fwrite (ENOSPC, every write from now on); `g_io_nth`: the n-th call of that kind (0 or 1; both always happen).
static int g_io_kind = 0, g_io_nth = 0, g_io_seen = 0; static long g_io_fired = 0;
static bool io_hit(int kind) { if (g_io_kind != kind) return false; if (g_io_seen++ != g_io_nth) return false; g_io_fired++; return true; }
extern "C" int ffcrim(fitsfile* f, int bitpix, int naxis, long* naxes, int* status) {
  static auto real = (int (*)(fitsfile*, int, int, long*, int*))dlsym(RTLD_NEXT, "ffcrim");
  if (io_hit(1)) { *status = WRITE_ERROR; return *status; }
  return real(f, bitpix, naxis, naxes, status);
}
extern "C" int ffppx(fitsfile* f, int dt, long* fp, LONGLONG n, void* a, int* status) {
  static auto real = (int (*)(fitsfile*, int, long*, LONGLONG, void*, int*))dlsym(RTLD_NEXT, "ffppx");
  if (io_hit(2)) { *status = WRITE_ERROR; return *status; }
  return real(f, dt, fp, n, a, status);
}
extern "C" int ffpky(fitsfile* f, int dt, const char* k, void* v, const char* c, int* status) {
  static auto real = (int (*)(fitsfile*, int, const char*, void*, const char*, int*))dlsym(RTLD_NEXT, "ffpky");
  if (io_hit(3)) { *status = WRITE_ERROR; return *status; }
  return real(f, dt, k, v, c, status);
}
extern "C" int ffclos(fitsfile* f, int* status) {
  static auto real = (int (*)(fitsfile*, int*))dlsym(RTLD_NEXT, "ffclos");
  if (io_hit(4)) { int s = 0; real(f, &s); *status = FILE_NOT_CLOSED; return *status; } // handle released, error reported (a failing fclose)
  RdDepth d; if (rd_hit(status)) { int s = 0; real(f, &s); *status = FILE_NOT_CLOSED; return *status; }
  return real(f, status);
}
extern "C" size_t fwrite(const void* p, size_t sz, size_t n, FILE* f) {
  static auto real = (size_t(*)(const void*, size_t, size_t, FILE*))dlsym(RTLD_NEXT, "fwrite");
  if (g_io_kind == 5 && f != stdout && f != stderr) { g_io_fired++; errno = ENOSPC; return 0; }
  return real(p, sz, n, f);
}

// input: the cfitsio entry points the reader calls (counter and arming: see above)
extern "C" int ffdkopn(fitsfile** f, const char* name, int mode, int* status) {
  static auto real = (int (*)(fitsfile**, const char*, int, int*))dlsym(RTLD_NEXT, "ffdkopn");
  RdDepth d; if (rd_hit(status)) { *f = nullptr; *status = FILE_NOT_OPENED; return *status; }
  return real(f, name, mode, status);
}
extern "C" int ffomem(fitsfile** f, const char* name, int mode, void** buf, size_t* sz, size_t delta, void* (*re)(void*, size_t), int* status) {
  static auto real = (int (*)(fitsfile**, const char*, int, void**, size_t*, size_t, void* (*)(void*, size_t), int*))dlsym(RTLD_NEXT, "ffomem");
  RdDepth d; if (rd_hit(status)) { *f = nullptr; *status = FILE_NOT_OPENED; return *status; }
  return real(f, name, mode, buf, sz, delta, re, status);
}
extern "C" int ffthdu(fitsfile* f, int* n, int* status) {
  static auto real = (int (*)(fitsfile*, int*, int*))dlsym(RTLD_NEXT, "ffthdu");
  RdDepth d; if (rd_hit(status)) { *status = READ_ERROR; return *status; }
  return real(f, n, status);
}
extern "C" int ffmahd(fitsfile* f, int hdu, int* type, int* status) {
  static auto real = (int (*)(fitsfile*, int, int*, int*))dlsym(RTLD_NEXT, "ffmahd");
  RdDepth d; if (rd_hit(status)) { *status = READ_ERROR; return *status; }
  return real(f, hdu, type, status);
}
extern "C" int ffgidm(fitsfile* f, int* naxis, int* status) {
  static auto real = (int (*)(fitsfile*, int*, int*))dlsym(RTLD_NEXT, "ffgidm");
  RdDepth d; if (rd_hit(status)) { *status = READ_ERROR; return *status; }
  return real(f, naxis, status);
}
extern "C" int ffghsp(fitsfile* f, int* nexist, int* nmore, int* status) {
  static auto real = (int (*)(fitsfile*, int*, int*, int*))dlsym(RTLD_NEXT, "ffghsp");
  RdDepth d; if (rd_hit(status)) { *status = READ_ERROR; return *status; }
  return real(f, nexist, nmore, status);
}
extern "C" int ffgky(fitsfile* f, int dt, const char* key, void* v, char* comm, int* status) {
  static auto real = (int (*)(fitsfile*, int, const char*, void*, char*, int*))dlsym(RTLD_NEXT, "ffgky");
  RdDepth d; if (rd_hit(status)) { *status = READ_ERROR; return *status; }
  return real(f, dt, key, v, comm, status);
}
extern "C" int ffgisz(fitsfile* f, int nlen, long* naxes, int* status) {
  static auto real = (int (*)(fitsfile*, int, long*, int*))dlsym(RTLD_NEXT, "ffgisz");
  RdDepth d; if (rd_hit(status)) { *status = READ_ERROR; return *status; }
  return real(f, nlen, naxes, status);
}
extern "C" int ffgpxv(fitsfile* f, int dt, long* fp, LONGLONG n, void* nul, void* arr, int* anynul, int* status) {
  static auto real = (int (*)(fitsfile*, int, long*, LONGLONG, void*, void*, int*, int*))dlsym(RTLD_NEXT, "ffgpxv");
  RdDepth d; if (rd_hit(status)) { *status = READ_ERROR; return *status; }
  return real(f, dt, fp, n, nul, arr, anynul, status);
}
extern "C" int ffmnhd(fitsfile* f, int type, char* name, int vers, int* status) {
  static auto real = (int (*)(fitsfile*, int, char*, int, int*))dlsym(RTLD_NEXT, "ffmnhd");
  RdDepth d; if (rd_hit(status)) { *status = READ_ERROR; return *status; }
  return real(f, type, name, vers, status);
}

// fits_read_keyn (the reader's two passes over the header keys) is only made to fail by the probe `read-keyn-transient`:
// call number g_kn_at made by the reader reports an error, every other one is served
static long g_kn_at = -1, g_kn_seen = 0;
extern "C" int ffgkyn(fitsfile* f, int n, char* key, char* value, char* comm, int* status) {
  static auto real = (int (*)(fitsfile*, int, char*, char*, char*, int*))dlsym(RTLD_NEXT, "ffgkyn");
  RdDepth d;
  if (g_rd_on && g_rd_depth == 1 && g_kn_seen++ == g_kn_at && *status <= 0) { *status = READ_ERROR; return *status; }
  return real(f, n, key, value, comm, status);
}

// What a read of this input ends in: an independent restatement of read_fits / read_fits_mem / read_fits_core as the sequence
// of cfitsio calls they make and of their reaction to each status and value (no table, no allocator).  `kind`/`arg` = the
// stage of the model's FileDesc (0: the read succeeds); `ncalls` = how many cfitsio calls were made.
struct RdPlan { int kind = 0, arg = 0; bool hasKeys = true; long ncalls = 0; };
static RdPlan ref_walk(bool mem, const std::string& path, std::vector<char>& buf, long at, bool sticky) {
  RdArm arm(at, sticky);
  RdPlan p; fitsfile* ff = nullptr; int err = 0;
  auto done = [&](int kind, int arg) { p.kind = kind; p.arg = arg; if (ff) { int e = 0; fits_close_file(ff, &e); } p.ncalls = g_rd_seen; return p; };
  if (mem) { void* b = buf.data(); size_t sz = buf.size(); fits_open_memfile(&ff, "", READONLY, &b, &sz, 0, NULL, &err); }
  else fits_open_diskfile(&ff, path.c_str(), READONLY, &err);
  if (err) { ff = nullptr; return done(1, 0); }
  int hdus = 0, type = -1; fits_get_num_hdus(ff, &hdus, &err); fits_movabs_hdu(ff, 1, &type, &err);
  if (err || type != IMAGE_HDU) return done(1, 0);
  int nd = 0; fits_get_img_dim(ff, &nd, &err);
  if (err || nd < 1) return done(1, 0);
  int nkeys = 0; fits_get_hdrspace(ff, &nkeys, NULL, &err);
  p.hasKeys = nkeys > 0;
  if (nkeys > 0) err = 0; // the two loops over the keys (fits_read_keyn, not interposed) clear the status and end with a key that can be read
  std::vector<unsigned> ord(nd); int o0 = 0;
  fits_read_key(ff, TINT, "ORDER", &o0, NULL, &err);
  if (err) { err = 0;
    for (int i = 0; i < nd; i++) { fits_read_key(ff, TUINT, ("ORDER" + std::to_string(i)).c_str(), &ord[i], NULL, &err); if (err) return done(2, 0); }
  } else for (int i = 0; i < nd; i++) ord[i] = o0;
  for (int i = 0; i < nd; i++) { double per; fits_read_key(ff, TDOUBLE, ("PERIOD" + std::to_string(i)).c_str(), &per, NULL, &err); err = 0; }
  std::vector<long> nax(nd, 0); fits_get_img_size(ff, nd, nax.data(), &err);
  if (err) return done(4, 0);
  uint64_t nco = 1; for (int i = 0; i < nd; i++) { if (nax[i] < 0) return done(4, 0); nco *= (uint64_t)nax[i]; }
  { std::vector<float> co(nco + 1); std::vector<long> fp(nd, 1);
    fits_read_pix(ff, TFLOAT, fp.data(), nco, NULL, co.data(), NULL, &err); if (err) return done(5, 0); }
  for (int i = 0; i < nd; i++) {
    std::string name = "KNOTS" + std::to_string(i);
    fits_movnam_hdu(ff, IMAGE_HDU, const_cast<char*>(name.c_str()), 0, &err);
    long nk = 0; fits_get_img_size(ff, 1, &nk, &err);
    if (err || nk <= 0) return done(3, i);
    uint64_t nax_i = (uint64_t)nax[nd - 1 - i];
    if ((uint64_t)nk < 2 * (uint64_t)ord[i] + 2 || nax_i != (uint64_t)nk - ord[i] - 1) return done(3, i);
    std::vector<double> kn(nk); long fpix = 1;
    fits_read_pix(ff, TDOUBLE, &fpix, nk, NULL, kn.data(), NULL, &err); if (err) return done(6, i);
    for (long j = 0; j < nk; j++) if (!std::isfinite(kn[j]) || (j > 0 && kn[j] < kn[j - 1])) return done(6, i);
  }
  { long ne = 0, fpix = 1; int xe = 0;
    fits_movnam_hdu(ff, IMAGE_HDU, const_cast<char*>("EXTENTS"), 0, &xe); fits_get_img_size(ff, 1, &ne, &xe);
    if (ne != 2 * nd) xe = 1;
    if (!xe) { std::vector<double> ex(ne); fits_read_pix(ff, TDOUBLE, &fpix, ne, NULL, ex.data(), NULL, &xe); if (xe) return done(7, 0); } }
  return done(0, 0);
}

// ------------------------------------------------------------------ files
struct AuxD { int id; size_t k, raw, stored; };
struct FileInfo {
  std::string path, noOrder, garbage, missing, naxis0, noExtents;
  std::vector<std::string> noKnots, badKnots, longKnots;
  size_t size = 0;   // bytes of `path`
  long ncalls = 0;   // cfitsio calls a successful read of `path` makes (the same on the disk and the memory route)
  std::vector<std::array<size_t, 3>> dims; // order nknots naxes
  bool hasKeys = true;
  std::vector<AuxD> aux;
};
static const char* KEYS[] = {"", "KEYA", "KEYB", "K3", "LONGISH_HIERARCH_KEY", "KEYE"};
static const int NKEYS = 5;
static int key_id(const char* k) { for (int i = 1; i <= NKEYS; i++) if (!strcmp(k, KEYS[i])) return i; return 100 + (int)strlen(k); }
static bool reserved(const char* key) { // independent restatement of the reader's filter
  const char* p[] = {"BITPIX", "SIMPLE", "TYPE", "ORDER", "NAXIS", "PERIOD", "EXTEND", "COMMENT"};
  for (auto q : p) if (!strncmp(q, key, strlen(q))) return true;
  return false;
}
static std::vector<char> slurp(const std::string& p) {
  std::ifstream f(p, std::ios::binary); return std::vector<char>((std::istreambuf_iterator<char>(f)), std::istreambuf_iterator<char>());
}
static void copy_file(const std::string& a, const std::string& b) { std::ofstream(b, std::ios::binary) << std::ifstream(a, std::ios::binary).rdbuf(); }

static FileInfo make_file(Rng& r, const std::string& dir, int idx) {
  FileInfo f;
  int nd = r.range(1, 3);
  std::vector<uint32_t> ord; std::vector<std::vector<double>> kn;
  for (int d = 0; d < nd; d++) { int o = r.range(1, 3); /* order >= 1: convolving an order-0 dimension runs into the factorial(0) defect (C14), ~10 s per call */ ord.push_back(o); kn.push_back(psv::gen_knots(r, o, r.range(0, 3), 0)); }
  std::vector<float> coef(psv::ncoef(ord, kn)); for (auto& c : coef) c = (float)r.unit();
  f.path = dir + "/t" + std::to_string(idx) + ".fits";
  {
    psv::Table t; psv::build_table(t, ord, kn, coef);
    int nk = r.range(0, 3);
    std::set<int> used;
    for (int k = 0; k < nk; k++) {
      int id = r.range(1, NKEYS); if (used.count(id)) continue; used.insert(id);
      if (r.coin()) t.write_key(KEYS[id], std::string("v") + std::to_string(r.below(100000)));
      else t.write_key(KEYS[id], (int)r.below(1000));
    }
    t.write_fits(f.path);
  }
  for (int d = 0; d < nd; d++) f.dims.push_back({{ord[d], kn[d].size(), kn[d].size() - ord[d] - 1}});
  { // what the reader will find, through cfitsio directly
    fitsfile* ff; int err = 0, nkeys = 0; fits_open_diskfile(&ff, f.path.c_str(), READONLY, &err);
    fits_get_hdrspace(ff, &nkeys, NULL, &err); f.hasKeys = nkeys > 0;
    char key[FLEN_KEYWORD], value[FLEN_VALUE];
    for (int j = 1; j - 1 < nkeys; j++) {
      err = 0; fits_read_keyn(ff, j, key, value, NULL, &err);
      if (err || reserved(key)) continue;
      size_t raw = strlen(value) + 1, st = raw;
      if (raw > 1 && value[0] == '\'') st = (raw > 2 && value[raw - 2] == '\'') ? raw - 2 : raw - 1;
      f.aux.push_back({key_id(key), strlen(key) + 1, raw, st});
    }
    err = 0; fits_close_file(ff, &err);
  }
  f.noOrder = dir + "/t" + std::to_string(idx) + ".noorder.fits"; copy_file(f.path, f.noOrder);
  { fitsfile* ff; int err = 0; fits_open_diskfile(&ff, f.noOrder.c_str(), READWRITE, &err);
    for (int d = 0; d < nd; d++) { err = 0; fits_delete_key(ff, ("ORDER" + std::to_string(d)).c_str(), &err); }
    err = 0; fits_close_file(ff, &err); }
  for (int d = 0; d < nd; d++) {
    std::string p = dir + "/t" + std::to_string(idx) + ".noknots" + std::to_string(d) + ".fits"; copy_file(f.path, p);
    fitsfile* ff; int err = 0, type; fits_open_diskfile(&ff, p.c_str(), READWRITE, &err);
    fits_movnam_hdu(ff, IMAGE_HDU, const_cast<char*>(("KNOTS" + std::to_string(d)).c_str()), 0, &err);
    fits_delete_hdu(ff, &type, &err); err = 0; fits_close_file(ff, &err);
    f.noKnots.push_back(p);
  }
  for (int d = 0; d < nd; d++) { // KNOTS<d> present but not non-decreasing: the read fails after that knot vector was allocated
    std::string p = dir + "/t" + std::to_string(idx) + ".badknots" + std::to_string(d) + ".fits"; copy_file(f.path, p);
    fitsfile* ff; int err = 0; fits_open_diskfile(&ff, p.c_str(), READWRITE, &err);
    fits_movnam_hdu(ff, IMAGE_HDU, const_cast<char*>(("KNOTS" + std::to_string(d)).c_str()), 0, &err);
    long fpix = 1 + (long)r.below(kn[d].size() - 1) + 1; double v = r.coin() ? kn[d][fpix - 2] - 1.0 : std::numeric_limits<double>::quiet_NaN();
    fits_write_pix(ff, TDOUBLE, &fpix, 1, &v, &err); err = 0; fits_close_file(ff, &err);
    f.badKnots.push_back(p);
  }
  for (int d = 0; d < nd; d++) { // KNOTS<d> one element longer (or shorter) than the coefficient array allows: fails before the allocation
    std::string p = dir + "/t" + std::to_string(idx) + ".longknots" + std::to_string(d) + ".fits"; copy_file(f.path, p);
    fitsfile* ff; int err = 0; fits_open_diskfile(&ff, p.c_str(), READWRITE, &err);
    fits_movnam_hdu(ff, IMAGE_HDU, const_cast<char*>(("KNOTS" + std::to_string(d)).c_str()), 0, &err);
    long n = (long)kn[d].size() + (r.coin() ? 1 : -1); fits_resize_img(ff, DOUBLE_IMG, 1, &n, &err); err = 0; fits_close_file(ff, &err);
    f.longKnots.push_back(p);
  }
  f.naxis0 = dir + "/t" + std::to_string(idx) + ".naxis0.fits"; // a legal FITS file whose primary array is empty (NAXIS = 0), data in an extension
  { fitsfile* ff; int err = 0; fits_create_file(&ff, ("!" + f.naxis0).c_str(), &err); long none = 0, n = 4; float v[4] = {1, 2, 3, 4}; long fp = 1;
    fits_create_img(ff, FLOAT_IMG, 0, &none, &err); fits_create_img(ff, FLOAT_IMG, 1, &n, &err); fits_write_pix(ff, TFLOAT, &fp, 4, v, &err); err = 0; fits_close_file(ff, &err); }
  f.noExtents = dir + "/t" + std::to_string(idx) + ".noextents.fits"; copy_file(f.path, f.noExtents); // as written by old versions: the reader makes extents up
  { fitsfile* ff; int err = 0, type; fits_open_diskfile(&ff, f.noExtents.c_str(), READWRITE, &err);
    fits_movnam_hdu(ff, IMAGE_HDU, const_cast<char*>("EXTENTS"), 0, &err); fits_delete_hdu(ff, &type, &err); err = 0; fits_close_file(ff, &err); }
  f.size = slurp(f.path).size();
  { std::vector<char> none; f.ncalls = ref_walk(false, f.path, none, -1, false).ncalls; }
  f.garbage = dir + "/t" + std::to_string(idx) + ".garbage.fits";
  { std::ofstream g(f.garbage, std::ios::binary); for (int i = 0; i < 3000; i++) g.put((char)r.below(256)); }
  f.missing = dir + "/does-not-exist-" + std::to_string(idx) + ".fits";
  return f;
}

// ------------------------------------------------------------------ operations
struct Op {
  char tag; int i = 0, j = 0;
  // F R M: which file, and the class of input (`kind`): 0 the file as written; 1 garbage (arg odd) / no such file (arg even); 2 no ORDERi keys;
  // 3 no KNOTS<arg> extension; 4 empty primary array (NAXIS = 0); 5 KNOTS<arg> not finite and non-decreasing; 6 KNOTS<arg> of the wrong length;
  // 7 no EXTENTS extension (not a failure: the reader makes extents up); 10 the file cut to `arg` bytes; 11 the reader's cfitsio call number `arg` fails; 12 that call and every later one fail
  int file = 0, kind = 0, arg = 0;
  int mkind = 0, marg = 0; bool mkeys = true;  // F R M: what ref_walk says such a read ends in (the model's FileDesc.kind / arg / hasKeys); not serialised
  int wkind = 0, keyid = 0; std::string key, sval; bool isint = false; int ival = 0; // W K G
  bool valid = true; int order = 2, nknots = 10; // T
  int dim = 0, nk = 1;                           // V
  std::vector<size_t> perm;                      // P; Y: the source slots
  int glam = 1;                                  // T: 0 = the GLAM step fails
  int io = 0, ionth = 0;                         // O Q: 0 no failure; 1..5 see g_io_kind; 6 (O) a path that cannot be created
};

static std::string tok(const std::string& x) { return x.empty() ? "-" : x; }
static std::string ser(const Op& o) {
  std::ostringstream s; s << o.tag << " " << o.i << " " << o.j << " " << o.file << " " << o.kind << " " << o.arg << " " << o.wkind << " " << o.keyid << " "
    << tok(o.key) << " " << tok(o.sval) << " " << o.isint << " " << o.ival << " " << o.valid << " " << o.order << " " << o.nknots << " " << o.dim << " " << o.nk << " " << o.glam << " " << o.io << " " << o.ionth << " " << o.perm.size();
  for (auto p : o.perm) s << " " << p;
  return s.str();
}
static Op deser(const std::string& line) {
  std::istringstream s(line); Op o; size_t np = 0; s >> o.tag >> o.i >> o.j >> o.file >> o.kind >> o.arg >> o.wkind >> o.keyid >> o.key >> o.sval >> o.isint >> o.ival >> o.valid >> o.order >> o.nknots >> o.dim >> o.nk >> o.glam >> o.io >> o.ionth >> np;
  if (o.key == "-") o.key.clear(); if (o.sval == "-") o.sval.clear();
  o.perm.resize(np); for (size_t k = 0; k < np; k++) s >> o.perm[k];
  return o;
}

static const int NSLOT = 3;
static CT* slot[NSLOT];
static std::vector<FileInfo> files;
static std::string scratch;
static std::map<std::string, long> stats;

static std::string file_desc(const FileInfo& f, int kind, int arg, bool hasKeys) {
  std::ostringstream s; s << kind << " " << arg << " " << f.dims.size();
  for (auto& d : f.dims) s << " " << d[0] << " " << d[1] << " " << d[2];
  s << " " << (hasKeys ? 1 : 0) << " " << f.aux.size();
  for (auto& a : f.aux) s << " " << a.id << " " << a.k << " " << a.raw << " " << a.stored;
  return s.str();
}
static std::string op_line(const Op& o) {
  std::ostringstream s; s << o.tag << " " << o.i;
  switch (o.tag) {
    case 'F': case 'R': case 'M': s << " " << file_desc(files[o.file], o.mkind, o.marg, o.mkeys); break;
    case 'T': s << " " << (o.valid ? 1 : 0) << " " << (o.glam ? 1 : 0) << " 1 " << o.order << " " << o.nknots; break;
    case 'O': case 'Q': s << " " << (o.io == 0 ? 1 : 0); break;
    case 'Y': s << " " << o.nk << " " << o.perm.size(); for (auto p : o.perm) s << " " << p; break;
    case 'W': s << " " << o.wkind << " " << o.keyid << " " << o.key.size() + 1 << " " << (o.isint ? std::to_string(o.ival).size() : o.sval.size()) + 1; break;
    case 'K': case 'G': s << " " << o.keyid; break;
    case 'V': s << " " << o.dim << " " << o.nk; break;
    case 'P': s << " " << o.perm.size(); for (auto p : o.perm) s << " " << p; break;
    case 'X': case 'A': case 'E': s << " " << o.j; break;
    default: break;
  }
  return s.str();
}
static std::string file_path(const Op& o) {
  const FileInfo& f = files[o.file];
  switch (o.kind) {
    case 0: case 11: case 12: return f.path;
    case 2: return f.noOrder;
    case 3: return f.noKnots[o.arg];
    case 4: return f.naxis0;
    case 5: return f.badKnots[o.arg];
    case 6: return f.longKnots[o.arg];
    case 7: return f.noExtents;
    case 10: { // the first `arg` bytes of the file (an interrupted copy), made when first needed
      std::string p = f.path + ".cut" + std::to_string(o.arg);
      if (access(p.c_str(), F_OK) != 0) { std::vector<char> b = slurp(f.path); b.resize(std::min(b.size(), (size_t)o.arg)); std::ofstream(p, std::ios::binary).write(b.data(), b.size()); }
      return p; }
    default: return (o.arg % 2) ? f.garbage : f.missing;
  }
}
// the bytes handed to read_fits_mem
static std::vector<char> mem_image(const Op& o) {
  if (o.kind == 1) return slurp(files[o.file].garbage);
  if (o.kind == 10) { std::vector<char> b = slurp(files[o.file].path); b.resize(std::min(b.size(), (size_t)o.arg)); return b; }
  return slurp(file_path(o));
}
static long rd_at(const Op& o) { return (o.kind == 11 || o.kind == 12) ? o.arg : -1; }
// fills in what the read will end in (ref_walk); the classes whose stage is known by construction are checked against it
static void plan_read(Op& o) {
  std::vector<char> buf; std::string path;
  if (o.tag == 'M') buf = mem_image(o); else path = file_path(o);
  RdPlan p = ref_walk(o.tag == 'M', path, buf, rd_at(o), o.kind == 12);
  o.mkind = p.kind; o.marg = p.arg; o.mkeys = p.hasKeys;
  int ek = -1, ea = 0;
  switch (o.kind) { case 0: case 7: ek = 0; break; case 1: case 4: ek = 1; break; case 2: ek = 2; break; case 3: case 6: ek = 3; ea = o.arg; break; case 5: ek = 6; ea = o.arg; break; default: break; }
  if (ek >= 0 && (ek != p.kind || ea != p.arg || !p.hasKeys)) { stats["refwalk_disagrees"]++; fprintf(stderr, "REFWALK class %d arg %d: expected stage %d %d, ref_walk says %d %d\n", o.kind, o.arg, ek, ea, p.kind, p.arg); }
}

// `extents` is reported separately: the destructor and write_fits test it, everything else does not
static char core_state(const CT* t) {
  int n = (t->order != nullptr) + (t->knots != nullptr) + (t->nknots != nullptr) + (t->coefficients != nullptr) + (t->naxes != nullptr) + (t->strides != nullptr);
  return n == 6 ? 'y' : (n == 0 ? 'n' : 'p');
}
static std::string state_str() {
  std::ostringstream s;
  for (int i = 0; i < NSLOT; i++) {
    if (i) s << " ";
    CT* t = slot[i];
    if (!t) { s << "-"; continue; }
    s << t->ndim << "," << t->naux << "," << core_state(t) << "," << (t->periods != nullptr ? 1 : 0) << "," << (t->aux != nullptr ? 1 : 0) << "," << (t->extents != nullptr ? 1 : 0);
  }
  return s.str();
}
// content digest of a consistent object (oracle: a failed call leaves the object unchanged or empty)
static std::string digest(const CT* t) {
  if (!t) return "dead";
  char c = core_state(t);
  if (t->ndim == 0) return (c == 'n' && t->naux == 0 && !t->aux && !t->periods && !t->extents) ? "empty" : "empty-but-owning";
  if (c != 'y') return "partial";
  uint64_t h = 1469598103934665603ULL; auto mix = [&](uint64_t v) { h = (h ^ v) * 1099511628211ULL; };
  mix(t->ndim);
  for (uint32_t i = 0; i < t->ndim; i++) { mix(t->order[i]); mix(t->nknots[i]); mix(t->naxes[i]); mix(t->strides[i]);
    if (!t->knots[i]) return "partial";
    for (uint64_t k = 0; k < t->nknots[i]; k++) mix(psv::cbits(t->knots[i][k])); }
  uint64_t nc = t->strides[0] * t->naxes[0];
  for (uint64_t k = 0; k < nc; k++) mix(psv::cbits(t->coefficients[k]));
  mix(t->extents != nullptr);
  if (t->extents) for (uint32_t i = 0; i < t->ndim; i++) { mix(psv::cbits(t->extents[i][0])); mix(psv::cbits(t->extents[i][1])); }
  mix(t->naux);
  for (uint32_t i = 0; i < t->naux; i++) { for (const char* p = t->aux[i][0]; *p; p++) mix(*p); mix(0); for (const char* p = t->aux[i][1]; *p; p++) mix(*p); }
  return std::to_string(h);
}

static bool do_fit(CT* t, const Op& o) {
  const int N = 10;
  photospline::ndsparse data(N, 1);
  for (unsigned j = 0; j < (unsigned)N; j++) { unsigned idx = j; data.insertEntry(std::sin(0.7 * j) + 0.01 * j, &idx); }
  std::vector<double> w(o.valid ? N : N - 1, 1.0);
  std::vector<std::vector<double>> coords(1), knots(1);
  for (int j = 0; j < N; j++) coords[0].push_back(j);
  double lo = -o.order - 0.5, hi = N - 1 + o.order + 0.5;
  for (int k = 0; k < o.nknots; k++) knots[0].push_back(lo + (hi - lo) * k / (o.nknots - 1));
  std::vector<uint32_t> ord(1, o.order), pen(1, o.order);
  std::vector<double> smooth(1, 0.1);
  struct Arm { Arm(bool f) { g_glam_fail = f; } ~Arm() { g_glam_fail = false; } } arm(o.glam == 0);
  t->fit(data, w, coords, ord, knots, smooth, pen, CT::no_monodim, false);
  return true;
}

static bool g_cfg_repaired = false;
// independent restatement of what the stacking constructor needs (its own checks are `assert`s, and not all of them)
static bool stack_args_ok(const std::vector<CT*>& v) {
  if (v.size() < 2) return false;
  const CT* f = v.front();
  if (f->ndim == 0 || !f->extents || !v.back()->extents) return false;
  for (const CT* t : v) { if (t->ndim != f->ndim) return false;
    for (uint32_t d = 0; d < f->ndim; d++) if (t->order[d] != f->order[d] || t->nknots[d] != f->nknots[d] || t->naxes[d] != f->naxes[d]) return false; }
  return true;
}
struct IoArm {
  IoArm(int kind, int nth) { g_io_kind = (kind >= 1 && kind <= 5) ? kind : 0; g_io_nth = nth; g_io_seen = 0; g_io_fired = 0; }
  ~IoArm() { g_io_kind = 0; }
};

// evidence: which failing-read stages were reached by which route and class of input (counted when the call is over; only reads
// which got as far as the reader, i.e. into an empty table)
struct ReadStat {
  const Op& o; bool reached, ok = false;
  ReadStat(const Op& op, bool r) : o(op), reached(r) {}
  ~ReadStat() {
    if (!reached) return;
    const char* route = o.tag == 'M' ? "mem" : (o.tag == 'F' ? "ctor" : "disk");
    const char* cls = o.kind == 10 ? "cut" : (o.kind >= 11 ? (o.kind == 11 ? "call" : "callsticky") : "file");
    if (ok) { if (o.kind) stats[std::string("read_") + route + "_" + cls + "_succeeded"]++; return; }
    stats[std::string("readfail_") + route + "_stage" + std::to_string(o.mkind)]++;
    stats[std::string("readfail_") + cls + "_" + (o.tag == 'M' ? "mem" : "disk") + "_stage" + std::to_string(o.mkind)]++;
  }
};

// executes one op on the real objects; returns result token
static std::string exec(const Op& o) {
  CT* a = (o.i >= 0 && o.i < NSLOT) ? slot[o.i] : nullptr;
  CT* b = (o.j >= 0 && o.j < NSLOT) ? slot[o.j] : nullptr;
  try {
    switch (o.tag) {
      case 'C': if (a) return "skip"; slot[o.i] = new CT(CA<void>(g_next_arena++)); return "ok";
      case 'F': { if (a) return "skip";
        // the constructor may throw: then no object exists and no destructor runs
        std::string path = file_path(o); ReadStat rs(o, true); RdArm arm(rd_at(o), o.kind == 12);
        slot[o.i] = new CT(path, CA<void>(g_next_arena++)); rs.ok = true; return "ok"; }
      case 'R': { if (!a) return "skip"; std::string path = file_path(o); ReadStat rs(o, a->ndim == 0); RdArm arm(rd_at(o), o.kind == 12);
        bool r = a->read_fits(path); rs.ok = true; return r ? "tt" : "ff"; }
      case 'M': { if (!a) return "skip"; std::vector<char> buf = mem_image(o); ReadStat rs(o, a->ndim == 0); RdArm arm(rd_at(o), o.kind == 12);
        bool r = a->read_fits_mem(buf.data(), buf.size()); rs.ok = true; return r ? "tt" : "ff"; }
      case 'T': if (!a) return "skip"; do_fit(a, o); return "ok";
      case 'W': if (!a) return "skip"; return (o.isint ? a->write_key(o.key.c_str(), o.ival) : a->write_key(o.key.c_str(), o.sval)) ? "tt" : "ff";
#ifndef PSV_NO_REMOVE_KEY
      case 'K': if (!a) return "skip"; return a->remove_key(o.key.c_str()) ? "tt" : "ff";
#else
      case 'K': return "skip";
#endif
      case 'G': { if (!a) return "skip"; std::string v; bool f1 = a->read_key(o.key.c_str(), v); const char* p = a->get_aux_value(o.key.c_str());
        if (f1 != (p != nullptr)) return "inconsistent"; return f1 ? "tt" : "ff"; }
      // `avoided`: the call would read through the null `extents` of a table made by the stacking constructor (undefined
      // behaviour that would end this process); it is not executed, the model has to predict `crash` (see the probes)
      case 'V': { if (!a) return "skip"; if (a->ndim && !a->extents && (uint32_t)o.dim < a->ndim && o.nk != 0) { stats["avoided_null_extents"]++; return "avoided"; }
        double k[3] = {-0.1, 0.0, 0.1}; a->convolve(o.dim, k, o.nk); return "ok"; }
      case 'P': { if (!a) return "skip";
        if (a->ndim && !a->extents) { std::vector<size_t> q(o.perm); std::sort(q.begin(), q.end()); bool isperm = q.size() == a->ndim; for (size_t k = 0; isperm && k < q.size(); k++) isperm = q[k] == k;
          if (isperm) { stats["avoided_null_extents"]++; return "avoided"; } }
        a->permuteDimensions(o.perm); return "ok"; }
      case 'Y': { if (a) return "skip"; std::vector<CT*> v; for (auto sidx : o.perm) { if (sidx >= (size_t)NSLOT || !slot[sidx]) return "skip"; v.push_back(slot[sidx]); }
        if (!g_cfg_repaired && !stack_args_ok(v)) { stats["avoided_stack_args"]++; return "avoided"; }
        std::vector<double> x; for (size_t k = 0; k < v.size(); k++) x.push_back(1.5 * k);
        slot[o.i] = new CT(v, x, o.nk, CA<void>(g_next_arena++)); return "ok"; }
      case 'X': if (a || !b) return "skip"; slot[o.i] = new CT(std::move(*b)); return "ok";
      case 'A': if (!a || !b) return "skip"; *a = std::move(*b); return "ok";
      case 'E': { if (!a || !b) return "skip"; bool e = (*a == *b); bool ne = (*a != *b); if (e == ne) return "inconsistent"; return e ? "tt" : "ff"; }
      // an armed output failure must make the call throw, and it must be the injected failure that did it (`nofire` otherwise)
      case 'O': case 'Q': { if (!a) return "skip";
        IoArm arm(o.io, o.ionth);
        try {
          if (o.tag == 'O') a->write_fits(o.io == 6 ? scratch + "/no-such-dir/out.fits" : scratch + "/out.fits");
          else { auto r = a->write_fits_mem(); free(r.first); }
        } catch (...) {
          if (a->ndim != 0) { if (o.io >= 1 && o.io <= 5 && !g_io_fired) return "nofire"; if (o.io) stats[o.tag == 'O' ? "write_fits_io_failures" : "write_fits_mem_io_failures"]++; }
          throw;
        }
        return o.io != 0 ? "nofire" : "ok"; }
      case 'D': if (!a) return "skip"; delete a; slot[o.i] = nullptr; return "ok";
    }
  } catch (std::bad_alloc&) { stats["threw_bad_alloc"]++; return "threw";
  } catch (std::exception&) { stats["threw_other"]++; return "threw"; }
  return "skip";
}

// ------------------------------------------------------------------ generation
static Op gen_op(Rng& r, int nconv) {
  Op o; o.i = r.range(0, NSLOT - 1); o.j = r.range(0, NSLOT - 1);
  CT* a = slot[o.i];
  static const char live_ops[] = "RRMTTWWWWKKGVVPPAEOOQQDXRFCY";
  if (!a) { const char c[] = "CCCFFXYY"; o.tag = c[r.below(8)]; }
  else if (a->ndim == 0 && r.coin(2, 3)) { const char c[] = "RRMTTR"; o.tag = c[r.below(6)]; } // populate empty tables most of the time
  else o.tag = live_ops[r.below(sizeof(live_ops) - 1)];
  if (o.tag == 'X' || o.tag == 'A' || o.tag == 'E') { // second operand: prefer a live one
    for (int k = 0; k < 4 && (!slot[o.j] || (o.tag != 'E' && o.j == o.i)); k++) o.j = r.range(0, NSLOT - 1);
    if (o.tag == 'X' && a) o.tag = 'A';
  }
  switch (o.tag) {
    case 'F': case 'R': case 'M': {
      o.file = r.below(files.size());
      const FileInfo& f = files[o.file]; int nd = f.dims.size();
      int c = r.below(14);
      if (c < 7) o.kind = r.coin(1, 8) ? 7 : 0; else if (c < 8) { o.kind = 1; o.arg = r.below(2); } else if (c < 9) o.kind = r.coin(3, 4) ? 2 : 4;
      else if (c < 11) { const int k[] = {3, 3, 5, 6}; o.kind = k[r.below(4)]; o.arg = r.below(nd); }
      else if (c < 12) { o.kind = 10; o.arg = r.coin() ? 2880 * (int)r.below(f.size / 2880) : (int)r.below(f.size); }   // cut at a block boundary / anywhere
      else { o.kind = r.coin() ? 11 : 12; o.arg = r.below(f.ncalls); }
      break; }
    case 'T': o.valid = !r.coin(1, 6); o.order = r.range(1, 2); o.nknots = r.range(9, 12); o.glam = r.coin(1, 5) ? 0 : 1; break;
    case 'O': if (r.coin(2, 5)) { o.io = r.range(1, 6); o.ionth = (o.io <= 3) ? r.below(2) : 0; } break;
    case 'Q': if (r.coin(2, 5)) { o.io = r.range(1, 4); o.ionth = (o.io <= 3) ? r.below(2) : 0; } break;
    case 'Y': { // sources: live tables of one shape (the same table may appear several times), first and last with extents
      std::vector<int> cand; for (int k = 0; k < NSLOT; k++) if (slot[k] && slot[k]->ndim && slot[k]->ndim <= 2 && slot[k]->get_ncoeffs() <= 400) cand.push_back(k);
      o.nk = r.range(1, 2);
      if (cand.empty()) { o.perm = {(size_t)r.below(NSLOT), (size_t)r.below(NSLOT)}; break; }
      int base = cand[r.below(cand.size())]; std::vector<int> same;
      for (int k : cand) { std::vector<CT*> two{slot[base], slot[k]}; if (stack_args_ok(two)) same.push_back(k); }
      if (same.empty()) { o.perm = {(size_t)base, (size_t)base}; break; }
      int n = r.range(2, 3); for (int k = 0; k < n; k++) o.perm.push_back(same[r.below(same.size())]);
      break; }
    case 'W': case 'K': case 'G': {
      o.keyid = r.range(1, NKEYS); o.key = KEYS[o.keyid];
      if (a && a->ndim != 0 && a->naux > 0 && a->aux && r.coin()) { // aim at a key the table already has (update / removal paths)
        o.key = &a->aux[r.below(a->naux)][0][0]; o.keyid = key_id(o.key.c_str()); }
      if (o.tag == 'W') {
        int c = r.below(12);
        if (c == 0) { o.wkind = 1; o.key = "ORDER7"; o.keyid = 90; }            // reserved
        else if (c == 1) { o.wkind = 1; o.key = "lower"; o.keyid = 91; }        // illegal characters in a short key
        else if (c == 2) { o.wkind = 1; o.sval = std::string(70, 'x'); }         // too long for one card
        if (o.wkind == 1 && o.sval.empty()) o.sval = "v";
        if (o.wkind == 0) { o.isint = r.coin(); o.ival = r.below(100000); o.sval = std::string(1 + r.below(12), 'a' + r.below(26)); }
      } else if (r.coin(1, 8)) { o.key = "NOSUCH"; o.keyid = 92; }
      break; }
    case 'V': { int nd = a ? a->ndim : 0; o.dim = r.coin(1, 6) ? nd + r.below(2) : (nd ? r.below(nd) : 0); o.nk = r.coin(1, 10) ? 0 : r.range(2, 3); /* not 1: a one-knot kernel also runs into factorial(0) (C14) */
      if (nconv >= 2 && o.dim < nd) o.dim = nd; // keep tables small: at most two successful convolutions
      break; }
    case 'P': { int nd = a ? a->ndim : 0; o.perm.resize(nd); for (int k = 0; k < nd; k++) o.perm[k] = k;
      for (int k = nd - 1; k > 0; k--) std::swap(o.perm[k], o.perm[r.below(k + 1)]);
      int c = r.below(8);
      if (c == 0) o.perm.push_back(nd); else if (c == 1 && nd > 0) o.perm[0] = o.perm[nd - 1]; else if (c == 2 && nd > 0) o.perm[r.below(nd)] = nd + 3;
      break; }
    default: break;
  }
  return o;
}

// ------------------------------------------------------------------ one run of a sequence
static FILE *fc, *fi, *fops = nullptr;
struct Variant { long seq; long fail; int rfop, rfkind, rfarg; };
static std::vector<std::pair<long, long>> g_stack_ranges; // allocation counters [first, last) spent inside stacking constructors (fault-free run)

static void reset_world() {
  for (int i = 0; i < NSLOT; i++) slot[i] = nullptr; // objects of an aborted variant are abandoned on purpose
  G.live.clear(); G.ev.clear(); G.bad = 0; G.nulld = 0; G.countdown = -1; G.nalloc = 0;
}
static std::string ev_str() { if (G.ev.empty()) return "-"; std::string s; for (auto& e : G.ev) { if (!s.empty()) s += " "; s += e; } return s; }

// runs ops (generating them when gen != nullptr); returns number of allocations performed
static long run_variant(const Variant& v, std::vector<Op>& ops, Rng* gen, int nops, const std::string& keep) {
  reset_world();
  G.countdown = v.fail > 0 ? v.fail - 1 : -1;
  fprintf(fc, "S %ld %ld %d %d %d\n", v.seq, v.fail, v.rfop, v.rfkind, v.rfarg); fprintf(fi, "S\n");
  int nconv = 0; long total = 0;
  for (int k = 0; k < nops; k++) {
    if (gen) { ops.push_back(gen_op(*gen, nconv)); if (fops) { fprintf(fops, "%s\n", ser(ops.back()).c_str()); fflush(fops); } }
    if (!keep.empty() && (k >= (int)keep.size() || keep[k] != '1')) continue;
    Op o = ops[k];
    if (k == v.rfop && (o.tag == 'R' || o.tag == 'M' || o.tag == 'F')) { o.kind = v.rfkind; o.arg = v.rfarg; }
    if (o.tag == 'R' || o.tag == 'M' || o.tag == 'F') plan_read(o);
    std::string line = op_line(o);
    fprintf(fc, "%s\n", line.c_str()); fflush(fc);
    fprintf(fi, "#%s\n", line.c_str()); fflush(fi); // the op about to run (crash attribution); ignored by the comparison
    CT* target = (o.tag != 'C' && o.tag != 'F' && o.tag != 'X' && o.tag != 'Y' && o.i < NSLOT) ? slot[o.i] : nullptr;
    std::string before = digest(target);
    G.ev.clear(); long nulld0 = G.nulld, nalloc0 = G.nalloc;
    std::string res = exec(o);
    if (gen && o.tag == 'Y' && G.nalloc > nalloc0) g_stack_ranges.push_back({nalloc0, G.nalloc});
    if (o.tag == 'T' && o.glam == 0 && g_glam_fired) { stats["glam_failures"] += g_glam_fired; g_glam_fired = 0; }
    if (res == "ok" && o.tag == 'V') nconv++;
    std::string after = (o.tag == 'D') ? "dead" : digest((o.i < NSLOT) ? slot[o.i] : nullptr);
    const char* same = (res != "threw" || o.tag == 'Y') ? "-" : (after == before ? "same" : (after == "empty" ? "empty" : (after == "dead" ? "dead" : "CHANGED")));
    std::string src = "-";
    if ((o.tag == 'X' || o.tag == 'A') && res == "ok" && o.i != o.j) src = digest(slot[o.j]);
    fprintf(fi, "%s | %s | %s | %zu %zu %ld | %s %s %ld\n", res.c_str(), ev_str().c_str(), state_str().c_str(), G.live.size(), G.bytes(), G.bad, same, src.c_str(), G.nulld - nulld0);
    fflush(fi);
    stats[std::string("op_") + o.tag]++; stats["res_" + res]++;
  }
  // end of history: destroy everything that is still alive
  fprintf(fc, "Z\n"); fflush(fc); fprintf(fi, "#Z\n"); fflush(fi);
  G.ev.clear();
  for (int i = 0; i < NSLOT; i++) if (slot[i]) { delete slot[i]; slot[i] = nullptr; }
  fprintf(fi, "ok | %s | %s | %zu %zu %ld | - - 0\n", ev_str().c_str(), state_str().c_str(), G.live.size(), G.bytes(), G.bad);
  fflush(fi);
  // blocks still live here are leaks through the allocator; release them so that LSan only sees foreign leaks
  for (auto& p : G.live) free(p.first);
  G.live.clear();
  return G.nalloc;
}

// ------------------------------------------------------------------ known-defect demonstrations, one per process
// prints "PROBE <name> <result> <live blocks> <live bytes> <bad>"; a crash (sanitizer report, assertion) ends the process instead.
static int probe(const std::string& name, const std::string& dir) {
  std::string p = dir + "/stackbase.fits", p2 = dir + "/stackbase2.fits";
  { psv::Table t; std::vector<uint32_t> ord{2}; std::vector<std::vector<double>> kn{{0, 1, 2, 3, 4, 5, 6, 7}}; std::vector<float> coef(5, 1.f);
    psv::build_table(t, ord, kn, coef); t.write_fits(p); }
  { psv::Table t; std::vector<uint32_t> ord{2}; std::vector<std::vector<double>> kn{{0, 1, 2, 3, 4, 5, 6, 7, 8, 9, 10, 11}}; std::vector<float> coef(9, 1.f);
    psv::build_table(t, ord, kn, coef); t.write_fits(p2); }
  reset_world();
  std::string res = "ok";
  std::vector<double> x{0, 1, 2};
  try {
    if (name == "stack-then-permute") { CT a(p), b(p), c(p); std::vector<CT*> v{&a, &b, &c}; CT s(v, x, 2); std::vector<size_t> q{1, 0}; s.permuteDimensions(q); }
    else if (name == "stack-then-convolve") { CT a(p), b(p), c(p); std::vector<CT*> v{&a, &b, &c}; CT s(v, x, 2); double k[3] = {-0.1, 0.0, 0.1}; s.convolve(0, k, 3); }
    else if (name == "stack-then-extent") { CT a(p), b(p), c(p); std::vector<CT*> v{&a, &b, &c}; CT s(v, x, 2); if (!(s.lower_extent(0) <= s.upper_extent(0))) res = "wrong"; }
    else if (name == "stack-alloc-failure") { // every position of one failed allocation inside the constructor
      CT a(p), b(p), c(p); std::vector<CT*> v{&a, &b, &c};
      long before = G.nalloc; { CT s(v, x, 2); } long n = G.nalloc - before; size_t live0 = G.live.size(); long leaks = 0;
      for (long k = 0; k < n; k++) { G.countdown = k; try { CT s(v, x, 2); res = "nothrow"; } catch (std::bad_alloc&) {} G.countdown = -1;
        if (G.live.size() != live0) leaks++;
        live0 = G.live.size(); }
      if (leaks) res = "leaked-at-" + std::to_string(leaks) + "-of-" + std::to_string(n) + "-positions";
      size_t own = 0; for (CT* t : v) own += 9 + t->ndim + (t->aux ? 1 + 3 * t->naux : 0); // what a, b, c themselves hold
      printf("PROBE %s %s %zu %zu %ld\n", name.c_str(), res.c_str(), G.live.size() - own, G.bytes(), G.bad); return 0; }
    else if (name == "write-mem-failure") { // a failing write_fits_mem: the buffer it was building must not be abandoned (LeakSanitizer decides)
      CT a(p); for (int kind = 1; kind <= 4; kind++) { IoArm arm(kind, 0); try { auto r = a.write_fits_mem(); free(r.first); res = "nothrow"; } catch (std::exception&) {} } }
    else if (name == "read-keyn-transient") { // one key of the header cannot be read, in the first or in the second pass of read_fits_core over the keys only
      std::string pk = dir + "/keys.fits";
      { psv::Table t; std::vector<uint32_t> ord{2}; std::vector<std::vector<double>> kn{{0, 1, 2, 3, 4, 5, 6, 7}}; std::vector<float> coef(5, 1.f);
        psv::build_table(t, ord, kn, coef); t.write_key("KEYA", 7); t.write_key("KEYB", std::string("v")); t.write_fits(pk); }
      long ncalls; { RdArm arm(-1, false); g_kn_at = -1; g_kn_seen = 0; { CT t(pk); } ncalls = g_kn_seen; }
      long threw = 0, leaks = 0;
      for (long k = 0; k < ncalls; k++) {
        RdArm arm(-1, false); g_kn_at = k; g_kn_seen = 0;
        try { CT t(pk); g_kn_at = -1; std::string v; t.read_key("KEYB", v); t.read_key("KEYA", v); } catch (std::exception&) { threw++; }
        g_kn_at = -1;
        if (!G.live.empty()) { leaks++; for (auto& q : G.live) free(q.first); G.live.clear(); }
      }
      if (ncalls < 8) res = "wrong"; else if (leaks) res = "leaked-at-" + std::to_string(leaks) + "-of-" + std::to_string(ncalls) + "-positions";
      else res = "ok-" + std::to_string(ncalls) + "-positions-" + std::to_string(threw) + "-threw"; }
    else if (name == "stack-single-table") { CT a(p); std::vector<CT*> v{&a}; std::vector<double> x1{0}; CT s(v, x1, 2); }
    else if (name == "stack-mismatched-shapes") { CT a(p), b(p2); std::vector<CT*> v{&b, &a, &b}; CT s(v, x, 2); }
    else if (name == "stack-empty-table") { CT a(p), e; std::vector<CT*> v{&a, &e, &a}; CT s(v, x, 2); }
    else { fprintf(stderr, "unknown probe\n"); return 2; }
  } catch (std::exception& e) { res = "threw"; }
  printf("PROBE %s %s %zu %zu %ld\n", name.c_str(), res.c_str(), G.live.size(), G.bytes(), G.bad);
  return 0;
}

int main(int argc, char** argv) {
  { const char* c = getenv("PSV_C20_CFG"); g_cfg_repaired = c && !strcmp(c, "repaired"); }
  if (argc == 4 && !strcmp(argv[1], "probe")) return probe(argv[2], argv[3]);
  if (argc < 7) { fprintf(stderr, "usage\n"); return 2; }
  fc = fopen(argv[1], "w"); fi = fopen(argv[2], "w");
  fprintf(fc, "CFG %s\n", g_cfg_repaired ? "repaired" : "head"); fprintf(fi, "CFG\n");
  long first = atol(argv[4]), nseq = atol(argv[5]); scratch = argv[6];
  uint64_t seed = psv::env_seed();
  Rng fr(seed * 7919 + 17);
  for (int k = 0; k < 4; k++) files.push_back(make_file(fr, scratch, k));
  const char* only = getenv("PSV_ONLY"); const char* keepenv = getenv("PSV_KEEP");
  long maxfail = psv::env_long("PSV_MAXFAIL", 100000);
  std::string keep = keepenv ? keepenv : "";
  long variants = 0;
  if (only) {
    Variant v; sscanf(only, "%ld %ld %d %d %d", &v.seq, &v.fail, &v.rfop, &v.rfkind, &v.rfarg);
    // the history of that sequence as generated (and saved) by the full run: PSV_OPSFILE
    std::vector<Op> ops; { std::ifstream f(getenv("PSV_OPSFILE") ? getenv("PSV_OPSFILE") : ""); std::string l; while (std::getline(f, l)) if (!l.empty()) ops.push_back(deser(l)); }
    int nops = ops.size();
    run_variant(v, ops, nullptr, nops, keep);
    variants = 1;
  } else for (long s = first; s < first + nseq; s++) {
    Rng r(seed * 1000003ULL + s * 7 + 1); std::vector<Op> ops; int nops = 6 + (int)r.below(20);
    fops = fopen((scratch + "/ops_" + std::to_string(s) + ".txt").c_str(), "w");
    g_stack_ranges.clear();
    long nalloc = run_variant(Variant{s, 0, -1, 0, 0}, ops, &r, nops, ""); variants++;
    fclose(fops); fops = nullptr;
    stats["allocations_baseline"] += nalloc;
    for (long k = 1; k <= nalloc && k <= maxfail; k++) {
      // /repo as it is: a failed allocation inside the stacking constructor leaks (known finding, shown by the probe
      // `stack-alloc-failure`); those positions are only run on a tree with C20-14
      bool inside = false; for (auto& rg : g_stack_ranges) inside = inside || (k - 1 >= rg.first && k - 1 < rg.second);
      if (inside && !g_cfg_repaired) { stats["alloc_failure_positions_inside_stacking_skipped"]++; continue; }
      if (inside) stats["alloc_failure_variants_inside_stacking"]++;
      run_variant(Variant{s, k, -1, 0, 0}, ops, nullptr, nops, ""); variants++; stats["alloc_failure_variants"]++; }
    for (int k = 0; k < nops; k++) if ((ops[k].tag == 'R' || ops[k].tag == 'M' || ops[k].tag == 'F') && ops[k].kind == 0) {
      const FileInfo& f = files[ops[k].file]; int nd = f.dims.size(); long n0 = variants;
      auto rv = [&](int kind, int arg) { run_variant(Variant{s, 0, k, kind, arg}, ops, nullptr, nops, ""); variants++; };
      // damaged files
      rv(1, (int)(s % 2)); rv(2, 0); rv(4, 0); rv(7, 0);
      for (int d = 0; d < nd; d++) { rv(3, d); rv(5, d); rv(6, d); }
      // the file cut short: at every block boundary (0 = an empty file) and somewhere inside every block
      Rng cr(seed * 31 + s * 131 + k);
      for (size_t b = 0; b * 2880 < f.size; b++) { rv(10, (int)(b * 2880)); rv(10, (int)(b * 2880 + 1 + cr.below(2879))); }
      // every cfitsio call of the reader failing: once, and for good
      for (long c = 0; c < f.ncalls; c++) { rv(11, (int)c); rv(12, (int)c); }
      stats["read_failure_variants"] += variants - n0;
    }
#ifdef PSV_LSAN
    if (__lsan_do_recoverable_leak_check()) { fprintf(fi, "LEAK %ld\n", s); fprintf(fc, "LEAK %ld\n", s); fflush(fi); fflush(fc); stats["lsan_leak_sequences"]++; }
#endif
    stats["sequences"]++;
  }
  stats["variants"] = variants;
  FILE* js = fopen(argv[3], "w"); fprintf(js, "{");
  bool firstk = true; for (auto& p : stats) { fprintf(js, "%s\"%s\": %ld", firstk ? "" : ", ", p.first.c_str(), p.second); firstk = false; }
  fprintf(js, "}\n"); fclose(js);
  fclose(fc); fclose(fi);
  return 0;
}
