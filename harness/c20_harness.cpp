// C20 correspondence harness: random operation histories on splinetable<CountingAlloc> (the real code,
// built from /repo's working tree), with one injected allocation failure at every position and a failing
// read at every stage.  For every executed operation one line goes to the cases file (input of the Lean
// driver `psvdriver C20`) and one to the impl file (result, allocator events, abstract state, ledger totals).
//
// Besides allocation failures and failing reads the histories contain fits whose GLAM step fails (the call of
// glamfit_complex is redirected with -Wl,--wrap to a wrapper which returns 1 when armed) and writes which hit an
// I/O error (a path that cannot be created; a cfitsio output step or libc fwrite failing, interposed in this
// executable and forwarded with dlsym(RTLD_NEXT) as in c08_harness.cpp), and the stacking constructor.
//
// usage: c20_harness <cases> <impl> <stats.json> <first_seq> <n_seq> <scratch_dir>
//        c20_harness probe <name> <scratch_dir>     one known-defect demonstration in a process of its own
// env:   VERIF_SEED; PSV_ONLY="seq fail rfop rfkind rfarg" runs that single variant; PSV_KEEP="0110..." keeps
//        only the ops whose character is '1' (shrinking); PSV_MAXFAIL caps the failure positions per sequence;
//        PSV_C20_CFG=head|repaired: which stacking constructor the tree has (head: /repo as it is; the harness then
//        does not execute calls that are undefined behaviour there, see `avoided`).
#include "common.h"
#include <dlfcn.h>
#include <cerrno>
#include <fstream>
#include <set>
#include <unistd.h>
#if defined(__SANITIZE_ADDRESS__)
#include <sanitizer/lsan_interface.h>
#define PSV_LSAN 1
#endif

using psv::Rng;

// ------------------------------------------------------------------ counting allocator
struct Ledger {
  std::map<void*, size_t> live;
  std::map<void*, int> arena_of;   // which allocator instance (arena) handed the block out
  long foreign = 0;                 // blocks returned to another arena than the one they came from
  std::vector<std::string> ev;
  long bad = 0, nulld = 0;
  long countdown = -1; // -1: never fail; k>=0: k more allocations succeed, then one throws
  long nalloc = 0;
  size_t bytes() const { size_t s = 0; for (auto& p : live) s += p.second; return s; }
};
static Ledger G;

// The allocator is stateful: every table object is constructed with its own arena number, and a block must go
// back to the arena it came from (instances are NOT interchangeable: operator== compares the arena), as for a
// pool or shared-memory allocator.  A default-constructed allocator is arena 0.
static int g_next_arena = 1;
template <typename T> struct CA {
  typedef T value_type;
  int arena;
  CA() : arena(0) {}
  explicit CA(int a) : arena(a) {}
  template <typename U> CA(const CA<U>& o) : arena(o.arena) {}
  T* allocate(size_t n) {
    if (G.countdown == 0) { G.countdown = -1; throw std::bad_alloc(); }
    if (G.countdown > 0) G.countdown--;
    size_t b = n * sizeof(T);
    void* p = malloc(b ? b : 1);
    G.live[p] = b; G.arena_of[p] = arena; G.nalloc++;
    G.ev.push_back("a" + std::to_string(b));
    return static_cast<T*>(p);
  }
  void deallocate(T* p, size_t n) {
    size_t b = n * sizeof(T);
    if (!p) { G.nulld++; return; } // deallocate(nullptr, n): tolerated, counted
    auto it = G.live.find((void*)p);
    if (it == G.live.end()) { G.bad++; G.ev.push_back("x" + std::to_string(b)); return; }           // double free / foreign
    if (it->second != b) { G.bad++; G.ev.push_back("d" + std::to_string(b)); return; }               // wrong size: block stays live
    if (G.arena_of[(void*)p] != arena) { G.foreign++; G.bad++; }                                      // returned to the wrong arena
    G.ev.push_back("d" + std::to_string(b));
    G.live.erase(it); G.arena_of.erase((void*)p); free(p);
  }
  template <typename U> struct rebind { typedef CA<U> other; };
  bool operator==(const CA& o) const { return arena == o.arena; }
  bool operator!=(const CA& o) const { return arena != o.arena; }
};
template <> struct CA<void> {
  typedef void value_type;
  int arena;
  CA() : arena(0) {}
  explicit CA(int a) : arena(a) {}
  template <typename U> CA(const CA<U>& o) : arena(o.arena) {}
  template <typename U> struct rebind { typedef CA<U> other; };
};
typedef photospline::splinetable<CA<void>> CT;

// ------------------------------------------------------------------ injected GLAM and output failures
static bool g_glam_fail = false; static long g_glam_fired = 0;
extern "C" int __real_glamfit_complex(const struct ndsparse*, const double*, const double* const*, uint32_t, const uint64_t*,
                                      const double* const*, const uint64_t*, float*, const uint32_t*, cholmod_sparse*, uint32_t, int, cholmod_common*);
extern "C" int __wrap_glamfit_complex(const struct ndsparse* d, const double* w, const double* const* c, uint32_t nd, const uint64_t* nk,
                                      const double* const* k, const uint64_t* na, float* co, const uint32_t* o, cholmod_sparse* pen, uint32_t mono, int verbose, cholmod_common* cc) {
  if (g_glam_fail) { g_glam_fired++; return 1; }   // what glamfit_complex reports when the solver gives up ("Solution FAILED")
  return __real_glamfit_complex(d, w, c, nd, nk, k, na, co, o, pen, mono, verbose, cc);
}
// output: which step fails (0 = none).  1 ffcrim (create image), 2 ffppx (write pixels), 3 ffpky (write key), 4 ffclos (close),
// 5 libc fwrite (ENOSPC, every write from now on); `g_io_nth`: the n-th call of that kind (0 or 1; both always happen).
static int g_io_kind = 0, g_io_nth = 0, g_io_seen = 0; static long g_io_fired = 0;
static bool io_hit(int kind) { if (g_io_kind != kind) return false; if (g_io_seen++ != g_io_nth) return false; g_io_fired++; return true; }
extern "C" int ffcrim(fitsfile* f, int bitpix, int naxis, long* naxes, int* status) {
  static auto real = (int (*)(fitsfile*, int, int, long*, int*))dlsym(RTLD_NEXT, "ffcrim");
  if (io_hit(1)) { *status = WRITE_ERROR; return *status; }
  return real(f, bitpix, naxis, naxes, status);
}
extern "C" int ffppx(fitsfile* f, int dt, long* fp, LONGLONG n, void* a, int* status) {
  static auto real = (int (*)(fitsfile*, int, long*, LONGLONG, void*, int*))dlsym(RTLD_NEXT, "ffppx");
  if (io_hit(2)) { *status = WRITE_ERROR; return *status; }
  return real(f, dt, fp, n, a, status);
}
extern "C" int ffpky(fitsfile* f, int dt, const char* k, void* v, const char* c, int* status) {
  static auto real = (int (*)(fitsfile*, int, const char*, void*, const char*, int*))dlsym(RTLD_NEXT, "ffpky");
  if (io_hit(3)) { *status = WRITE_ERROR; return *status; }
  return real(f, dt, k, v, c, status);
}
extern "C" int ffclos(fitsfile* f, int* status) {
  static auto real = (int (*)(fitsfile*, int*))dlsym(RTLD_NEXT, "ffclos");
  if (io_hit(4)) { int s = 0; real(f, &s); *status = FILE_NOT_CLOSED; return *status; } // handle released, error reported (a failing fclose)
  return real(f, status);
}
extern "C" size_t fwrite(const void* p, size_t sz, size_t n, FILE* f) {
  static auto real = (size_t(*)(const void*, size_t, size_t, FILE*))dlsym(RTLD_NEXT, "fwrite");
  if (g_io_kind == 5 && f != stdout && f != stderr) { g_io_fired++; errno = ENOSPC; return 0; }
  return real(p, sz, n, f);
}

// ------------------------------------------------------------------ files
struct AuxD { int id; size_t k, raw, stored; };
struct FileInfo {
  std::string path, noOrder, garbage, missing;
  std::vector<std::string> noKnots;
  std::vector<std::array<size_t, 3>> dims; // order nknots naxes
  bool hasKeys = true;
  std::vector<AuxD> aux;
};
static const char* KEYS[] = {"", "KEYA", "KEYB", "K3", "LONGISH_HIERARCH_KEY", "KEYE"};
static const int NKEYS = 5;
static int key_id(const char* k) { for (int i = 1; i <= NKEYS; i++) if (!strcmp(k, KEYS[i])) return i; return 100 + (int)strlen(k); }
static bool reserved(const char* key) { // independent restatement of the reader's filter
  const char* p[] = {"BITPIX", "SIMPLE", "TYPE", "ORDER", "NAXIS", "PERIOD", "EXTEND", "COMMENT"};
  for (auto q : p) if (!strncmp(q, key, strlen(q))) return true;
  return false;
}
static std::vector<char> slurp(const std::string& p) {
  std::ifstream f(p, std::ios::binary); return std::vector<char>((std::istreambuf_iterator<char>(f)), std::istreambuf_iterator<char>());
}
static void copy_file(const std::string& a, const std::string& b) { std::ofstream(b, std::ios::binary) << std::ifstream(a, std::ios::binary).rdbuf(); }

static FileInfo make_file(Rng& r, const std::string& dir, int idx) {
  FileInfo f;
  int nd = r.range(1, 3);
  std::vector<uint32_t> ord; std::vector<std::vector<double>> kn;
  for (int d = 0; d < nd; d++) { int o = r.range(1, 3); /* order >= 1: convolving an order-0 dimension runs into the factorial(0) defect (C14), ~10 s per call */ ord.push_back(o); kn.push_back(psv::gen_knots(r, o, r.range(0, 3), 0)); }
  std::vector<float> coef(psv::ncoef(ord, kn)); for (auto& c : coef) c = (float)r.unit();
  f.path = dir + "/t" + std::to_string(idx) + ".fits";
  {
    psv::Table t; psv::build_table(t, ord, kn, coef);
    int nk = r.range(0, 3);
    std::set<int> used;
    for (int k = 0; k < nk; k++) {
      int id = r.range(1, NKEYS); if (used.count(id)) continue; used.insert(id);
      if (r.coin()) t.write_key(KEYS[id], std::string("v") + std::to_string(r.below(100000)));
      else t.write_key(KEYS[id], (int)r.below(1000));
    }
    t.write_fits(f.path);
  }
  for (int d = 0; d < nd; d++) f.dims.push_back({{ord[d], kn[d].size(), kn[d].size() - ord[d] - 1}});
  { // what the reader will find, through cfitsio directly
    fitsfile* ff; int err = 0, nkeys = 0; fits_open_diskfile(&ff, f.path.c_str(), READONLY, &err);
    fits_get_hdrspace(ff, &nkeys, NULL, &err); f.hasKeys = nkeys > 0;
    char key[FLEN_KEYWORD], value[FLEN_VALUE];
    for (int j = 1; j - 1 < nkeys; j++) {
      err = 0; fits_read_keyn(ff, j, key, value, NULL, &err);
      if (err || reserved(key)) continue;
      size_t raw = strlen(value) + 1, st = raw;
      if (raw > 1 && value[0] == '\'') st = (raw > 2 && value[raw - 2] == '\'') ? raw - 2 : raw - 1;
      f.aux.push_back({key_id(key), strlen(key) + 1, raw, st});
    }
    err = 0; fits_close_file(ff, &err);
  }
  f.noOrder = dir + "/t" + std::to_string(idx) + ".noorder.fits"; copy_file(f.path, f.noOrder);
  { fitsfile* ff; int err = 0; fits_open_diskfile(&ff, f.noOrder.c_str(), READWRITE, &err);
    for (int d = 0; d < nd; d++) { err = 0; fits_delete_key(ff, ("ORDER" + std::to_string(d)).c_str(), &err); }
    err = 0; fits_close_file(ff, &err); }
  for (int d = 0; d < nd; d++) {
    std::string p = dir + "/t" + std::to_string(idx) + ".noknots" + std::to_string(d) + ".fits"; copy_file(f.path, p);
    fitsfile* ff; int err = 0, type; fits_open_diskfile(&ff, p.c_str(), READWRITE, &err);
    fits_movnam_hdu(ff, IMAGE_HDU, const_cast<char*>(("KNOTS" + std::to_string(d)).c_str()), 0, &err);
    fits_delete_hdu(ff, &type, &err); err = 0; fits_close_file(ff, &err);
    f.noKnots.push_back(p);
  }
  f.garbage = dir + "/t" + std::to_string(idx) + ".garbage.fits";
  { std::ofstream g(f.garbage, std::ios::binary); for (int i = 0; i < 3000; i++) g.put((char)r.below(256)); }
  f.missing = dir + "/does-not-exist-" + std::to_string(idx) + ".fits";
  return f;
}

// ------------------------------------------------------------------ operations
struct Op {
  char tag; int i = 0, j = 0;
  int file = 0, kind = 0, arg = 0;             // F R M
  int wkind = 0, keyid = 0; std::string key, sval; bool isint = false; int ival = 0; // W K G
  bool valid = true; int order = 2, nknots = 10; // T
  int dim = 0, nk = 1;                           // V
  std::vector<size_t> perm;                      // P; Y: the source slots
  int glam = 1;                                  // T: 0 = the GLAM step fails
  int io = 0, ionth = 0;                         // O Q: 0 no failure; 1..5 see g_io_kind; 6 (O) a path that cannot be created
};

static std::string tok(const std::string& x) { return x.empty() ? "-" : x; }
static std::string ser(const Op& o) {
  std::ostringstream s; s << o.tag << " " << o.i << " " << o.j << " " << o.file << " " << o.kind << " " << o.arg << " " << o.wkind << " " << o.keyid << " "
    << tok(o.key) << " " << tok(o.sval) << " " << o.isint << " " << o.ival << " " << o.valid << " " << o.order << " " << o.nknots << " " << o.dim << " " << o.nk << " " << o.glam << " " << o.io << " " << o.ionth << " " << o.perm.size();
  for (auto p : o.perm) s << " " << p;
  return s.str();
}
static Op deser(const std::string& line) {
  std::istringstream s(line); Op o; size_t np = 0; s >> o.tag >> o.i >> o.j >> o.file >> o.kind >> o.arg >> o.wkind >> o.keyid >> o.key >> o.sval >> o.isint >> o.ival >> o.valid >> o.order >> o.nknots >> o.dim >> o.nk >> o.glam >> o.io >> o.ionth >> np;
  if (o.key == "-") o.key.clear(); if (o.sval == "-") o.sval.clear();
  o.perm.resize(np); for (size_t k = 0; k < np; k++) s >> o.perm[k];
  return o;
}

static const int NSLOT = 3;
static CT* slot[NSLOT];
static std::vector<FileInfo> files;
static std::string scratch;
static std::map<std::string, long> stats;

static std::string file_desc(const FileInfo& f, int kind, int arg) {
  std::ostringstream s; s << kind << " " << arg << " " << f.dims.size();
  for (auto& d : f.dims) s << " " << d[0] << " " << d[1] << " " << d[2];
  s << " " << (f.hasKeys ? 1 : 0) << " " << f.aux.size();
  for (auto& a : f.aux) s << " " << a.id << " " << a.k << " " << a.raw << " " << a.stored;
  return s.str();
}
static std::string op_line(const Op& o) {
  std::ostringstream s; s << o.tag << " " << o.i;
  switch (o.tag) {
    case 'F': case 'R': case 'M': s << " " << file_desc(files[o.file], o.kind, o.arg); break;
    case 'T': s << " " << (o.valid ? 1 : 0) << " " << (o.glam ? 1 : 0) << " 1 " << o.order << " " << o.nknots; break;
    case 'O': case 'Q': s << " " << (o.io == 0 ? 1 : 0); break;
    case 'Y': s << " " << o.nk << " " << o.perm.size(); for (auto p : o.perm) s << " " << p; break;
    case 'W': s << " " << o.wkind << " " << o.keyid << " " << o.key.size() + 1 << " " << (o.isint ? std::to_string(o.ival).size() : o.sval.size()) + 1; break;
    case 'K': case 'G': s << " " << o.keyid; break;
    case 'V': s << " " << o.dim << " " << o.nk; break;
    case 'P': s << " " << o.perm.size(); for (auto p : o.perm) s << " " << p; break;
    case 'X': case 'A': case 'E': s << " " << o.j; break;
    default: break;
  }
  return s.str();
}
static const std::string& file_path(const Op& o) {
  const FileInfo& f = files[o.file];
  if (o.kind == 0) return f.path;
  if (o.kind == 2) return f.noOrder;
  if (o.kind == 3) return f.noKnots[o.arg];
  return (o.arg % 2) ? f.garbage : f.missing;
}

// `extents` is reported separately: the destructor and write_fits test it, everything else does not
static char core_state(const CT* t) {
  int n = (t->order != nullptr) + (t->knots != nullptr) + (t->nknots != nullptr) + (t->coefficients != nullptr) + (t->naxes != nullptr) + (t->strides != nullptr);
  return n == 6 ? 'y' : (n == 0 ? 'n' : 'p');
}
static std::string state_str() {
  std::ostringstream s;
  for (int i = 0; i < NSLOT; i++) {
    if (i) s << " ";
    CT* t = slot[i];
    if (!t) { s << "-"; continue; }
    s << t->ndim << "," << t->naux << "," << core_state(t) << "," << (t->periods != nullptr ? 1 : 0) << "," << (t->aux != nullptr ? 1 : 0) << "," << (t->extents != nullptr ? 1 : 0);
  }
  return s.str();
}
// content digest of a consistent object (oracle: a failed call leaves the object unchanged or empty)
static std::string digest(const CT* t) {
  if (!t) return "dead";
  char c = core_state(t);
  if (t->ndim == 0) return (c == 'n' && t->naux == 0 && !t->aux && !t->periods && !t->extents) ? "empty" : "empty-but-owning";
  if (c != 'y') return "partial";
  uint64_t h = 1469598103934665603ULL; auto mix = [&](uint64_t v) { h = (h ^ v) * 1099511628211ULL; };
  mix(t->ndim);
  for (uint32_t i = 0; i < t->ndim; i++) { mix(t->order[i]); mix(t->nknots[i]); mix(t->naxes[i]); mix(t->strides[i]);
    if (!t->knots[i]) return "partial";
    for (uint64_t k = 0; k < t->nknots[i]; k++) mix(psv::cbits(t->knots[i][k])); }
  uint64_t nc = t->strides[0] * t->naxes[0];
  for (uint64_t k = 0; k < nc; k++) mix(psv::cbits(t->coefficients[k]));
  mix(t->extents != nullptr);
  if (t->extents) for (uint32_t i = 0; i < t->ndim; i++) { mix(psv::cbits(t->extents[i][0])); mix(psv::cbits(t->extents[i][1])); }
  mix(t->naux);
  for (uint32_t i = 0; i < t->naux; i++) { for (const char* p = t->aux[i][0]; *p; p++) mix(*p); mix(0); for (const char* p = t->aux[i][1]; *p; p++) mix(*p); }
  return std::to_string(h);
}

static bool do_fit(CT* t, const Op& o) {
  const int N = 10;
  photospline::ndsparse data(N, 1);
  for (unsigned j = 0; j < (unsigned)N; j++) { unsigned idx = j; data.insertEntry(std::sin(0.7 * j) + 0.01 * j, &idx); }
  std::vector<double> w(o.valid ? N : N - 1, 1.0);
  std::vector<std::vector<double>> coords(1), knots(1);
  for (int j = 0; j < N; j++) coords[0].push_back(j);
  double lo = -o.order - 0.5, hi = N - 1 + o.order + 0.5;
  for (int k = 0; k < o.nknots; k++) knots[0].push_back(lo + (hi - lo) * k / (o.nknots - 1));
  std::vector<uint32_t> ord(1, o.order), pen(1, o.order);
  std::vector<double> smooth(1, 0.1);
  struct Arm { Arm(bool f) { g_glam_fail = f; } ~Arm() { g_glam_fail = false; } } arm(o.glam == 0);
  t->fit(data, w, coords, ord, knots, smooth, pen, CT::no_monodim, false);
  return true;
}

static bool g_cfg_repaired = false;
// independent restatement of what the stacking constructor needs (its own checks are `assert`s, and not all of them)
static bool stack_args_ok(const std::vector<CT*>& v) {
  if (v.size() < 2) return false;
  const CT* f = v.front();
  if (f->ndim == 0 || !f->extents || !v.back()->extents) return false;
  for (const CT* t : v) { if (t->ndim != f->ndim) return false;
    for (uint32_t d = 0; d < f->ndim; d++) if (t->order[d] != f->order[d] || t->nknots[d] != f->nknots[d] || t->naxes[d] != f->naxes[d]) return false; }
  return true;
}
struct IoArm {
  IoArm(int kind, int nth) { g_io_kind = (kind >= 1 && kind <= 5) ? kind : 0; g_io_nth = nth; g_io_seen = 0; g_io_fired = 0; }
  ~IoArm() { g_io_kind = 0; }
};

// executes one op on the real objects; returns result token
static std::string exec(const Op& o) {
  CT* a = (o.i >= 0 && o.i < NSLOT) ? slot[o.i] : nullptr;
  CT* b = (o.j >= 0 && o.j < NSLOT) ? slot[o.j] : nullptr;
  try {
    switch (o.tag) {
      case 'C': if (a) return "skip"; slot[o.i] = new CT(CA<void>(g_next_arena++)); return "ok";
      case 'F': { if (a) return "skip";
        // the constructor may throw: then no object exists and no destructor runs
        slot[o.i] = new CT(file_path(o), CA<void>(g_next_arena++)); return "ok"; }
      case 'R': if (!a) return "skip"; return a->read_fits(file_path(o)) ? "tt" : "ff";
      case 'M': { if (!a) return "skip"; std::vector<char> buf = (o.kind == 1) ? slurp(files[o.file].garbage) : slurp(file_path(o));
        return a->read_fits_mem(buf.data(), buf.size()) ? "tt" : "ff"; }
      case 'T': if (!a) return "skip"; do_fit(a, o); return "ok";
      case 'W': if (!a) return "skip"; return (o.isint ? a->write_key(o.key.c_str(), o.ival) : a->write_key(o.key.c_str(), o.sval)) ? "tt" : "ff";
#ifndef PSV_NO_REMOVE_KEY
      case 'K': if (!a) return "skip"; return a->remove_key(o.key.c_str()) ? "tt" : "ff";
#else
      case 'K': return "skip";
#endif
      case 'G': { if (!a) return "skip"; std::string v; bool f1 = a->read_key(o.key.c_str(), v); const char* p = a->get_aux_value(o.key.c_str());
        if (f1 != (p != nullptr)) return "inconsistent"; return f1 ? "tt" : "ff"; }
      // `avoided`: the call would read through the null `extents` of a table made by the stacking constructor (undefined
      // behaviour that would end this process); it is not executed, the model has to predict `crash` (see the probes)
      case 'V': { if (!a) return "skip"; if (a->ndim && !a->extents && (uint32_t)o.dim < a->ndim && o.nk != 0) { stats["avoided_null_extents"]++; return "avoided"; }
        double k[3] = {-0.1, 0.0, 0.1}; a->convolve(o.dim, k, o.nk); return "ok"; }
      case 'P': { if (!a) return "skip";
        if (a->ndim && !a->extents) { std::vector<size_t> q(o.perm); std::sort(q.begin(), q.end()); bool isperm = q.size() == a->ndim; for (size_t k = 0; isperm && k < q.size(); k++) isperm = q[k] == k;
          if (isperm) { stats["avoided_null_extents"]++; return "avoided"; } }
        a->permuteDimensions(o.perm); return "ok"; }
      case 'Y': { if (a) return "skip"; std::vector<CT*> v; for (auto sidx : o.perm) { if (sidx >= (size_t)NSLOT || !slot[sidx]) return "skip"; v.push_back(slot[sidx]); }
        if (!g_cfg_repaired && !stack_args_ok(v)) { stats["avoided_stack_args"]++; return "avoided"; }
        std::vector<double> x; for (size_t k = 0; k < v.size(); k++) x.push_back(1.5 * k);
        slot[o.i] = new CT(v, x, o.nk, CA<void>(g_next_arena++)); return "ok"; }
      case 'X': if (a || !b) return "skip"; slot[o.i] = new CT(std::move(*b)); return "ok";
      case 'A': if (!a || !b) return "skip"; *a = std::move(*b); return "ok";
      case 'E': { if (!a || !b) return "skip"; bool e = (*a == *b); bool ne = (*a != *b); if (e == ne) return "inconsistent"; return e ? "tt" : "ff"; }
      // an armed output failure must make the call throw, and it must be the injected failure that did it (`nofire` otherwise)
      case 'O': case 'Q': { if (!a) return "skip";
        IoArm arm(o.io, o.ionth);
        try {
          if (o.tag == 'O') a->write_fits(o.io == 6 ? scratch + "/no-such-dir/out.fits" : scratch + "/out.fits");
          else { auto r = a->write_fits_mem(); free(r.first); }
        } catch (...) {
          if (a->ndim != 0) { if (o.io >= 1 && o.io <= 5 && !g_io_fired) return "nofire"; if (o.io) stats[o.tag == 'O' ? "write_fits_io_failures" : "write_fits_mem_io_failures"]++; }
          throw;
        }
        return o.io != 0 ? "nofire" : "ok"; }
      case 'D': if (!a) return "skip"; delete a; slot[o.i] = nullptr; return "ok";
    }
  } catch (std::bad_alloc&) { stats["threw_bad_alloc"]++; return "threw";
  } catch (std::exception&) { stats["threw_other"]++; return "threw"; }
  return "skip";
}

// ------------------------------------------------------------------ generation
static Op gen_op(Rng& r, int nconv) {
  Op o; o.i = r.range(0, NSLOT - 1); o.j = r.range(0, NSLOT - 1);
  CT* a = slot[o.i];
  static const char live_ops[] = "RRMTTWWWWKKGVVPPAEOOQQDXRFCY";
  if (!a) { const char c[] = "CCCFFXYY"; o.tag = c[r.below(8)]; }
  else if (a->ndim == 0 && r.coin(2, 3)) { const char c[] = "RRMTTR"; o.tag = c[r.below(6)]; } // populate empty tables most of the time
  else o.tag = live_ops[r.below(sizeof(live_ops) - 1)];
  if (o.tag == 'X' || o.tag == 'A' || o.tag == 'E') { // second operand: prefer a live one
    for (int k = 0; k < 4 && (!slot[o.j] || (o.tag != 'E' && o.j == o.i)); k++) o.j = r.range(0, NSLOT - 1);
    if (o.tag == 'X' && a) o.tag = 'A';
  }
  switch (o.tag) {
    case 'F': case 'R': case 'M': {
      o.file = r.below(files.size());
      int c = r.below(10);
      if (c < 6) o.kind = 0; else if (c < 7) { o.kind = 1; o.arg = r.below(2); } else if (c < 8) o.kind = 2; else { o.kind = 3; o.arg = r.below(files[o.file].dims.size()); }
      break; }
    case 'T': o.valid = !r.coin(1, 6); o.order = r.range(1, 2); o.nknots = r.range(9, 12); o.glam = r.coin(1, 5) ? 0 : 1; break;
    case 'O': if (r.coin(2, 5)) { o.io = r.range(1, 6); o.ionth = (o.io <= 3) ? r.below(2) : 0; } break;
    case 'Q': if (r.coin(2, 5)) { o.io = r.range(1, 4); o.ionth = (o.io <= 3) ? r.below(2) : 0; } break;
    case 'Y': { // sources: live tables of one shape (the same table may appear several times), first and last with extents
      std::vector<int> cand; for (int k = 0; k < NSLOT; k++) if (slot[k] && slot[k]->ndim && slot[k]->ndim <= 2 && slot[k]->get_ncoeffs() <= 400) cand.push_back(k);
      o.nk = r.range(1, 2);
      if (cand.empty()) { o.perm = {(size_t)r.below(NSLOT), (size_t)r.below(NSLOT)}; break; }
      int base = cand[r.below(cand.size())]; std::vector<int> same;
      for (int k : cand) { std::vector<CT*> two{slot[base], slot[k]}; if (stack_args_ok(two)) same.push_back(k); }
      if (same.empty()) { o.perm = {(size_t)base, (size_t)base}; break; }
      int n = r.range(2, 3); for (int k = 0; k < n; k++) o.perm.push_back(same[r.below(same.size())]);
      break; }
    case 'W': case 'K': case 'G': {
      o.keyid = r.range(1, NKEYS); o.key = KEYS[o.keyid];
      if (a && a->ndim != 0 && a->naux > 0 && a->aux && r.coin()) { // aim at a key the table already has (update / removal paths)
        o.key = &a->aux[r.below(a->naux)][0][0]; o.keyid = key_id(o.key.c_str()); }
      if (o.tag == 'W') {
        int c = r.below(12);
        if (c == 0) { o.wkind = 1; o.key = "ORDER7"; o.keyid = 90; }            // reserved
        else if (c == 1) { o.wkind = 1; o.key = "lower"; o.keyid = 91; }        // illegal characters in a short key
        else if (c == 2) { o.wkind = 1; o.sval = std::string(70, 'x'); }         // too long for one card
        if (o.wkind == 1 && o.sval.empty()) o.sval = "v";
        if (o.wkind == 0) { o.isint = r.coin(); o.ival = r.below(100000); o.sval = std::string(1 + r.below(12), 'a' + r.below(26)); }
      } else if (r.coin(1, 8)) { o.key = "NOSUCH"; o.keyid = 92; }
      break; }
    case 'V': { int nd = a ? a->ndim : 0; o.dim = r.coin(1, 6) ? nd + r.below(2) : (nd ? r.below(nd) : 0); o.nk = r.coin(1, 10) ? 0 : r.range(2, 3); /* not 1: a one-knot kernel also runs into factorial(0) (C14) */
      if (nconv >= 2 && o.dim < nd) o.dim = nd; // keep tables small: at most two successful convolutions
      break; }
    case 'P': { int nd = a ? a->ndim : 0; o.perm.resize(nd); for (int k = 0; k < nd; k++) o.perm[k] = k;
      for (int k = nd - 1; k > 0; k--) std::swap(o.perm[k], o.perm[r.below(k + 1)]);
      int c = r.below(8);
      if (c == 0) o.perm.push_back(nd); else if (c == 1 && nd > 0) o.perm[0] = o.perm[nd - 1]; else if (c == 2 && nd > 0) o.perm[r.below(nd)] = nd + 3;
      break; }
    default: break;
  }
  return o;
}

// ------------------------------------------------------------------ one run of a sequence
static FILE *fc, *fi, *fops = nullptr;
struct Variant { long seq; long fail; int rfop, rfkind, rfarg; };
static std::vector<std::pair<long, long>> g_stack_ranges; // allocation counters [first, last) spent inside stacking constructors (fault-free run)

static void reset_world() {
  for (int i = 0; i < NSLOT; i++) slot[i] = nullptr; // objects of an aborted variant are abandoned on purpose
  G.live.clear(); G.ev.clear(); G.bad = 0; G.nulld = 0; G.countdown = -1; G.nalloc = 0;
}
static std::string ev_str() { if (G.ev.empty()) return "-"; std::string s; for (auto& e : G.ev) { if (!s.empty()) s += " "; s += e; } return s; }

// runs ops (generating them when gen != nullptr); returns number of allocations performed
static long run_variant(const Variant& v, std::vector<Op>& ops, Rng* gen, int nops, const std::string& keep) {
  reset_world();
  G.countdown = v.fail > 0 ? v.fail - 1 : -1;
  fprintf(fc, "S %ld %ld %d %d %d\n", v.seq, v.fail, v.rfop, v.rfkind, v.rfarg); fprintf(fi, "S\n");
  int nconv = 0; long total = 0;
  for (int k = 0; k < nops; k++) {
    if (gen) { ops.push_back(gen_op(*gen, nconv)); if (fops) { fprintf(fops, "%s\n", ser(ops.back()).c_str()); fflush(fops); } }
    if (!keep.empty() && (k >= (int)keep.size() || keep[k] != '1')) continue;
    Op o = ops[k];
    if (k == v.rfop && (o.tag == 'R' || o.tag == 'M' || o.tag == 'F')) { o.kind = v.rfkind; o.arg = v.rfarg; }
    std::string line = op_line(o);
    fprintf(fc, "%s\n", line.c_str()); fflush(fc);
    fprintf(fi, "#%s\n", line.c_str()); fflush(fi); // the op about to run (crash attribution); ignored by the comparison
    CT* target = (o.tag != 'C' && o.tag != 'F' && o.tag != 'X' && o.tag != 'Y' && o.i < NSLOT) ? slot[o.i] : nullptr;
    std::string before = digest(target);
    G.ev.clear(); long nulld0 = G.nulld, nalloc0 = G.nalloc;
    std::string res = exec(o);
    if (gen && o.tag == 'Y' && G.nalloc > nalloc0) g_stack_ranges.push_back({nalloc0, G.nalloc});
    if (o.tag == 'T' && o.glam == 0 && g_glam_fired) { stats["glam_failures"] += g_glam_fired; g_glam_fired = 0; }
    if (res == "ok" && o.tag == 'V') nconv++;
    std::string after = (o.tag == 'D') ? "dead" : digest((o.i < NSLOT) ? slot[o.i] : nullptr);
    const char* same = (res != "threw" || o.tag == 'Y') ? "-" : (after == before ? "same" : (after == "empty" ? "empty" : (after == "dead" ? "dead" : "CHANGED")));
    std::string src = "-";
    if ((o.tag == 'X' || o.tag == 'A') && res == "ok" && o.i != o.j) src = digest(slot[o.j]);
    fprintf(fi, "%s | %s | %s | %zu %zu %ld | %s %s %ld\n", res.c_str(), ev_str().c_str(), state_str().c_str(), G.live.size(), G.bytes(), G.bad, same, src.c_str(), G.nulld - nulld0);
    fflush(fi);
    stats[std::string("op_") + o.tag]++; stats["res_" + res]++;
  }
  // end of history: destroy everything that is still alive
  fprintf(fc, "Z\n"); fflush(fc); fprintf(fi, "#Z\n"); fflush(fi);
  G.ev.clear();
  for (int i = 0; i < NSLOT; i++) if (slot[i]) { delete slot[i]; slot[i] = nullptr; }
  fprintf(fi, "ok | %s | %s | %zu %zu %ld | - - 0\n", ev_str().c_str(), state_str().c_str(), G.live.size(), G.bytes(), G.bad);
  fflush(fi);
  // blocks still live here are leaks through the allocator; release them so that LSan only sees foreign leaks
  for (auto& p : G.live) free(p.first);
  G.live.clear();
  return G.nalloc;
}

// ------------------------------------------------------------------ known-defect demonstrations, one per process
// prints "PROBE <name> <result> <live blocks> <live bytes> <bad>"; a crash (sanitizer report, assertion) ends the process instead.
static int probe(const std::string& name, const std::string& dir) {
  std::string p = dir + "/stackbase.fits", p2 = dir + "/stackbase2.fits";
  { psv::Table t; std::vector<uint32_t> ord{2}; std::vector<std::vector<double>> kn{{0, 1, 2, 3, 4, 5, 6, 7}}; std::vector<float> coef(5, 1.f);
    psv::build_table(t, ord, kn, coef); t.write_fits(p); }
  { psv::Table t; std::vector<uint32_t> ord{2}; std::vector<std::vector<double>> kn{{0, 1, 2, 3, 4, 5, 6, 7, 8, 9, 10, 11}}; std::vector<float> coef(9, 1.f);
    psv::build_table(t, ord, kn, coef); t.write_fits(p2); }
  reset_world();
  std::string res = "ok";
  std::vector<double> x{0, 1, 2};
  try {
    if (name == "stack-then-permute") { CT a(p), b(p), c(p); std::vector<CT*> v{&a, &b, &c}; CT s(v, x, 2); std::vector<size_t> q{1, 0}; s.permuteDimensions(q); }
    else if (name == "stack-then-convolve") { CT a(p), b(p), c(p); std::vector<CT*> v{&a, &b, &c}; CT s(v, x, 2); double k[3] = {-0.1, 0.0, 0.1}; s.convolve(0, k, 3); }
    else if (name == "stack-then-extent") { CT a(p), b(p), c(p); std::vector<CT*> v{&a, &b, &c}; CT s(v, x, 2); if (!(s.lower_extent(0) <= s.upper_extent(0))) res = "wrong"; }
    else if (name == "stack-alloc-failure") { // every position of one failed allocation inside the constructor
      CT a(p), b(p), c(p); std::vector<CT*> v{&a, &b, &c};
      long before = G.nalloc; { CT s(v, x, 2); } long n = G.nalloc - before; size_t live0 = G.live.size(); long leaks = 0;
      for (long k = 0; k < n; k++) { G.countdown = k; try { CT s(v, x, 2); res = "nothrow"; } catch (std::bad_alloc&) {} G.countdown = -1;
        if (G.live.size() != live0) leaks++;
        live0 = G.live.size(); }
      if (leaks) res = "leaked-at-" + std::to_string(leaks) + "-of-" + std::to_string(n) + "-positions";
      size_t own = 0; for (CT* t : v) own += 9 + t->ndim + (t->aux ? 1 + 3 * t->naux : 0); // what a, b, c themselves hold
      printf("PROBE %s %s %zu %zu %ld\n", name.c_str(), res.c_str(), G.live.size() - own, G.bytes(), G.bad); return 0; }
    else if (name == "write-mem-failure") { // a failing write_fits_mem: the buffer it was building must not be abandoned (LeakSanitizer decides)
      CT a(p); for (int kind = 1; kind <= 4; kind++) { IoArm arm(kind, 0); try { auto r = a.write_fits_mem(); free(r.first); res = "nothrow"; } catch (std::exception&) {} } }
    else if (name == "stack-single-table") { CT a(p); std::vector<CT*> v{&a}; std::vector<double> x1{0}; CT s(v, x1, 2); }
    else if (name == "stack-mismatched-shapes") { CT a(p), b(p2); std::vector<CT*> v{&b, &a, &b}; CT s(v, x, 2); }
    else if (name == "stack-empty-table") { CT a(p), e; std::vector<CT*> v{&a, &e, &a}; CT s(v, x, 2); }
    else { fprintf(stderr, "unknown probe\n"); return 2; }
  } catch (std::exception& e) { res = "threw"; }
  printf("PROBE %s %s %zu %zu %ld\n", name.c_str(), res.c_str(), G.live.size(), G.bytes(), G.bad);
  return 0;
}

int main(int argc, char** argv) {
  { const char* c = getenv("PSV_C20_CFG"); g_cfg_repaired = c && !strcmp(c, "repaired"); }
  if (argc == 4 && !strcmp(argv[1], "probe")) return probe(argv[2], argv[3]);
  if (argc < 7) { fprintf(stderr, "usage\n"); return 2; }
  fc = fopen(argv[1], "w"); fi = fopen(argv[2], "w");
  fprintf(fc, "CFG %s\n", g_cfg_repaired ? "repaired" : "head"); fprintf(fi, "CFG\n");
  long first = atol(argv[4]), nseq = atol(argv[5]); scratch = argv[6];
  uint64_t seed = psv::env_seed();
  Rng fr(seed * 7919 + 17);
  for (int k = 0; k < 4; k++) files.push_back(make_file(fr, scratch, k));
  const char* only = getenv("PSV_ONLY"); const char* keepenv = getenv("PSV_KEEP");
  long maxfail = psv::env_long("PSV_MAXFAIL", 100000);
  std::string keep = keepenv ? keepenv : "";
  long variants = 0;
  if (only) {
    Variant v; sscanf(only, "%ld %ld %d %d %d", &v.seq, &v.fail, &v.rfop, &v.rfkind, &v.rfarg);
    // the history of that sequence as generated (and saved) by the full run: PSV_OPSFILE
    std::vector<Op> ops; { std::ifstream f(getenv("PSV_OPSFILE") ? getenv("PSV_OPSFILE") : ""); std::string l; while (std::getline(f, l)) if (!l.empty()) ops.push_back(deser(l)); }
    int nops = ops.size();
    run_variant(v, ops, nullptr, nops, keep);
    variants = 1;
  } else for (long s = first; s < first + nseq; s++) {
    Rng r(seed * 1000003ULL + s * 7 + 1); std::vector<Op> ops; int nops = 6 + (int)r.below(20);
    fops = fopen((scratch + "/ops_" + std::to_string(s) + ".txt").c_str(), "w");
    g_stack_ranges.clear();
    long nalloc = run_variant(Variant{s, 0, -1, 0, 0}, ops, &r, nops, ""); variants++;
    fclose(fops); fops = nullptr;
    stats["allocations_baseline"] += nalloc;
    for (long k = 1; k <= nalloc && k <= maxfail; k++) {
      // /repo as it is: a failed allocation inside the stacking constructor leaks (known finding, shown by the probe
      // `stack-alloc-failure`); those positions are only run on a tree with C20-14
      bool inside = false; for (auto& rg : g_stack_ranges) inside = inside || (k - 1 >= rg.first && k - 1 < rg.second);
      if (inside && !g_cfg_repaired) { stats["alloc_failure_positions_inside_stacking_skipped"]++; continue; }
      if (inside) stats["alloc_failure_variants_inside_stacking"]++;
      run_variant(Variant{s, k, -1, 0, 0}, ops, nullptr, nops, ""); variants++; stats["alloc_failure_variants"]++; }
    for (int k = 0; k < nops; k++) if ((ops[k].tag == 'R' || ops[k].tag == 'M' || ops[k].tag == 'F') && ops[k].kind == 0) {
      int nd = files[ops[k].file].dims.size();
      run_variant(Variant{s, 0, k, 1, (int)(s % 2)}, ops, nullptr, nops, ""); run_variant(Variant{s, 0, k, 2, 0}, ops, nullptr, nops, "");
      for (int d = 0; d < nd; d++) run_variant(Variant{s, 0, k, 3, d}, ops, nullptr, nops, "");
      variants += 2 + nd; stats["read_failure_variants"] += 2 + nd;
    }
#ifdef PSV_LSAN
    if (__lsan_do_recoverable_leak_check()) { fprintf(fi, "LEAK %ld\n", s); fprintf(fc, "LEAK %ld\n", s); fflush(fi); fflush(fc); stats["lsan_leak_sequences"]++; }
#endif
    stats["sequences"]++;
  }
  stats["variants"] = variants;
  FILE* js = fopen(argv[3], "w"); fprintf(js, "{");
  bool firstk = true; for (auto& p : stats) { fprintf(js, "%s\"%s\": %ld", firstk ? "" : ", ", p.first.c_str(), p.second); firstk = false; }
  fprintf(js, "}\n"); fclose(js);
  fclose(fc); fclose(fi);
  return 0;
}
