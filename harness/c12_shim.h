/*
 * C12 forced-include shim (gcc -include c12_shim.h) for src/fitter/cholesky_solve.c.
 *
 * Every pthread synchronisation call in that translation unit is redirected to
 * a psv_* function defined (extern "C") in harness/c12_harness.cpp, where it
 * becomes a yield point of a deterministic scheduler: real threads, but only
 * one runs at any time, and mutex / condvar / join semantics are implemented
 * by the scheduler (the real pthread mutex / cond are never locked or waited
 * on).  pthread_mutex_init / cond_init / pthread_attr_* pass through to the
 * real library; *_destroy are checked (see below) and then passed through.  CPU pinning is not part of the protocol.
 */
#ifndef PSV_C12_SHIM_H
#define PSV_C12_SHIM_H

#ifndef _GNU_SOURCE
#define _GNU_SOURCE 1
#endif
#include <pthread.h>
#include <sched.h>

#ifdef __cplusplus
extern "C" {
#endif
int psv_mutex_lock(pthread_mutex_t *);
int psv_mutex_unlock(pthread_mutex_t *);
int psv_cond_wait(pthread_cond_t *, pthread_mutex_t *);
int psv_cond_broadcast(pthread_cond_t *);
int psv_cond_signal(pthread_cond_t *);
int psv_create(pthread_t *, const pthread_attr_t *, void *(*)(void *), void *);
int psv_join(pthread_t, void **);
void psv_exit(void *) __attribute__((noreturn));
int psv_mutex_destroy(pthread_mutex_t *);
int psv_cond_destroy(pthread_cond_t *);
#ifdef __cplusplus
}
#endif

#define pthread_mutex_lock(m)        psv_mutex_lock(m)
#define pthread_mutex_unlock(m)      psv_mutex_unlock(m)
#define pthread_cond_wait(c, m)      psv_cond_wait(c, m)
#define pthread_cond_timedwait(c, m, t) psv_cond_wait(c, m) /* time-out never fires */
#define pthread_cond_broadcast(c)    psv_cond_broadcast(c)
#define pthread_cond_signal(c)       psv_cond_signal(c)
#define pthread_create(t, a, f, arg) psv_create(t, a, (void *(*)(void *))(f), arg)
#define pthread_join(t, r)           psv_join(t, r)
#define pthread_exit(r)              psv_exit(r)
/* teardown: not a scheduling point; the harness checks that nobody owns the mutex, the wait set is empty and every
 * worker has exited (PsV.C12_teardown_safe), then calls the real destroy */
#define pthread_mutex_destroy(m)     psv_mutex_destroy(m)
#define pthread_cond_destroy(c)      psv_cond_destroy(c)
#define sched_setaffinity(p, s, m)   0 /* avoids stdout noise; not in the protocol */

#endif /* PSV_C12_SHIM_H */
