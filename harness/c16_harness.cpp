// C16 correspondence harness: random histories of auxiliary-key operations on a real splinetable
// (write_key<int/double/string>, remove_key, get_aux_value, read_key<int/double/string>, the C wrappers,
// write_fits_mem -> read_fits_mem round trips), one op per line for the Lean model, one outcome + the full
// ordered store per line from the implementation.  Strings are hex-encoded ("-" = empty).
// usage: c16_harness <nseq> <maxops> <ncards> <cases> <impl> <stats>
#include "common.h"
using namespace psv;

static std::string hex(const std::string& s) {
  if (s.empty()) return "-";
  static const char* d = "0123456789abcdef";
  std::string r;
  for (unsigned char c : s) { r += d[c >> 4]; r += d[c & 15]; }
  return r;
}

static Table* fresh_table() {
  Table* t = new Table();
  std::vector<uint32_t> ord{1};
  std::vector<std::vector<double>> kn{{0, 1, 2, 3, 4}};
  std::vector<float> coef(ncoef(ord, kn), 1.0f);
  build_table(*t, ord, kn, coef);
  return t;
}

static std::string store_of(const Table& t) {
  if (t.get_naux_values() == 0) return ".";
  std::string r;
  for (size_t i = 0; i < t.get_naux_values(); i++) {
    if (i) r += ",";
    r += hex(t.get_aux_key(i)) + ":" + hex(&*t.aux[i][1]);
  }
  return r;
}

static const char* wkind(const std::string& m) {
  if (m.find("Cannot set key with reserved name") == 0) return "reserved";
  if (m.find("Standard (short) FITS header keywords are forbidden") == 0) return "shortchar";
  if (m.find("Standard (short) FITS header keywords must not") == 0) return "haseq";
  if (m.find("Long (HIERARCH) FITS header keywords must not") == 0) return "haslower";
  if (m.find("Long (HIERARCH) FITS header keyword leaves no room") == 0) return "keytoolong";
  if (m.find("Value is too long") == 0) return "valuetoolong";
  if (m.find("FITS header keywords must not be empty or begin") == 0) return "edgeblank";
  if (m.find("Long (HIERARCH) FITS header keywords may only contain printable") == 0) return "keynonprint";
  if (m.find("Value contains a character other than printable ASCII") == 0) return "valuenonprint";
  return "other-exception";
}

static std::map<std::string, long> stats;
static void count(const std::string& k) { stats[k]++; }

static std::string rnd_chars(Rng& r, int n, const char* alphabet) {
  std::string s; size_t m = strlen(alphabet);
  for (int i = 0; i < n; i++) s += alphabet[r.below(m)];
  return s;
}
static const char* UPPER = "ABCDEFGHIJKLMNOPQRSTUVWXYZ0123456789";
static const char* LONGCH = "ABCDEFGHIJKLMNOPQRSTUVWXYZ0123456789 .-_'/:+";

static std::string gen_key(Rng& r, std::string& cat) {
  if (r.coin(1, 10)) {
    // the vocabulary of the FITS standard and of common conventions (bookkeeping cards that other tools write or refresh,
    // WCS, table and checksum keywords), verbatim, extended and as prefixes of long keys: whatever write_key accepts is an
    // entry like any other and has to survive
    cat = "fitsvocab";
    static const char* voc[] = {"CHECKSUM", "DATASUM", "DATE", "DATE-OBS", "DATEOBS", "DATE-END", "DATEOFCALIBRATION", "DATE OF CALIBRATION", "ORIGIN", "AUTHOR", "REFERENC", "OBSERVER",
                                "TELESCOP", "INSTRUME", "OBJECT", "EQUINOX", "EPOCH", "BSCALE", "BZERO", "BUNIT", "BLANK", "DATAMAX", "DATAMIN", "EXTVER", "EXTLEVEL", "EXTNAME1", "HDUNAMES",
                                "HDUVER", "HDULEVEL", "INHERIT", "LONGSTRN", "PCOUNT", "GCOUNT", "TFIELDS", "TFORM1", "TTYPE1", "TUNIT1", "THEAP", "GROUPS", "BLOCKED", "CTYPE1", "CRPIX1",
                                "CRVAL1", "CDELT1", "CROTA2", "CUNIT1", "CD1_1", "PC1_1", "WCSAXES", "RADESYS", "LONPOLE", "LATPOLE", "MJD-OBS", "TIMESYS", "ZIMAGE", "ZCMPTYPE", "ZNAXIS",
                                "CHECKVER", "FILENAME", "CREATOR", "SOFTWARE", "VERSION", "CONTINUE1", "HISTORY1", "COMMENT1", "ENDIAN", "XTENSIO", "SIMPL", "BITPI", "NAXI", "EXTEN"};
    std::string k = voc[r.below(sizeof voc / sizeof voc[0])];
    switch (r.below(6)) { case 0: k += rnd_chars(r, r.range(1, 3), UPPER); break; case 1: k = k + " " + rnd_chars(r, r.range(1, 12), UPPER); break; default: break; }
    return k;
  }
  int c = r.below(100);
  if (c < 30) { // short standard
    cat = "short";
    static const char* fixed[] = {"A", "KEY1", "ABCDEFGH", "X9", "GEOTYPE", "LEVEL", "TYP", "ORDE", "COMMEN", "N", "8", "HIERARCH"};
    if (r.coin(2, 3)) return fixed[r.below(12)];
    return rnd_chars(r, r.range(1, 8), UPPER);
  }
  if (c < 58) { // long (HIERARCH) keys
    cat = "long";
    static const char* fixed[] = {"LONGKEYNAME", "MY LONG KEY", "KEY.WITH.DOTS", "LONG-KEY_NAME", "ABCDEFGHI", "LONG KEY'S NAME", "A B C D E F", "GEOMETRY TYPE"};
    if (r.coin(1, 2)) return fixed[r.below(8)];
    int len;
    switch (r.below(4)) {
      case 0: len = r.range(9, 30); break;
      case 1: len = r.range(55, 70); break;       // around the end of the card: 59/60, 66/67/68
      case 2: len = r.range(9, 66); break;
      default: { static const int L[] = {59, 60, 65, 66, 67, 68, 69, 70, 74, 75, 80, 120}; len = L[r.below(12)]; }
    }
    cat = len >= 67 ? "long>=67" : (len >= 60 ? "long60-66" : "long");
    std::string s = rnd_chars(r, len, r.coin() ? UPPER : LONGCH);
    if (s[0] == ' ') s[0] = 'Q';
    if (s[len - 1] == ' ') s[len - 1] = 'Q';
    return s;
  }
  if (c < 72) { // reserved prefixes
    cat = "reserved";
    static const char* fixed[] = {"TYPE", "TYPEX", "ORDER0", "ORDER", "NAXIS", "NAXIS12", "BITPIX", "SIMPLE", "SIMPLE KEY LONG", "COMMENT", "COMMENTARY", "PERIOD12", "EXTEND", "EXTENDED KEY", "type", "BITPIX=1"};
    return fixed[r.below(16)];
  }
  if (c < 82) { // lower case
    cat = "lower";
    static const char* fixed[] = {"key", "Key1", "kEY", "lowercase long key", "LONG KEY lower", "LONGKEYNAMe", "abcdefgh", "abcdefghi"};
    return fixed[r.below(8)];
  }
  if (c < 94) { // punctuated
    cat = "punct";
    static const char* fixed[] = {"A-B", "A_B", "A.B", "A B", "KEY=1", "LONG KEY=VALUE", "A'B", "=", "LONGKEYNAME=", "A-B-C-D-E", "KEY_WITH_UNDERSCORES", "-", "_X"};
    return fixed[r.below(13)];
  }
  // keys that cfitsio does not store verbatim
  cat = "odd";
  static const char* fixed[] = {"", " LEADING SP", "TRAILING SP ", "HIERARCH FOO", "HISTORY", "CONTINUE", "END", "         ", "HIERARCH  TWO BLANKS",
                                "LONG\tKEY NAME", "LONG KEY \x7f DEL", "K\xc3\x89Y LONG NAME", " ", "ENDPOINT", "HISTORY1", "HIERARCHY", "CONTINUED",
                                "EXTNAME", "HDUNAME", "EXTNAME1", "HDUNAMES", "EXTVER"};
  return fixed[r.below(sizeof fixed / sizeof fixed[0])];
}

// maxdatalen as the *documentation* of the format has it (independent of write_key): used only to aim values at the limit
static int room_for(const std::string& key) {
  int n = key.size();
  if (n <= 8) return 68;
  return 67 - n;
}

static std::string gen_value(Rng& r, const std::string& key, std::string& cls) {
  int room = room_for(key);
  int c = r.below(100);
  if (c < 8) { cls = "empty"; return ""; }
  if (c < 30) { cls = "plain"; static const char* f[] = {"x", "hello", "some value", "12345678", "123456789", " lead", "trail ", "a/b", "k=v", "  "}; return f[r.below(10)]; }
  if (c < 42) { cls = "numeric-text"; static const char* f[] = {"42", " 17", "-5x", "1e5", "99999999999", "-99999999999", "+7", "-", "0x10", "2147483647", "2147483648", "-2147483648", "-2147483649", "007", "3.25", ".5", "1e", "abc", "\t12", "nan", "inf", "caf\xc3\xa9", "a\x7f" "b", "two\nlines", "tab\t"}; return f[r.below(25)]; }
  if (c < 62) { // at / around the limit, no quotes
    int d = r.range(-1, 1); int len = room + d; if (len < 0) len = 0; if (len > 400) len = 400;
    cls = d < 0 ? "max-1" : (d == 0 ? "max" : "max+1");
    return rnd_chars(r, len, "abcdefghijklmnopqrstuvwxyz0123456789 ");
  }
  if (c < 84) { // quotes
    cls = "quote";
    static const char* f[] = {"it's", "'", "''", "'quoted'", "a''b", "'''", "x'", "'x", "don't can't"};
    if (r.coin()) return f[r.below(9)];
    // quotes near the limit: length + quotes around room
    cls = "quote-near-max";
    int q = r.range(1, 6); int target = room + r.range(-1, 1); int len = target - q; if (len < q) len = q;
    std::string s = rnd_chars(r, len, "abcdefghij ");
    for (int i = 0; i < q; i++) s[r.below(len)] = '\'';
    return s;
  }
  if (c < 92) { cls = "many-quotes"; return std::string(r.range(2, 70), '\''); }
  cls = "long"; return rnd_chars(r, r.range(60, 90), "abcdefghijklmnopqrstuvwxyz' ");
}

template <typename T> static std::string stream_text(const T& v) { std::ostringstream ss; ss << v; return ss.str(); }

int main(int argc, char** argv) {
  if (argc < 7) { fprintf(stderr, "usage\n"); return 2; }
  int nseq = atoi(argv[1]), maxops = atoi(argv[2]), ncards = atoi(argv[3]);
  FILE* fc = fopen(argv[4], "w"); FILE* fi = fopen(argv[5], "w");
  if (getenv("C16_DEBUG")) { setvbuf(fc, nullptr, _IONBF, 0); setvbuf(fi, nullptr, _IONBF, 0); }   // a crash then leaves the failing operation as the last line
  Rng r(env_seed() * 7919 + 16);
  for (int s = 0; s < nseq; s++) {
    Table* t = fresh_table();
    fprintf(fc, "N\n"); fprintf(fi, "new | .\n");
    // a small pool of keys so that overwrites, removals and lookups hit
    std::vector<std::string> pool; std::vector<std::string> cats;
    int np = r.range(3, 7);
    for (int i = 0; i < np; i++) { std::string cat; pool.push_back(gen_key(r, cat)); cats.push_back(cat); }
    int nops = r.range(5, maxops);
    for (int o = 0; o < nops; o++) {
      int ki = r.below(np);
      int c = r.below(100);
      if (c >= 42 && c < 86 && t->get_naux_values() > 0 && r.coin(1, 2)) { // lookups/removals: aim at a stored key half of the time
        std::string want = t->get_aux_key(r.below(t->get_naux_values()));
        for (int j = 0; j < np; j++) if (pool[j] == want) ki = j;
      }
      const std::string& key = pool[ki];
      std::string out;
      struct splinetable ct; ct.data = t;
      if (c < 42) { // writes
        int kind = r.below(10);
        count("key:" + cats[ki]);
        try {
          bool res; size_t before = t->get_naux_values(); bool viaC = false;
          if (kind < 6) {
            std::string cls; std::string v = gen_value(r, key, cls); count("value:" + cls);
            fprintf(fc, "W %s %s\n", hex(key).c_str(), hex(v).c_str()); count("op:write-string");
            res = t->write_key(key.c_str(), v);
          } else if (kind < 9) {
            int n; switch (r.below(6)) { case 0: n = 0; break; case 1: n = -1; break; case 2: n = std::numeric_limits<int>::max(); break;
              case 3: n = std::numeric_limits<int>::min(); break; case 4: n = r.range(-1000, 1000); break; default: n = (int)(uint32_t)r.next(); }
            fprintf(fc, "I %s %d\n", hex(key).c_str(), n); count("op:write-int");
            if (r.coin(1, 4)) { viaC = true; count("op:write-int-C"); int rc = splinetable_write_key(&ct, SPLINETABLE_INT, key.c_str(), &n); if (rc) throw std::runtime_error("C-wrapper"); res = t->get_naux_values() > before; }
            else res = t->write_key(key.c_str(), n);
          } else {
            double d; switch (r.below(7)) { case 0: d = 0; break; case 1: d = -2.5; break; case 2: d = 1e300; break; case 3: d = std::numeric_limits<double>::quiet_NaN(); break;
              case 4: d = std::numeric_limits<double>::infinity(); break; case 5: d = r.unit() * 1000 - 500; break; default: d = std::ldexp(r.unit(), r.range(-60, 60)); }
            fprintf(fc, "D %s %s\n", hex(key).c_str(), hex(stream_text(d)).c_str()); count("op:write-double");
            if (r.coin(1, 4)) { viaC = true; int rc = splinetable_write_key(&ct, SPLINETABLE_DOUBLE, key.c_str(), &d); if (rc) throw std::runtime_error("C-wrapper"); res = t->get_naux_values() > before; }
            else res = t->write_key(key.c_str(), d);
          }
          (void)viaC;
          out = res ? "w:appended" : "w:updated";
        } catch (std::exception& e) {
          std::string m = e.what();
          out = m == "C-wrapper" ? "w:threw" : std::string("w:") + wkind(m);
        }
        count("outcome:" + out);
      } else if (c < 54) {
        fprintf(fc, "X %s\n", hex(key).c_str()); count("op:remove");
        bool res = t->remove_key(key.c_str());
        out = res ? "rm:1" : "rm:0"; count("outcome:" + out);
      } else if (c < 63) {
        fprintf(fc, "G %s\n", hex(key).c_str()); count("op:get");
        const char* v = t->get_aux_value(key.c_str());
        const char* v2 = splinetable_get_key(&ct, key.c_str());
        if (v != v2) out = "g:C-wrapper-differs";
        else out = v ? "g:text:" + hex(v) : "g:absent";
        count(v ? "outcome:get-present" : "outcome:get-absent");
      } else if (c < 73) {
        fprintf(fc, "RI %s\n", hex(key).c_str()); count("op:read-int");
        int res = 777, res2 = 777;
        bool ok = t->read_key(key.c_str(), res);
        int rc = splinetable_read_key(&ct, SPLINETABLE_INT, key.c_str(), &res2);
        bool present = t->get_aux_value(key.c_str()) != nullptr;
        // the C wrapper returns 0 exactly when the C++ read_key succeeds (C18 repair: a missing or unparsable key is reported)
        if ((rc == 0) != ok || res2 != res) out = "ri:C-wrapper-differs";
        else if (!present) out = (ok || res != 777) ? "ri:absent-but-result-touched" : "ri:absent";
        else out = std::string("ri:") + (ok ? "1" : "0") + ":" + (res == 777 && !ok ? std::string("untouched") : std::to_string(res));
        count(!present ? "outcome:ri-absent" : (ok ? "outcome:ri-ok" : "outcome:ri-fail"));
      } else if (c < 80) {
        fprintf(fc, "RS %s\n", hex(key).c_str()); count("op:read-string");
        std::string res = "\x01untouched";
        bool ok = t->read_key(key.c_str(), res);
        if (!ok) out = res == "\x01untouched" ? "rs:absent" : "rs:absent-but-result-touched";
        else out = "rs:1:" + hex(res);
      } else if (c < 86) {
        fprintf(fc, "RD %s\n", hex(key).c_str()); count("op:read-double");
        double res = 777.25, res2 = 777.25;
        bool ok = t->read_key(key.c_str(), res);
        int rcd = splinetable_read_key(&ct, SPLINETABLE_DOUBLE, key.c_str(), &res2);
        bool present = t->get_aux_value(key.c_str()) != nullptr;
        if ((rcd == 0) != ok || cbits(res) != cbits(res2)) out = "rd:C-wrapper-differs";
        else if (!present) out = (ok || res != 777.25) ? "rd:absent-but-result-touched" : "rd:absent";
        else out = std::string("rd:") + (ok ? "1" : "0") + ":" + std::to_string(cbits(res));
      } else {
        fprintf(fc, "F\n"); count("op:fits-roundtrip");
        std::pair<void*, size_t> buf((void*)nullptr, 0);
        bool wrote = false;
        try { buf = t->write_fits_mem(); wrote = true; }
        catch (std::exception& e) { out = std::string(e.what()).find("Failed to write aux entry") != std::string::npos ? "f:writefail" : std::string("f:write-exception"); }
        if (wrote) {
          Table* u = new Table();
          try {
            u->read_fits_mem(buf.first, buf.second);
            delete t; t = u; out = "f:ok";
          } catch (std::exception& e) { delete u; out = "f:read-exception"; }
          free(buf.first);
        }
        count("outcome:" + out);
      }
      fprintf(fi, "%s | %s\n", out.c_str(), store_of(*t).c_str());
    }
    count("sequences");
    delete t;
  }
  // direct cfitsio card checks of the model of ffs2c/ffmkky/ffprec/ffgrec/ffgknm/ffpsvc, on pairs write_key accepts
  {
    Table* t = fresh_table();
    for (int i = 0; i < ncards; i++) {
      std::string cat, cls; std::string key = gen_key(r, cat); std::string v = gen_value(r, key, cls);
      try { t->write_key(key.c_str(), v); } catch (std::exception&) { continue; }
      t->remove_key(key.c_str());
      fprintf(fc, "K %s %s\n", hex(key).c_str(), hex(v).c_str()); count("op:card-check");
      fitsfile* f; int st = 0; size_t sz = 2880; void* mem = malloc(sz);
      fits_create_memfile(&f, &mem, &sz, 2880, realloc, &st);
      long ax = 1; fits_create_img(f, FLOAT_IMG, 1, &ax, &st);
      int n0 = 0; fits_get_hdrspace(f, &n0, NULL, &st);
      fits_write_key(f, TSTRING, key.c_str(), (void*)v.c_str(), NULL, &st);
      std::string out;
      if (st) { out = "k:err"; fits_clear_errmsg(); }
      else {
        char card[FLEN_CARD] = "", name[FLEN_KEYWORD] = "", val[FLEN_VALUE] = "";
        fits_read_record(f, n0 + 1, card, &st);
        fits_read_keyn(f, n0 + 1, name, val, NULL, &st);
        out = st ? "k:read-err" : "k:" + hex(card) + ":" + hex(name) + ":" + hex(val);
      }
      st = 0; fits_close_file(f, &st); free(mem);
      fprintf(fi, "%s | .\n", out.c_str());
    }
    delete t;
  }
  fclose(fc); fclose(fi);
  FILE* fs = fopen(argv[6], "w");
  fprintf(fs, "{");
  bool first = true;
  for (auto& kv : stats) { fprintf(fs, "%s\"%s\": %ld", first ? "" : ", ", kv.first.c_str(), kv.second); first = false; }
  fprintf(fs, "}\n"); fclose(fs);
  return 0;
}
