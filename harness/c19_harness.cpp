// C19 correspondence harness: byte-counting allocator around the real reader / convolve / estimateMemory.
//
// For every generated case (a table written by the real write_fits, with aux keys added by the real write_key)
// and every convolution configuration it prints
//   case line  (input of the Lean driver):  C <objsize> <ndim> <n> <convdim> <doconv> <nauxK> <naux> {order nknots naxes}*ndim {keylen vallen storedlen}*naux
//   impl line  (what the real code did)   :  est <E> estdef <E'> peak <P> live <L> pad16 <P16> end <Z> ev <a|f><bytes> ... | <a|f><bytes> ... | <f><bytes> ...
//                                            (requests of the constructor | of convolve | of the destructor; P16 = peak with every block rounded
//                                             up to 16 bytes; Z = bytes still live after the destructor)
//                                            or, when the library refused the file:  rejected est <E> peak <P> live <L> <message>
// The case line is computed WITHOUT the code under test where possible: shapes come from the table the harness built,
// key/value lengths from a cfitsio-only dump of the cards of HDU 1 (cross-checked against the keys the harness wrote),
// storedlen from the harness' own un-quoting of the raw card value (cross-checked against the string the loaded table
// holds), nauxK from a cfitsio-only dump of the last KNOTS extension.
// Besides the keys written through write_key (always quoted strings in the file) the harness adds, with cfitsio alone,
// cards whose value is NOT quoted (integer, floating point, logical, HISTORY): for those the reader keeps the first block.
//
// usage: c19_harness <ncases> <outprefix> [profile]     profile: G (generated, consistent files) | I (files the reader must refuse:
//        image axis larger / smaller than nknots-order-1, fewer than 2*order+2 knots)
#include "common.h"
#include <unistd.h>
#include <sys/wait.h>
#include <set>

namespace {

struct Event { char kind; size_t bytes; };
struct Ledger {
  size_t live = 0, peak = 0;
  size_t live16 = 0, peak16 = 0;   // the same requests with every block rounded up to a multiple of 16 bytes
  std::vector<Event> ev;
  std::map<void*, size_t> blocks;
  size_t mismatched_frees = 0;
  void reset() { live = peak = 0; live16 = peak16 = 0; ev.clear(); blocks.clear(); mismatched_frees = 0; }
};
static Ledger L;

// A std-conforming (C++11 minimal) allocator that records every request made through it.
template <typename T>
struct CountingAlloc {
  typedef T value_type;
  Ledger* led;
  CountingAlloc() : led(&L) {}
  explicit CountingAlloc(Ledger* l) : led(l) {}
  template <typename U> CountingAlloc(const CountingAlloc<U>& o) : led(o.led) {}
  T* allocate(size_t n) {
    size_t b = n * sizeof(T);
    led->live += b; if (led->live > led->peak) led->peak = led->live;
    led->live16 += (b + 15) / 16 * 16; if (led->live16 > led->peak16) led->peak16 = led->live16;
    led->ev.push_back(Event{'a', b});
    void* p = ::operator new(b ? b : 1);
    led->blocks[p] = b;
    return static_cast<T*>(p);
  }
  void deallocate(T* p, size_t n) {
    size_t b = n * sizeof(T);
    led->ev.push_back(Event{'f', b});
    led->live -= b;
    led->live16 -= (b + 15) / 16 * 16;
    std::map<void*, size_t>::iterator it = led->blocks.find((void*)p);
    if (it == led->blocks.end() || it->second != b) led->mismatched_frees++;
    if (it != led->blocks.end()) led->blocks.erase(it);
    ::operator delete((void*)p);
  }
  template <typename U> struct rebind { typedef CountingAlloc<U> other; };
  template <typename U> bool operator==(const CountingAlloc<U>& o) const { return led == o.led; }
  template <typename U> bool operator!=(const CountingAlloc<U>& o) const { return led != o.led; }
};
template <>
struct CountingAlloc<void> {
  typedef void value_type;
  Ledger* led;
  CountingAlloc() : led(&L) {}
  explicit CountingAlloc(Ledger* l) : led(l) {}
  template <typename U> CountingAlloc(const CountingAlloc<U>& o) : led(o.led) {}
  template <typename U> struct rebind { typedef CountingAlloc<U> other; };
  template <typename U> bool operator==(const CountingAlloc<U>& o) const { return led == o.led; }
  template <typename U> bool operator!=(const CountingAlloc<U>& o) const { return led != o.led; }
};
typedef photospline::splinetable<CountingAlloc<void> > CTable;

const char* kReserved[] = {"BITPIX", "SIMPLE", "TYPE", "ORDER", "NAXIS", "PERIOD", "EXTEND", "COMMENT"};
// the harness' own copy of the reserved-prefix rule (the library's is compared against it on every key)
bool reservedOwn(const char* key) {
  for (size_t i = 0; i < sizeof(kReserved) / sizeof(kReserved[0]); i++)
    if (strncmp(kReserved[i], key, strlen(kReserved[i])) == 0) return true;
  return false;
}

struct Card { std::string key, value; };
// cfitsio-only dump of the non-reserved cards of the HDU that `move` selects
bool dump_cards(const std::string& path, int hdunum, const char* extname, std::vector<Card>& out, long& reserved_disagree) {
  fitsfile* f; int err = 0;
  fits_open_diskfile(&f, path.c_str(), READONLY, &err);
  if (err) return false;
  int type;
  if (extname) fits_movnam_hdu(f, IMAGE_HDU, const_cast<char*>(extname), 0, &err);
  else fits_movabs_hdu(f, hdunum, &type, &err);
  int nkeys = 0;
  fits_get_hdrspace(f, &nkeys, NULL, &err);
  for (int j = 1; j <= nkeys && !err; j++) {
    char key[FLEN_KEYWORD], value[FLEN_VALUE]; int e = 0;
    fits_read_keyn(f, j, key, value, NULL, &e);
    if (e) continue;
    if (reservedOwn(key) != photospline::reservedFitsKeyword(key)) reserved_disagree++;
    if (reservedOwn(key)) continue;
    out.push_back(Card{key, value});
  }
  int e2 = 0; fits_close_file(f, &e2);
  return err == 0;
}

// The harness' own statement of what the table stores for a raw card value: a value that starts with a quote loses
// that quote and a closing quote at its very end, and every pair of quotes inside becomes one quote.
std::string unquote_own(const std::string& raw) {
  if (raw.empty() || raw[0] != '\'') return raw;
  size_t b = 1, e = raw.size();
  if (e >= 2 && raw[e - 1] == '\'') e--;
  std::string out;
  for (size_t i = b; i < e; i++) {
    out += raw[i];
    if (raw[i] == '\'' && i + 1 < e && raw[i + 1] == '\'') i++;
  }
  return out;
}
std::string rtrim(std::string s) { while (!s.empty() && s[s.size() - 1] == ' ') s.erase(s.size() - 1); return s; }

// cards with unquoted values, written with cfitsio alone into the primary header of an existing file
bool add_plain_cards(const std::string& path, psv::Rng& r, int n, std::vector<std::pair<std::string, std::string> >& wrote, std::map<int, long>& h_kind) {
  fitsfile* f; int err = 0, type = 0;
  fits_open_diskfile(&f, path.c_str(), READWRITE, &err);
  if (err) return false;
  fits_movabs_hdu(f, 1, &type, &err);
  bool history = false;
  for (int a = 0; a < n && !err; a++) {
    std::ostringstream k; k << "ZP" << a << "X" << r.below(1000);
    int kind = r.below(history ? 3 : 4);
    h_kind[kind]++;
    switch (kind) {
      case 0: { long v = (long)(r.next() % 2000000) - 1000000; fits_write_key(f, TLONG, k.str().c_str(), &v, NULL, &err); wrote.push_back(std::make_pair(k.str(), std::string("\x01"))); break; }
      case 1: { double v = (r.unit() - 0.5) * std::ldexp(1.0, r.range(-40, 40)); fits_write_key(f, TDOUBLE, k.str().c_str(), &v, NULL, &err); wrote.push_back(std::make_pair(k.str(), std::string("\x01"))); break; }
      case 2: { int v = r.coin(); fits_write_key(f, TLOGICAL, k.str().c_str(), &v, NULL, &err); wrote.push_back(std::make_pair(k.str(), std::string("\x01"))); break; }
      default: { fits_write_history(f, "written by the C19 harness", &err); wrote.push_back(std::make_pair(std::string("HISTORY"), std::string("\x01"))); history = true; break; }
    }
  }
  int e2 = 0; fits_close_file(f, &e2);
  return err == 0 && e2 == 0;
}

std::string gen_key(psv::Rng& r, std::set<std::string>& used, bool longkey) {
  static const char alpha[] = "ABCDEFGHIJKLMNOPQRSTUVWXYZ0123456789";
  for (;;) {
    int len = longkey ? r.range(9, 55) : r.range(1, 8);
    std::string k(1, 'Z');  // never a reserved prefix, never a structural FITS key
    for (int i = 1; i < len; i++) k += (longkey && r.coin(1, 8)) ? '_' : alpha[r.below(36)];
    if (used.insert(k).second) return k;
    if (!longkey && used.size() > 30) longkey = true;
  }
}
std::string gen_value(psv::Rng& r, size_t maxlen) {
  size_t len;
  switch (r.below(5)) {
    case 0: len = maxlen; break;                 // maximal card
    case 1: len = r.below(3); break;             // empty / tiny
    default: len = r.below(maxlen + 1); break;   // all lengths
  }
  std::string v;
  static const char chars[] = "abcdefghijklmnopqrstuvwxyzABCDEFGHIJKLMNOPQRSTUVWXYZ0123456789 .,:;+-*/_()[]<>=!?#$%&@^~|";
  // embedded quotes (stored doubled in the card, un-doubled by the reader): none / a few / many
  int qrate = r.below(4) == 0 ? (r.coin() ? 3 : 12) : 0;
  for (size_t i = 0; i < len; i++) v += (qrate && (int)r.below(qrate) == 0) ? '\'' : chars[r.below(sizeof(chars) - 1)];
  // write_key accepts a value when its length plus the number of its quotes fits
  while (v.size() + (size_t)std::count(v.begin(), v.end(), '\'') > maxlen) v.erase(v.size() - 1);
  return v;
}

// photospline::factorial(0) runs a 2^32-iteration loop on the unrepaired tree (property C14); convolving an order-0
// dimension or using a 1-knot kernel calls it.  Probe it in a child with a deadline so that those configurations are
// generated exactly when they are affordable.
bool factorial0_is_fast() {
  pid_t pid = fork();
  if (pid == 0) { alarm(1); volatile unsigned v = photospline::factorial(0); (void)v; _exit(0); }
  if (pid < 0) return false;
  int st = 0; waitpid(pid, &st, 0);
  return WIFEXITED(st) && WEXITSTATUS(st) == 0;
}

struct Shape { std::vector<uint32_t> order; std::vector<uint64_t> nknots, naxes; };
static long h_longaxis = 0, h_permuted = 0;
// rewrite the file with the primary HDU first and the extensions in a random order different from the original when there are >= 2
static bool permute_extensions(const std::string& path, psv::Rng& r) {
  fitsfile *in = nullptr, *out = nullptr; int st = 0, nh = 0;
  std::string tmp = path + ".perm";
  fits_open_diskfile(&in, path.c_str(), READONLY, &st);
  fits_get_num_hdus(in, &nh, &st);
  if (st || nh < 3) { if (in) { int s2 = 0; fits_close_file(in, &s2); } return st == 0; }
  std::vector<int> ext; for (int h = 2; h <= nh; h++) ext.push_back(h);
  std::vector<int> orig = ext;
  for (int tries = 0; tries < 8 && ext == orig; tries++) for (size_t i = ext.size() - 1; i > 0; i--) std::swap(ext[i], ext[r.below(i + 1)]);
  fits_create_file(&out, ("!" + tmp).c_str(), &st);
  int type = 0;
  fits_movabs_hdu(in, 1, &type, &st); fits_copy_hdu(in, out, 0, &st);
  for (int h : ext) { fits_movabs_hdu(in, h, &type, &st); fits_copy_hdu(in, out, 0, &st); }
  { int s2 = 0; fits_close_file(in, &s2); }
  fits_close_file(out, &st);
  if (st) return false;
  return rename(tmp.c_str(), path.c_str()) == 0;
}

}  // namespace

int main(int argc, char** argv) {
  if (argc < 3) { fprintf(stderr, "usage: c19_harness <ncases> <outprefix> [G|I]\n"); return 2; }
  long ncases = atol(argv[1]);
  std::string prefix = argv[2];
  char profile = argc > 3 ? argv[3][0] : 'G';
  psv::Rng r(psv::env_seed() * 0x51ed27ULL + 19 + (profile == 'I' ? 77 : 0));
  FILE* fc = fopen((prefix + ".cases").c_str(), "w");
  FILE* fi = fopen((prefix + ".impl").c_str(), "w");
  FILE* fs = fopen((prefix + ".stats.json").c_str(), "w");
  if (!fc || !fi || !fs) { perror("open"); return 2; }
  std::string fits = prefix + ".table.fits";
  std::map<int, long> h_ndim, h_naux, h_n, h_order; long h_conv = 0, h_noconv = 0, h_long = 0, h_short = 0, lines = 0;
  std::map<int, long> h_card;  // keylen+vallen histogram
  long reserved_disagree = 0, dealloc_mismatch = 0, aux_cross_fail = 0, h_skipped0 = 0, h_rejected = 0;
  long live_after_destroy_nonzero = 0;
  long stored_cross_fail = 0, h_quoted = 0, h_unquoted = 0, h_with_inner_quotes = 0, rejected_peak_over_estimate = 0, rejected_live_nonzero = 0;
  std::map<int, long> h_plainkind, h_ikind, h_shrink;
  bool fast0 = factorial0_is_fast();

  for (long c = 0; c < ncases; c++) {
    // ---------------------------------------------------------------- table
    int nd = (c < 6) ? (int)c + 1 : r.range(1, 6);
    std::vector<uint32_t> ord(nd);
    std::vector<std::vector<double> > kn(nd);
    uint64_t prod = 1;
    for (int i = 0; i < nd; i++) {
      int omax = nd >= 5 ? 2 : (nd >= 3 ? 3 : 5);
      ord[i] = r.range(0, omax);
      prod *= ord[i] + 1;
    }
    std::vector<int> extra(nd, 0);
    for (int t = 0; t < 4 * nd; t++) {
      int i = r.below(nd);
      int add = r.range(0, nd <= 2 ? 12 : 3);
      uint64_t cur = ord[i] + 1 + extra[i];
      uint64_t np = prod / cur * (cur + add);
      if (np <= 6000) { extra[i] += add; prod = np; }
    }
    // one long axis (a knot vector of several hundred entries, all other axes short): what is allocated per knot — and held
    // while a dimension is convolved — then outweighs the slack of the estimate (about 1-2 KB)
    int longaxis = -1;
    if (c % 5 == 3 && profile != 'I') {
      longaxis = (int)r.below(nd);
      for (int i = 0; i < nd; i++) if (i != longaxis && nd > 1) extra[i] = std::min(extra[i], nd <= 2 ? 6 : 1);
      extra[longaxis] = r.range(150, nd <= 2 ? 700 : 300);
      h_longaxis++;
    }
    for (int i = 0; i < nd; i++) { kn[i] = psv::gen_knots(r, ord[i], extra[i], r.below(2)); h_order[ord[i]]++; }
    h_ndim[nd]++;
    Shape sh; sh.order = ord;
    for (int i = 0; i < nd; i++) { sh.nknots.push_back(kn[i].size()); sh.naxes.push_back(kn[i].size() - ord[i] - 1); }
    std::vector<std::pair<std::string, std::string> > wrote;
    {
      psv::Table t;
      std::vector<float> coef(psv::ncoef(ord, kn));
      for (size_t j = 0; j < coef.size(); j++) coef[j] = (float)(r.unit() * 2 - 1);
      psv::build_table(t, ord, kn, coef);
      if (profile == 'I') {
        // a file the reader must refuse: in one dimension the coefficient image does not have nknots-order-1 entries
        // (kind 0: larger, kind 1: smaller), or there are fewer than 2*order+2 knots (kind 2; image consistent)
        int d = r.below(nd);
        int kind = r.below(3);
        if (kind == 2 && ord[d] == 0) { for (int i = 0; i < nd; i++) if (ord[i] > 0) d = i; if (ord[d] == 0) kind = 0; }
        if (kind == 1 && sh.naxes[d] < 2) kind = 0;
        h_ikind[kind]++;
        t.deallocate(t.coefficients, t.strides[0] * t.naxes[0]);
        if (kind == 0) {
          // (dimension 0 is the one estimateMemory recomputes from the knot count when no convolution is declared)
          uint64_t grow = r.coin() ? 1 + r.below(3) : 600 + r.below(600);
          if (grow > 3 && r.coin()) d = 0;
          t.naxes[d] += grow;
        }
        else if (kind == 1) { t.naxes[d] -= 1 + r.below(t.naxes[d] - 1); }
        else { t.nknots[d] = ord[d] + 2 + r.below(ord[d]); t.naxes[d] = t.nknots[d] - ord[d] - 1; sh.nknots[d] = t.nknots[d]; }
        sh.naxes[d] = t.naxes[d];
        t.strides[nd - 1] = 1;
        for (int i = nd - 1; i > 0; i--) t.strides[i - 1] = t.strides[i] * t.naxes[i];
        uint64_t nc = t.strides[0] * t.naxes[0];
        t.coefficients = t.allocate<float>(nc);
        std::fill(t.coefficients, t.coefficients + nc, 0.f);
      }
      int naux = (c % 7 == 0) ? 50 : (c % 7 == 1 ? 0 : r.range(0, 50));
      if (profile == 'I') naux = r.range(0, 3);
      if (longaxis >= 0) naux = r.range(0, 2);   // few keys: their cards must not hide a shortfall per knot
      std::set<std::string> used;
      for (int a = 0; a < naux; a++) {
        bool lk = r.coin(1, 3);
        std::string k = gen_key(r, used, lk);
        size_t maxlen = k.size() <= 8 ? 68 : (80 - (13 + k.size()));
        std::string v;
        switch (r.below(6)) {
          case 0: { std::ostringstream ss; ss << (long)r.next() % 1000000; v = ss.str(); break; }
          case 1: { std::ostringstream ss; ss << r.unit() * 1e3; v = ss.str(); break; }
          default: v = gen_value(r, maxlen);
        }
        if (v.size() > maxlen) v.resize(maxlen);
        t.write_key(k.c_str(), v);
        wrote.push_back(std::make_pair(k, v));
        (k.size() > 8 ? h_long : h_short)++;
      }
      t.write_fits(fits);
    }
    // cards with unquoted values, added behind the library's back
    if (c % 3 != 1) {
      int nplain = (c % 3 == 0) ? r.range(1, 4) : r.range(0, 2);
      if (!add_plain_cards(fits, r, nplain, wrote, h_plainkind)) { fprintf(stderr, "adding plain cards failed for case %ld\n", c); return 3; }
    }
    // the same table with its extension HDUs in another order (both the reader and the size model look KNOTSn and EXTENTS up
    // by name, so the order in the file must not matter to either)
    if (c % 4 == 2 && profile != 'I') {
      if (!permute_extensions(fits, r)) { fprintf(stderr, "re-ordering the extensions failed for case %ld\n", c); return 3; }
      h_permuted++;
    }
    // ---------------------------------------------------------------- cfitsio-only view of the file
    std::vector<Card> cards, kcards;
    std::ostringstream lastk; lastk << "KNOTS" << (nd - 1);
    if (!dump_cards(fits, 1, NULL, cards, reserved_disagree) || !dump_cards(fits, 0, lastk.str().c_str(), kcards, reserved_disagree)) {
      fprintf(stderr, "cfitsio dump failed for case %ld\n", c); return 3;
    }
    if (cards.size() != wrote.size()) aux_cross_fail++;
    else for (size_t a = 0; a < cards.size(); a++) {
      if (cards[a].key != wrote[a].first) aux_cross_fail++;
      // a value written through write_key comes back, un-quoted by the harness' own rule, as it was written (FITS pads with blanks)
      else if (wrote[a].second != "\x01" && rtrim(unquote_own(cards[a].value)) != rtrim(wrote[a].second)) aux_cross_fail++;
    }
    std::vector<size_t> storedlen(cards.size());
    for (size_t a = 0; a < cards.size(); a++) {
      std::string st = unquote_own(cards[a].value);
      storedlen[a] = st.size() + 1;
      (storedlen[a] != cards[a].value.size() + 1 ? h_quoted : h_unquoted)++;
      if (st.find('\'') != std::string::npos) h_with_inner_quotes++;
      h_shrink[(int)(cards[a].value.size() + 1 - storedlen[a])]++;
    }
    h_naux[(int)cards.size() / 10 * 10]++;
    for (size_t a = 0; a < cards.size(); a++) h_card[(int)(cards[a].key.size() + cards[a].value.size() + 2) / 10 * 10]++;

    // ---------------------------------------------------------------- configurations
    struct Cfg { int n, dim, doconv; };
    std::vector<Cfg> cfgs;
    cfgs.push_back(Cfg{1, 0, 0});
    // an ill-formed table must not be convolved (convolve then reads the knot vector out of bounds: undefined behaviour,
    // subject of C07/C14, not of C19): profile I only loads
    int ncfg = (profile == 'I') ? 0 : 3;
    for (int q = 0; q < ncfg; q++) {
      Cfg g; g.n = (q == 0 && c % 11 == 0 && fast0) ? 1 : r.range(2, 8); g.dim = (q == 0) ? (int)(c % nd) : (int)r.below(nd); g.doconv = 1;
      if (!fast0 && sh.order[g.dim] == 0) {
        int tries = 0; while (sh.order[g.dim] == 0 && tries++ < nd) g.dim = (g.dim + 1) % nd;
        if (sh.order[g.dim] == 0) { h_skipped0++; continue; }
      }
      if (profile == 'I') { g.n = r.range(2, 3); }
      // convolve costs about naxes' * naxes * (order+2) * 2^n (recursive divided differences): keep a case under ~10 ms
      while (g.n > 2 && (double)(sh.nknots[g.dim] * g.n) * (double)sh.naxes[g.dim] * (sh.order[g.dim] + 2) * (double)(1u << g.n) > 4e6) g.n--;
      cfgs.push_back(g);
    }
    for (size_t q = 0; q < cfgs.size(); q++) {
      Cfg g = cfgs[q];
      size_t est = 0, estdef = 0;
      fprintf(fc, "C %zu %d %d %d %d %zu %zu", sizeof(CTable), nd, g.n, g.dim, g.doconv, kcards.size(), cards.size());
      for (int i = 0; i < nd; i++) fprintf(fc, " %u %llu %llu", sh.order[i], (unsigned long long)sh.nknots[i], (unsigned long long)sh.naxes[i]);
      for (size_t a = 0; a < cards.size(); a++) fprintf(fc, " %zu %zu %zu", cards[a].key.size() + 1, cards[a].value.size() + 1, storedlen[a]);
      fprintf(fc, "\n");
      L.reset();
      try {
      if (!g.doconv) { est = CTable::estimateMemory(fits); estdef = psv::Table::estimateMemory(fits); }
      else { est = CTable::estimateMemory(fits, g.n, g.dim); estdef = psv::Table::estimateMemory(fits, g.n, g.dim); }
      L.reset();
      std::vector<Event> evRead, evConv, evDestroy; size_t peak, live, mism, pad16 = 0;
      {
        CTable t(fits, CountingAlloc<void>(&L));
        evRead = L.ev; L.ev.clear();
        // what the loaded table holds for every card is what the harness' own un-quoting rule says
        if (t.naux != cards.size()) stored_cross_fail++;
        else for (size_t a = 0; a < cards.size(); a++)
          if (cards[a].key != &t.aux[a][0][0] || unquote_own(cards[a].value) != &t.aux[a][1][0]) stored_cross_fail++;
        if (g.doconv) {
          std::vector<double> k;
          double w = 0.05 + r.unit();
          for (int i = 0; i < g.n; i++) k.push_back(g.n == 1 ? 0.0 : -w + 2 * w * i / (g.n - 1));
          t.convolve(g.dim, k.data(), k.size());
          evConv = L.ev; L.ev.clear();
          h_conv++; h_n[g.n]++;
        } else h_noconv++;
        peak = L.peak; live = L.live; pad16 = L.peak16;
      }
      // the table has been destroyed: what its destructor released, and what is left (must be nothing)
      evDestroy = L.ev; L.ev.clear();
      mism = L.mismatched_frees;
      dealloc_mismatch += mism;
      if (L.live != 0 || !L.blocks.empty()) live_after_destroy_nonzero++;
      fprintf(fi, "est %zu estdef %zu peak %zu live %zu pad16 %zu end %zu ev", est, estdef, peak, live, pad16, L.live);
      for (size_t e = 0; e < evRead.size(); e++) fprintf(fi, " %c%zu", evRead[e].kind, evRead[e].bytes);
      fprintf(fi, " |");
      for (size_t e = 0; e < evConv.size(); e++) fprintf(fi, " %c%zu", evConv[e].kind, evConv[e].bytes);
      fprintf(fi, " |");
      for (size_t e = 0; e < evDestroy.size(); e++) fprintf(fi, " %c%zu", evDestroy[e].kind, evDestroy[e].bytes);
      fprintf(fi, "\n");
      } catch (std::exception& ex) {
        // the library refused the file (expected for profile I: the reader validates the shape); the ledger shows what had
        // been requested by then (the coefficient array is requested before the knot counts are compared) and that the
        // storage guard released all of it
        std::string m = ex.what(); for (size_t z = 0; z < m.size(); z++) if (m[z] == '\n') m[z] = ' ';
        fprintf(fi, "rejected est %zu peak %zu live %zu %s\n", est, L.peak, L.live, m.c_str()); h_rejected++;
        if (est && sizeof(CTable) + L.peak > est) rejected_peak_over_estimate++;
        if (L.live) rejected_live_nonzero++;
        dealloc_mismatch += L.mismatched_frees;
      }
      lines++;
    }
  }
  unlink(fits.c_str());
  fprintf(fs, "{\"profile\":\"%c\",\"tables\":%ld,\"lines\":%ld,\"no_convolution\":%ld,\"convolutions\":%ld,\"short_keys\":%ld,\"hierarch_keys\":%ld,"
              "\"reserved_rule_disagreements\":%ld,\"dealloc_size_mismatch_during_load_or_convolve\":%ld,\"aux_cross_check_failures\":%ld,"
              "\"stored_cross_check_failures\":%ld,\"quoted_values\":%ld,\"unquoted_values\":%ld,\"values_with_embedded_quotes\":%ld,\"rejected_loads_whose_transient_exceeds_estimate\":%ld,\"rejected_loads_leaving_bytes_live\":%ld,\"tables_leaving_bytes_live_after_destruction\":%ld,"
              "\"sizeof_counting_table\":%zu,\"sizeof_default_table\":%zu,\"order0_and_1knot_convolutions_generated\":%s,\"skipped_order0_convolutions\":%ld,\"rejected_by_library\":%ld",
          profile, ncases, lines, h_noconv, h_conv, h_short, h_long, reserved_disagree, dealloc_mismatch, aux_cross_fail, stored_cross_fail, h_quoted, h_unquoted, h_with_inner_quotes, rejected_peak_over_estimate, rejected_live_nonzero, live_after_destroy_nonzero, sizeof(CTable), sizeof(psv::Table), fast0 ? "true" : "false", h_skipped0, h_rejected);
  struct H { const char* name; std::map<int, long>* m; } hs[] = {{"ndim", &h_ndim}, {"naux_decade", &h_naux}, {"kernel_knots", &h_n}, {"order", &h_order}, {"keylen_plus_vallen_decade", &h_card},
                                                   {"vallen_minus_storedlen", &h_shrink}, {"plain_card_kind_long_double_logical_history", &h_plainkind},
                                                   {"refused_kind_larger_smaller_fewknots", &h_ikind}};
  for (size_t k = 0; k < sizeof(hs) / sizeof(hs[0]); k++) {
    fprintf(fs, ",\"%s\":{", hs[k].name);
    bool first = true;
    for (std::map<int, long>::iterator it = hs[k].m->begin(); it != hs[k].m->end(); ++it) { fprintf(fs, "%s\"%d\":%ld", first ? "" : ",", it->first, it->second); first = false; }
    fprintf(fs, "}");
  }
  fprintf(fs, ",\"tables_with_one_long_axis_150_to_700_knots\":%ld,\"tables_with_extension_hdus_reordered\":%ld", h_longaxis, h_permuted);
  fprintf(fs, "}\n");
  fclose(fc); fclose(fi); fclose(fs);
  return 0;
}
