// Correspondence harness for C14 (convolution).
// Generates tables, kernels and evaluation points from VERIF_SEED, calls the real
// splinetable::convolve / splinetable_convolve / convoluted_blossom / factorial / searchcenters /
// ndsplineeval<double> in-process and writes
//   <cases> : line protocol of `psvdriver C14`
//   <impl>  : one result line per case line
//   <stats> : JSON input distribution
// usage: c14_harness <ncases> <npoints> <cases> <impl> <stats> [replay-case-line-file]
#include "common.h"
#include <photospline/detail/convolve.h>
using namespace psv;

static FILE *fc, *fi;
static std::map<std::string, long> stats;

static double now() { return std::chrono::duration<double>(std::chrono::steady_clock::now().time_since_epoch()).count(); }

struct Case {
  uint32_t dim;
  std::vector<double> ck;
  std::vector<uint32_t> ord;
  std::vector<std::vector<double>> kn;
  std::vector<std::array<double, 2>> ext;
  std::vector<float> coef;
  std::vector<std::vector<double>> pts;
  bool cwrap;
};

static double dy(Rng& r, int lo, int hi) { return r.range(lo, hi) / 16.0; }  // short dyadic numbers: exact sums, coinciding knots

static std::vector<double> conv_knots(Rng& r, int order, int extra, int style) {
  int nk = 2 * order + 2 + extra;
  std::vector<double> k(nk);
  double v = style == 2 ? dy(r, -160, 160) : style == 0 ? (double)r.range(-5, 5) : r.unit() * 20 - 10;
  for (int i = 0; i < nk; i++) {
    k[i] = v;
    switch (style) {
      case 0: v += 1.0; break;                                  // uniform
      case 1: v += 0.05 + r.unit() * 3; break;                  // irregular
      case 2: v += dy(r, 1, 40); break;                         // irregular on a dyadic grid
      default: v += std::ldexp(1.0 + r.unit(), r.range(-3, 3)); // spacing over two decades
    }
  }
  return k;
}

static std::vector<double> kernel(Rng& r, int n, int style, double spacing) {
  std::vector<double> y(n);
  switch (style) {
    case 0: { double w = spacing * (0.02 + 0.3 * r.unit()); for (int i = 0; i < n; i++) y[i] = -w / 2 + w * i / (n - 1); break; }            // symmetric, narrow
    case 1: { double w = spacing * (2 + 6 * r.unit()); for (int i = 0; i < n; i++) y[i] = -w / 2 + w * i / (n - 1); break; }                  // symmetric, wide
    case 2: { double v = r.unit() * 4 - 3; for (int i = 0; i < n; i++) { y[i] = v; v += spacing * (0.01 + 2 * r.unit()); } break; }           // asymmetric irregular
    case 3: { double v = dy(r, -48, 16); for (int i = 0; i < n; i++) { y[i] = v; v += dy(r, 1, 32); } break; }                                 // dyadic grid (coinciding sums)
    default: { double v = (double)r.range(-3, 0); for (int i = 0; i < n; i++) { y[i] = v; v += (double)r.range(1, 2); } break; }                // integers
  }
  return y;
}


// ---- grid family (added for seeded change C14-4) -------------------------------------------------------------
// Table knots and kernel knots on a COMMON grid whose step is not a short dyadic number: pairwise sums that
// coincide mathematically are computed along different routes (0.7+0.1 vs 0.8+0.0) and come out bit-equal for
// some pairs and one or two ulp apart for others.  The doubles are taken as given: the specification works with
// the exact rationals of the stored knots, where those sums are simply distinct, very close numbers.
struct Grid {
  double h;      // step
  double a;      // offset (0 or a non-dyadic shift)
  double s;      // scale applied after the product (1 or a non-dyadic factor)
  int how;       // 0: a + s*(m*h)   1: accumulated v += h   2: a + m*(s*h)   3: (a + m*h)*s
  std::vector<double> acc;   // how == 1: table of accumulated values, index m - mlo
  int mlo;
};

static double grid_at(const Grid& g, int m) {
  switch (g.how) {
    case 0: return g.a + g.s * (m * g.h);
    case 1: return g.acc[m - g.mlo];
    case 2: return g.a + m * (g.s * g.h);
    default: return (g.a + m * g.h) * g.s;
  }
}

static const double kSteps[] = {0.1, 0.2, 0.3, 0.05, 0.7, 1.0 / 3, 0.01, 2.5e-2, 1e-3, 0.15, 0.6, 1.1, 3.3, 1e-7, 12.7, 0.31415926535897931};
static const double kShifts[] = {0.3, -2.6, 0.1, 17.9, -0.7, 1000.3, 1e-3, -123.45};
static const double kScales[] = {3.0, 0.3, 1.7, 1e-3, 7.1, 1e5 / 3, 0.9};

static Grid pick_grid(Rng& r, int mlo, int mhi) {
  Grid g; g.mlo = mlo;
  int hs = r.range(0, 19);
  g.h = hs < 16 ? kSteps[hs] : hs < 18 ? 0.05 + r.unit() * 3 : std::ldexp(1.0 + r.unit(), r.range(-20, 10));   // any non-dyadic step will do
  int v = r.range(0, 9);
  g.a = 0; g.s = 1; g.how = 0;
  if (v < 4) { g.how = 0; }                                                             // m*h, the literal `i*0.1`
  else if (v < 6) { g.how = 1; }                                                        // accumulated
  else if (v == 6) { g.how = 0; g.a = kShifts[r.range(0, 7)]; }                         // shifted
  else if (v == 7) { g.how = 0; g.s = kScales[r.range(0, 6)]; }                         // scaled
  else if (v == 8) { g.how = 2; g.s = kScales[r.range(0, 6)]; g.a = r.coin() ? 0 : kShifts[r.range(0, 7)]; }
  else { g.how = 3; g.s = kScales[r.range(0, 6)]; g.a = kShifts[r.range(0, 7)]; }       // shifted, then scaled
  if (g.how == 1) {
    // v += h upwards from 0 for m >= 0, v -= h downwards for m < 0
    g.acc.assign(mhi - mlo + 1, 0.0);
    double x = 0; for (int m = 0; m <= mhi; m++) { if (m >= mlo) g.acc[m - mlo] = x; x += g.h; }
    x = 0; for (int m = 0; m >= mlo; m--) { if (m <= mhi) g.acc[m - mlo] = x; x -= g.h; }
  }
  stats["grid_how_" + std::to_string(g.how) + (g.a != 0 ? "_shift" : "") + (g.s != 1 ? "_scale" : "")]++;
  return g;
}

// strictly increasing after rounding? (tiny steps against a large shift could collapse)
static bool strictly_increasing(const std::vector<double>& k) {
  for (size_t i = 1; i < k.size(); i++) if (!(k[i] > k[i - 1])) return false;
  return true;
}

// table knots: consecutive grid nodes (tstyle 0) or irregularly spaced grid nodes (tstyle 1) or grid nodes with a
// few off-grid knots mixed in (tstyle 2)
static std::vector<double> grid_table_knots(Rng& r, const Grid& g, int nk, int m0, int tstyle, std::vector<int>& ms) {
  std::vector<double> k(nk); ms.assign(nk, 0);
  int m = m0;
  for (int i = 0; i < nk; i++) {
    ms[i] = m; k[i] = grid_at(g, m);
    m += tstyle == 0 ? 1 : r.range(1, 3);
  }
  if (tstyle == 2) for (int i = 1; i + 1 < nk; i++) if (r.coin(1, 4)) k[i] = k[i] + (k[i + 1] - k[i]) * (0.1 + 0.8 * r.unit());
  return k;
}

// kernel knots: kstyle 5 grid nodes m_j*h (the kernel does not follow the shift: it is a difference of positions);
// 6 differences of table knots; 7 nodes of the half / third / double grid; 8 grid nodes with off-grid knots mixed in;
// 9 grid nodes perturbed by a few ulp (sums that nearly coincide for no arithmetic reason)
static std::vector<double> grid_kernel(Rng& r, const Grid& g, const std::vector<double>& k, int n, int kstyle) {
  std::vector<double> y(n);
  Grid g0 = g; g0.a = 0; if (g0.how == 3) g0.how = 0;     // (a+m*h)*s - a*s: positions differ by s*(m*h)
  double step = std::fabs(grid_at(g0, 1) - grid_at(g0, 0));
  switch (kstyle) {
    case 6: {
      int b = r.range(0, (int)k.size() - 1), a = r.range(0, (int)k.size() - 1);
      // n distinct indices around a, ascending
      std::vector<int> idx; int lo = std::max(0, std::min(a, (int)k.size() - n));
      for (int j = 0; j < n && lo + j < (int)k.size(); j++) idx.push_back(lo + j);
      y.resize(idx.size());
      for (size_t j = 0; j < idx.size(); j++) y[j] = k[idx[j]] - k[b];
      break;
    }
    case 7: {
      int den = r.coin() ? 2 : 3; bool coarse = r.coin(1, 4);
      int m = r.range(-4, 1);
      for (int j = 0; j < n; j++) { y[j] = coarse ? (2 * m) * step : m * (step / den); m += r.range(1, 3); }
      break;
    }
    default: {
      int m = std::max(g.mlo, r.range(-4, 1));
      for (int j = 0; j < n; j++) { y[j] = grid_at(g0, m); m += r.range(1, 2); }
      if (kstyle == 8) {
        for (int j = 0; j < n; j++) if (r.coin(1, 3)) {
          double lo = j ? y[j - 1] : y[0] - step, hi = j + 1 < n ? y[j + 1] : y[n - 1] + step;
          y[j] = lo + (hi - lo) * (0.1 + 0.8 * r.unit());
        }
      } else if (kstyle == 9) {
        // (a knot that is exactly 0 stays: its neighbours are denormals, and a knot interval of denormal width overflows
        // 1/width in the evaluator -- ndsplineeval returns NaN there; the evaluator's domain, C01)
        for (int j = 0; j < n; j++) { int u = r.range(-3, 3); if (y[j] == 0) u = 0; for (int t = 0; t < std::abs(u); t++) y[j] = std::nextafter(y[j], u > 0 ? 1e300 : -1e300); }
      }
    }
  }
  return y;
}

// measured: how many adjacent sorted pairwise sums are bit-equal / differ by at most 8 ulp without being equal
static void count_coincidences(const std::vector<double>& rho, long& exact, long& near) {
  exact = near = 0;
  for (size_t i = 1; i < rho.size(); i++) {
    double d = rho[i] - rho[i - 1];
    if (d == 0) exact++;
    else if (d <= 8 * 2.220446049250313e-16 * std::max(std::fabs(rho[i]), std::fabs(rho[i - 1]))) near++;
  }
}

static void gen_case(Rng& r, Case& c, int npoints, int forced_order, bool gridfam = false) {
  int w = r.range(0, 99);
  int nd = w < 40 ? 1 : w < 70 ? 2 : w < 90 ? 3 : 4;
  c.dim = r.range(0, nd - 1);
  c.ord.assign(nd, 0); c.kn.assign(nd, {}); c.ext.assign(nd, {{0, 0}});
  int ostyle = -1;
  Grid grid; std::vector<int> grid_ms;
  for (int i = 0; i < nd; i++) {
    if ((uint32_t)i == c.dim) {
      c.ord[i] = forced_order >= 0 ? forced_order : r.range(0, 5);
      int extra = r.range(0, 9) < 3 ? 0 : r.range(1, 6);
      if (nd >= 3 && extra > 3) extra = 3;
      if (gridfam) {
        int tstyle = r.range(0, 9); tstyle = tstyle < 5 ? 0 : tstyle < 8 ? 1 : 2;
        ostyle = 4 + tstyle;
        int nk = 2 * c.ord[i] + 2 + extra;
        for (int attempt = 0;; attempt++) {
          grid = pick_grid(r, -10, 80);
          if (attempt >= 8) { grid.h = 0.1; grid.a = 0; grid.s = 1; grid.how = 0; }
          c.kn[i] = grid_table_knots(r, grid, nk, r.range(-8, 8), tstyle, grid_ms);
          if (strictly_increasing(c.kn[i])) break;
          stats["grid_retry_table"]++;
        }
      } else {
      ostyle = r.range(0, 3);
      c.kn[i] = conv_knots(r, c.ord[i], extra, ostyle);
      }
    } else {
      c.ord[i] = r.range(0, nd >= 3 ? 2 : 3);
      c.kn[i] = gen_knots(r, c.ord[i], r.range(0, nd >= 3 ? 1 : 3), r.range(0, 1));
    }
  }
  stats["knotstyle_" + std::to_string(ostyle)]++;
  stats["ndim_" + std::to_string(nd)]++;
  stats["order_" + std::to_string(c.ord[c.dim])]++;
  stats["dim_" + std::to_string(c.dim)]++;
  const std::vector<double>& k = c.kn[c.dim];
  double spacing = (k.back() - k.front()) / (k.size() - 1);
  int n = r.range(2, 6);
  int kstyle = r.range(0, 4);
  if (ostyle == 0 && r.coin()) kstyle = 4;
  if (ostyle == 2 && r.coin()) kstyle = 3;
  if (gridfam) {
    int ks = r.range(0, 11);
    kstyle = ks < 5 ? 5 : ks < 7 ? 6 : ks < 9 ? 7 : ks < 11 ? 8 : 9;
    for (int attempt = 0;; attempt++) {
      c.ck = grid_kernel(r, grid, k, n, attempt < 8 ? kstyle : 5);
      if (c.ck.size() >= 2 && strictly_increasing(c.ck)) break;
      stats["grid_retry_kernel"]++;
      if (attempt >= 16) { c.ck = {-0.1, 0.0, 0.2}; break; }
    }
    n = c.ck.size();
  } else
  c.ck = kernel(r, n, kstyle, spacing);
  stats["kernel_n_" + std::to_string(n)]++;
  stats["kernelstyle_" + std::to_string(kstyle)]++;
  double kw = c.ck.back() - c.ck.front();
  stats[kw < spacing ? "kernel_narrower_than_mean_spacing" : "kernel_wider_than_mean_spacing"]++;
  int cstyle = r.range(0, 3);
  uint64_t nc = ncoef(c.ord, c.kn);
  c.coef.resize(nc);
  for (auto& v : c.coef) v = cstyle == 0 ? 1.0f : cstyle == 1 ? (float)(r.unit() * 10) : (float)(r.unit() * 2 - 1);
  stats["coefstyle_" + std::to_string(cstyle)]++;
  // extents: full support (default) or partial support at the lower end (the branch in convolve)
  for (int i = 0; i < nd; i++) {
    int na = c.kn[i].size() - c.ord[i] - 1;
    c.ext[i] = {{c.kn[i][c.ord[i]], c.kn[i][na]}};
  }
  int es = r.range(0, 3);
  if (es == 1) c.ext[c.dim][0] = c.kn[c.dim][0];
  else if (es == 2) c.ext[c.dim][0] = c.kn[c.dim][0] + (c.kn[c.dim][c.ord[c.dim]] - c.kn[c.dim][0]) * r.unit();
  stats["extent_style_" + std::to_string(es)]++;
  c.cwrap = r.coin(1, 4);
  // points: the new knot vector is the sorted pairwise sums
  std::vector<double> rho;
  for (double a : k) for (double b : c.ck) rho.push_back(a + b);
  std::sort(rho.begin(), rho.end());
  {
    long ex, nr_; count_coincidences(rho, ex, nr_);
    stats["sums_adjacent_bit_equal"] += ex; stats["sums_adjacent_within_8ulp_not_equal"] += nr_;
    if (nr_) stats["cases_with_nearly_coinciding_sums"]++;
    if (nr_ && ex) stats["cases_with_exactly_and_nearly_coinciding_sums"]++;
    if (gridfam) stats["gridfam_cases"]++;
  }
  int co = c.ord[c.dim] + n - 1; int nr = rho.size(); int na = nr - co - 1;
  c.pts.clear();
  for (int p = 0; p < npoints; p++) {
    std::vector<double> x(nd);
    for (int i = 0; i < nd; i++) {
      if ((uint32_t)i == c.dim) {
        int m = r.range(0, gridfam ? 14 : 11); const char* kind;
        switch (m) {
          case 12: case 13: {   // a knot of a cluster of nearly coinciding sums (or its neighbour in the cluster)
            kind = "cluster_knot"; std::vector<int> cl;
            for (int t = 1; t < nr; t++) { double d = rho[t] - rho[t - 1]; if (d > 0 && d <= 8 * 2.220446049250313e-16 * std::max(std::fabs(rho[t]), std::fabs(rho[t - 1]))) cl.push_back(t); }
            if (cl.empty()) { kind = "new_knot"; x[i] = rho[r.range(1, nr - 1)]; }
            else { int t = cl[r.below(cl.size())]; x[i] = rho[t - (int)r.below(2)]; }
            break; }
          case 14: { kind = "knot_neighbour"; double v = rho[r.range(1, nr - 2)]; x[i] = std::nextafter(v, r.coin() ? 1e300 : -1e300); break; }
          case 0: kind = "new_knot"; x[i] = rho[r.range(1, nr - 1)]; break;
          case 1: case 2: kind = "lower_margin"; x[i] = rho[0] + (rho[co] - rho[0]) * r.unit(); break;
          case 3: case 4: kind = "upper_margin"; x[i] = rho[na] + (rho[nr - 1] - rho[na]) * r.unit(); break;
          case 5: kind = "support_end"; x[i] = rho[na]; break;
          case 6: kind = "last_knot"; x[i] = rho[nr - 1]; break;
          case 7: kind = "beyond"; x[i] = r.coin() ? rho[0] - r.unit() : rho[nr - 1] + r.unit(); break;
          default: kind = "interior"; x[i] = rho[co] + (rho[na] - rho[co]) * r.unit();
        }
        stats[std::string("pt_") + kind]++;
      } else {
        const std::vector<double>& kk = c.kn[i]; int nk = kk.size();
        x[i] = r.coin(1, 4) ? kk[0] + (kk[nk - 1] - kk[0]) * r.unit() : kk[c.ord[i]] + (kk[nk - c.ord[i] - 1] - kk[c.ord[i]]) * r.unit();
      }
    }
    c.pts.push_back(x);
  }
}

typedef unsigned long long ull;

static void emit_case(const Case& c) {
  uint32_t nd = c.ord.size();
  fprintf(fc, "C %u %u %zu", nd, c.dim, c.ck.size());
  for (double v : c.ck) fprintf(fc, " %llu", (ull)bits(v));
  for (uint32_t i = 0; i < nd; i++) {
    fprintf(fc, " %u %zu %llu %llu", c.ord[i], c.kn[i].size(), (ull)bits(c.ext[i][0]), (ull)bits(c.ext[i][1]));
    for (double v : c.kn[i]) fprintf(fc, " %llu", (ull)bits(v));
  }
  fprintf(fc, " %zu", c.coef.size());
  for (float v : c.coef) fprintf(fc, " %u", bits(v));
  fprintf(fc, " %zu", c.pts.size());
  for (auto& p : c.pts) for (double v : p) fprintf(fc, " %llu", (ull)bits(v));
  fprintf(fc, "\n");
}

// returns true when the convolved coefficients are all zero
static bool run_case(const Case& c) {
  uint32_t nd = c.ord.size();
  Table t;
  build_table(t, c.ord, c.kn, c.coef);
  for (uint32_t i = 0; i < nd; i++) { t.extents[i][0] = c.ext[i][0]; t.extents[i][1] = c.ext[i][1]; }
  // raw blossoms with the arguments convolve uses, before the table is modified
  uint32_t dim = c.dim; size_t n = c.ck.size();
  uint32_t convorder = t.order[dim] + n - 1;
  std::vector<double> rho;
  for (uint64_t i = 0; i < t.nknots[dim]; i++) for (size_t j = 0; j < n; j++) rho.push_back(t.knots[dim][i] + c.ck[j]);
  std::sort(rho.begin(), rho.end());
  uint32_t k = t.order[dim] + 1, q = n - 1;
  uint64_t nnew = rho.size() - convorder - 1, nold = t.naxes[dim];
  std::vector<double> bl;
  for (uint64_t i = 0; i < nnew; i++) for (uint64_t j = 0; j < nold; j++)
    bl.push_back(photospline::convoluted_blossom(&t.knots[dim][j], k + 1, c.ck.data(), n, rho[i], &rho[i + 1], k + q - 1));
  if (c.cwrap) { struct splinetable st; st.data = &t; int rc = splinetable_convolve(&st, (int)dim, c.ck.data(), n); if (rc != 0) { fprintf(fi, "cwrap-rc %d\n", rc); return false; } }
  else t.convolve(dim, c.ck.data(), n);
  fprintf(fi, "dims");
  for (uint32_t i = 0; i < nd; i++) fprintf(fi, " %u %llu %llu %llu", t.order[i], (ull)t.nknots[i], (ull)t.naxes[i], (ull)t.strides[i]);
  fprintf(fi, " | kn");
  for (uint32_t i = 0; i < nd; i++) for (uint64_t j = 0; j < t.nknots[i]; j++) fprintf(fi, " %llu", (ull)cbits(t.knots[i][j]));
  fprintf(fi, " | ext");
  for (uint32_t i = 0; i < nd; i++) fprintf(fi, " %llu %llu", (ull)cbits(t.extents[i][0]), (ull)cbits(t.extents[i][1]));
  fprintf(fi, " | bl");
  for (double v : bl) fprintf(fi, " %llu", (ull)cbits(v));
  fprintf(fi, " | co");
  uint64_t nc = 1; for (uint32_t i = 0; i < nd; i++) nc *= t.naxes[i];
  bool allzero = true;
  for (uint64_t j = 0; j < nc; j++) { fprintf(fi, " %u", cbits(t.coefficients[j])); if (t.coefficients[j] != 0) allzero = false; }
  fprintf(fi, " | val");
  std::vector<int> centers(nd);
  for (auto& p : c.pts) {
    if (!t.searchcenters(p.data(), centers.data())) { fprintf(fi, " reject"); stats["lookup_reject"]++; continue; }
    double v = t.ndsplineeval<double>(p.data(), centers.data(), 0);
    double v2 = t(p.data());   // operator(): float working precision, same table
    fprintf(fi, " %llu:%llu", (ull)cbits(v), (ull)cbits(v2));
    stats["lookup_ok"]++;
  }
  fprintf(fi, "\n");
  return allzero;
}

static bool read_case(const char* path, Case& c) {
  FILE* f = fopen(path, "r"); if (!f) return false;
  auto U = [&]() { ull v = 0; if (fscanf(f, "%llu", &v) != 1) v = 0; return v; };
  char tag[8]; if (fscanf(f, "%7s", tag) != 1) return false;
  uint32_t nd = U(); c.dim = U(); size_t n = U();
  c.ck.resize(n); for (auto& v : c.ck) v = from_bits(U());
  c.ord.resize(nd); c.kn.resize(nd); c.ext.resize(nd);
  for (uint32_t i = 0; i < nd; i++) {
    c.ord[i] = U(); size_t nk = U(); c.ext[i][0] = from_bits(U()); c.ext[i][1] = from_bits(U());
    c.kn[i].resize(nk); for (auto& v : c.kn[i]) v = from_bits(U());
  }
  size_t nc = U(); c.coef.resize(nc); for (auto& v : c.coef) v = from_bits32((uint32_t)U());
  size_t np = U(); c.pts.assign(np, std::vector<double>(nd));
  for (auto& p : c.pts) for (auto& v : p) v = from_bits(U());
  c.cwrap = false;
  fclose(f); return true;
}

// the convolved table of a case as one vector of words (shape, knots of the convolved dimension, coefficients), built afresh
static std::vector<uint64_t> convolved_words(const Case& c) {
  uint32_t nd = c.ord.size();
  Table t; build_table(t, c.ord, c.kn, c.coef);
  for (uint32_t i = 0; i < nd; i++) { t.extents[i][0] = c.ext[i][0]; t.extents[i][1] = c.ext[i][1]; }
  std::vector<uint64_t> w;
  if (c.cwrap) { struct splinetable st; st.data = &t; w.push_back(splinetable_convolve(&st, (int)c.dim, c.ck.data(), c.ck.size())); }
  else { try { t.convolve(c.dim, c.ck.data(), c.ck.size()); w.push_back(0); } catch (std::exception&) { w.push_back(1); return w; } }
  for (uint32_t i = 0; i < nd; i++) { w.push_back(t.order[i]); w.push_back(t.nknots[i]); w.push_back(t.naxes[i]); }
  for (uint64_t j = 0; j < t.nknots[c.dim]; j++) w.push_back(cbits(t.knots[c.dim][j]));
  uint64_t nc = 1; for (uint32_t i = 0; i < nd; i++) nc *= t.naxes[i];
  for (uint64_t j = 0; j < nc; j++) w.push_back(cbits(t.coefficients[j]));
  return w;
}
static std::vector<Case> g_keep;   // cases kept for the concurrent phase

int main(int argc, char** argv) {
  if (argc < 6) { fprintf(stderr, "usage\n"); return 2; }
  int ncases = atoi(argv[1]), npoints = atoi(argv[2]);
  fc = fopen(argv[3], "w"); fi = fopen(argv[4], "w");
  Rng r(env_seed() * 0x9e3779b97f4a7c15ULL + 14);
  // factorial: n = 0 first, timed (the unrepaired loop runs 2^32 iterations)
  double t0 = now();
  unsigned f0 = photospline::factorial(0);
  double dt0 = now() - t0;
  bool f0bad = (f0 != 1) || dt0 > 1.0;
  fprintf(fc, "F 0\n"); fprintf(fi, "%u\n", f0);
  for (unsigned n = 1; n <= 16; n++) { fprintf(fc, "F %u\n", n); fprintf(fi, "%u\n", photospline::factorial(n)); }
  stats["factorial0_value"] = f0; stats["factorial0_ms"] = (long)(dt0 * 1000);
  fflush(fc); fflush(fi);
  if (argc > 6) {
    Case c; if (!read_case(argv[6], c)) return 3;
    emit_case(c); run_case(c);
  } else {
    int order0_done = 0;
    for (int i = 0; i < ncases; i++) {
      Case c; gen_case(r, c, npoints, i < 12 ? i % 6 : -1);   // every order at least twice
      if (f0bad && c.ord[c.dim] == 0) { if (order0_done >= 1) { stats["order0_cases_skipped_factorial0_slow"]++; continue; } order0_done++; }
      emit_case(c); run_case(c);
      if (g_keep.size() < 8 && c.coef.size() >= 24) g_keep.push_back(c);
      fflush(fc); fflush(fi);
    }
    // grid family: its own generator, so that the cases above are the same as before for a given seed
    // (seeded through one splitmix output: states of the form seed*G + c step by G, i.e. the streams of neighbouring seeds
    // are shifts of one another and can fall into step)
    Rng mix(env_seed() * 0x9e3779b97f4a7c15ULL + 1404); mix.next();
    Rng rg(mix.next() ^ (env_seed() << 32));
    int ngrid = ncases ? (ncases * 6 + 6) / 7 : 0;
    for (int i = 0; i < ngrid; i++) {
      Case c; gen_case(rg, c, npoints, i < 12 ? i % 6 : -1, true);
      if (f0bad && c.ord[c.dim] == 0) { if (order0_done >= 1) { stats["order0_cases_skipped_factorial0_slow"]++; continue; } order0_done++; }
      emit_case(c); run_case(c);
      fflush(fc); fflush(fi);
    }
  }
  // ---- concurrent phase: convolve works on its own table only (and the blossom routine on its arguments only), so
  // convolutions of DIFFERENT tables running at the same time must each give what they give alone (the model is a function
  // of table, dimension and kernel).  The kept cases are convolved alone first, then by four threads started together.
  if (argc <= 6 && !g_keep.empty()) {
    const int NT = 4, ROUNDS = ncases >= 200 ? 40 : 12;
    std::vector<std::vector<uint64_t>> alone; for (auto& c : g_keep) alone.push_back(convolved_words(c));
    std::vector<int> bad(NT, 0);
    int rc = run_concurrently(NT, 120,
      [&](int k) { for (int round = 0; round < ROUNDS; round++) for (size_t j = 0; j < g_keep.size(); j++) { size_t q = (j + k * 3 + round) % g_keep.size(); if (convolved_words(g_keep[q]) != alone[q]) bad[k]++; } },
      [&]() { int n = 0; for (int b : bad) n += b; return n > 100 ? 100 : n; });
    stats["concurrent_threads"] = NT; stats["concurrent_convolve_calls"] = (long)NT * ROUNDS * (long)g_keep.size(); stats["concurrent_cases"] = (long)g_keep.size();
    stats["concurrent_outcome"] = rc;   // 0 = every table equal to the one convolved alone; > 0 = number that differ; < 0 = -signal
  }
  fclose(fc); fclose(fi);
  FILE* fs = fopen(argv[5], "w");
  fprintf(fs, "{"); bool first = true;
  for (auto& kv : stats) { fprintf(fs, "%s\"%s\": %ld", first ? "" : ", ", kv.first.c_str(), kv.second); first = false; }
  fprintf(fs, "}\n"); fclose(fs);
  return 0;
}
