// C10 correspondence harness: real monotonic fits through photospline::splinetable<>::fit(..., monodim) on small
// generated problems; prints the fitted table (EV driver format), the derivative along monodim on a grid that
// contains the knots of the fully supported region, and — for the inactive case — the unconstrained fit.
//
// usage: mono_harness <nfits> <cases.out> <impl.out> <stats.out>
//        mono_harness replay <problem-file> <cases.out> <impl.out>
//
// cases.out                                   impl.out
//   P <problem words>                           fit ok | fit threw <what>
//   T <table>   (EV format)                     table
//   M <monodim>                                 mono
//   V d <mask> xbits* centers*                  <bits of ndsplineeval<double>(x, centers, 1<<monodim)>
//   U <ncoef> (mono-bits32 unc-bits32)*         unc           (inactive case only: both coefficient vectors)
#include "common.h"
#include <photospline/splinetable.h>
#include <fstream>

using namespace psv;

struct Problem {
  int ndim, monodim, shape;          // shape: 0 noisy increasing, 1 decreasing, 2 oscillating, 3 noise, 4 steps, 5 inactive (smooth increasing positive)
  std::vector<uint32_t> order, porder;
  std::vector<std::vector<double>> knots, coords;
  std::vector<double> smooth;
  std::vector<std::vector<unsigned>> idx;   // rows x ndim
  std::vector<double> z, w;
};

static std::string problem_line(const Problem& p) {
  std::ostringstream o;
  o << "P " << p.ndim << " " << p.monodim << " " << p.shape;
  for (int d = 0; d < p.ndim; d++) {
    o << " " << p.order[d] << " " << p.porder[d] << " " << bits(p.smooth[d]) << " " << p.knots[d].size();
    for (double k : p.knots[d]) o << " " << bits(k);
    o << " " << p.coords[d].size();
    for (double c : p.coords[d]) o << " " << bits(c);
  }
  o << " " << p.z.size();
  for (size_t r = 0; r < p.z.size(); r++) { for (int d = 0; d < p.ndim; d++) o << " " << p.idx[r][d]; o << " " << bits(p.z[r]) << " " << bits(p.w[r]); }
  return o.str();
}

static bool parse_problem(const std::string& line, Problem& p) {
  std::istringstream in(line); std::string tag;
  if (!(in >> tag >> p.ndim >> p.monodim >> p.shape) || tag != "P") return false;
  p.order.resize(p.ndim); p.porder.resize(p.ndim); p.smooth.resize(p.ndim); p.knots.resize(p.ndim); p.coords.resize(p.ndim);
  for (int d = 0; d < p.ndim; d++) {
    uint64_t u; size_t n;
    in >> p.order[d] >> p.porder[d] >> u >> n; p.smooth[d] = from_bits(u);
    p.knots[d].resize(n); for (auto& k : p.knots[d]) { in >> u; k = from_bits(u); }
    in >> n; p.coords[d].resize(n); for (auto& c : p.coords[d]) { in >> u; c = from_bits(u); }
  }
  size_t rows; in >> rows; p.idx.assign(rows, std::vector<unsigned>(p.ndim)); p.z.resize(rows); p.w.resize(rows);
  for (size_t r = 0; r < rows; r++) { uint64_t a, b; for (int d = 0; d < p.ndim; d++) in >> p.idx[r][d]; in >> a >> b; p.z[r] = from_bits(a); p.w[r] = from_bits(b); }
  return (bool)in;
}

static Problem gen(Rng& r, long it, std::map<std::string, long>& stats) {
  Problem p;
  p.ndim = 1 + (int)(it % 3);
  p.monodim = r.range(0, p.ndim - 1);
  p.shape = (int)((it / 3) % 6);
  int maxord = p.ndim == 3 ? 2 : 4;
  int budget = 60;
  p.order.resize(p.ndim); p.porder.resize(p.ndim); p.smooth.resize(p.ndim); p.knots.resize(p.ndim); p.coords.resize(p.ndim);
  std::vector<int> naxes(p.ndim);
  while (true) {
    long tot = 1;
    for (int d = 0; d < p.ndim; d++) {
      p.order[d] = r.range(1, maxord);
      int extra = p.ndim == 1 ? r.range(0, 7) : (p.ndim == 2 ? r.range(0, 3) : r.range(0, 1));
      naxes[d] = p.order[d] + 1 + extra; tot *= naxes[d];
    }
    if (tot <= budget) break;
  }
  for (int d = 0; d < p.ndim; d++) {
    int nk = naxes[d] + p.order[d] + 1;
    int style = r.range(0, 1);
    p.knots[d].resize(nk);
    double v = r.coin() ? 0.0 : (r.unit() * 4 - 2);
    for (int i = 0; i < nk; i++) { p.knots[d][i] = v; v += style == 0 ? 1.0 : (0.3 + r.unit() * 1.7); }
    p.porder[d] = r.range(1, std::min<int>(2, p.order[d]));
    static const double lams[] = {1e-3, 1e-1, 1.0, 10.0};
    p.smooth[d] = lams[r.range(0, 3)];
    // abscissae: a grid over (slightly more than) the fully supported region
    int npts = naxes[d] + r.range(2, 6);
    double lo = p.knots[d][p.order[d]], hi = p.knots[d][naxes[d]];
    p.coords[d].resize(npts);
    for (int i = 0; i < npts; i++) p.coords[d][i] = lo + (hi - lo) * (i + 0.5 * r.unit()) / npts;
    stats["order_" + std::to_string(p.order[d])]++;
  }
  // rows: the full grid with a random share of the cells missing (sparse data)
  double drop = (p.shape == 5) ? 0.0 : (r.coin(1, 3) ? 0.0 : r.unit() * 0.5);
  std::vector<unsigned> cell(p.ndim, 0);
  double amp = std::ldexp(1.0, r.range(-3, 6));
  double ph = r.unit() * 6.28;
  while (true) {
    if (r.unit() >= drop) {
      double t = (p.coords[p.monodim][cell[p.monodim]] - p.coords[p.monodim].front()) / (p.coords[p.monodim].back() - p.coords[p.monodim].front() + 1e-300);
      double other = 0; for (int d = 0; d < p.ndim; d++) if (d != p.monodim) other += 0.3 * std::sin(1.3 * p.coords[d][cell[d]] + d);
      double f;
      switch (p.shape) {
        case 0: f = 2 * t + other + 0.4 * (r.unit() - 0.5); break;          // noisy increasing
        case 1: f = 3 - 4 * t + other + 0.2 * (r.unit() - 0.5); break;      // decreasing
        case 2: f = std::sin(9 * t + ph) + other; break;                    // oscillating
        case 3: f = 4 * (r.unit() - 0.5); break;                            // pure noise, both signs
        case 4: f = (t > 0.5 ? 1.0 : -1.0) * (r.coin(1, 8) ? -1 : 1); break; // steps with outliers
        default: f = 1.0 + 3 * t + 0.5 * t * t + 0.2 * (2 + other); break;   // smooth, positive, increasing: constraint inactive
      }
      p.idx.push_back(cell); p.z.push_back(amp * f);
      p.w.push_back(r.coin(1, 12) ? 0.0 : std::ldexp(1.0, r.range(-3, 3)) * (0.5 + r.unit()));
    }
    int d = p.ndim - 1;
    while (d >= 0) { if (++cell[d] < p.coords[d].size()) break; cell[d] = 0; d--; }
    if (d < 0) break;
  }
  stats["ndim_" + std::to_string(p.ndim)]++; stats["shape_" + std::to_string(p.shape)]++;
  stats["monodim_" + std::to_string(p.monodim)]++; stats[drop == 0.0 ? "dense_data" : "sparse_data"]++;
  return p;
}

static bool do_fit(const Problem& p, uint32_t monodim, Table& t, std::string& err) {
  struct ndsparse data; data.rows = p.z.size(); data.ndim = p.ndim;
  std::vector<double> x(p.z); data.x = x.data();
  std::vector<std::vector<unsigned>> cols(p.ndim, std::vector<unsigned>(p.z.size()));
  std::vector<unsigned*> ip(p.ndim); std::vector<unsigned> ranges(p.ndim);
  for (int d = 0; d < p.ndim; d++) { for (size_t r = 0; r < p.z.size(); r++) cols[d][r] = p.idx[r][d]; ip[d] = cols[d].data(); ranges[d] = p.coords[d].size(); }
  data.i = ip.data(); data.ranges = ranges.data();
  try {
    t.fit(data, p.w, p.coords, p.order, p.knots, p.smooth, p.porder, monodim, false);
  } catch (std::exception& e) { err = e.what(); return false; }
  return true;
}

static FILE *fc, *fi;

static void emit_table(const Table& t) {
  fprintf(fc, "T %u", t.ndim);
  for (uint32_t i = 0; i < t.ndim; i++) {
    fprintf(fc, " %u %llu %llu", t.order[i], (unsigned long long)t.nknots[i], (unsigned long long)t.strides[i]);
    for (uint64_t j = 0; j < t.nknots[i] + 2 * t.order[i]; j++) {
      // the padding of a fitted table is uninitialised storage: print zeros for it (evaluation in the fully supported region never reads it)
      bool pad = j < t.order[i] || j >= t.order[i] + t.nknots[i];
      fprintf(fc, " %llu", (unsigned long long)(pad ? 0ULL : bits(t.knots[i][(long)j - (long)t.order[i]])));
    }
  }
  uint64_t nc = t.strides[0] * t.naxes[0];
  fprintf(fc, " %llu", (unsigned long long)nc);
  for (uint64_t j = 0; j < nc; j++) fprintf(fc, " %u", bits(t.coefficients[j]));
  fprintf(fc, "\n"); fprintf(fi, "table\n");
}

static void run_problem(const Problem& p, Rng& r, std::map<std::string, long>& stats) {
  fprintf(fc, "%s\n", problem_line(p).c_str()); fflush(fc);
  Table t; std::string err;
  if (!do_fit(p, p.monodim, t, err)) { fprintf(fi, "fit threw %s\n", err.c_str()); stats["fit_threw"]++; return; }
  fprintf(fi, "fit ok\n");
  emit_table(t);
  fprintf(fc, "M %d\n", p.monodim); fprintf(fi, "mono\n");
  // derivative along monodim on a grid: every knot of the fully supported region, midpoints, a few random points
  int m = p.monodim; int om = p.order[m]; int nax = t.naxes[m];
  std::vector<double> xm;
  for (int j = om; j <= nax; j++) { xm.push_back(p.knots[m][j]); if (j < nax) { xm.push_back(0.5 * (p.knots[m][j] + p.knots[m][j + 1])); xm.push_back(std::nextafter(p.knots[m][j + 1], -INFINITY)); } }
  for (int j = 0; j < 3; j++) xm.push_back(p.knots[m][om] + (p.knots[m][nax] - p.knots[m][om]) * r.unit());
  int nother = p.ndim == 1 ? 1 : (p.ndim == 2 ? 4 : 3);
  for (int q = 0; q < nother; q++) {
    std::vector<double> x(p.ndim);
    for (int d = 0; d < p.ndim; d++) if (d != m) {
      int od = p.order[d], nd = t.naxes[d];
      x[d] = (q == 0) ? p.knots[d][od] : (q == 1 ? p.knots[d][nd] : p.knots[d][od] + (p.knots[d][nd] - p.knots[d][od]) * r.unit());
    }
    for (double v : xm) {
      x[m] = v; std::vector<int> c(p.ndim, -1);
      if (!t.searchcenters(x.data(), c.data())) { stats["point_outside"]++; continue; }
      double dv = t.ndsplineeval<double>(x.data(), c.data(), 1 << m);
      fprintf(fc, "V d %d", 1 << m);
      for (int d = 0; d < p.ndim; d++) fprintf(fc, " %llu", (unsigned long long)bits(x[d]));
      for (int d = 0; d < p.ndim; d++) fprintf(fc, " %d", c[d]);
      fprintf(fc, "\n"); fprintf(fi, "%llu\n", (unsigned long long)cbits(dv));
      stats["deriv_points"]++;
    }
  }
  if (p.shape == 5) {
    Table u; std::string e2;
    if (do_fit(p, Table::no_monodim, u, e2)) {
      uint64_t nc = t.strides[0] * t.naxes[0];
      fprintf(fc, "U %llu", (unsigned long long)nc);
      for (uint64_t j = 0; j < nc; j++) fprintf(fc, " %u %u", bits(t.coefficients[j]), bits(u.coefficients[j]));
      fprintf(fc, "\n"); fprintf(fi, "unc\n");
      stats["inactive_pairs"]++;
    }
  }
}

int main(int argc, char** argv) {
  std::map<std::string, long> stats;
  if (argc >= 5 && std::string(argv[1]) == "replay") {
    std::ifstream in(argv[2]); std::string line; fc = fopen(argv[3], "w"); fi = fopen(argv[4], "w");
    Rng r(env_seed());
    while (std::getline(in, line)) { Problem p; if (parse_problem(line, p)) run_problem(p, r, stats); }
    fclose(fc); fclose(fi); return 0;
  }
  if (argc < 5) { fprintf(stderr, "usage\n"); return 2; }
  long nfits = atol(argv[1]);
  fc = fopen(argv[2], "w"); fi = fopen(argv[3], "w");
  Rng r(env_seed() * 0x2545F4914F6CDD1DULL + 10);
  for (long it = 0; it < nfits; it++) { Problem p = gen(r, it, stats); run_problem(p, r, stats); fflush(fc); fflush(fi); }
  fclose(fc); fclose(fi);
  std::ofstream fs(argv[4]);
  fs << "{"; bool first = true; for (auto& kv : stats) { fs << (first ? "" : ", ") << "\"" << kv.first << "\": " << kv.second; first = false; } fs << "}\n";
  return 0;
}
