// C10 correspondence harness: real monotonic fits through photospline::splinetable<>::fit(..., monodim) on small
// generated problems; prints the fitted table (EV driver format), the derivative along monodim on a grid that
// contains the knots of the fully supported region, and — for the inactive case — the unconstrained fit.
//
// usage: mono_harness <nfits> <cases.out> <impl.out> <stats.out> [<nfits of the small-magnitude family> [<nfits of the weight-scale family>]]
//        mono_harness replay <problem-file> <cases.out> <impl.out>
//        mono_harness knotscale <nproblems> <out> <stats.out>   |   mono_harness ksreplay <file> <out>     (c10_knotscale.h)
//
// cases.out                                   impl.out
//   P <problem words>                           fit ok | fit threw <what>
//   T <table>   (EV format)                     table
//   M <monodim>                                 mono
//   V d <mask> xbits* centers*                  <bits of ndsplineeval<double>(x, centers, 1<<monodim)>
//   V d 0 xbits* centers*                       <bits of ndsplineeval<double>(x, centers, 0)>   (the value at the same point)
//   H <ncoef> <k> (mono-bits32 scaled-bits32)*  scaled        (small-magnitude inactive shape: monotonic fits of data and of 2^k * data)
//   W <ncoef> <k> (mono-bits32 ref-bits32)*     wscaled       (weight-scale family: monotonic fits with weights w, smoothing lambda and with 2^-k w, 2^-k lambda)
//   G <ncoef> <k> (mono-bits32 scaled-bits32)*  dscaled       (weight-scale family, large-valued tables: monotonic fits of data and of 2^-k * data)
//   U <ncoef> (mono-bits32 unc-bits32)*         unc           (inactive case only: both coefficient vectors)
#include "common.h"
#include <photospline/splinetable.h>
#include <fstream>

using namespace psv;

struct Problem {
  int ndim, monodim, shape;          // shape: 0 noisy increasing, 1 decreasing, 2 oscillating, 3 noise, 4 steps, 5 inactive (smooth increasing positive)
                                     // small-magnitude family (gen with family=1): 6 gentle linear fall, 7 mixture (rise/steep part + gentle fall,
                                     // or gentle fall + rise to a large amplitude), 8 plateau with tiny ripple/noise, 9 shapes 0..4 scaled to a tiny
                                     // magnitude, 10 inactive shape at a small magnitude, 11 gentle drift of a table that is negative or crosses zero
  std::vector<uint32_t> order, porder;
  std::vector<std::vector<double>> knots, coords;
  std::vector<double> smooth;
  std::vector<std::vector<unsigned>> idx;   // rows x ndim
  std::vector<double> z, w;
  // weight-scale family (shapes 12..17 = shapes 0..5 with a weight pattern of overall scale 2^wk): trailing words "K wk wpat wm wgd wdir" of the P line
  int wk = 0, wpat = 0, wm = 0, wgd = 0, wdir = 0;   // wpat: 0 uniform scale, 1 random per row 2^[-wm,wm], 2 gradient along a dimension, 3 two blocks; wm: half-spread (binary exponent); wgd, wdir: dimension and direction (+1: weights fall along it) of patterns 2, 3
};

static std::string problem_line(const Problem& p) {
  std::ostringstream o;
  o << "P " << p.ndim << " " << p.monodim << " " << p.shape;
  for (int d = 0; d < p.ndim; d++) {
    o << " " << p.order[d] << " " << p.porder[d] << " " << bits(p.smooth[d]) << " " << p.knots[d].size();
    for (double k : p.knots[d]) o << " " << bits(k);
    o << " " << p.coords[d].size();
    for (double c : p.coords[d]) o << " " << bits(c);
  }
  o << " " << p.z.size();
  for (size_t r = 0; r < p.z.size(); r++) { for (int d = 0; d < p.ndim; d++) o << " " << p.idx[r][d]; o << " " << bits(p.z[r]) << " " << bits(p.w[r]); }
  if (p.shape >= 12 && p.shape < 20) o << " K " << p.wk << " " << p.wpat << " " << p.wm << " " << p.wgd << " " << p.wdir;
  return o.str();
}

static bool parse_problem(const std::string& line, Problem& p) {
  std::istringstream in(line); std::string tag;
  if (!(in >> tag >> p.ndim >> p.monodim >> p.shape) || tag != "P") return false;
  p.order.resize(p.ndim); p.porder.resize(p.ndim); p.smooth.resize(p.ndim); p.knots.resize(p.ndim); p.coords.resize(p.ndim);
  for (int d = 0; d < p.ndim; d++) {
    uint64_t u; size_t n;
    in >> p.order[d] >> p.porder[d] >> u >> n; p.smooth[d] = from_bits(u);
    p.knots[d].resize(n); for (auto& k : p.knots[d]) { in >> u; k = from_bits(u); }
    in >> n; p.coords[d].resize(n); for (auto& c : p.coords[d]) { in >> u; c = from_bits(u); }
  }
  size_t rows; in >> rows; p.idx.assign(rows, std::vector<unsigned>(p.ndim)); p.z.resize(rows); p.w.resize(rows);
  for (size_t r = 0; r < rows; r++) { uint64_t a, b; for (int d = 0; d < p.ndim; d++) in >> p.idx[r][d]; in >> a >> b; p.z[r] = from_bits(a); p.w[r] = from_bits(b); }
  if (!in) return false;
  std::string k; if (in >> k && k == "K") in >> p.wk >> p.wpat >> p.wm >> p.wgd >> p.wdir;
  return true;
}

// family 0: the original data shapes 0..5 (values of order 0.1 .. 100);
// family 1: small-magnitude tables and gentle drifts (shapes 6..11): the step of the data from one spline coefficient to the next
// along monodim is `delta` (log-uniform 1e-14 .. 1e-6, i.e. below, around and above any absolute tolerance of the solver),
// and the magnitude S of the table is delta * 2^(2..22), so that a step of delta is NOT lost in the float32 storage of the
// coefficients (ulp(S) < delta).
static Problem gen(Rng& r, long it, std::map<std::string, long>& stats, int family = 0) {
  Problem p;
  p.ndim = 1 + (int)(it % 3);
  p.monodim = r.range(0, p.ndim - 1);
  p.shape = (int)((it / 3) % 6) + 6 * family;
  int maxord = p.ndim == 3 ? 2 : 4;
  int budget = 60;
  bool longaxis = family == 1 && p.ndim == 1 && r.coin();   // 1-d with up to 60 coefficients (the solver's tolerance grows with their number)
  p.order.resize(p.ndim); p.porder.resize(p.ndim); p.smooth.resize(p.ndim); p.knots.resize(p.ndim); p.coords.resize(p.ndim);
  std::vector<int> naxes(p.ndim);
  while (true) {
    long tot = 1;
    for (int d = 0; d < p.ndim; d++) {
      p.order[d] = r.range(1, maxord);
      int extra = p.ndim == 1 ? (longaxis ? r.range(8, 55 - (int)p.order[d]) : r.range(0, 7)) : (p.ndim == 2 ? r.range(0, 3) : r.range(0, 1));
      naxes[d] = p.order[d] + 1 + extra; tot *= naxes[d];
    }
    if (tot <= budget) break;
  }
  // small-magnitude family: half of the problems have several data points per coefficient and/or heavy weights (large normal equations)
  bool dense = family == 1 && r.coin(), heavy = family == 1 && r.coin();
  if (family == 1) { stats[dense ? "dense_abscissae" : "one_abscissa_per_coefficient"]++; stats[heavy ? "weights_up_to_2^12" : "weights_up_to_2^4"]++; }
  for (int d = 0; d < p.ndim; d++) {
    int nk = naxes[d] + p.order[d] + 1;
    int style = r.range(0, 1);
    p.knots[d].resize(nk);
    double v = r.coin() ? 0.0 : (r.unit() * 4 - 2);
    for (int i = 0; i < nk; i++) { p.knots[d][i] = v; v += style == 0 ? 1.0 : (0.3 + r.unit() * 1.7); }
    p.porder[d] = r.range(0, std::min<int>(3, p.order[d]));   // 0 = ridge penalty on the coefficients themselves
    static const double lams[] = {1e-3, 1e-1, 1.0, 10.0};
    p.smooth[d] = lams[r.range(0, 3)];
    // abscissae: a grid over (slightly more than) the fully supported region
    int npts = naxes[d] + r.range(2, 6);
    if (dense) {                                            // several abscissae per coefficient (at most about 1000 rows in all)
      int cap = p.ndim == 1 ? 1000 : (p.ndim == 2 ? 31 : 10);
      npts = std::min(cap, naxes[d] * r.range(2, 6));
      if (npts < naxes[d] + 2) npts = naxes[d] + 2;
    }
    double lo = p.knots[d][p.order[d]], hi = p.knots[d][naxes[d]];
    p.coords[d].resize(npts);
    for (int i = 0; i < npts; i++) p.coords[d][i] = lo + (hi - lo) * (i + 0.5 * r.unit()) / npts;
    stats["order_" + std::to_string(p.order[d])]++;
  }
  // rows: the full grid with a random share of the cells missing (sparse data)
  double drop = (p.shape == 5 || p.shape == 10) ? 0.0 : (r.coin(1, 3) ? 0.0 : r.unit() * 0.5);
  std::vector<unsigned> cell(p.ndim, 0);
  double amp = std::ldexp(1.0, r.range(-3, 6));
  double ph = r.unit() * 6.28;
  // parameters of the small-magnitude family
  double delta = 0, S = 0, D = 0, tb = 0.5, tb2 = 0.8; int variant = 0, sub = 0, big = 0, bigdim = -1; bool clean = true;
  if (family == 1) {
    delta = std::pow(10.0, -14 + 8 * r.unit());            // step per coefficient along monodim
    S = delta * std::ldexp(1.0 + r.unit(), r.range(2, 21)); // magnitude of the table: ulp_float(S) < delta
    D = delta * naxes[p.monodim];                           // total drift over the range
    tb = 0.25 + 0.5 * r.unit();                             // where a mixture changes its character
    variant = r.range(0, 2); sub = r.range(0, 4);
    clean = r.coin(2, 3);                                   // otherwise: measurement noise of a fraction of delta on top
    // half of the tables are small everywhere; the others are small only in a part of the domain and rise to a large
    // amplitude `amp` elsewhere: late along monodim (big=1) or in a part of another dimension (big=2), so that the small
    // steps are small also RELATIVE to the largest value / right-hand side of the problem
    big = r.range(0, 3); big = big < 2 ? 0 : (big == 2 || p.ndim == 1 ? 1 : 2);
    tb2 = 0.55 + 0.35 * r.unit();
    if (big == 2) { bigdim = r.range(0, p.ndim - 2); if (bigdim >= p.monodim) bigdim++; }
    if (r.coin(1, 4)) amp = S * std::ldexp(1.0, r.range(4, 30));   // or an amplitude relative to the small magnitude
    if (big && r.coin()) {                                  // or the small part relative to the large one: S = amp * 1e-1..1e-10
      if (r.coin(1, 3)) amp = std::ldexp(amp, -r.range(10, 40));
      S = r.coin(1, 4) ? 0.0 : amp * std::pow(10.0, -1 - 9 * r.unit());   // S = 0: exactly zero before the onset (a cumulative distribution, say)
      delta = r.coin(1, 4) ? 0.0 : S / std::ldexp(1.0 + r.unit(), r.range(2, 21));
      D = delta * naxes[p.monodim];
      stats["small_part_relative_to_large"]++;
    }
    if (p.shape == 6 || p.shape == 7 || p.shape == 8 || p.shape == 11) stats["big_" + std::to_string(big)]++;
    if (p.shape == 9) amp = std::ldexp(1.0, -r.range(10, 45));
    if (p.shape == 10) amp = std::ldexp(1.0, -r.range(7, 40));
    stats[delta < 1e-11 ? "delta_lt_1e-11" : (delta < 1e-9 ? "delta_1e-11_1e-9" : "delta_ge_1e-9")]++;
  }
  while (true) {
    if (r.unit() >= drop) {
      double t = (p.coords[p.monodim][cell[p.monodim]] - p.coords[p.monodim].front()) / (p.coords[p.monodim].back() - p.coords[p.monodim].front() + 1e-300);
      double other = 0; for (int d = 0; d < p.ndim; d++) if (d != p.monodim) other += 0.3 * std::sin(1.3 * p.coords[d][cell[d]] + d);
      double f;
      double mult = 1.0 + other;                              // |other| <= 0.6: positive factor varying over the other dimensions
      double eps = clean ? 0.0 : 0.3 * delta * (r.unit() - 0.5);
      int shape = p.shape == 9 ? sub : (p.shape == 10 ? 5 : p.shape);
      double bump = 0;
      if (big == 1 && t > tb2) bump = amp * (t - tb2) * (t - tb2);
      if (big == 2) {
        double u = (p.coords[bigdim][cell[bigdim]] - p.coords[bigdim].front()) / (p.coords[bigdim].back() - p.coords[bigdim].front() + 1e-300);
        if (u > tb2) bump = amp * (u - tb2) * (u - tb2) * (1 + t);
      }
      switch (shape) {
        case 0: f = 2 * t + other + 0.4 * (r.unit() - 0.5); break;          // noisy increasing
        case 1: f = 3 - 4 * t + other + 0.2 * (r.unit() - 0.5); break;      // decreasing
        case 2: f = std::sin(9 * t + ph) + other; break;                    // oscillating
        case 3: f = 4 * (r.unit() - 0.5); break;                            // pure noise, both signs
        case 4: f = (t > 0.5 ? 1.0 : -1.0) * (r.coin(1, 8) ? -1 : 1); break; // steps with outliers
        case 6: f = (S - D * t) * mult + eps; break;                         // gentle linear fall of a small positive table
        case 7:                                                               // mixtures
          if (variant == 0) f = (S * (1 - std::pow(t < tb ? 1 - t / tb : 0.0, 4)) - (t > tb ? D * (t - tb) : 0.0)) * mult + eps;      // smooth rise, then gentle fall
          else if (variant == 1) f = (S - D * t) * mult + (t > tb ? amp * (t - tb) * (t - tb) : 0.0) + eps;                              // gentle fall, then a rise to a large amplitude
          else f = (S + (t < tb ? 0.5 * S * (tb - t) / tb : 0.0) - D * t) * mult + eps;                                                 // steep fall, then gentle fall
          break;
        case 8:                                                               // plateau with a ripple / noise of the size of delta
          f = S * mult + (variant == 0 ? delta * std::sin(9 * t + ph) : (variant == 1 ? delta * 2 * (r.unit() - 0.5) : delta * std::sin(40 * t + ph) * t));
          break;
        case 11:                                                              // gentle drift of a table that is negative or crosses zero
          if (variant == 0) f = (-S - D * t) * mult + eps;                    //   negative, falling
          else if (variant == 1) f = (0.5 * D - D * t) * mult + eps;          //   falling through zero
          else f = (-S + D * t) * mult + eps;                                 //   negative, rising gently (first coefficient clamped at 0)
          break;
        default: f = 1.0 + 3 * t + 0.5 * t * t + 0.2 * (2 + other); break;   // smooth, positive, increasing: constraint inactive
      }
      p.idx.push_back(cell); p.z.push_back(p.shape >= 6 && p.shape != 9 && p.shape != 10 ? f + bump : amp * f);
      p.w.push_back(r.coin(1, 12) ? 0.0 : std::ldexp(1.0, r.range(-3, heavy ? 11 : 3)) * (0.5 + r.unit()));
    }
    int d = p.ndim - 1;
    while (d >= 0) { if (++cell[d] < p.coords[d].size()) break; cell[d] = 0; d--; }
    if (d < 0) break;
  }
  stats["ndim_" + std::to_string(p.ndim)]++; stats["shape_" + std::to_string(p.shape)]++;
  stats["monodim_" + std::to_string(p.monodim)]++; stats[drop == 0.0 ? "dense_data" : "sparse_data"]++;
  return p;
}

// family 2: weight-scale classes (shapes 12..17 = the first-stream shapes 0..5, the inactive shape three times as often).
// Weights are 1/variance in practice and span many decades between applications and within one table; the fit depends only on the
// RATIO weights : smoothing, so the monotonic fit with (2^k w, 2^k lambda) must equal the monotonic fit with (w, lambda), and with
// lambda = 0 the overall scale of the weights must not matter at all. Overall scale 2^wk with wk in -40..40 (about 1e-12 .. 1e12),
// uniform over the fit or mixed within one fit (random per row, a gradient along one dimension, two blocks; half-spread 2^4, 2^10 or
// (random per row only) 2^20 around 2^wk, every weight within 2^-40..2^40 up to the factor 1/16..12 of the base pattern). Smoothing is one of 1e-3..10 times 2^wk, or exactly zero (then the abscissae
// determine the fit by themselves: order+1 .. order+3 points inside every knot interval of the supported region, full grid, no zero
// weights). A quarter of the tables has large values (2^10..2^60).
static Problem gen_ws(Rng& r, long it, std::map<std::string, long>& stats) {
  Problem p;
  p.ndim = 1 + (int)(it % 3);
  p.monodim = r.range(0, p.ndim - 1);
  static const int cyc[8] = {0, 5, 1, 5, 2, 5, 3, 4};
  int base = cyc[(it / 3) % 8];
  p.shape = 12 + base;
  int maxord = p.ndim == 3 ? 2 : 4;
  p.order.resize(p.ndim); p.porder.resize(p.ndim); p.smooth.resize(p.ndim); p.knots.resize(p.ndim); p.coords.resize(p.ndim);
  std::vector<int> naxes(p.ndim);
  while (true) {
    long tot = 1;
    for (int d = 0; d < p.ndim; d++) {
      p.order[d] = r.range(1, maxord);
      int extra = p.ndim == 1 ? r.range(0, 7) : (p.ndim == 2 ? r.range(0, 3) : r.range(0, 1));
      naxes[d] = p.order[d] + 1 + extra; tot *= naxes[d];
    }
    if (tot <= 60) break;
  }
  bool zero_smooth = r.coin(1, 3);
  bool determined = zero_smooth || r.coin();
  p.wpat = r.coin(2, 5) ? 0 : r.range(1, 3);
  // half-spread: the structured patterns stop at 2^10 (a region whose weights are 2^-40 of the heaviest ones is invisible to a solver whose
  // stopping tolerance is 1e-9 of the largest gradient, and with the heavy region late along the monotonic dimension the T-spline normal
  // equations are numerically singular: outside "well-posed"); weights scattered at random over the rows go to 2^20
  static const int spreads[] = {4, 10, 20};
  p.wm = p.wpat ? spreads[r.range(0, p.wpat == 1 ? 2 : 1)] : 0;
  p.wk = 2 * r.range((-40 + p.wm) / 2, (40 - p.wm) / 2);   // even: scaling by 4^j commutes with every rounding of the fit including the square roots of the factorisation
  for (int d = 0; d < p.ndim; d++) {
    int nk = naxes[d] + p.order[d] + 1;
    int style = r.range(0, 1);
    p.knots[d].resize(nk);
    double v = r.coin() ? 0.0 : (r.unit() * 4 - 2);
    for (int i = 0; i < nk; i++) { p.knots[d][i] = v; v += style == 0 ? 1.0 : (0.3 + r.unit() * 1.7); }
    p.porder[d] = r.range(0, std::min<int>(3, p.order[d]));   // 0 = ridge penalty on the coefficients themselves
    static const double lams[] = {1e-3, 1e-1, 1.0, 10.0};
    p.smooth[d] = zero_smooth ? 0.0 : std::ldexp(lams[r.range(0, 3)], p.wk);
    if (determined) {
      // order+1 .. order+3 abscissae strictly inside every knot interval of the fully supported region
      for (int j = p.order[d]; j < naxes[d]; j++) {
        int cnt = p.order[d] + 1 + r.range(0, 2);
        double a = p.knots[d][j], h = p.knots[d][j + 1] - a;
        for (int i = 0; i < cnt; i++) p.coords[d].push_back(a + h * (i + 0.25 + 0.5 * r.unit()) / cnt);
      }
    } else {
      int npts = naxes[d] + r.range(2, 6);
      double lo = p.knots[d][p.order[d]], hi = p.knots[d][naxes[d]];
      p.coords[d].resize(npts);
      for (int i = 0; i < npts; i++) p.coords[d][i] = lo + (hi - lo) * (i + 0.5 * r.unit()) / npts;
    }
    stats["order_" + std::to_string(p.order[d])]++;
  }
  double drop = (base == 5 || zero_smooth) ? 0.0 : (r.coin(1, 3) ? 0.0 : r.unit() * 0.5);
  bool large = r.coin(1, 4);
  double amp = std::ldexp(1.0, large ? r.range(10, 60) : r.range(-3, 6));
  double ph = r.unit() * 6.28;
  int gd = r.range(0, p.ndim - 1), dir = r.coin() ? 1 : -1; p.wgd = gd; p.wdir = dir; double wtb = 0.25 + 0.5 * r.unit();
  std::vector<unsigned> cell(p.ndim, 0);
  int emin = 0, emax = 0;
  size_t grid = 1; for (int d = 0; d < p.ndim; d++) grid *= p.coords[d].size();
  for (int attempt = 0; ; attempt++) {
  // well-posed problems only: at least half of the grid cells present (a second attempt keeps all of them)
  if (attempt) { drop = 0.0; p.idx.clear(); p.z.clear(); p.w.clear(); emin = emax = 0; std::fill(cell.begin(), cell.end(), 0u); }
  while (true) {
    if (r.unit() >= drop) {
      double t = (p.coords[p.monodim][cell[p.monodim]] - p.coords[p.monodim].front()) / (p.coords[p.monodim].back() - p.coords[p.monodim].front() + 1e-300);
      double other = 0; for (int d = 0; d < p.ndim; d++) if (d != p.monodim) other += 0.3 * std::sin(1.3 * p.coords[d][cell[d]] + d);
      double f;
      switch (base) {
        case 0: f = 2 * t + other + 0.4 * (r.unit() - 0.5); break;
        case 1: f = 3 - 4 * t + other + 0.2 * (r.unit() - 0.5); break;
        case 2: f = std::sin(9 * t + ph) + other; break;
        case 3: f = 4 * (r.unit() - 0.5); break;
        case 4: f = (t > 0.5 ? 1.0 : -1.0) * (r.coin(1, 8) ? -1 : 1); break;
        default: f = 1.0 + 3 * t + 0.5 * t * t + 0.2 * (2 + other); break;
      }
      double bw = (!zero_smooth && r.coin(1, 12)) ? 0.0 : std::ldexp(1.0, r.range(-3, 3)) * (0.5 + r.unit());
      double u = (p.coords[gd][cell[gd]] - p.coords[gd].front()) / (p.coords[gd].back() - p.coords[gd].front() + 1e-300);
      int e = 0;
      if (p.wpat == 1) e = r.range(-p.wm, p.wm);
      else if (p.wpat == 2) e = dir * (int)std::lround(p.wm * (1 - 2 * u));
      else if (p.wpat == 3) e = dir * (u < wtb ? p.wm : -p.wm);
      emin = std::min(emin, e); emax = std::max(emax, e);
      p.idx.push_back(cell); p.z.push_back(amp * f); p.w.push_back(std::ldexp(bw, p.wk + e));
    }
    int d = p.ndim - 1;
    while (d >= 0) { if (++cell[d] < p.coords[d].size()) break; cell[d] = 0; d--; }
    if (d < 0) break;
  }
  if (2 * p.z.size() >= grid) break;
  }
  stats["ndim_" + std::to_string(p.ndim)]++; stats["shape_" + std::to_string(p.shape)]++;
  stats["monodim_" + std::to_string(p.monodim)]++; stats[drop == 0.0 ? "dense_data" : "sparse_data"]++;
  stats["ws_pattern_" + std::to_string(p.wpat)]++; if (p.wpat) stats["ws_halfspread_2^" + std::to_string(p.wm)]++;
  stats[p.wk < -27 ? "ws_scale_2^-40..-28" : (p.wk < -13 ? "ws_scale_2^-27..-14" : (p.wk <= 13 ? "ws_scale_2^-13..13" : (p.wk <= 27 ? "ws_scale_2^14..27" : "ws_scale_2^28..40")))]++;
  if (p.wk + emin < -27) stats["ws_some_weight_below_2^-27"]++;
  if (p.wk + emax < -27) stats["ws_all_weights_below_2^-27"]++;
  stats[zero_smooth ? "ws_zero_smoothing" : "ws_smoothing_scaled_with_weights"]++;
  stats[determined ? "ws_abscissae_determine_fit" : "ws_abscissae_like_first_stream"]++;
  if (large) stats["ws_large_values_2^10..60"]++;
  return p;
}

static bool do_fit(const Problem& p, uint32_t monodim, Table& t, std::string& err) {
  struct ndsparse data; data.rows = p.z.size(); data.ndim = p.ndim;
  std::vector<double> x(p.z); data.x = x.data();
  std::vector<std::vector<unsigned>> cols(p.ndim, std::vector<unsigned>(p.z.size()));
  std::vector<unsigned*> ip(p.ndim); std::vector<unsigned> ranges(p.ndim);
  for (int d = 0; d < p.ndim; d++) { for (size_t r = 0; r < p.z.size(); r++) cols[d][r] = p.idx[r][d]; ip[d] = cols[d].data(); ranges[d] = p.coords[d].size(); }
  data.i = ip.data(); data.ranges = ranges.data();
  try {
    t.fit(data, p.w, p.coords, p.order, p.knots, p.smooth, p.porder, monodim, false);
  } catch (std::exception& e) { err = e.what(); return false; }
  return true;
}

#include "c10_knotscale.h"   // fourth stream (own sub-command): knot-scale equivariance

static FILE *fc, *fi;

static void emit_table(const Table& t) {
  fprintf(fc, "T %u", t.ndim);
  for (uint32_t i = 0; i < t.ndim; i++) {
    fprintf(fc, " %u %llu %llu", t.order[i], (unsigned long long)t.nknots[i], (unsigned long long)t.strides[i]);
    for (uint64_t j = 0; j < t.nknots[i] + 2 * t.order[i]; j++) {
      // the padding of a fitted table is uninitialised storage: print zeros for it (evaluation in the fully supported region never reads it)
      bool pad = j < t.order[i] || j >= t.order[i] + t.nknots[i];
      fprintf(fc, " %llu", (unsigned long long)(pad ? 0ULL : bits(t.knots[i][(long)j - (long)t.order[i]])));
    }
  }
  uint64_t nc = t.strides[0] * t.naxes[0];
  fprintf(fc, " %llu", (unsigned long long)nc);
  for (uint64_t j = 0; j < nc; j++) fprintf(fc, " %u", bits(t.coefficients[j]));
  fprintf(fc, "\n"); fprintf(fi, "table\n");
}

static void run_problem(const Problem& p, Rng& r, std::map<std::string, long>& stats) {
  fprintf(fc, "%s\n", problem_line(p).c_str()); fflush(fc);
  Table t; std::string err;
  if (!do_fit(p, p.monodim, t, err)) { fprintf(fi, "fit threw %s\n", err.c_str()); stats["fit_threw"]++; return; }
  fprintf(fi, "fit ok\n");
  emit_table(t);
  fprintf(fc, "M %d\n", p.monodim); fprintf(fi, "mono\n");
  // derivative along monodim on a grid: every knot of the fully supported region, midpoints, a few random points
  int m = p.monodim; int om = p.order[m]; int nax = t.naxes[m];
  std::vector<double> xm;
  for (int j = om; j <= nax; j++) { xm.push_back(p.knots[m][j]); if (j < nax) { xm.push_back(0.5 * (p.knots[m][j] + p.knots[m][j + 1])); xm.push_back(std::nextafter(p.knots[m][j + 1], -INFINITY)); } }
  for (int j = 0; j < 3; j++) xm.push_back(p.knots[m][om] + (p.knots[m][nax] - p.knots[m][om]) * r.unit());
  int nother = p.ndim == 1 ? 1 : (p.ndim == 2 ? 4 : 3);
  for (int q = 0; q < nother; q++) {
    std::vector<double> x(p.ndim);
    for (int d = 0; d < p.ndim; d++) if (d != m) {
      int od = p.order[d], nd = t.naxes[d];
      x[d] = (q == 0) ? p.knots[d][od] : (q == 1 ? p.knots[d][nd] : p.knots[d][od] + (p.knots[d][nd] - p.knots[d][od]) * r.unit());
    }
    for (double v : xm) {
      x[m] = v; std::vector<int> c(p.ndim, -1);
      if (!t.searchcenters(x.data(), c.data())) { stats["point_outside"]++; continue; }
      double dv = t.ndsplineeval<double>(x.data(), c.data(), 1 << m);
      fprintf(fc, "V d %d", 1 << m);
      for (int d = 0; d < p.ndim; d++) fprintf(fc, " %llu", (unsigned long long)bits(x[d]));
      for (int d = 0; d < p.ndim; d++) fprintf(fc, " %d", c[d]);
      fprintf(fc, "\n"); fprintf(fi, "%llu\n", (unsigned long long)cbits(dv));
      stats["deriv_points"]++;
      // the value at the same point (no random draw: both input streams are unchanged): the surface itself must be
      // non-decreasing along monodim from one point of this line to the next (C10_surface_monotone)
      // (on two of the lines only — the lower edge of the other dimensions and a random position — to keep the exact evaluations of
      // the thorough tier within its time budget)
      if (q == 0 || q == 2) {
        double vv = t.ndsplineeval<double>(x.data(), c.data(), 0);
        fprintf(fc, "V d 0");
        for (int d = 0; d < p.ndim; d++) fprintf(fc, " %llu", (unsigned long long)bits(x[d]));
        for (int d = 0; d < p.ndim; d++) fprintf(fc, " %d", c[d]);
        fprintf(fc, "\n"); fprintf(fi, "%llu\n", (unsigned long long)cbits(vv));
        stats["value_points"]++;
      }
    }
  }
  if (p.shape == 10) {
    // scale equivariance: the monotonic fit of 2^k * data must be 2^k * (the monotonic fit of data); k brings the data to [1, 2)
    double zmax = 0; for (double v : p.z) zmax = std::max(zmax, std::fabs(v));
    if (zmax > 0 && std::isfinite(zmax)) {
      int k = -std::ilogb(zmax);
      Problem q = p; for (double& v : q.z) v = std::ldexp(v, k);
      Table b; std::string e3;
      if (do_fit(q, q.monodim, b, e3)) {
        uint64_t nc = t.strides[0] * t.naxes[0];
        fprintf(fc, "H %llu %d", (unsigned long long)nc, k);
        for (uint64_t j = 0; j < nc; j++) fprintf(fc, " %u %u", bits(t.coefficients[j]), bits(b.coefficients[j]));
        fprintf(fc, "\n"); fprintf(fi, "scaled\n");
        stats["scaled_pairs"]++;
      }
    }
  }
  if (p.shape >= 12) {
    // weight-scale equivariance: the monotonic fit with (w, lambda) must equal the monotonic fit with (2^-wk w, 2^-wk lambda)
    Problem q = p; for (double& v : q.w) v = std::ldexp(v, -p.wk); for (double& v : q.smooth) v = std::ldexp(v, -p.wk);
    Table b; std::string e3;
    if (do_fit(q, q.monodim, b, e3)) {
      uint64_t nc = t.strides[0] * t.naxes[0];
      fprintf(fc, "W %llu %d", (unsigned long long)nc, p.wk);
      for (uint64_t j = 0; j < nc; j++) fprintf(fc, " %u %u", bits(t.coefficients[j]), bits(b.coefficients[j]));
      fprintf(fc, "\n"); fprintf(fi, "wscaled\n");
      stats["weight_scaled_pairs"]++;
    } else stats["weight_scaled_reference_threw"]++;
    // large-valued tables: the monotonic fit of 2^-k * data must be 2^-k times the monotonic fit of data; k brings the data to [1, 2)
    double zmax = 0; for (double v : p.z) zmax = std::max(zmax, std::fabs(v));
    if (zmax >= 512 && std::isfinite(zmax)) {
      int k = std::ilogb(zmax);
      Problem q2 = p; for (double& v : q2.z) v = std::ldexp(v, -k);
      Table b2; std::string e4;
      if (do_fit(q2, q2.monodim, b2, e4)) {
        uint64_t nc = t.strides[0] * t.naxes[0];
        fprintf(fc, "G %llu %d", (unsigned long long)nc, k);
        for (uint64_t j = 0; j < nc; j++) fprintf(fc, " %u %u", bits(t.coefficients[j]), bits(b2.coefficients[j]));
        fprintf(fc, "\n"); fprintf(fi, "dscaled\n");
        stats["large_value_scaled_pairs"]++;
      }
    }
  }
  bool zero_smoothing = true; for (double v : p.smooth) if (v != 0) zero_smoothing = false;
  // inactive case; for the weight-scale family in >= 2 dimensions only with zero smoothing (with smoothing the penalty of the other
  // dimensions is built in the wrong coordinates: known finding inactive:differs:nd, which would hide anything else)
  if (p.shape == 5 || p.shape == 10 || (p.shape == 17 && (p.ndim == 1 || zero_smoothing))) {
    Table u; std::string e2;
    if (do_fit(p, Table::no_monodim, u, e2)) {
      uint64_t nc = t.strides[0] * t.naxes[0];
      fprintf(fc, "U %llu", (unsigned long long)nc);
      for (uint64_t j = 0; j < nc; j++) fprintf(fc, " %u %u", bits(t.coefficients[j]), bits(u.coefficients[j]));
      fprintf(fc, "\n"); fprintf(fi, "unc\n");
      stats["inactive_pairs"]++;
    }
  }
}

int main(int argc, char** argv) {
  std::map<std::string, long> stats;
  if (argc >= 5 && std::string(argv[1]) == "knotscale") return ks_main(argc, argv);
  if (argc >= 4 && std::string(argv[1]) == "ksreplay") return ks_main(argc, argv);
  if (argc >= 5 && std::string(argv[1]) == "replay") {
    std::ifstream in(argv[2]); std::string line; fc = fopen(argv[3], "w"); fi = fopen(argv[4], "w");
    Rng r(env_seed());
    while (std::getline(in, line)) { Problem p; if (parse_problem(line, p)) run_problem(p, r, stats); }
    fclose(fc); fclose(fi); return 0;
  }
  if (argc < 5) { fprintf(stderr, "usage\n"); return 2; }
  long nfits = atol(argv[1]);
  fc = fopen(argv[2], "w"); fi = fopen(argv[3], "w");
  Rng r(env_seed() * 0x2545F4914F6CDD1DULL + 10);
  for (long it = 0; it < nfits; it++) { Problem p = gen(r, it, stats); run_problem(p, r, stats); fflush(fc); fflush(fi); }
  // second stream (own generator state, so that the first stream is unchanged): small-magnitude tables and gentle drifts
  long nsmall = argc >= 6 ? atol(argv[5]) : 0;
  Rng r2(env_seed() * 0x2545F4914F6CDD1DULL + 1010);
  for (long it = 0; it < nsmall; it++) { Problem p = gen(r2, it, stats, 1); run_problem(p, r2, stats); fflush(fc); fflush(fi); }
  // third stream (own generator state again): weight-scale classes
  long nws = argc >= 7 ? atol(argv[6]) : 0;
  Rng r3(env_seed() * 0x2545F4914F6CDD1DULL + 2010);
  for (long it = 0; it < nws; it++) { Problem p = gen_ws(r3, it, stats); run_problem(p, r3, stats); fflush(fc); fflush(fi); }
  fclose(fc); fclose(fi);
  std::ofstream fs(argv[4]);
  fs << "{"; bool first = true; for (auto& kv : stats) { fs << (first ? "" : ", ") << "\"" << kv.first << "\": " << kv.second; first = false; } fs << "}\n";
  return 0;
}
