// Shared by the C06 / C07 harnesses: table generator, canonical dump, hex, error-site canonicalisation.
#ifndef PSV_FITS_COMMON_H
#define PSV_FITS_COMMON_H
#include "common.h"
#include <fstream>
#include <set>
#include <unistd.h>

namespace psv {

inline std::string hex(const unsigned char* b, size_t n) {
  static const char* d = "0123456789abcdef";
  std::string s(2 * n, '0');
  for (size_t i = 0; i < n; i++) { s[2 * i] = d[b[i] >> 4]; s[2 * i + 1] = d[b[i] & 15]; }
  return s;
}
inline std::vector<unsigned char> unhex(const std::string& s) {
  std::vector<unsigned char> r(s.size() / 2);
  auto v = [](char c) { return c <= '9' ? c - '0' : c - 'a' + 10; };
  for (size_t i = 0; i < r.size(); i++) r[i] = (unsigned char)(v(s[2 * i]) * 16 + v(s[2 * i + 1]));
  return r;
}
inline std::string strtok_(const std::string& s) { return "h" + hex((const unsigned char*)s.data(), s.size()); }

struct Spec {
  std::vector<uint32_t> order;
  std::vector<std::vector<uint64_t>> knots;  // bit patterns
  std::vector<uint64_t> naxes, strides;
  std::vector<uint32_t> coef;                // bit patterns
  bool has_ext = true, has_per = true;
  std::vector<uint64_t> ext, per;
  std::vector<std::pair<std::string, std::string>> aux;
};

inline std::string dump(const Spec& s) {
  std::ostringstream o;
  size_t nd = s.order.size();
  o << nd;
  for (auto v : s.order) o << ' ' << v;
  for (auto v : s.naxes) o << ' ' << v;
  for (auto v : s.strides) o << ' ' << v;
  for (auto& k : s.knots) { o << ' ' << k.size(); for (auto v : k) o << ' ' << v; }
  o << ' ' << s.coef.size();
  for (auto v : s.coef) o << ' ' << v;
  o << ' ' << (s.has_ext ? 1 : 0);
  if (s.has_ext) for (auto v : s.ext) o << ' ' << v;
  o << ' ' << (s.has_per ? 1 : 0);
  if (s.has_per) for (auto v : s.per) o << ' ' << v;
  o << ' ' << s.aux.size();
  for (auto& kv : s.aux) o << ' ' << strtok_(kv.first) << ' ' << strtok_(kv.second);
  return o.str();
}

// the object as it is (exact bit patterns)
inline Spec spec_of(const Table& t) {
  Spec s;
  uint32_t nd = t.ndim;
  for (uint32_t i = 0; i < nd; i++) {
    s.order.push_back(t.order[i]); s.naxes.push_back(t.naxes[i]); s.strides.push_back(t.strides[i]);
    std::vector<uint64_t> k(t.nknots[i]);
    for (uint64_t j = 0; j < t.nknots[i]; j++) k[j] = bits(t.knots[i][j]);
    s.knots.push_back(k);
  }
  uint64_t nc = nd ? t.strides[0] * t.naxes[0] : 0;
  s.coef.resize(nc);
  for (uint64_t j = 0; j < nc; j++) s.coef[j] = bits(t.coefficients[j]);
  s.has_ext = t.extents != nullptr;
  if (s.has_ext) for (uint32_t i = 0; i < 2 * nd; i++) s.ext.push_back(bits(t.extents[0][i]));
  s.has_per = t.periods != nullptr;
  if (s.has_per) for (uint32_t i = 0; i < nd; i++) s.per.push_back(bits(t.periods[i]));
  for (uint32_t i = 0; i < t.naux; i++) s.aux.push_back({std::string(t.aux[i][0]), std::string(t.aux[i][1])});
  return s;
}

// build the object from bit patterns through the visible members (allocator idiom of the library)
inline void build_from_spec(Table& t, const Spec& s) {
  uint32_t nd = s.order.size();
  t.ndim = nd;
  t.order = t.allocate<uint32_t>(nd); t.nknots = t.allocate<uint64_t>(nd); t.naxes = t.allocate<uint64_t>(nd);
  t.strides = t.allocate<uint64_t>(nd); t.knots = t.allocate<double*>(nd);
  t.naux = 0; t.aux = nullptr;
  for (uint32_t i = 0; i < nd; i++) {
    t.order[i] = s.order[i]; t.nknots[i] = s.knots[i].size(); t.naxes[i] = s.naxes[i]; t.strides[i] = s.strides[i];
    size_t tot = s.knots[i].size() + 2 * s.order[i];
    double* raw = t.allocate<double>(tot);
    for (size_t j = 0; j < tot; j++) raw[j] = std::numeric_limits<double>::quiet_NaN();
    t.knots[i] = raw + s.order[i];
    memcpy(t.knots[i], s.knots[i].data(), 8 * s.knots[i].size());
  }
  t.coefficients = t.allocate<float>(s.coef.size());
  memcpy(t.coefficients, s.coef.data(), 4 * s.coef.size());
  if (s.has_ext) {
    t.extents = t.allocate<double*>(nd); t.extents[0] = t.allocate<double>(2 * nd);
    for (uint32_t i = 0; i < nd; i++) t.extents[i] = &t.extents[0][2 * i];
    memcpy(t.extents[0], s.ext.data(), 16 * nd);
  } else t.extents = nullptr;
  if (s.has_per) { t.periods = t.allocate<double>(nd); memcpy(t.periods, s.per.data(), 8 * nd); }
  else t.periods = nullptr;
  for (auto& kv : s.aux) t.write_key(kv.first.c_str(), kv.second);   // the library's own API (validates the key)
}

// ---- generators -------------------------------------------------------------------------------------------
inline uint32_t special_float(Rng& r) {
  static const uint32_t sp[] = {0x00000000u, 0x80000000u, 0x00000001u, 0x807fffffu, 0x00800000u, 0x7f7fffffu, 0xff7fffffu,
                                0x7f800000u, 0xff800000u, 0x7fc00000u, 0xffc00000u, 0x7fa00001u, 0xff800001u, 0x7fffffffu, 0x3f800000u};
  return sp[r.below(sizeof(sp) / sizeof(sp[0]))];
}
inline std::vector<uint64_t> gen_knot_bits(Rng& r, int order, int naxes) {
  int nk = naxes + order + 1;
  int style = r.below(6);
  std::vector<double> k;
  if (style <= 3) k = gen_knots(r, order, nk - 2 * order - 2, style);
  else if (style == 4) {   // extreme magnitudes, sorted
    std::vector<double> pool = {-1.7e308, -1e300, -1e10, -1.0, -1e-300, -4.9e-324, -0.0, 0.0, 4.9e-324, 2.2e-308, 1e-10, 1.0, 3.0, 1e10, 1e300, 1.7e308};
    k.resize(nk);
    for (int i = 0; i < nk; i++) k[i] = pool[r.below(pool.size())];
    std::sort(k.begin(), k.end());
  } else {                 // random sorted doubles from bit patterns
    k.resize(nk);
    for (int i = 0; i < nk; i++) { double d; do { d = from_bits(r.next()); } while (!(d == d) || std::isinf(d)); k[i] = d; }
    std::sort(k.begin(), k.end());
  }
  std::vector<uint64_t> b(nk);
  for (int i = 0; i < nk; i++) b[i] = bits(k[i]);
  return b;
}
inline bool reserved_or_semantic(const std::string& k) {
  static const char* sem[] = {"END", "HISTORY", "CONTINUE", "EXTNAME", "HDUNAME", "EXTVER", "BSCALE", "BZERO", "BLANK", "BUNIT", "PCOUNT", "GCOUNT",
                              "XTENSION", "HIERARCH", "CHECKSUM", "DATASUM", "DATAMIN", "DATAMAX", "EXTLEVEL", "INHERIT", "LONGSTRN", "ZIMAGE", nullptr};
  if (photospline::reservedFitsKeyword(k.c_str())) return true;
  for (int i = 0; sem[i]; i++) if (k == sem[i]) return true;
  return false;
}
inline std::string gen_key(Rng& r) {
  static const char* al = "ABCDEFGHIJKLMNOPQRSTUVWXYZ0123456789";
  for (;;) {
    int n = r.range(1, 8);
    std::string k;
    for (int i = 0; i < n; i++) k += al[r.below(36)];
    if (!reserved_or_semantic(k)) return k;
  }
}
inline std::string gen_value(Rng& r) {
  int style = r.below(8);
  int n = style == 0 ? 0 : style == 1 ? 68 : style == 2 ? r.range(60, 68) : style == 3 ? r.range(7, 9) : r.range(1, 30);
  std::string v;
  for (int i = 0; i < n; i++) {
    char c;
    do { c = r.coin(1, 5) ? ' ' : (char)r.range(32, 126); } while (c == '\'');
    v += c;
  }
  if (style == 4) v = std::to_string((long long)r.next() % 1000000);
  if (style == 5) v = "/ = " + v;
  return v;
}

// ---- auxiliary values with apostrophes (C06: 'auxiliary keys preserved') ---------------------------------
// A FITS string card stores an apostrophe as two; write_key accepts a value for a short key when
// length + number of apostrophes <= 68.  Classes (all printable ASCII, all accepted by write_key):
//   0 single inside        1 leading            2 trailing            3 leading and trailing
//   4 adjacent run inside  5 apostrophes only   6 at the card limit (length + apostrophes = 66..68)
//   7 dense random mix     8 around the 8-character padding boundary (doubled length 6..10)
//   9 apostrophe next to blank / slash (comment separator look-alikes)
//  10 apostrophe(s) followed by blanks to the end   11 ends in '&' (long-string continuation marker), with apostrophes
//  12 run at the start     13 run at the end
static const int N_QCLS = 14;
inline const char* qcls_name(int c) {
  static const char* n[] = {"single-inside", "leading", "trailing", "leading+trailing", "adjacent-run-inside", "apostrophes-only",
                            "card-limit", "dense-mix", "pad8-boundary", "next-to-blank-or-slash", "then-trailing-blanks", "ampersand-end",
                            "run-at-start", "run-at-end"};
  return n[c];
}
inline size_t stored_len(const std::string& v) { return v.size() + std::count(v.begin(), v.end(), '\''); }
inline std::string plain_text(Rng& r, int n) {   // printable, no apostrophe, first and last not blank
  std::string v;
  for (int i = 0; i < n; i++) {
    char c;
    do { c = r.coin(1, 6) ? ' ' : (char)r.range(33, 126); } while (c == '\'' || (c == ' ' && (i == 0 || i == n - 1)));
    v += c;
  }
  return v;
}
inline std::string gen_value_q(Rng& r, int cls) {
  std::string q(1, '\''), v;
  auto run = [&](int lo, int hi) { return std::string(r.range(lo, hi), '\''); };
  switch (cls) {
    case 0: v = plain_text(r, r.range(1, 12)) + q + plain_text(r, r.range(1, 12)); break;
    case 1: v = q + plain_text(r, r.range(1, 20)); break;
    case 2: v = plain_text(r, r.range(1, 20)) + q; break;
    case 3: v = q + plain_text(r, r.range(0, 20)) + q; break;
    case 4: v = plain_text(r, r.range(1, 10)) + run(2, 6) + plain_text(r, r.range(1, 10)); if (r.coin(1, 3)) v += run(2, 3) + plain_text(r, r.range(1, 5)); break;
    case 5: v = run(1, 34); if (r.coin(1, 4)) v = std::string(r.coin() ? 34 : r.range(1, 4), '\''); break;
    case 6: {   // exactly at / just below the limit; the last stored column is a plain character, one half or the other of a pair
      int target = r.range(66, 68);
      int nq = r.coin(1, 5) ? target / 2 : r.range(1, 12);
      int np = target - 2 * nq;
      std::string chars = std::string(nq, '\'') + plain_text(r, np);
      int style = r.below(4);
      if (style == 0) { for (int i = (int)chars.size() - 1; i > 0; i--) std::swap(chars[i], chars[r.below(i + 1)]); }   // anywhere
      else if (style == 1) chars = plain_text(r, np) + std::string(nq, '\'');                                             // run ends at the limit
      else if (style == 2) { std::string p = plain_text(r, np); size_t k = p.size() ? r.below(p.size()) : 0; chars = p.substr(0, k) + std::string(nq, '\'') + p.substr(k); }
      v = chars; break; }
    case 7: { int n = r.range(1, 30); for (int i = 0; i < n; i++) v += r.coin(1, 3) ? '\'' : r.coin(1, 5) ? ' ' : (char)r.range(33, 126); break; }
    case 8: {   // doubled length 6..10: below, at and above the padding to 8
      int target = r.range(6, 10); int nq = r.range(1, target / 2); int np = target - 2 * nq;
      std::string chars = std::string(nq, '\'') + std::string(np, 'a');
      for (int i = 0; i < np; i++) chars[nq + i] = r.coin(1, 6) ? ' ' : (char)r.range(65, 90);
      for (int i = (int)chars.size() - 1; i > 0; i--) std::swap(chars[i], chars[r.below(i + 1)]);
      v = chars; break; }
    case 9: { static const char* f[] = {"a' / b", "' /", "'/ comment", "x'' / y", "/'", " ' ", "' '", "'' ''", "= 'v' / c", "' / '", "''/''", "a '' b", "' ''"};
      v = f[r.below(sizeof(f) / sizeof(f[0]))]; if (r.coin(1, 3)) v = plain_text(r, r.range(1, 8)) + v; break; }
    case 10: v = (r.coin() ? plain_text(r, r.range(0, 10)) : std::string()) + run(1, 3) + std::string(r.range(1, 12), ' '); break;
    case 11: v = (r.coin() ? q : std::string()) + plain_text(r, r.range(0, 10)) + (r.coin() ? run(1, 2) : std::string()) + "&"; break;
    case 12: v = run(2, 6) + plain_text(r, r.range(1, 12)); break;
    default: v = plain_text(r, r.range(1, 12)) + run(2, 6); break;
  }
  while (stored_len(v) > 68) v.erase(v.size() / 2, 1);   // cannot happen for the classes above; keeps write_key's precondition in any case
  return v;
}

struct GenOpts { int max_dim = 9; uint64_t max_coef = 4000; int max_aux = 40; bool aux_quotes = false; };

inline Spec gen_spec(Rng& r, const GenOpts& g, int force_dim = 0, int force_qcls = -1) {
  Spec s;
  int distinct = 5, tries = 0;
  for (;;) {
    int nd = force_dim ? force_dim : r.range(1, g.max_dim);
    std::vector<int> len;
    // pairwise different lengths as far as the size budget allows, the rest 1 or 2; never a palindrome
    std::vector<int> pool = {2, 3, 4, 5, 6, 7, 8, 9, 10, 11, 12};
    for (int i = 0; i < nd; i++) {
      if (i < distinct && !pool.empty()) { size_t j = r.below(nd <= 3 ? pool.size() : std::min<size_t>(pool.size(), 6)); len.push_back(pool[j]); pool.erase(pool.begin() + j); }
      else len.push_back(r.range(1, 2));
    }
    for (int i = nd - 1; i > 0; i--) std::swap(len[i], len[r.below(i + 1)]);
    uint64_t nc = 1; for (int v : len) nc *= v;
    if (nc > g.max_coef) { if (++tries % 20 == 0 && distinct > 1) distinct--; continue; }   // size budget: fewer pairwise-different axes
    bool pal = nd > 1; for (int i = 0; i < nd; i++) if (len[i] != len[nd - 1 - i]) pal = false;
    if (pal) continue;
    s.order.clear(); s.knots.clear(); s.naxes.clear();
    for (int i = 0; i < nd; i++) {
      int o = r.range(0, std::min(5, len[i] - 1));
      s.order.push_back(o); s.naxes.push_back(len[i]);
      s.knots.push_back(gen_knot_bits(r, o, len[i]));
    }
    s.strides.assign(nd, 1);
    for (int i = nd - 1; i > 0; i--) s.strides[i - 1] = s.strides[i] * s.naxes[i];
    s.coef.resize(nc);
    int cstyle = r.below(4);
    for (auto& c : s.coef) c = cstyle == 0 ? bits((float)(r.unit() * 2 - 1)) : cstyle == 1 ? (uint32_t)r.next() : r.coin(1, 3) ? special_float(r) : bits((float)std::ldexp(r.unit(), r.range(-140, 127)));
    break;
  }
  size_t nd = s.order.size();
  s.has_ext = !r.coin(1, 8);
  if (s.has_ext) {
    bool dflt = r.coin(1, 3);
    for (size_t i = 0; i < nd; i++) {
      if (dflt) { s.ext.push_back(s.knots[i][s.order[i]]); s.ext.push_back(s.knots[i][s.naxes[i]]); }
      else { s.ext.push_back(r.coin(1, 4) ? r.next() : bits(r.unit() * 100 - 50)); s.ext.push_back(r.coin(1, 4) ? r.next() : bits(r.unit() * 100 + 50)); }
    }
  }
  s.has_per = !r.coin(1, 8);
  if (s.has_per) for (size_t i = 0; i < nd; i++) s.per.push_back(bits(r.coin(2, 3) ? 0.0 : 0.25 * r.below(4000)));
  int na = r.coin(1, 4) ? 0 : r.coin(1, 6) ? g.max_aux : r.range(1, 12);
  std::set<std::string> seen;
  for (int i = 0; i < na; i++) { std::string k = gen_key(r); if (seen.insert(k).second) s.aux.push_back({k, gen_value(r)}); }
  if (g.aux_quotes) {   // only drawn when asked for, so that the stream of the other users of this generator is unchanged
    for (auto& kv : s.aux) if (r.coin(2, 5)) kv.second = gen_value_q(r, r.below(N_QCLS));
    if (r.coin(1, 3)) {      // a key next to the reserved / FITS-semantic names: strict prefix, one character more, name not at the start
      static const char* near[] = {"TYP", "ORDE", "NAXI", "PERIO", "EXTEN", "COMMEN", "SIMPL", "BITPI", "XTYPE", "MYORDER", "ANAXIS1", "APERIOD0", "XEXTEND",
                                   "XSIMPLE", "XBITPIX", "ACOMMENT", "EXTNAM", "HDUNAM", "EN", "ENDX", "HISTOR", "CONTINU", "HIERARC", "BLANKS", "XTENSIO", "T", "E",
                                   "0ORDER", "ORDE0", "NAXI1", "PCOUN", "GCOUN", "BSCAL", "BZER"};
      std::string k = near[r.below(sizeof(near) / sizeof(near[0]))];
      if (!reserved_or_semantic(k) && seen.insert(k).second)
        s.aux.insert(s.aux.begin() + r.below(s.aux.size() + 1), {k, r.coin() ? gen_value(r) : gen_value_q(r, r.below(N_QCLS))});
    }
    if (force_qcls >= 0) {   // one value of a given class at a random position among the keys
      std::string k = "QV" + std::to_string(force_qcls);
      if (seen.insert(k).second) s.aux.insert(s.aux.begin() + r.below(s.aux.size() + 1), {k, gen_value_q(r, force_qcls)});
    }
  }
  return s;
}

// ---- real reader wrapper ----------------------------------------------------------------------------------
inline std::string site_of(const std::string& m) {
  auto num = [&](const char* pre) { size_t p = m.find(pre); return m.substr(p + strlen(pre)); };
  if (m.find("Unable to move to first HDU") == 0) return "noHdu";
  if (m.find("is not an image") != std::string::npos) return "notImage";
  if (m.find("Unable to read table dimension") == 0) return "dimStatus";
  if (m.find("Invalid table dimension") == 0) return "badDim";
  if (m.find("Unable to read order for dimension ") == 0) return "order:" + num("dimension ");
  if (m.find("Unable to read coefficient array") == 0) return "imgSize";
  if (m.find("Invalid size in dimension") == 0) return "negSize";
  if (m.find("Error reading table coefficients") == 0) return "readPix";
  if (m.find("Error reading size of knot vector ") == 0) return "knotSize:" + num("vector ");
  if (m.find("Invalid number of knots") == 0) return "knotCount:" + num("dimension ");
  if (m.find("Error reading knot vector ") == 0) { std::string r = num("vector "); return "knotData:" + r.substr(0, r.find(' ')); }
  if (m.find("Error reading extent data") == 0) return "extData";
  if (m.find("Invalid spline table") == 0) return "invalid:" + m.substr(m.rfind(' ') + 1) + (m.find("inconsistent numbers") != std::string::npos ? ":1" : ":2");
  if (m.find("CFITSIO failed to open") == 0) return "open";
  if (m.find("splinetable already contains data") == 0) return "notEmpty";
  std::string o = "other(" + m + ")"; for (auto& c : o) if (c == ' ' || c == '\n') c = '_'; return o;
}

inline bool object_empty(const Table& t) {
  return t.ndim == 0 && !t.order && !t.knots && !t.nknots && !t.extents && !t.periods && !t.coefficients && !t.naxes && !t.strides && t.naux == 0 && !t.aux;
}

} // namespace psv
#endif
