/* Correspondence harness for the index arithmetic of flatten_ndarray_to_sparse (glam.c), property C09.
 * The function is `static`, so this translation unit #includes the real src/fitter/glam.c of the tree under test
 * (compiled with -I<repo>; glam.c itself is then NOT linked a second time) and calls the REAL function on synthetic
 * struct ndsparse inputs: few entries, large ranges, products of the ranges below and above 2^32 (always < 2^63),
 * in the two shapes glam.c uses: F (axes n1..nd,n1..nd, nrow = ncol = sidelen) and R (axes n1..nd, ncol = 1).
 *
 * usage: c09_flatten <nrandom> <cases> <impl> <stats>
 * <cases> (read by `psvdriver C09`):  L ndim ranges* ncol nentries (idx*)*
 * <impl>:  T nrow ncol nnz (row col valuebits)*      the cholmod_sparse returned, read back column by column
 *          | null <cholmod status>                   the routine returned NULL
 * Entry e carries the value 2^(e mod 48): sums of repeated cells are exact and tell which entries were merged.
 * Randomness: splitmix64 seeded from VERIF_SEED (the same generator as psv::Rng of common.h, restated in C). */
#include "src/fitter/glam.c"
#include <stdlib.h>
#include <stdint.h>

static uint64_t rs;
static uint64_t rnext(void) { uint64_t z = (rs += 0x9e3779b97f4a7c15ULL); z = (z ^ (z >> 30)) * 0xbf58476d1ce4e5b9ULL; z = (z ^ (z >> 27)) * 0x94d049bb133111ebULL; return z ^ (z >> 31); }
static uint64_t below(uint64_t n) { return n ? rnext() % n : 0; }
static int rrange(int lo, int hi) { return lo + (int)below((uint64_t)(hi - lo + 1)); }

static FILE *fcases, *fimpl;
static long st_cases, st_above32, st_at32, st_below32, st_F, st_R, st_entries, st_dups, st_null, st_entries_above32;
static long st_dims[13];

#define MAXE 48
static void run_case(int nd, const unsigned *ns, int shapeF, cholmod_common *c)
{
	/* ranges as glam.c builds them */
	int ndim = shapeF ? 2 * nd : nd, j, e;
	unsigned ranges[12];
	unsigned __int128 prod = 1;
	uint64_t sidelen = 1;
	for (j = 0; j < nd; j++) sidelen *= ns[j];
	for (j = 0; j < ndim; j++) { ranges[j] = ns[j % nd]; prod *= ranges[j]; }
	size_t nrow = sidelen, ncol = shapeF ? sidelen : 1;
	int ne = rrange(6, 40);
	struct ndsparse a;
	a.rows = ne; a.ndim = ndim;
	a.x = malloc(ne * sizeof(double));
	a.i = malloc(ndim * sizeof(unsigned int *));
	a.ranges = malloc(ndim * sizeof(unsigned));
	for (j = 0; j < ndim; j++) { a.i[j] = malloc(ne * sizeof(unsigned)); a.ranges[j] = ranges[j]; }
	int ndup = 0;
	for (e = 0; e < ne; e++) {
		a.x[e] = ldexp(1.0, e % MAXE);
		if (e >= 4 && below(10) == 0) {   /* a repeated cell: triplet_to_sparse must add it up */
			int src = (int)below(e);
			for (j = 0; j < ndim; j++) a.i[j][e] = a.i[j][src];
			ndup++;
			continue;
		}
		for (j = 0; j < ndim; j++) {
			unsigned n = ranges[j], v;
			int style = (int)below(10);
			/* the leading axes decide whether the flattened position passes 2^32: bias them to the top */
			if (j == 0 && e % 2 == 0) style = (int)below(3);
			switch (style) {
			case 0: v = n - 1; break;
			case 1: v = n >= 2 ? n - 2 : 0; break;
			case 2: v = n - 1 - (unsigned)below(n < 8 ? n : 8); break;
			case 3: v = 0; break;
			case 4: v = n >= 2 ? 1 : 0; break;
			default: v = (unsigned)below(n); break;
			}
			a.i[j][e] = v;
		}
	}
	fprintf(fcases, "L %d", ndim);
	for (j = 0; j < ndim; j++) fprintf(fcases, " %u", ranges[j]);
	fprintf(fcases, " %zu %d", ncol, ne);
	for (e = 0; e < ne; e++) for (j = 0; j < ndim; j++) fprintf(fcases, " %u", a.i[j][e]);
	fprintf(fcases, "\n"); fflush(fcases);
	/* statistics: where the true flattened positions lie */
	for (e = 0; e < ne; e++) {
		unsigned __int128 k = 0;
		for (j = 0; j < ndim; j++) k = k * ranges[j] + a.i[j][e];
		if (k >= ((unsigned __int128)1 << 32)) st_entries_above32++;
	}
	st_cases++; st_entries += ne; st_dups += ndup; st_dims[ndim]++;
	if (shapeF) st_F++; else st_R++;
	if (prod > ((unsigned __int128)1 << 32)) st_above32++; else if (prod == ((unsigned __int128)1 << 32)) st_at32++; else st_below32++;

	cholmod_sparse *m = flatten_ndarray_to_sparse(&a, nrow, ncol, c);   /* the real routine */
	if (m == NULL) {
		fprintf(fimpl, "null %d\n", (int)c->status); st_null++;
		c->status = CHOLMOD_OK;
	} else {
		long *p = (long *)m->p, *ri = (long *)m->i, col, q;
		long *nz = (long *)m->nz;
		double *x = (double *)m->x;
		long nnz = 0;
		for (col = 0; col < (long)m->ncol; col++) nnz += m->packed ? p[col + 1] - p[col] : nz[col];
		fprintf(fimpl, "T %zu %zu %ld", m->nrow, m->ncol, nnz);
		for (col = 0; col < (long)m->ncol; col++) {
			long end = m->packed ? p[col + 1] : p[col] + nz[col];
			for (q = p[col]; q < end; q++) {
				uint64_t u; memcpy(&u, &x[q], 8);
				fprintf(fimpl, " %ld %ld %llu", ri[q], col, (unsigned long long)u);
			}
		}
		fprintf(fimpl, "\n");
		cholmod_l_free_sparse(&m, c);
	}
	fflush(fimpl);
	for (j = 0; j < ndim; j++) free(a.i[j]);
	free(a.x); free(a.i); free(a.ranges);
}

int main(int argc, char **argv)
{
	if (argc < 5) { fprintf(stderr, "usage: c09_flatten nrandom cases impl stats\n"); return 2; }
	long nrandom = atol(argv[1]), q;
	const char *sd = getenv("VERIF_SEED");
	rs = (sd ? strtoull(sd, NULL, 10) : 1) * 0x9e3779b97f4a7c15ULL + 90909;
	fcases = fopen(argv[2], "w"); fimpl = fopen(argv[3], "w");
	cholmod_common c;
	cholmod_l_start(&c);
	c.print = 0;
	/* fixed shapes: coefficient grids as glam.c sees them, around and beyond 65536 coefficients (2^32 cells) */
	static const unsigned fixed[][7] = {
		{2, 257, 257}, {1, 70000}, {2, 300, 300}, {2, 256, 256}, {2, 255, 257}, {2, 270, 260}, {1, 65536}, {1, 65537},
		{1, 65535}, {3, 41, 41, 41}, {3, 40, 41, 40}, {4, 17, 17, 17, 17}, {4, 16, 16, 16, 16}, {5, 10, 10, 10, 10, 10},
		{6, 7, 7, 7, 7, 7, 7}, {6, 6, 7, 6, 7, 6, 7}, {2, 1000, 1000}, {1, 2000000}, {3, 70, 50, 40}, {2, 66, 66}, {1, 7},
		{2, 3, 100000}, {2, 100000, 3}, {4, 2, 50000, 1, 3}, {5, 1, 1, 300, 1, 300}, {6, 2, 3, 4, 5, 6, 1000},
	};
	size_t f;
	for (f = 0; f < sizeof(fixed) / sizeof(fixed[0]); f++) {
		run_case((int)fixed[f][0], &fixed[f][1], 1, &c);
		run_case((int)fixed[f][0], &fixed[f][1], 0, &c);
	}
	for (q = 0; q < nrandom; q++) {
		int nd = rrange(1, 6), j;
		unsigned ns[6];
		/* log-uniform target for the number of coefficients: 2 .. 2.5e6 */
		double target = exp(log(2.0) + (double)(rnext() >> 11) * (1.0 / 9007199254740992.0) * log(1.25e6));
		double per = pow(target, 1.0 / nd);
		uint64_t side = 1;
		for (j = 0; j < nd; j++) {
			double v = per * (0.5 + (double)below(1000) / 1000.0 * 1.2);
			ns[j] = v < 1 ? 1 : (unsigned)v;
			if (below(12) == 0) ns[j] = 1;
			side *= ns[j];
		}
		if (side > 3000000ULL || side < 1) { q--; continue; }
		run_case(nd, ns, (int)below(4) != 0, &c);
	}
	fclose(fcases); fclose(fimpl);
	cholmod_l_finish(&c);
	FILE *fs = fopen(argv[4], "w");
	fprintf(fs, "{\"flatten_cases\": %ld, \"ranges_product_above_2^32\": %ld, \"ranges_product_equal_2^32\": %ld, \"ranges_product_below_2^32\": %ld, "
	        "\"shape_F_square\": %ld, \"shape_R_column\": %ld, \"entries\": %ld, \"entries_with_true_position_at_or_above_2^32\": %ld, "
	        "\"repeated_cells\": %ld, \"returned_null\": %ld, \"axes\": {",
	        st_cases, st_above32, st_at32, st_below32, st_F, st_R, st_entries, st_entries_above32, st_dups, st_null);
	int first = 1, j;
	for (j = 1; j <= 12; j++) if (st_dims[j]) { fprintf(fs, "%s\"%d\": %ld", first ? "" : ", ", j, st_dims[j]); first = 0; }
	fprintf(fs, "}}\n");
	fclose(fs);
	return 0;
}
