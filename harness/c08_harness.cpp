// Correspondence harness for C08 (interrupted or failing writes).
//
// Two interposition layers, both defined in this executable and forwarded with dlsym(RTLD_NEXT):
//   * libc I/O that libcfitsio's disk driver imports (fopen64 fwrite fflush fclose ftruncate64 remove, realloc for
//     the memory driver): records the op log of a write (offset, size, bytes) and injects single failures;
//   * the cfitsio entry points write_fits / write_fits_mem / write_fits_core call (ffinit ffimem ffcrim ffppx ffpky
//     ffuky ffclos ffdelt ffflus) and libc remove(): records the step trace with the status every step returned
//     (this is the `env` of the Lean control-flow model) and injects step failures directly.
//
// Output: <cases> (line protocol for `psvdriver C08`), <impl> (one implementation line per case line), <stats> JSON.
// usage: c08_harness <tier> <scratchdir> <cases> <impl> <stats>
#include "common.h"
#include <dlfcn.h>
#include <cerrno>
#include <fcntl.h>
#include <unistd.h>
#include <sys/stat.h>
#include <sys/wait.h>
using namespace psv;

// ------------------------------------------------------------------------------------------------ libc layer
struct Op { char kind; long off; long len; std::vector<unsigned char> data; const char* step; int stepno; };
static const char* g_cur = "-";   // the top-level cfitsio call (step) in progress
static int g_curno = -1;
static std::vector<Op> g_log;
static bool g_win = false;          // recording window (only cfitsio does I/O inside it)
static bool g_keep = false;         // keep op data
static int g_nops = 0;              // index of the next injectable op (W F C T)
static int g_fail_at = -1;          // op index to fail
static int g_fail_kind = 0;         // see FaultKind
static bool g_sticky = false;       // every later fwrite fails as well (device stays full)
static int g_fired = 0;
static int g_nrealloc = 0, g_fail_realloc = -1;
enum FaultKind { F_ENOSPC = 0, F_EFBIG = 1, F_SHORT = 2, F_FLUSH = 3, F_CLOSE = 4, F_ENOSPC_STICKY = 5, F_NKINDS = 6 };
static const char* kindname[] = {"enospc", "efbig", "short", "fflush", "fclose", "enospc_sticky"};

static void logop(char k, long off, long len, const void* p) {
  Op o; o.kind = k; o.off = off; o.len = len; o.step = g_cur; o.stepno = g_curno;
  if (g_keep && p) o.data.assign((const unsigned char*)p, (const unsigned char*)p + len);
  g_log.push_back(o);
}

extern "C" size_t fwrite(const void* p, size_t s, size_t n, FILE* f) {
  static auto real = (size_t(*)(const void*, size_t, size_t, FILE*))dlsym(RTLD_NEXT, "fwrite");
  if (g_win && f != stdout && f != stderr) {
    int k = g_nops++;
    logop('W', ftello(f), (long)(s * n), p);
    bool hit = (k == g_fail_at) || (g_sticky && g_fail_at >= 0 && k > g_fail_at);
    if (hit && (g_fail_kind == F_ENOSPC || g_fail_kind == F_ENOSPC_STICKY)) { g_fired++; errno = ENOSPC; return 0; }
    if (hit && g_fail_kind == F_EFBIG) { g_fired++; errno = EFBIG; return 0; }
    if (hit && g_fail_kind == F_SHORT) { g_fired++; size_t half = (s * n) / 2; real(p, 1, half, f); errno = ENOSPC; return s ? half / s : 0; }
  }
  return real(p, s, n, f);
}
// reads issued while writing (cfitsio re-reads blocks it no longer buffers, and reads every block it has to move): their own
// index space, so that the write-op log and the crash-state model are unchanged
static int g_nreads = 0, g_fail_read_at = -1;
extern "C" size_t fread(void* p, size_t s, size_t n, FILE* f) {
  static auto real = (size_t(*)(void*, size_t, size_t, FILE*))dlsym(RTLD_NEXT, "fread");
  if (g_win && f != stdin) {
    int k = g_nreads++;
    if (k == g_fail_read_at) { g_fired++; errno = EIO; return 0; }
  }
  return real(p, s, n, f);
}
extern "C" int fflush(FILE* f) {
  static auto real = (int (*)(FILE*))dlsym(RTLD_NEXT, "fflush");
  if (g_win && f && f != stdout && f != stderr) {
    int k = g_nops++;
    logop('F', 0, 0, nullptr);
    if (k == g_fail_at && g_fail_kind == F_FLUSH) { g_fired++; real(f); errno = EIO; return EOF; }
  }
  return real(f);
}
extern "C" int fclose(FILE* f) {
  static auto real = (int (*)(FILE*))dlsym(RTLD_NEXT, "fclose");
  if (g_win) {
    int k = g_nops++;
    logop('C', 0, 0, nullptr);
    if (k == g_fail_at && g_fail_kind == F_CLOSE) { g_fired++; real(f); errno = EIO; return EOF; }
  }
  return real(f);
}
extern "C" int ftruncate64(int fd, off64_t len) {
  static auto real = (int (*)(int, off64_t))dlsym(RTLD_NEXT, "ftruncate64");
  if (g_win) { g_nops++; logop('T', (long)len, 0, nullptr); }
  return real(fd, len);
}
extern "C" FILE* fopen64(const char* path, const char* mode) {
  static auto real = (FILE * (*)(const char*, const char*)) dlsym(RTLD_NEXT, "fopen64");
  FILE* r = real(path, mode);
  if (g_win) logop('O', r != nullptr, mode[0], nullptr);
  return r;
}
extern "C" void* realloc(void* p, size_t n) {
  static auto real = (void* (*)(void*, size_t))dlsym(RTLD_NEXT, "realloc");
  if (g_win) { int k = g_nrealloc++; if (k == g_fail_realloc) { g_fired++; errno = ENOMEM; return nullptr; } }
  return real(p, n);
}

// ------------------------------------------------------------------------------------------------ cfitsio layer
struct StepRec { const char* name; int status; };
static std::vector<StepRec> g_trace;
static int g_depth = 0;
static int g_step_fail = -1;   // index of the cfitsio step to fail directly
static int g_step_fired = 0;
#define TOP (g_win && g_depth == 0)
struct Depth { Depth(const char* n) { g_depth++; g_cur = n; g_curno = (int)g_trace.size(); } ~Depth() { g_depth--; g_cur = "-"; g_curno = -1; } };
static bool inject_here() { return (int)g_trace.size() == g_step_fail; }

extern "C" int remove(const char* path) {
  static auto real = (int (*)(const char*))dlsym(RTLD_NEXT, "remove");
  if (TOP) { Depth d("remove"); int r = real(path); g_trace.push_back({"remove", r}); return r; }
  if (g_win) logop('X', 0, 0, nullptr);
  return real(path);
}
// file-name operations issued by the writer itself (not from inside a cfitsio call): each is a step of the trace — the
// writer as modelled issues none besides remove() on its failure path, so any that appears breaks the control-flow tie —
// and each can be made to fail (nothing done, EACCES), like every other step
static bool is_name_op(const std::string& n) { return n == "rename" || n == "link" || n == "symlink" || n == "unlink" || n == "renameat" || n == "renameat2" || n == "linkat"; }
#define NAME_OP(NAME, PARAMS, ARGS)                                                                            \
  extern "C" int NAME PARAMS {                                                                                 \
    static auto real = (int(*) PARAMS)dlsym(RTLD_NEXT, #NAME);                                                 \
    if (!TOP) { if (g_win) logop('X', 0, 0, nullptr); return real ARGS; }                                      \
    Depth d(#NAME);                                                                                            \
    if (inject_here()) { g_step_fired++; g_trace.push_back({#NAME, -1}); errno = EACCES; return -1; }          \
    int r = real ARGS; g_trace.push_back({#NAME, r}); return r;                                                \
  }
NAME_OP(rename, (const char* a, const char* b), (a, b))
NAME_OP(link, (const char* a, const char* b), (a, b))
NAME_OP(symlink, (const char* a, const char* b), (a, b))
NAME_OP(unlink, (const char* a), (a))
NAME_OP(renameat, (int fa, const char* a, int fb, const char* b), (fa, a, fb, b))
NAME_OP(renameat2, (int fa, const char* a, int fb, const char* b, unsigned int fl), (fa, a, fb, b, fl))
NAME_OP(linkat, (int fa, const char* a, int fb, const char* b, int fl), (fa, a, fb, b, fl))
extern "C" int ffinit(fitsfile** fptr, const char* name, int* status) {
  static auto real = (int (*)(fitsfile**, const char*, int*))dlsym(RTLD_NEXT, "ffinit");
  if (!TOP) return real(fptr, name, status);
  Depth d("init");
  if (inject_here()) { g_step_fired++; *fptr = nullptr; *status = FILE_NOT_CREATED; g_trace.push_back({"init", *status}); return *status; }
  int r = real(fptr, name, status); g_trace.push_back({"init", r}); return r;
}
extern "C" int ffimem(fitsfile** fptr, void** buf, size_t* sz, size_t delta, void* (*re)(void*, size_t), int* status) {
  static auto real = (int (*)(fitsfile**, void**, size_t*, size_t, void* (*)(void*, size_t), int*))dlsym(RTLD_NEXT, "ffimem");
  if (!TOP) return real(fptr, buf, sz, delta, re, status);
  Depth d("imem");
  if (inject_here()) { g_step_fired++; *fptr = nullptr; *status = MEMORY_ALLOCATION; g_trace.push_back({"imem", *status}); return *status; }
  int r = real(fptr, buf, sz, delta, re, status); g_trace.push_back({"imem", r}); return r;
}
extern "C" int ffcrim(fitsfile* f, int bitpix, int naxis, long* naxes, int* status) {
  static auto real = (int (*)(fitsfile*, int, int, long*, int*))dlsym(RTLD_NEXT, "ffcrim");
  if (!TOP) return real(f, bitpix, naxis, naxes, status);
  Depth d("crim");
  if (inject_here()) { g_step_fired++; *status = WRITE_ERROR; g_trace.push_back({"crim", *status}); return *status; }
  int r = real(f, bitpix, naxis, naxes, status); g_trace.push_back({"crim", r}); return r;
}
extern "C" int ffppx(fitsfile* f, int dt, long* fp, LONGLONG n, void* a, int* status) {
  static auto real = (int (*)(fitsfile*, int, long*, LONGLONG, void*, int*))dlsym(RTLD_NEXT, "ffppx");
  if (!TOP) return real(f, dt, fp, n, a, status);
  Depth d("ppx");
  if (inject_here()) { g_step_fired++; *status = WRITE_ERROR; g_trace.push_back({"ppx", *status}); return *status; }
  int r = real(f, dt, fp, n, a, status); g_trace.push_back({"ppx", r}); return r;
}
extern "C" int ffpky(fitsfile* f, int dt, const char* k, void* v, const char* c, int* status) {
  static auto real = (int (*)(fitsfile*, int, const char*, void*, const char*, int*))dlsym(RTLD_NEXT, "ffpky");
  if (!TOP) return real(f, dt, k, v, c, status);
  Depth d("pky");
  if (inject_here()) { g_step_fired++; *status = WRITE_ERROR; g_trace.push_back({"pky", *status}); return *status; }
  int r = real(f, dt, k, v, c, status); g_trace.push_back({"pky", r}); return r;
}
extern "C" int ffuky(fitsfile* f, int dt, const char* k, void* v, const char* c, int* status) {
  static auto real = (int (*)(fitsfile*, int, const char*, void*, const char*, int*))dlsym(RTLD_NEXT, "ffuky");
  if (!TOP) return real(f, dt, k, v, c, status);
  Depth d("uky");
  if (inject_here()) { g_step_fired++; *status = WRITE_ERROR; g_trace.push_back({"uky", *status}); return *status; }
  int r = real(f, dt, k, v, c, status); g_trace.push_back({"uky", r}); return r;
}
extern "C" int ffflus(fitsfile* f, int* status) {
  static auto real = (int (*)(fitsfile*, int*))dlsym(RTLD_NEXT, "ffflus");
  if (!TOP) return real(f, status);
  Depth d("flus");
  if (inject_here()) { g_step_fired++; *status = WRITE_ERROR; g_trace.push_back({"flus", *status}); return *status; }
  int r = real(f, status); g_trace.push_back({"flus", r}); return r;
}
extern "C" int ffclos(fitsfile* f, int* status) {
  static auto real = (int (*)(fitsfile*, int*))dlsym(RTLD_NEXT, "ffclos");
  if (!TOP) return real(f, status);
  Depth d("clos");
  if (inject_here()) {   // the handle is released and the data flushed, but the close reports an error (as a failing fclose does)
    g_step_fired++; int s = 0; real(f, &s); *status = FILE_NOT_CLOSED; g_trace.push_back({"clos", *status}); return *status;
  }
  int r = real(f, status); g_trace.push_back({"clos", r}); return r;
}
extern "C" int ffdelt(fitsfile* f, int* status) {
  static auto real = (int (*)(fitsfile*, int*))dlsym(RTLD_NEXT, "ffdelt");
  if (!TOP) return real(f, status);
  Depth d("delt");
  int r = real(f, status); g_trace.push_back({"delt", r}); return r;
}

// ------------------------------------------------------------------------------------------------ helpers
static FILE *fc, *fi;
static std::map<std::string, long> stats;
static std::string g_dir;

static bool slurp(const std::string& path, std::vector<unsigned char>& d) {
  d.clear();
  int fd = open(path.c_str(), O_RDONLY); if (fd < 0) return false;
  unsigned char b[1 << 16]; ssize_t n;
  while ((n = read(fd, b, sizeof b)) > 0) d.insert(d.end(), b, b + n);
  close(fd); return true;
}
static void spit(const std::string& path, const unsigned char* p, size_t n) {
  int fd = open(path.c_str(), O_WRONLY | O_CREAT | O_TRUNC, 0644);
  size_t done = 0; while (done < n) { ssize_t w = write(fd, p + done, n - done); if (w <= 0) break; done += w; }
  close(fd);
}
static bool exists(const std::string& p) { struct stat st; return stat(p.c_str(), &st) == 0; }
static uint64_t fnv(const unsigned char* p, size_t n) { uint64_t h = 14695981039346656037ULL; for (size_t i = 0; i < n; i++) { h ^= p[i]; h *= 1099511628211ULL; } return h; }

// verdict of a table the real reader produced, against the table being written:
// eq = orders, naxes, knots, coefficients all equal (bitwise); the suffix says whether the extents are equal as well
static std::string compare(const Table& r, const Table& t) {
  bool core = r.ndim == t.ndim;
  for (uint32_t i = 0; core && i < t.ndim; i++) {
    core = r.order[i] == t.order[i] && r.nknots[i] == t.nknots[i] && r.naxes[i] == t.naxes[i];
    if (core) core = !memcmp(r.knots[i], t.knots[i], 8 * t.nknots[i]);
  }
  if (core) core = !memcmp(r.coefficients, t.coefficients, 4 * t.strides[0] * t.naxes[0]);
  if (!core) return "diff";
  // reference extents: the table's own, or (table written without extents) what the reader makes up from the knots
  bool ext = true;
  for (uint32_t i = 0; i < t.ndim; i++) {
    double lo = t.extents ? t.extents[i][0] : t.knots[i][t.order[i]], hi = t.extents ? t.extents[i][1] : t.knots[i][t.nknots[i] - t.order[i] - 1];
    ext = ext && bits(r.extents[i][0]) == bits(lo) && bits(r.extents[i][1]) == bits(hi);
  }
  return ext ? "eq x1" : "eq x0";
}
static std::string read_verdict(const std::string& path, const Table& t) {
  if (!exists(path)) return "absent";
  try { Table r(path); return compare(r, t); } catch (std::exception& e) { return "rej"; }
}
static std::string read_verdict_mem(void* buf, size_t n, const Table& t) {
  // the object is deliberately leaked when the read fails: destroying a table after a failed read is the subject of C07
  Table* r = new Table;
  try { r->read_fits_mem(buf, n); std::string v = compare(*r, t); delete r; return v; } catch (std::exception& e) { return "rej"; }
}

// every-byte sweeps: the real reader sees every state, the (slower) model reader the card and block boundaries and 1/16 of the rest
static int model_here(long n, bool every_byte, Rng& r) {
  if (!every_byte) return 1;
  long c = n % 80, b = n % 2880;
  return (c <= 1 || c == 79 || b <= 3 || b >= 2877 || r.below(16) == 0) ? 1 : 0;
}

struct Gen { std::vector<uint32_t> ord; std::vector<std::vector<double>> kn; std::vector<float> coef; };

// classes: 0 minimal (about one block per HDU), 1 small, 2 medium (<= 20 blocks), 3 large (40..120 blocks), 4 huge (several hundred blocks),
// 5 header overflow: a coefficient array larger than cfitsio's 40 block buffers (n^nd coefficients, n = 36 quick / 47 thorough for nd = 3)
//   which gets 30 aux keys, so that the primary header needs a second block after the image has been written
static bool g_thorough = false;
static void gen_table(Rng& r, Gen& g, int nd, int cls) {
  g.ord.assign(nd, 0);
  for (auto& o : g.ord) o = r.range(0, cls == 0 ? 2 : 4);
  if (cls == 5) {
    int n = g_thorough ? 47 : 36;
    g.kn.clear();
    for (int i = 0; i < nd; i++) g.kn.push_back(gen_knots(r, g.ord[i], n - (int)g.ord[i] - 1, r.range(0, 3)));
    g.coef.resize(ncoef(g.ord, g.kn));
    for (auto& c : g.coef) c = (float)(r.unit() * 2 - 1);
    stats["ndim_" + std::to_string(nd)]++; stats["class_5"]++;
    return;
  }
  uint64_t target;  // coefficient count
  if (cls >= 6 && cls <= 8) cls = 2;    // (size class of the table itself: medium)
  switch (cls) { case 0: target = 1 + r.below(8); break; case 1: target = 50 + r.below(600); break; case 2: target = 800 + r.below(6000); break;
                 case 3: target = 30000 + r.below(50000); break; default: target = 220000 + r.below(150000); break; }
  // per-dimension size ~ target^(1/nd), at least order+1
  std::vector<int> extra(nd, 0);
  double per = std::pow((double)target, 1.0 / nd);
  for (int i = 0; i < nd; i++) { int want = (int)std::floor(per * (0.7 + 0.6 * r.unit())); extra[i] = std::max(0, want - (int)g.ord[i] - 1); }
  if (cls == 4 && r.coin()) { extra[0] += 1200; for (int i = 1; i < nd; i++) extra[i] = extra[i] / 2; } // a knot vector large enough for a direct write
  // keep the file below about 450 blocks (4 bytes per coefficient + 8 per knot)
  auto est = [&]() { double nc = 1, nk = 0; for (int i = 0; i < nd; i++) { nc *= g.ord[i] + 1 + extra[i]; nk += 2 * g.ord[i] + 2 + extra[i]; } return 4 * nc + 8 * nk; };
  while (est() > 1.3e6) { int big = 0; for (int i = 1; i < nd; i++) if (extra[i] > extra[big]) big = i; if (nd > 1 && big == 0 && extra[0] >= 1200) { big = 1; for (int i = 2; i < nd; i++) if (extra[i] > extra[big]) big = i; if (extra[big] == 0) big = 0; } extra[big] = extra[big] * 9 / 10; }
  g.kn.clear();
  for (int i = 0; i < nd; i++) g.kn.push_back(gen_knots(r, g.ord[i], extra[i], r.range(0, 3)));
  uint64_t nc = ncoef(g.ord, g.kn);
  g.coef.resize(nc);
  int cs = r.range(0, 2);
  for (auto& c : g.coef) c = cs == 0 ? (float)(r.unit() * 2 - 1) : cs == 1 ? (float)std::ldexp(r.unit() + 0.5, r.range(-20, 20)) : (r.coin(1, 4) ? 0.0f : (float)(1 + r.unit()));
  stats["ndim_" + std::to_string(nd)]++; stats["class_" + std::to_string(cls)]++;
}

static std::string hex(const unsigned char* p, size_t n) { static const char* d = "0123456789abcdef"; std::string s; for (size_t i = 0; i < n; i++) { s += d[p[i] >> 4]; s += d[p[i] & 15]; } return s; }

struct Run { int ret; std::vector<StepRec> trace; int fired; int step_fired; std::string what; void* membuf; size_t memsize; };
enum Variant { V_CPP = 0, V_C = 1, V_MEM = 2, V_CMEM = 3 };
static const char* varname[] = {"cpp", "c", "mem", "cmem"};

// one write through the chosen entry point inside a recording window
static Run do_write(const Table& t, int variant, const std::string& path) {
  Run R; R.ret = 0; R.membuf = nullptr; R.memsize = 0;
  g_trace.clear(); g_log.clear(); g_nops = 0; g_nreads = 0; g_nrealloc = 0; g_fired = 0; g_step_fired = 0; g_depth = 0;
  struct splinetable ct; ct.data = const_cast<Table*>(&t);
  g_win = true;
  try {
    switch (variant) {
      case V_CPP: t.write_fits(path); break;
      case V_C: R.ret = writesplinefitstable(path.c_str(), &ct); break;
      case V_MEM: { auto p = t.write_fits_mem(); R.membuf = p.first; R.memsize = p.second; break; }
      default: { struct splinetable_buffer b; b.data = nullptr; b.size = 0; R.ret = writesplinefitstable_mem(&b, &ct); R.membuf = b.data; R.memsize = b.size; break; }
    }
  } catch (std::exception& e) { R.ret = 1; R.what = e.what(); }
  g_win = false;
  R.trace = g_trace; R.fired = g_fired; R.step_fired = g_step_fired;
  if (R.ret != 0) R.ret = 1;
  return R;
}

static std::string shape_tokens(const Table& t, int variant) {
  std::ostringstream s;
  s << varname[variant] << " " << t.ndim << " " << (t.periods ? 1 : 0) << " " << t.naux << " " << (t.extents ? 1 : 0);
  return s.str();
}
// E line: the env observed (status of each step, in order) goes to the model; the implementation line carries
// outcome and executed step names; the model must reproduce both from the env.
static void emit_E(const Table& t, int variant, const Run& R, const std::string& file_verdict, const std::string& tag, int fcall = -1) {
  fprintf(fc, "E %s |", shape_tokens(t, variant).c_str());
  for (auto& s : R.trace) fprintf(fc, " %d", s.status != 0 ? 1 : 0);
  fprintf(fc, "\n");
  std::string names; for (auto& s : R.trace) { if (!names.empty()) names += ","; names += s.name; }
  // fcall: index of the cfitsio call inside which the failing libc operation was issued (libc faults only)
  fprintf(fi, "ret=%d steps=%s file=%s tag=%s fired=%d fcall=%d\n", R.ret, names.c_str(), file_verdict.c_str(), tag.c_str(), R.fired + R.step_fired, fcall);  if (getenv("C08_DEBUG")) fflush(fi);
}

int main(int argc, char** argv) {
  if (argc < 6) { fprintf(stderr, "usage: c08_harness <quick|thorough> <dir> <cases> <impl> <stats>\n"); return 2; }
  bool thorough = std::string(argv[1]) == "thorough"; g_thorough = thorough;
  g_dir = argv[2];
  fc = fopen(argv[3], "w"); fi = fopen(argv[4], "w");
  if (!freopen((g_dir + "/cfitsio_stderr.txt").c_str(), "w", stderr)) return 3;
  Rng r(env_seed() * 0x9e3779b97f4a7c15ULL + 0xC08);
  const std::string path = g_dir + "/out.fits", crash = g_dir + "/crash.fits";

  // plan: (ndim, class) pairs; every dimension 1..5 occurs in the small classes, the large classes rotate with the seed
  std::vector<std::pair<int, int>> plan;
  for (int nd = 1; nd <= 5; nd++) { plan.push_back({nd, 0}); plan.push_back({nd, nd % 2 ? 1 : 2}); }
  plan.push_back({1 + (int)r.below(5), 3}); plan.push_back({1 + (int)r.below(5), 4});
  if (thorough) {
    for (int nd = 1; nd <= 5; nd++) { plan.push_back({nd, 3}); plan.push_back({nd, 4}); }
  }
  plan.push_back({3, 5});   // header overflow after the image has been written (cfitsio shifts the data by one block)
  plan.push_back({2, 6});   // primary header exactly full, coefficient array of several blocks
  plan.push_back({2, 7});   // ... and two cards short of full
  plan.push_back({2, 8});   // ... and two cards over (full without whatever the writer put there last)

  long total_faults = 0, total_fired = 0;
  for (size_t it = 0; it < plan.size(); it++) {
    int nd = plan[it].first, cls = plan[it].second;
    // one child process per table: every rejected read leaks what read_fits had allocated (the constructor throws), and
    // the every-byte sweeps reject hundreds of thousands of files; the child hands statistics and PRNG state back
    const std::string handback = g_dir + "/handback.txt";
    fflush(fc); fflush(fi);
    pid_t tpid = fork();
    if (tpid != 0) {
      int wst = 0; waitpid(tpid, &wst, 0);
      if (!(WIFEXITED(wst) && WEXITSTATUS(wst) == 0)) { fprintf(fi, "harness child for table %zu died: status %d\n", it, wst); fflush(fi); return 4; }
      FILE* hb = fopen(handback.c_str(), "r"); if (!hb) return 5;
      unsigned long long rs; if (fscanf(hb, "%llu %ld %ld", &rs, &total_faults, &total_fired) != 3) return 5; r.s = rs;
      stats.clear(); char key[256]; long val; while (fscanf(hb, "%255s %ld", key, &val) == 2) stats[key] = val;
      fclose(hb);
      continue;
    }
    Gen g; gen_table(r, g, nd, cls);
    Table t; build_table(t, g.ord, g.kn, g.coef);
    // periods: sometimes non-trivial, sometimes absent; extents: sometimes different from the defaults, rarely absent; aux keys
    int pm = r.range(0, 5);
    if (pm == 0) { t.deallocate(t.periods, nd); t.periods = nullptr; stats["no_periods"]++; }
    else if (pm <= 2) for (int i = 0; i < nd; i++) t.periods[i] = r.coin() ? 0.0 : (r.coin() ? 6.283185307179586 : r.unit() * 100);
    int xm = r.range(0, 5);
    if (xm <= 1) { for (int i = 0; i < 2 * nd; i++) t.extents[0][i] += (r.unit() - 0.5); stats["extents_nondefault"]++; }
    bool no_extents = false; double* saved_ext0 = nullptr; double** saved_ext = nullptr;
    if (xm == 5) { no_extents = true; saved_ext = t.extents; t.extents = nullptr; stats["no_extents"]++; }
    int na = cls == 5 ? 30 : r.range(0, 3) == 0 ? r.range(1, 3) : 0;
    // class 6: the primary header fills its 36-card block exactly (35 or 36 cards with END): anything appended to it later
    // (by a writer that returns to the header after the data) makes cfitsio insert a block and MOVE the data unit
    if (cls >= 6 && cls <= 8) {
      t.write_fits(path);
      fitsfile* ff; int st = 0, nk0 = 0; fits_open_diskfile(&ff, path.c_str(), READONLY, &st); fits_get_hdrspace(ff, &nk0, nullptr, &st); fits_close_file(ff, &st);
      na = std::max(0, 34 - nk0 + (int)r.below(2) + (cls == 7 ? -2 : cls == 8 ? 2 : 0));    // cards without aux keys + aux keys + END = 35 or 36 (class 7: 33 or 34, room for exactly two more; class 8: 37 or 38, i.e. exactly full without the last two)
      stats["header_exactly_full_tables"]++; stats["header_exactly_full_cards"] = nk0 + na + 1;
    }
    for (int i = 0; i < na; i++) { std::string k = "AUXK" + std::to_string(i); std::string v = i == 0 ? "some value" : std::to_string(r.below(100000)); t.write_key(k.c_str(), v); }
    stats["naux_" + std::to_string(na)]++;
    const bool sweep_all = thorough || cls == 5;   // every op index gets its faults
    // a different table of the same shape (first coefficient changed), for the runs which need a previous file under the name
    Table other; { std::vector<float> c2 = g.coef; uint32_t w = bits(c2[0]) ^ 0x00400000u; memcpy(&c2[0], &w, 4); build_table(other, g.ord, g.kn, c2); }

    // ---- healthy write with the op log recorded
    g_fail_at = -1; g_step_fail = -1; g_fail_realloc = -1; g_keep = true;
    Run H = do_write(t, V_CPP, path);
    g_keep = false;
    std::vector<Op> ops; for (auto& o : g_log) if (o.kind == 'W' || o.kind == 'F' || o.kind == 'C' || o.kind == 'T') ops.push_back(o);
    std::vector<StepRec> htrace = H.trace;
    if (getenv("C08_OPLOG")) { FILE* fo = fopen((std::string(getenv("C08_OPLOG")) + "." + std::to_string(it)).c_str(), "w");
      for (size_t k = 0; k < ops.size(); k++) fprintf(fo, "%zu %c off=%ld len=%ld step=%s#%d\n", k, ops[k].kind, ops[k].off, ops[k].len, ops[k].step, ops[k].stepno); fclose(fo); }
    std::vector<unsigned char> F; slurp(path, F);
    // the table as the model needs it: numbers as bit patterns, the cards the model does not generate as hex data
    {
      fitsfile* ff; int st = 0; fits_open_diskfile(&ff, path.c_str(), READONLY, &st);
      int nkeys = 0; fits_get_hdrspace(ff, &nkeys, nullptr, &st);
      std::vector<std::string> extra;
      for (int j = 1; j <= nkeys; j++) { char card[FLEN_CARD]; fits_read_record(ff, j, card, &st); std::string c(card); c.resize(80, ' ');
        if (c.compare(0, 6, "PERIOD") == 0 || c.compare(0, 4, "AUXK") == 0) extra.push_back(c); }
      fits_close_file(ff, &st);
      fprintf(fc, "T %u", t.ndim);
      for (uint32_t i = 0; i < t.ndim; i++) { fprintf(fc, " %u %llu %llu", t.order[i], (unsigned long long)t.naxes[i], (unsigned long long)t.nknots[i]); for (uint64_t j = 0; j < t.nknots[i]; j++) fprintf(fc, " %llu", (unsigned long long)bits(t.knots[i][j])); }
      uint64_t nc = t.strides[0] * t.naxes[0];
      fprintf(fc, " %llu", (unsigned long long)nc); for (uint64_t j = 0; j < nc; j++) fprintf(fc, " %u", bits(t.coefficients[j]));
      fprintf(fc, " %d", no_extents ? 0 : 1); if (!no_extents) for (uint32_t j = 0; j < 2 * t.ndim; j++) fprintf(fc, " %llu", (unsigned long long)bits(t.extents[0][j]));
      fprintf(fc, " %zu", extra.size()); for (auto& c : extra) fprintf(fc, " %s", hex((const unsigned char*)c.data(), 80).c_str());
      fprintf(fc, "\n");
      // memory variant of the healthy write
      Run M = do_write(t, V_MEM, path);
      uint64_t mh = M.membuf ? fnv((unsigned char*)M.membuf, M.memsize) : 0;
      std::string mv = M.membuf ? read_verdict_mem(M.membuf, M.memsize, t) : "nobuf";
      fprintf(fi, "enc %zu %llu healthy=%s ret=%d mem=%zu %llu %s nblocks=%zu nops=%zu\n", F.size(), (unsigned long long)fnv(F.data(), F.size()), read_verdict(path, t).c_str(), H.ret,
              M.memsize, (unsigned long long)mh, mv.c_str(), F.size() / 2880, ops.size());
      free(M.membuf);
      stats["blocks_total"] += F.size() / 2880; stats["ops_total"] += ops.size();
      stats[std::string("blocks_") + (F.size() / 2880 <= 8 ? "le8" : F.size() / 2880 <= 20 ? "le20" : F.size() / 2880 <= 100 ? "le100" : "gt100")]++;
    }
    emit_E(t, V_CPP, H, "healthy", "healthy");
    // op log for the model: W lines say whether the bytes equal the final content at that range, else carry the bytes
    for (auto& o : ops) {
      if (o.kind == 'W') {
        bool same = (size_t)(o.off + o.len) <= F.size() && !memcmp(o.data.data(), F.data() + o.off, o.len);
        if (same) fprintf(fc, "O W %ld %ld same\n", o.off, o.len); else fprintf(fc, "O W %ld %ld %s\n", o.off, o.len, hex(o.data.data(), o.len).c_str());
        stats[same ? "ops_write_final_content" : "ops_write_stale_content"]++;
      } else fprintf(fc, "O %c %ld 0 same\n", o.kind, o.off);
      fprintf(fi, "op\n");
    }
    // ---- crash states: every op prefix; byte-granular partial last op
    {
      std::vector<unsigned char> S;
      auto apply = [&](const Op& o, long nbytes) { if (o.kind == 'W') { if (nbytes > 0) { if (S.size() < (size_t)(o.off + nbytes)) S.resize(o.off + nbytes, 0); memcpy(S.data() + o.off, o.data.data(), nbytes); } } else if (o.kind == 'T') S.resize(o.off, 0); };
      size_t nblocks = F.size() / 2880;
      bool every_byte = thorough && nblocks <= 20;
      for (size_t k = 0; k <= ops.size(); k++) {
        spit(crash, S.data(), S.size());
        fprintf(fc, "K %zu\n", k); fprintf(fi, "%s\n", read_verdict(crash, t).c_str()); stats["crash_op_prefix"]++;
        if (k == ops.size()) break;
        const Op& o = ops[k];
        if (o.kind == 'W') {
          // partial application of op k: every byte for small files in the thorough tier, else boundaries of cards plus random offsets
          std::vector<long> bs;
          if (thorough && nblocks <= 20) for (long b = 1; b < o.len; b++) bs.push_back(b);
          else { int ns = nblocks <= 20 ? 24 : (nblocks > 100 && !thorough) ? 1 : 3; for (int j = 0; j < ns; j++) { long b = 1 + (long)r.below(o.len - 1); if (j % 3 == 0) b = std::max(1L, b / 80 * 80 + (long)r.range(-1, 1)); if (b < o.len) bs.push_back(b); } }
          for (long b : bs) {
            std::vector<unsigned char> save = S; apply(o, b);
            spit(crash, S.data(), S.size());
            fprintf(fc, "B %zu %ld %d\n", k, b, model_here(b, every_byte, r)); fprintf(fi, "%s\n", read_verdict(crash, t).c_str()); stats["crash_partial_op"]++;
            S.swap(save);
          }
        }
        apply(o, o.len);
      }
      // hypotheses of C08_crash_safe, evaluated by the model on the recorded log: front to back, result = the encoding
      fprintf(fc, "A\n"); fprintf(fi, "ao\n");
      // plain byte prefixes of the final file (the literal statement of C08_prefix_safe)
      std::vector<long> ns;
      if (thorough && nblocks <= 20) for (long n = 0; n <= (long)F.size(); n++) ns.push_back(n);
      else { for (size_t b = 0; b <= nblocks; b++) for (long d = -2; d <= 2; d++) { if (nblocks > 40 && d != 0 && (std::labs(d) > 1 || (!thorough && nblocks > 100 && b > 3 && b + 16 < nblocks))) continue; long n = (long)b * 2880 + d; if (n >= 0 && n <= (long)F.size()) ns.push_back(n); }
             int extra = nblocks <= 20 ? 400 : 30; for (int j = 0; j < extra; j++) ns.push_back((long)r.below(F.size() + 1));
             // around the END card of the last two header blocks
             for (long base : {(long)F.size() - 5760, (long)F.size() - 2880 * 4}) if (base >= 0) for (long d = 540; d <= 660; d += (nblocks > 40 ? 7 : 1)) ns.push_back(base + d); }
      for (long n : ns) { if (n < 0 || n > (long)F.size()) continue; spit(crash, F.data(), n); fprintf(fc, "P %ld %d\n", n, model_here(n, every_byte, r)); fprintf(fi, "%s\n", read_verdict(crash, t).c_str()); stats["crash_byte_prefix"]++; }
      // holes: one block zeroed / one block cut out
      for (size_t b = 0; b < nblocks; b++) {
        if (nblocks > 40 && b > 3 && b + 12 < nblocks && r.below(8) != 0) continue;
        std::vector<unsigned char> Hh = F; memset(Hh.data() + b * 2880, 0, 2880); spit(crash, Hh.data(), Hh.size());
        fprintf(fc, "Z %zu\n", b); fprintf(fi, "%s\n", read_verdict(crash, t).c_str()); stats["hole_zero_block"]++;
      }
    }
    // ---- mutated files: the tie of the reader's validation (counts, finite and non-decreasing knots). These are NOT crash
    //      states: the final file with a knot vector, an ORDERn value or a knot count replaced; model and implementation
    //      must give the same verdict (rej / eq / diff), nothing else is asked of them.
    {
      auto rup = [](size_t n) { return (n + 2879) / 2880 * 2880; };
      auto be64 = [](uint64_t w) { std::vector<unsigned char> b(8); for (int j = 0; j < 8; j++) b[j] = (unsigned char)(w >> (56 - 8 * j)); return b; };
      auto bytes_of = [&](const std::vector<uint64_t>& v) { std::vector<unsigned char> b; for (uint64_t w : v) { auto x = be64(w); b.insert(b.end(), x.begin(), x.end()); } return b; };
      typedef std::vector<std::pair<size_t, std::vector<unsigned char>>> Patches;
      auto emitX = [&](const Patches& ps, const char* kind) {
        std::vector<unsigned char> Mf = F;
        for (auto& q : ps) { if (q.first + q.second.size() > Mf.size()) return; memcpy(Mf.data() + q.first, q.second.data(), q.second.size()); }
        spit(crash, Mf.data(), Mf.size());
        fprintf(fc, "X"); for (auto& q : ps) fprintf(fc, " %zu %s", q.first, hex(q.second.data(), q.second.size()).c_str()); fprintf(fc, "\n");
        fprintf(fi, "%s kind=%s\n", read_verdict(crash, t).c_str(), kind); stats[std::string("mutated_") + kind]++;
      };
      size_t cend = 0; while (80 * (cend + 1) <= F.size() && memcmp(F.data() + 80 * cend, "END     ", 8)) cend++;
      uint64_t ncf = t.strides[0] * t.naxes[0];
      size_t pos = (cend / 36 + 1) * 2880 + rup(4 * ncf);
      // a sorted ladder of n finite doubles across zero: negative normals and subnormals, -0, +0, positive subnormals, normals, DBL_MAX
      auto ladder = [&](size_t n) {
        std::vector<double> v;
        for (size_t j = 0; j < n; j++) {
          uint64_t mag; switch (r.below(6)) { case 0: mag = 0; break; case 1: mag = 1 + r.below(4); break; case 2: mag = r.next() & 0x000fffffffffffffULL; break;
            case 3: mag = 0x7fefffffffffffffULL - r.below(3); break; default: mag = ((uint64_t)r.range(1, 2046) << 52) | (r.next() & 0x000fffffffffffffULL); break; }
          uint64_t w = mag | (r.coin() ? 0x8000000000000000ULL : 0); double d; memcpy(&d, &w, 8); v.push_back(d);
        }
        std::sort(v.begin(), v.end());
        std::vector<uint64_t> b; for (double d : v) b.push_back(bits(d)); return b;
      };
      uint32_t only = (!thorough && F.size() / 2880 > 100) ? (uint32_t)r.below(t.ndim) : t.ndim;   // huge files in the quick tier: one dimension
      for (uint32_t i = 0; i < t.ndim; i++) {
        size_t khdr = pos, kdat = pos + 2880; uint64_t nk = t.nknots[i]; pos += 2880 + rup(8 * nk);
        if (only != t.ndim && only != i) continue;
        if (kdat + 8 * nk > F.size() || memcmp(F.data() + khdr, "XTENSION", 8)) { stats["mutated_layout_unexpected"]++; break; }
        std::vector<uint64_t> V(nk); for (uint64_t j = 0; j < nk; j++) V[j] = bits(t.knots[i][j]);
        static const uint64_t nonfin[] = {0x7ff8000000000000ULL, 0x7ff0000000000000ULL, 0xfff0000000000000ULL, 0x7ff0000000000001ULL, 0xfff8000000000000ULL, 0x7fffffffffffffffULL};
        { uint64_t j = r.below(nk); emitX({{kdat + 8 * j, be64(nonfin[r.below(6)])}}, "nonfinite"); }
        { uint64_t j = r.below(nk - 1); std::vector<uint64_t> two = {V[j + 1], V[j]}; emitX({{kdat + 8 * j, bytes_of(two)}}, "swap"); }
        { uint64_t j = 1 + r.below(nk - 1); uint64_t x = V[j - 1];
          uint64_t below = (x << 1) == 0 ? 0x8000000000000001ULL : (x >> 63) ? x + 1 : x - 1;   // the next double below k[j-1]
          emitX({{kdat + 8 * j, be64(below)}}, "ulp_below"); emitX({{kdat + 8 * j, be64(x)}}, "repeated");
          emitX({{kdat + 8 * j, be64(x ^ ((x << 1) == 0 ? 0x8000000000000000ULL : 0))}}, "repeated_zero_sign"); }
        if (nk <= 3000) {
          std::vector<uint64_t> Zs(nk); for (uint64_t j = 0; j < nk; j++) Zs[j] = (j % 2) ? 0x8000000000000000ULL : 0; emitX({{kdat, bytes_of(Zs)}}, "signed_zeros");
          std::vector<uint64_t> L = ladder(nk); emitX({{kdat, bytes_of(L)}}, "ladder");
          uint64_t j = r.below(nk - 1); std::swap(L[j], L[j + 1]); emitX({{kdat, bytes_of(L)}}, "ladder_swapped");
        }
        // ORDERi card (value in column 30) and the NAXIS1 card of the KNOTSi header (4th card, value field columns 11..30)
        char key[16]; snprintf(key, sizeof key, "%-8s", ("ORDER" + std::to_string(i)).c_str());
        size_t oc = 0; while (oc < cend && memcmp(F.data() + 80 * oc, key, 8)) oc++;
        if (oc == cend || t.order[i] > 9) { stats["mutated_layout_unexpected"]++; continue; }
        auto digit = [&](uint32_t o) { return std::vector<unsigned char>(1, (unsigned char)('0' + o)); };
        auto field = [&](uint64_t n) { char b[32]; snprintf(b, sizeof b, "%20llu", (unsigned long long)n); return std::vector<unsigned char>(b, b + 20); };
        { uint32_t o2 = (t.order[i] + 1 + (uint32_t)r.below(9)) % 10; emitX({{80 * oc + 29, digit(o2)}}, "order_changed"); }
        // order and number of knots changed together (naxes stays): consistent counts, enough knots or not
        for (int o2 = 0; o2 <= 9; o2++) {
          uint64_t nk2 = t.naxes[i] + o2 + 1;
          if ((uint32_t)o2 == t.order[i] || rup(8 * nk2) != rup(8 * nk) || nk2 > 3000) continue;
          bool enough = nk2 >= 2 * (uint64_t)o2 + 2;
          if (!enough && o2 > (int)t.naxes[i] + 1) continue;   // one or two cases just below the limit are enough
          emitX({{80 * oc + 29, digit(o2)}, {khdr + 3 * 80 + 10, field(nk2)}, {kdat, bytes_of(ladder(nk2))}}, enough ? "order_and_knots_consistent" : "too_few_knots");
          // the same with the knot count off by one
          if (o2 == (int)t.order[i] + 1 || o2 + 1 == (int)t.order[i]) emitX({{80 * oc + 29, digit(o2)}, {khdr + 3 * 80 + 10, field(nk2 + 1)}, {kdat, bytes_of(ladder(nk2 + 1))}}, "counts_off_by_one");
        }
      }
    }
    // ---- libc faults: one failing operation per run
    {
      std::vector<int> idx;
      int n = (int)ops.size();
      if (sweep_all || n <= 48) for (int k = 0; k < n; k++) idx.push_back(k);
      else { for (int k = 0; k < 12; k++) idx.push_back(k); for (int k = n - 24; k < n; k++) idx.push_back(k); for (int j = 0; j < 12; j++) idx.push_back(12 + (int)r.below(n - 36)); }
      for (int k : idx) for (int kind = 0; kind < F_NKINDS; kind++) {
        char ok = ops[k].kind;
        bool applicable = (ok == 'W' && (kind == F_ENOSPC || kind == F_EFBIG || kind == F_SHORT || kind == F_ENOSPC_STICKY)) || (ok == 'F' && kind == F_FLUSH) || (ok == 'C' && kind == F_CLOSE);
        if (!applicable) continue;
        for (int variant : {V_CPP, V_C}) {
          if (n > 48 && variant != (k + kind) % 2) continue;
          unlink(path.c_str());
          g_fail_at = k; g_fail_kind = kind; g_sticky = (kind == F_ENOSPC_STICKY); g_step_fail = -1;
          Run R = do_write(t, variant, path);
          g_fail_at = -1; g_sticky = false;
          total_faults++; total_fired += R.fired ? 1 : 0;
          stats[std::string("fault_") + kindname[kind]]++; if (R.fired) stats[std::string("fault_fired_") + kindname[kind]]++;
          stats[R.ret ? "fault_reported_failure" : "fault_reported_success"]++;
          char tag[64]; snprintf(tag, sizeof tag, "libc:%s/%s@%d", kindname[kind], ops[k].step, k);
          emit_E(t, variant, R, read_verdict(path, t), tag, ops[k].stepno);
        }
      }
    }
    // ---- failing reads during the write: every read index of the healthy run (at most 40, the first and the last ones)
    {
      g_fail_at = -1; g_step_fail = -1; g_fail_read_at = -1;
      Run Hr = do_write(t, V_CPP, path); (void)Hr;
      int nreads = g_nreads; stats["reads_issued_while_writing"] += nreads;
      std::vector<int> ridx; for (int k = 0; k < nreads; k++) if (nreads <= 40 || k < 20 || k >= nreads - 20) ridx.push_back(k);
      for (int k : ridx) for (int variant : {V_CPP, V_C}) {
        if (nreads > 10 && variant != k % 2) continue;
        unlink(path.c_str());
        g_fail_read_at = k;
        Run R = do_write(t, variant, path);
        g_fail_read_at = -1;
        total_faults++; total_fired += R.fired ? 1 : 0;
        stats["fault_fread"]++; if (R.fired) stats["fault_fired_fread"]++;
        stats[R.ret ? "fault_reported_failure" : "fault_reported_success"]++;
        char tag[64]; snprintf(tag, sizeof tag, "libc:fread@%d", k);
        emit_E(t, variant, R, read_verdict(path, t), tag, -1);
      }
    }
    // ---- cfitsio step faults: every step of the healthy trace, every entry point
    for (int variant : {V_CPP, V_C, V_MEM, V_CMEM}) {
      g_step_fail = -1; g_fail_at = -1;
      Run H2 = do_write(t, variant, path);
      size_t nsteps = H2.trace.size();
      { std::string v = (variant >= V_MEM) ? (H2.membuf ? read_verdict_mem(H2.membuf, H2.memsize, t) : "nobuf") : read_verdict(path, t); emit_E(t, variant, H2, v, std::string("healthy-") + varname[variant]); free(H2.membuf); }
      for (size_t j = 0; j < nsteps; j++) {
        if (std::string(H2.trace[j].name) == "imem") {
          // a failing fits_create_memfile: run in a child process, because code that ignores the status passes a null
          // handle on and dies; the child reports outcome and trace through a file
          std::string cf = g_dir + "/child.txt"; unlink(cf.c_str());
          fflush(fc); fflush(fi);
          pid_t pid = fork();
          if (pid == 0) {
            g_step_fail = (int)j; Run R = do_write(t, variant, path);
            std::string names; for (auto& s2 : R.trace) { if (!names.empty()) names += ","; names += s2.name; }
            std::string line = "E " + shape_tokens(t, variant) + " |"; for (auto& s2 : R.trace) line += s2.status ? " 1" : " 0";
            line += "\nret=" + std::to_string(R.ret) + " steps=" + names + " file=absent tag=step:imem@0 fired=" + std::to_string(R.step_fired) + "\n";
            spit(cf, (const unsigned char*)line.data(), line.size()); _exit(0);
          }
          int wst = 0; waitpid(pid, &wst, 0);
          std::vector<unsigned char> cd; total_faults++; total_fired++; stats["stepfault"]++; stats["stepfault_fired"]++;
          if (WIFEXITED(wst) && WEXITSTATUS(wst) == 0 && slurp(cf, cd)) { std::string all(cd.begin(), cd.end()); size_t nl = all.find('\n'); fprintf(fc, "%s\n", all.substr(0, nl).c_str()); fprintf(fi, "%s", all.substr(nl + 1).c_str()); }
          else { fprintf(fc, "E %s | 1\n", shape_tokens(t, variant).c_str()); fprintf(fi, "ret=crash steps=imem file=absent tag=step:imem@0 fired=1 signal=%d\n", WIFSIGNALED(wst) ? WTERMSIG(wst) : -1); stats["crash_on_failed_create_memfile"]++; }
          continue;
        }
        unlink(path.c_str());
        // a failing file-name operation: an older, different table is at the requested name (what must not be passed off as success)
        if (is_name_op(H2.trace[j].name) && variant < V_MEM) { other.write_fits(path); stats["stepfault_name_op_with_previous_table"]++; }
        g_step_fail = (int)j;
        Run R = do_write(t, variant, path);
        g_step_fail = -1;
        total_faults++; total_fired += R.step_fired ? 1 : 0;
        stats["stepfault"]++; if (R.step_fired) stats["stepfault_fired"]++;
        std::string v = (variant >= V_MEM) ? (R.ret == 0 && R.membuf ? read_verdict_mem(R.membuf, R.memsize, t) : (R.ret == 0 ? "nobuf" : "absent")) : read_verdict(path, t);
        char tag[64]; snprintf(tag, sizeof tag, "step:%s@%zu", H2.trace[j].name, j);
        emit_E(t, variant, R, v, tag);
        if (R.ret == 0) free(R.membuf);
      }
      // (realloc failures under the memory driver are not injected: cfitsio 4.2 itself dereferences a null pointer in
      //  ffppx after a failed mem_realloc, before photospline sees any status)
    }
    // null arguments of the C wrapper
    { struct splinetable ct; ct.data = &t; int a = writesplinefitstable(nullptr, &ct), b = writesplinefitstable(path.c_str(), nullptr);
      fprintf(fc, "N\n"); fprintf(fi, "null %d %d\n", a != 0, b != 0); }
    if (no_extents) t.extents = saved_ext;
    (void)saved_ext0;
    fflush(fc); fflush(fi);
    { FILE* hb = fopen(handback.c_str(), "w"); fprintf(hb, "%llu %ld %ld\n", (unsigned long long)r.s, total_faults, total_fired);
      for (auto& kv : stats) fprintf(hb, "%s %ld\n", kv.first.c_str(), kv.second); fclose(hb); }
    _exit(0);
  }
  stats["faults_injected"] = total_faults; stats["faults_fired"] = total_fired; stats["tables"] = plan.size();
  FILE* fs = fopen(argv[5], "w"); fprintf(fs, "{"); bool first = true;
  for (auto& kv : stats) { fprintf(fs, "%s\"%s\": %ld", first ? "" : ", ", kv.first.c_str(), kv.second); first = false; }
  fprintf(fs, "}\n"); fclose(fs); fclose(fc); fclose(fi);
  unlink(path.c_str()); unlink(crash.c_str());
  return 0;
}
