/*
 * C12 harness: controlled-schedule testing of the real walk_descents() /
 * evaluate_descent() of src/fitter/cholesky_solve.c (compiled with
 * `gcc -include c12_shim.h`, which turns every pthread call into psv_*).
 *
 * PROTOCOL SUMMARY
 *  Threads: tid 0 = caller of walk_descents (run in a fresh pthread per run),
 *   tid k+1 = thread made by the k-th psv_create.  Only ONE thread runs at a
 *   time; hand-over by one POSIX semaphore per thread.  The scheduler owns the
 *   mutex-owner / wait-set / exited state; real mutex/cond are never used.
 *  Ops: C create, L lock, U unlock, W cond_wait part 1 (release + enter wait
 *   set), K cond_wait part 2 (woken: re-acquire, return), B broadcast,
 *   G signal (lowest-tid waiter), J join, X pthread_exit, S spurious wake-up
 *   (scheduler initiated).  Enabled: L iff mutex free; K iff woken and mutex
 *   free; J iff target did X; C,U,W,B,G,X always.
 *  A thread arriving at a pthread call records its pending op and calls
 *   pick(); the picked thread performs its op and runs to its next call.  A
 *   new thread runs to its first pthread call and hands straight back to its
 *   creator (no decision).  No enabled thread => status deadlock.
 *  Token `tid:op:snapshot:owner[:alphas]` for (tid,op) is emitted when that
 *   thread arrives at its NEXT pthread call (W and X: at the op itself; last
 *   op of tid 0: when walk_descents returns, snapshot `-`).  snapshot = one of
 *   W/R/T per worker (descent_trials[k].state), `-` before the first create /
 *   after the array is freed; owner = mutex owner tid or -1.  tid-0 L tokens
 *   carry a 5th field: alpha index per worker (x = NULL).  A worker's U token
 *   emitted with its own state still RUN (= it has just finished a computation)
 *   carries `d<alpha index>,<x changed 0|1>,<record == oracle trial 0|1>`.
 *   END carries teardown=ok|bad|none: at pthread_mutex_destroy/cond_destroy the
 *   mutex was free, the wait set empty and every worker had exited.
 *  Commands (stdin) / replies (stdout, one line each unless noted):
 *   P <pseed> <nF 1..8> <nneg 0..nF>
 *      -> PROB m= nF= expect= feasible= resid=<key,...>
 *   RUN <n_threads> <np | rand <seed> | pct <seed> <d> | delayc <seed> |
 *        sched <t,t,s<t>,...>>
 *      -> TR n= m= policy= | tokens | END <ret|deadlock|mismatch@k>
 *         feasible= nH1= calcs= same= diff= sched=<replayable list>
 *   DFS <n_threads> <bound|-1> <maxruns> <logevery>
 *      -> [TR lines for logged / bad runs] then
 *         DFS n= m= bound= runs= complete= deadlocks= diffs= maxsteps=
 *         first_bad_sched=
 *   Q -> exit 0.   Anything else -> ERR ...
 *  Abandoned runs (deadlock / mismatch): every stuck thread is blocked on its
 *   own semaphore inside a psv_* call; the harness wakes each with an abort
 *   flag and the thread leaves through the real pthread_exit, so no threads
 *   accumulate (only the few mallocs of the abandoned walk_descents leak).
 *  The process pins itself to one CPU (hand-over speed); PSV_NOPIN=1 disables.
 *
 * The declarations below MUST mirror src/fitter/cholesky_solve.h (the runner
 * does not pass -I src/fitter); the layout is cross-checked at every create
 * (arg stride, ->id, ->state), failure => "FATAL layout", exit 9.
 */
#ifndef _GNU_SOURCE
#define _GNU_SOURCE 1
#endif
#include <pthread.h>
#include <sched.h>
#include <semaphore.h>
#include <unistd.h>
#include <stdint.h>
#include <stdio.h>
#include <stdlib.h>
#include <string.h>
#include <math.h>
#include <string>
#include <vector>
#include <algorithm>

extern "C" {
#include <cholmod.h>
typedef struct {
	cholmod_dense *x;
	cholmod_dense *x_F;
	cholmod_sparse *AtA_F;
	cholmod_dense *Atb_F;
	cholmod_common *c;
	const long *F;
	long nF;
	const double *alpha;
	cholmod_dense *x_c;
	double residual;
	long *H1;
	long nH1;
	pthread_cond_t *cv;
	pthread_mutex_t *mutex;
	int state;
	int id;
} descent_trial;
enum worker_thread_state { WAIT, RUN, TERMINATE };
int walk_descents(cholmod_sparse *AtA_F, cholmod_dense *Atb_F, cholmod_dense *x,
    cholmod_dense *x_F, long *F, long *nF_, long *H1, long *nH1_,
    double *residual, int *residual_calcs, int verbose, cholmod_common *c);
double calc_residual(cholmod_sparse *AtA, cholmod_dense *Atb, cholmod_dense *x,
    cholmod_common *c);
int psv_mutex_lock(pthread_mutex_t *);
int psv_mutex_unlock(pthread_mutex_t *);
int psv_cond_wait(pthread_cond_t *, pthread_mutex_t *);
int psv_cond_broadcast(pthread_cond_t *);
int psv_cond_signal(pthread_cond_t *);
int psv_create(pthread_t *, const pthread_attr_t *, void *(*)(void *), void *);
int psv_join(pthread_t, void **);
void psv_exit(void *) __attribute__((noreturn));
int psv_mutex_destroy(pthread_mutex_t *);
int psv_cond_destroy(pthread_cond_t *);
}

/* ------------------------------------------------------------------ rng */
struct Rng {
	uint64_t s;
	uint64_t next() {
		uint64_t z = (s += 0x9e3779b97f4a7c15ULL);
		z = (z ^ (z >> 30)) * 0xbf58476d1ce4e5b9ULL;
		z = (z ^ (z >> 27)) * 0x94d049bb133111ebULL;
		return z ^ (z >> 31);
	}
	double u() { return (double)(next() >> 11) * (1.0 / 9007199254740992.0); }
	uint64_t below(uint64_t n) { return next() % n; }
};

static void fatal(const char *msg, int code) {
	fprintf(stderr, "FATAL %s\n", msg);
	fflush(stderr);
	_exit(code);
}

/* ------------------------------------------------------------ scheduler */
enum { P_NP, P_RAND, P_PCT, P_DELAYC, P_SCHED, P_DFS };
enum { ST_RUNNING, ST_RET, ST_DEADLOCK, ST_MISMATCH };
#define MAX_THREADS 32

struct Policy {
	int kind;
	std::string name;
	Rng rng;
	int d;                     /* pct depth */
	std::vector<long> cps;     /* pct change points */
	std::vector<int> forced;   /* tid, or -(tid+1) for s<tid> */
	size_t pos;
	Policy() : kind(P_NP), name("np"), d(1), pos(0) { rng.s = 0; }
};

struct Run;
struct Th {
	int tid, creator, jt;
	sem_t sem;
	pthread_t pt;
	char pend, last;           /* pending op / op whose token is still owed */
	int ws;                    /* 0 none, 1 in wait set, 2 woken */
	bool exited, fresh;
	long prio;
	void *(*fn)(void *);
	void *arg;
	Run *R;
};

struct Run {
	std::vector<Th *> th;
	int owner, n, cur, status, mismatch_at;
	volatile bool abort_;
	bool freed;
	int teardown;              /* bit 0: mutex destroyed, bit 1: cond destroyed, bit 2: a teardown condition was violated */
	descent_trial *base;
	const double *abase;
	std::string toks;
	std::vector<int> sched;
	Policy pol;
	sem_t main_sem;
	pthread_attr_t attr;
	size_t dstep;              /* DFS decision index */
	int preempt;
	/* walk_descents arguments / results */
	cholmod_sparse *A;
	cholmod_dense *b, *x, *xF;
	std::vector<long> F, H1;
	long nF, nH1;
	double residual;
	int calcs, ret;
	cholmod_common *c;
};

struct Frame { std::vector<signed char> opts; int idx, pre; bool cur_en; };
static std::vector<Frame> g_stack;   /* DFS stack, lives across runs */
static int g_bound = -1;

static __thread Run *tl_R = NULL;
static __thread Th *tl_me = NULL;

/* data of a finished computation, compared with the thread-free oracle (defined below, after Prob) */
static std::string compute_data(Run *R, int w);

static std::string snapshot(Run *R) {
	if (!R->base || R->freed) return "-";
	std::string s;
	for (int k = 0; k < R->n; k++) {
		int st = R->base[k].state;
		s += (st == WAIT) ? 'W' : (st == RUN) ? 'R' : (st == TERMINATE) ? 'T' : '?';
	}
	return s;
}

static void emit(Run *R, int tid, char op) {
	char buf[64];
	if (!R->toks.empty()) R->toks += ' ';
	snprintf(buf, sizeof buf, "%d:%c:", tid, op);
	R->toks += buf;
	R->toks += snapshot(R);
	snprintf(buf, sizeof buf, ":%d", R->owner);
	R->toks += buf;
	/* a worker that arrives at its next call after the unlock that followed RUN has just finished a computation */
	if (tid >= 1 && op == 'U' && R->base && !R->freed && tid - 1 < R->n && R->base[tid - 1].state == RUN) {
		R->toks += ":d";
		R->toks += compute_data(R, tid - 1);
	}
	if (tid == 0 && op == 'L') {
		R->toks += ':';
		if (!R->base || R->freed) { R->toks += '-'; return; }
		if (!R->abase && R->base[0].alpha) R->abase = R->base[0].alpha;
		for (int k = 0; k < R->n; k++) {
			if (k) R->toks += ',';
			if (!R->base[k].alpha) R->toks += 'x';
			else {
				snprintf(buf, sizeof buf, "%ld", (long)(R->base[k].alpha - R->abase));
				R->toks += buf;
			}
		}
	}
}

static void flush_token(Run *R, Th *me) {
	if (me->last) { emit(R, me->tid, me->last); me->last = 0; }
}

static bool enabled(Run *R, Th *t) {
	switch (t->pend) {
	case 0: return false;
	case 'L': return R->owner < 0;
	case 'K': return t->ws == 2 && R->owner < 0;
	case 'J': return R->th[t->jt]->exited;
	default: return true;
	}
}

static void spurious(Run *R, int w) {
	R->th[w]->ws = 2;
	R->sched.push_back(-(w + 1));
	emit(R, w, 'S');
}

/* Returns the tid to run next; -1 deadlock; -2 forced-schedule mismatch. */
static int pick(Run *R, int cur) {
	Policy &P = R->pol;
	for (;;) {
		std::vector<int> en, waiters;
		bool cur_en = false;
		for (size_t i = 0; i < R->th.size(); i++) {
			if (enabled(R, R->th[i])) { en.push_back((int)i); if ((int)i == cur) cur_en = true; }
			if (R->th[i]->ws == 1) waiters.push_back((int)i);
		}
		int np = en.empty() ? -1 : (cur_en ? cur : en[0]);
		int choice = -1;
		if (P.pos < P.forced.size()) {
			int f = P.forced[P.pos];
			if (f < 0) {
				int w = -f - 1;
				if (w >= (int)R->th.size() || R->th[w]->ws != 1) { R->mismatch_at = (int)P.pos; return -2; }
				P.pos++;
				spurious(R, w);
				continue;
			}
			if (std::find(en.begin(), en.end(), f) == en.end()) { R->mismatch_at = (int)P.pos; return -2; }
			P.pos++;
			choice = f;
		} else switch (P.kind) {
		case P_RAND:
			if (!waiters.empty() && P.rng.below(16) == 0) {
				spurious(R, waiters[P.rng.below(waiters.size())]);
				continue;
			}
			if (!en.empty()) choice = en[P.rng.below(en.size())];
			break;
		case P_PCT: {
			long step = (long)R->sched.size();
			for (size_t i = 0; i < P.cps.size(); i++)
				if (P.cps[i] == step && cur >= 0 && cur < (int)R->th.size())
					R->th[cur]->prio = (long)P.cps.size() - (long)i; /* below all initial ones */
			for (size_t i = 0; i < en.size(); i++)
				if (choice < 0 || R->th[en[i]]->prio > R->th[choice]->prio) choice = en[i];
			break;
		}
		case P_DELAYC:
			if (cur_en && cur != 0) choice = cur;
			else {
				for (size_t i = 0; i < en.size() && choice < 0; i++) if (en[i] != 0) choice = en[i];
				if (choice < 0) choice = np; /* only tid 0 (or nothing) left */
			}
			break;
		case P_DFS: {
			std::vector<signed char> opts;
			if (cur_en) opts.push_back((signed char)cur);
			for (size_t i = 0; i < en.size(); i++) if (!(cur_en && en[i] == cur)) opts.push_back((signed char)en[i]);
			if (opts.empty()) break;
			size_t d = R->dstep++;
			if (d < g_stack.size()) {
				if (g_stack[d].opts != opts) fatal("dfs replay diverged (nondeterminism)", 8);
			} else {
				Frame f; f.opts = opts; f.idx = 0; f.pre = R->preempt; f.cur_en = cur_en;
				g_stack.push_back(f);
			}
			choice = g_stack[d].opts[g_stack[d].idx];
			if (cur_en && choice != cur) R->preempt++;
			break;
		}
		default: choice = np; break;
		}
		if (choice < 0) return -1;
		R->sched.push_back(choice);
		R->cur = choice;
		return choice;
	}
}

/* Block until this thread is picked (or the run is abandoned). */
static void wait_turn(Run *R, Th *me) {
	while (sem_wait(&me->sem) != 0) {}
	if (R->abort_) pthread_exit(NULL); /* the real one: this TU has no shim */
}

static void end_run(Run *R, int nx) {
	R->status = (nx == -2) ? ST_MISMATCH : ST_DEADLOCK;
	sem_post(&R->main_sem);
}

/* Arrive at a pthread call: owe-token, record pending op, get scheduled. */
static Th *arrive(char op, int jt) {
	Run *R = tl_R; Th *me = tl_me;
	if (!R || !me) fatal("psv call from a thread not under scheduler control", 9);
	flush_token(R, me);
	me->pend = op; me->jt = jt;
	if (me->fresh) {               /* first call of a new thread: back to creator */
		me->fresh = false;
		sem_post(&R->th[me->creator]->sem);
		wait_turn(R, me);
	} else {
		int nx = pick(R, me->tid);
		if (nx < 0) { end_run(R, nx); wait_turn(R, me); fatal("woken after abandon", 9); }
		if (nx != me->tid) { sem_post(&R->th[nx]->sem); wait_turn(R, me); }
	}
	me->last = op;
	return me;
}

static void *trampoline(void *p) {
	Th *t = (Th *)p;
	tl_R = t->R; tl_me = t;
	t->fn(t->arg);
	psv_exit(NULL);                /* plain return == pthread_exit */
}

extern "C" int psv_mutex_lock(pthread_mutex_t *) {
	Th *me = arrive('L', -1); me->R->owner = me->tid; return 0;
}
extern "C" int psv_mutex_unlock(pthread_mutex_t *) {
	Th *me = arrive('U', -1);
	if (me->R->owner != me->tid) fprintf(stderr, "WARN unlock by non-owner tid %d\n", me->tid);
	me->R->owner = -1; return 0;
}
extern "C" int psv_cond_wait(pthread_cond_t *, pthread_mutex_t *) {
	Th *me = arrive('W', -1);
	Run *R = me->R;
	if (R->owner != me->tid) fprintf(stderr, "WARN cond_wait by non-owner tid %d\n", me->tid);
	R->owner = -1; me->ws = 1;
	arrive('K', -1);               /* emits the W token first */
	R->owner = me->tid; me->ws = 0;
	return 0;
}
extern "C" int psv_cond_broadcast(pthread_cond_t *) {
	Th *me = arrive('B', -1);
	Run *R = me->R;
	for (size_t i = 0; i < R->th.size(); i++) if (R->th[i]->ws == 1) R->th[i]->ws = 2;
	return 0;
}
extern "C" int psv_cond_signal(pthread_cond_t *) {
	Th *me = arrive('G', -1);
	Run *R = me->R;
	for (size_t i = 0; i < R->th.size(); i++) if (R->th[i]->ws == 1) { R->th[i]->ws = 2; break; }
	return 0;
}
extern "C" int psv_create(pthread_t *pt, const pthread_attr_t *, void *(*fn)(void *), void *arg) {
	Th *me = arrive('C', -1);
	Run *R = me->R;
	if ((int)R->th.size() >= MAX_THREADS) fatal("too many threads", 9);
	int k = (int)R->th.size() - 1;
	descent_trial *d = (descent_trial *)arg;
	if (k == 0) R->base = d;
	if (d != R->base + k || d->id != k || d->state != WAIT) fatal("layout", 9);
	Th *c = new Th();
	c->tid = k + 1; c->creator = me->tid; c->jt = -1; c->pend = 0; c->last = 0; c->ws = 0;
	c->exited = false; c->fresh = true; c->fn = fn; c->arg = arg; c->R = R;
	c->prio = (long)R->pol.d + 8 + (long)R->pol.rng.below(1000000) * 64 + c->tid;
	sem_init(&c->sem, 0, 0);
	R->th.push_back(c);
	if (pthread_create(&c->pt, &R->attr, trampoline, c) != 0) fatal("pthread_create", 9);
	*pt = c->pt;
	while (sem_wait(&me->sem) != 0) {}   /* child ran to its first pthread call */
	return 0;
}
extern "C" int psv_join(pthread_t t, void **ret) {
	Run *R = tl_R;
	if (!R) fatal("psv call from a thread not under scheduler control", 9);
	int jt = -1;
	for (size_t i = 1; i < R->th.size(); i++) if (pthread_equal(R->th[i]->pt, t)) jt = (int)i;
	if (jt < 0) fatal("join of unknown thread", 9);
	arrive('J', jt);               /* the real join happens when the run is reaped */
	if (ret) *ret = NULL;
	return 0;
}
extern "C" void psv_exit(void *) {
	Th *me = arrive('X', -1);      /* X is scheduled like any other op */
	Run *R = me->R;
	me->pend = 0; me->exited = true;
	flush_token(R, me);            /* X: snapshot at the op itself */
	int nx = pick(R, me->tid);
	if (nx < 0) end_run(R, nx); else sem_post(&R->th[nx]->sem);
	pthread_exit(NULL);            /* R must not be touched after the post */
}

/* Teardown (PsV.C12_teardown_safe): destroying a locked mutex or a condition variable with waiters, or freeing the
 * trial records while a worker is alive, is undefined behaviour. */
static void teardown_check(int bit) {
	Run *R = tl_R;
	if (!R) fatal("psv call from a thread not under scheduler control", 9);
	R->teardown |= bit;
	if (R->owner != -1) R->teardown |= 4;
	for (size_t i = 0; i < R->th.size(); i++) {
		if (R->th[i]->ws != 0) R->teardown |= 4;
		if (i >= 1 && !R->th[i]->exited) R->teardown |= 4;
	}
	if ((int)R->th.size() != R->n + 1) R->teardown |= 4;
}
extern "C" int psv_mutex_destroy(pthread_mutex_t *m) { teardown_check(1); return pthread_mutex_destroy(m); }
extern "C" int psv_cond_destroy(pthread_cond_t *c) { teardown_check(2); return pthread_cond_destroy(c); }

static void *run_main(void *p) {
	Run *R = (Run *)p;
	Th *me = R->th[0];
	tl_R = R; tl_me = me;
	R->ret = walk_descents(R->A, R->b, R->x, R->xF, &R->F[0], &R->nF, &R->H1[0], &R->nH1,
	    &R->residual, &R->calcs, 0, R->c);
	R->freed = true;
	flush_token(R, me);
	me->pend = 0; me->exited = true;
	R->status = ST_RET;
	sem_post(&R->main_sem);
	return NULL;
}

/* -------------------------------------------------------------- problem */
static cholmod_common g_c;

struct Prob {
	bool ok;
	int nF, nvar, m, expect, feasible;
	std::vector<double> A, b, x, xF, resid, ex;
	std::vector<std::vector<double> > xcs;   /* oracle: x_c of every trial index */
	std::vector<std::vector<long> > H1s;     /* oracle: H1 of every trial index */
	std::vector<long> F, eH1;
	double eres;
	cholmod_sparse *As;
	cholmod_dense *bd;
	Prob() : ok(false), As(NULL), bd(NULL) {}
};
static Prob g_p;

static int double_rcmp(const void *xa, const void *xb) {
	double a = *(const double *)xa, b = *(const double *)xb;
	return (a < b) ? 1 : (a > b) ? -1 : 0;
}

/* Sequential oracle: mirrors walk_descents lines 935-962 and the worker body. */
static void oracle(Prob &p) {
	int nF = p.nF;
	std::vector<double> alpha(nF + 2);
	alpha[0] = 0; alpha[1] = 1;
	int m = 2;
	for (int i = 0; i < nF; i++) {
		if (p.xF[i] < 0) {
			alpha[m] = p.x[p.F[i]] / (p.x[p.F[i]] - p.xF[i]);
			if ((alpha[m] < 1) && (alpha[m] > 0)) ++m;
		}
	}
	qsort(&alpha[2], m - 2, sizeof(double), double_rcmp);
	p.m = m;
	p.resid.assign(m, 0.0);
	std::vector<std::vector<double> > xc(m, std::vector<double>(nF));
	std::vector<std::vector<long> > H1(m);
	cholmod_dense *d = cholmod_l_allocate_dense(nF, 1, nF, CHOLMOD_REAL, &g_c);
	for (int k = 0; k < m; k++) {
		for (int i = 0; i < nF; i++) {
			double v = (1.0 - alpha[k]) * p.x[p.F[i]] + alpha[k] * p.xF[i];
			if (v < 0.0) { v = 0.0; H1[k].push_back(p.F[i]); }
			xc[k][i] = v;
			((double *)d->x)[i] = v;
		}
		p.resid[k] = calc_residual(p.As, p.bd, d, &g_c);
	}
	cholmod_l_free_dense(&d, &g_c);
	p.expect = m - 1;
	for (int k = 1; k < m; k++) if (p.resid[k] < p.resid[0]) { p.expect = k; break; }
	p.feasible = p.resid[p.expect] < p.resid[0];
	p.ex = p.x;
	for (int i = 0; i < nF; i++) p.ex[p.F[i]] = xc[p.expect][i];
	p.eH1 = H1[p.expect];
	p.eres = p.feasible ? p.resid[p.expect] : 1e300;
	p.xcs = xc; p.H1s = H1;
}

/* `<alpha index>,<x differs from its entry value: 0|1>,<record equals the oracle's trial of that index bit for bit: 0|1>`
 * taken when worker w arrives at the lock that publishes its result (= end of its compute region). */
static std::string compute_data(Run *R, int w) {
	Prob &p = g_p;
	descent_trial *d = &R->base[w];
	char buf[64];
	long k = (R->abase && d->alpha) ? (long)(d->alpha - R->abase) : -1;
	int xdiff = memcmp(R->x->x, &p.x[0], p.nvar * sizeof(double)) != 0;
	int receq = 0;
	if (k >= 0 && k < p.m && d->x_c && (long)d->x_c->nrow == (long)p.nF) {
		receq = memcmp(d->x_c->x, &p.xcs[k][0], p.nF * sizeof(double)) == 0
		    && d->nH1 == (long)p.H1s[k].size()
		    && (d->nH1 == 0 || memcmp(d->H1, &p.H1s[k][0], d->nH1 * sizeof(long)) == 0)
		    && memcmp(&d->residual, &p.resid[k], sizeof(double)) == 0;
	}
	snprintf(buf, sizeof buf, "%ld,%d,%d", k, xdiff, receq);
	return buf;
}

static void free_prob(Prob &p) {
	if (p.As) cholmod_l_free_sparse(&p.As, &g_c);
	if (p.bd) cholmod_l_free_dense(&p.bd, &g_c);
}

/* One random draw.  b = A z*, so resid(z) = |z - z*|_A^2 - const: the position
 * of z* relative to the segment x -> x_F steers which alpha first reduces it. */
static void draw(Prob &p, Rng &g, int nF, int nneg) {
	free_prob(p);
	p.nF = nF;
	p.nvar = nF + (int)g.below(3);
	p.F.clear();
	for (int i = 0, need = nF; i < p.nvar; i++)
		if ((int)g.below(p.nvar - i) < need) { p.F.push_back(i); need--; }
	std::vector<double> B(nF * nF);
	for (int i = 0; i < nF * nF; i++) B[i] = 2 * g.u() - 1;
	p.A.assign(nF * nF, 0.0);
	for (int i = 0; i < nF; i++)
		for (int j = 0; j < nF; j++) {
			double s = (i == j) ? 0.1 : 0.0;
			for (int k = 0; k < nF; k++) s += B[k * nF + i] * B[k * nF + j];
			p.A[i + j * nF] = s;
		}
	p.x.resize(p.nvar);
	for (int i = 0; i < p.nvar; i++) p.x[i] = 0.1 + 1.9 * g.u();
	std::vector<int> perm(nF);
	for (int i = 0; i < nF; i++) perm[i] = i;
	for (int i = nF - 1; i > 0; i--) std::swap(perm[i], perm[g.below(i + 1)]);
	std::vector<char> neg(nF, 0);
	for (int i = 0; i < nneg; i++) neg[perm[i]] = 1;
	static const double scales[3] = { 0.01, 1.0, 100.0 };
	p.xF.resize(nF);
	for (int i = 0; i < nF; i++) {
		double sc = scales[g.below(3)];
		if (neg[i]) p.xF[i] = -(0.05 + g.u()) * sc;
		else {
			p.xF[i] = (g.below(4) == 0) ? 0.0 : 2 * g.u() * sc;
			if (g.below(4) == 0) p.x[p.F[i]] = 0.0;
		}
	}
	if (nneg >= 2 && g.below(4) == 0) {        /* two equal alphas */
		int i = perm[0], j = perm[1];
		p.x[p.F[j]] = p.x[p.F[i]]; p.xF[j] = p.xF[i];
	}
	std::vector<double> zs(nF);
	int mode = (int)g.below(4);
	double t = (mode == 1) ? 0.6 * pow(10.0, -3.0 * g.u()) : g.u();
	for (int i = 0; i < nF; i++) {
		double xs = p.x[p.F[i]], dlt = p.xF[i] - xs;
		zs[i] = (mode == 0) ? p.xF[i] : (mode == 1) ? xs + t * dlt : (mode == 2) ? xs - t * dlt : 3 * g.u() - 1;
	}
	p.b.assign(nF, 0.0);
	for (int i = 0; i < nF; i++) for (int j = 0; j < nF; j++) p.b[i] += p.A[i + j * nF] * zs[j];
	/* upper triangle only, stype = 1 */
	cholmod_dense *Ad = cholmod_l_zeros(nF, nF, CHOLMOD_REAL, &g_c);
	for (int j = 0; j < nF; j++) for (int i = 0; i <= j; i++) ((double *)Ad->x)[i + j * nF] = p.A[i + j * nF];
	p.As = cholmod_l_dense_to_sparse(Ad, 1, &g_c);
	p.As->stype = 1;
	cholmod_l_free_dense(&Ad, &g_c);
	p.bd = cholmod_l_allocate_dense(nF, 1, nF, CHOLMOD_REAL, &g_c);
	memcpy(p.bd->x, &p.b[0], nF * sizeof(double));
	oracle(p);
}

static std::string key(double v) {
	if (v != v) return "nan";
	uint64_t u; memcpy(&u, &v, 8);
	long long k = (u >> 63) ? -(long long)(u & 0x7fffffffffffffffULL) : (long long)u;
	char buf[32]; snprintf(buf, sizeof buf, "%lld", k);
	return buf;
}

static std::string cmd_P(unsigned long long pseed, int nF, int nneg) {
	Rng g; g.s = pseed;
	g.s = g.next() ^ ((uint64_t)nF * 1000003ULL + (uint64_t)nneg * 7919ULL);
	int m = 2 + nneg;
	int target = 1 + (int)g.below(m);      /* 1..m-1: that index reduces first; m: none does */
	for (int attempt = 0; attempt < 200; attempt++) {
		draw(g_p, g, nF, nneg);
		if ((g_p.feasible ? g_p.expect : m) == target) break;
	}
	Prob &p = g_p;
	p.ok = true;
	/* sanity: calc_residual(alpha=0) against the dense x'(Ax-2b) */
	double ref = 0;
	for (int i = 0; i < nF; i++) {
		double s = -2 * p.b[i];
		for (int j = 0; j < nF; j++) s += p.A[i + j * nF] * p.x[p.F[j]];
		ref += p.x[p.F[i]] * s;
	}
	char buf[128];
	if (p.m != m || !(fabs(ref - p.resid[0]) <= 1e-9 * (1 + fabs(ref)))) {
		p.ok = false;
		snprintf(buf, sizeof buf, "ERR generator self-check m=%d ref=%.17g got=%.17g", p.m, ref, p.resid[0]);
		return buf;
	}
	snprintf(buf, sizeof buf, "PROB m=%d nF=%d expect=%d feasible=%d resid=", p.m, nF, p.expect, p.feasible);
	std::string s = buf;
	for (int k = 0; k < p.m; k++) { if (k) s += ','; s += key(p.resid[k]); }
	return s;
}

/* ------------------------------------------------------------------ run */
struct RunOut { std::string line; int status; bool same; std::vector<int> sched; };

static std::string sched_str(const std::vector<int> &v) {
	std::string s; char buf[16];
	for (size_t i = 0; i < v.size(); i++) {
		if (i) s += ',';
		if (v[i] < 0) snprintf(buf, sizeof buf, "s%d", -v[i] - 1); else snprintf(buf, sizeof buf, "%d", v[i]);
		s += buf;
	}
	return s.empty() ? "-" : s;
}

static RunOut do_run(int n, const Policy &pol) {
	Prob &p = g_p;
	Run *R = new Run();
	R->owner = -1; R->n = n; R->cur = 0; R->status = ST_RUNNING; R->mismatch_at = -1;
	R->abort_ = false; R->freed = false; R->teardown = 0; R->base = NULL; R->abase = NULL;
	R->pol = pol; R->dstep = 0; R->preempt = 0;
	R->toks.reserve(1024);
	sem_init(&R->main_sem, 0, 0);
	pthread_attr_init(&R->attr);
	pthread_attr_setstacksize(&R->attr, 512 * 1024);
	R->A = p.As; R->b = p.bd; R->c = &g_c;
	R->x = cholmod_l_allocate_dense(p.nvar, 1, p.nvar, CHOLMOD_REAL, &g_c);
	R->xF = cholmod_l_allocate_dense(p.nF, 1, p.nF, CHOLMOD_REAL, &g_c);
	memcpy(R->x->x, &p.x[0], p.nvar * sizeof(double));
	memcpy(R->xF->x, &p.xF[0], p.nF * sizeof(double));
	R->F = p.F; R->H1.assign(p.nF, -1); R->nF = p.nF; R->nH1 = 0;
	R->residual = 1e300; R->calcs = 0; R->ret = -1;
	char nb[16]; snprintf(nb, sizeof nb, "%d", n);
	setenv("OMP_NUM_THREADS", nb, 1); unsetenv("GOTO_NUM_THREADS");

	Th *t0 = new Th();
	t0->tid = 0; t0->creator = -1; t0->jt = -1; t0->pend = 0; t0->last = 0; t0->ws = 0;
	t0->exited = false; t0->fresh = false; t0->fn = NULL; t0->arg = NULL; t0->R = R;
	t0->prio = (long)R->pol.d + 8 + (long)R->pol.rng.below(1000000) * 64;
	sem_init(&t0->sem, 0, 0);
	R->th.push_back(t0);
	if (pthread_create(&t0->pt, &R->attr, run_main, R) != 0) fatal("pthread_create", 9);
	while (sem_wait(&R->main_sem) != 0) {}
	/* Reap: any thread still blocked in a psv_* call (deadlock / mismatch) sees
	 * the flag and leaves through the real pthread_exit; harmless otherwise. */
	R->abort_ = true;
	for (size_t i = 0; i < R->th.size(); i++) sem_post(&R->th[i]->sem);
	for (size_t i = 0; i < R->th.size(); i++) pthread_join(R->th[i]->pt, NULL);

	RunOut o; o.status = R->status; o.sched = R->sched;
	std::string diff;
	char buf[256];
	if (R->status == ST_RET) {
		const double *rx = (const double *)R->x->x;
		if (memcmp(rx, &p.ex[0], p.nvar * sizeof(double)) != 0) diff += "x,";
		if (R->nH1 != (long)p.eH1.size()) diff += "nH1,";
		else if (R->nH1 && memcmp(&R->H1[0], &p.eH1[0], R->nH1 * sizeof(long)) != 0) diff += "H1,";
		if ((R->ret != 0) != (p.feasible != 0)) diff += "feasible,";
		if (memcmp(&R->residual, &p.eres, sizeof(double)) != 0) diff += "residual,";
		if (memcmp(&R->F[0], &p.F[0], p.nF * sizeof(long)) != 0 || R->nF != p.nF) diff += "F,";
		if (!diff.empty()) diff.erase(diff.size() - 1);
	} else diff = (R->status == ST_DEADLOCK) ? "deadlock" : "mismatch";
	o.same = diff.empty();
	snprintf(buf, sizeof buf, "TR n=%d m=%d policy=%s | ", n, p.m, pol.name.c_str());
	o.line = buf; o.line += R->toks; o.line += " | END ";
	if (R->status == ST_RET) snprintf(buf, sizeof buf, "ret feasible=%d nH1=%ld", R->ret, R->nH1);
	else if (R->status == ST_DEADLOCK) snprintf(buf, sizeof buf, "deadlock feasible=- nH1=-");
	else snprintf(buf, sizeof buf, "mismatch@%d feasible=- nH1=-", R->mismatch_at);
	o.line += buf;
	snprintf(buf, sizeof buf, " calcs=%d same=%d diff=%s teardown=%s sched=", R->calcs, o.same ? 1 : 0, o.same ? "-" : diff.c_str(),
	    (R->teardown & 4) ? "bad" : ((R->teardown & 3) == 3 ? "ok" : "none"));
	o.line += buf; o.line += sched_str(R->sched);

	cholmod_l_free_dense(&R->x, &g_c); cholmod_l_free_dense(&R->xF, &g_c);
	for (size_t i = 0; i < R->th.size(); i++) { sem_destroy(&R->th[i]->sem); delete R->th[i]; }
	sem_destroy(&R->main_sem); pthread_attr_destroy(&R->attr);
	delete R;
	return o;
}

/* Advance the DFS stack to the next unexplored schedule; false when exhausted. */
static bool dfs_backtrack() {
	while (!g_stack.empty()) {
		Frame &f = g_stack.back();
		bool costs = f.cur_en;             /* leaving an enabled thread = preemption */
		if (f.idx + 1 < (int)f.opts.size() && (!costs || g_bound < 0 || f.pre + 1 <= g_bound)) { f.idx++; return true; }
		g_stack.pop_back();
	}
	return false;
}

static bool parse_sched(const char *s, std::vector<int> &out) {
	while (*s) {
		bool sp = false;
		if (*s == 's') { sp = true; s++; }
		if (*s < '0' || *s > '9') return false;
		char *e; long v = strtol(s, &e, 10);
		if (v < 0 || v >= MAX_THREADS) return false;
		out.push_back(sp ? -(int)(v + 1) : (int)v);
		s = e;
		if (*s == ',') { s++; if (!*s) return false; } else if (*s) return false;
	}
	return true;
}

static void reply(const std::string &s) { fputs(s.c_str(), stdout); fputc('\n', stdout); fflush(stdout); }

int main() {
	/* All scheduled threads are serialised anyway: keeping them on one CPU makes
	 * the semaphore hand-overs ~5x cheaper.  PSV_NOPIN=1 disables this. */
	if (!getenv("PSV_NOPIN")) {
		int cpu = sched_getcpu();
		cpu_set_t cs; CPU_ZERO(&cs);
		if (cpu >= 0) { CPU_SET(cpu, &cs); sched_setaffinity(0, sizeof cs, &cs); }
	}
	cholmod_l_start(&g_c);
	std::vector<char> linebuf(1 << 20);
	char *line = &linebuf[0];
	while (fgets(line, (int)linebuf.size(), stdin)) {
		std::vector<std::string> w;
		for (char *t = strtok(line, " \t\r\n"); t; t = strtok(NULL, " \t\r\n")) w.push_back(t);
		if (w.empty()) { reply("ERR empty command"); continue; }
		if (w[0] == "Q") return 0;
		if (w[0] == "P" && w.size() == 4) {
			unsigned long long ps = strtoull(w[1].c_str(), NULL, 10);
			int nF = atoi(w[2].c_str()), nneg = atoi(w[3].c_str());
			if (nF < 1 || nF > 8 || nneg < 0 || nneg > nF) { reply("ERR P needs nF in 1..8, nneg in 0..nF"); continue; }
			reply(cmd_P(ps, nF, nneg));
			continue;
		}
		if (w[0] == "RUN" && w.size() >= 3) {
			int n = atoi(w[1].c_str());
			if (!g_p.ok) { reply("ERR no problem (use P first)"); continue; }
			if (n < 1 || n >= MAX_THREADS) { reply("ERR n_threads out of range"); continue; }
			Policy pol; bool ok = true;
			uint64_t seed = w.size() > 3 ? strtoull(w[3].c_str(), NULL, 10) : 0;
			pol.rng.s = seed * 0x9e3779b97f4a7c15ULL + 12345;
			if (w[2] == "np" && w.size() == 3) { pol.kind = P_NP; pol.name = "np"; }
			else if (w[2] == "rand" && w.size() == 4) { pol.kind = P_RAND; pol.name = "rand:" + w[3]; }
			else if (w[2] == "delayc" && (w.size() == 3 || w.size() == 4)) { pol.kind = P_DELAYC; pol.name = "delayc:" + (w.size() == 4 ? w[3] : std::string("0")); }
			else if (w[2] == "pct" && w.size() == 5 && atoi(w[4].c_str()) >= 1) {
				pol.kind = P_PCT; pol.d = atoi(w[4].c_str()); pol.name = "pct:" + w[3] + ":" + w[4];
				for (int i = 0; i < pol.d - 1; i++) pol.cps.push_back((long)pol.rng.below(200));
			}
			else if (w[2] == "sched" && w.size() == 4 && parse_sched(w[3].c_str(), pol.forced)) { pol.kind = P_SCHED; pol.name = "sched"; }
			else ok = false;
			if (!ok) { reply("ERR bad policy"); continue; }
			reply(do_run(n, pol).line);
			continue;
		}
		if (w[0] == "DFS" && w.size() == 5) {
			int n = atoi(w[1].c_str()); long bound = atol(w[2].c_str()), maxruns = atol(w[3].c_str()), logevery = atol(w[4].c_str());
			if (!g_p.ok) { reply("ERR no problem (use P first)"); continue; }
			if (n < 1 || n >= MAX_THREADS || bound < -1 || maxruns < 1 || logevery < 1) { reply("ERR bad DFS arguments"); continue; }
			Policy pol; pol.kind = P_DFS;
			char nm[32]; snprintf(nm, sizeof nm, "dfs:%ld", bound); pol.name = nm;
			g_stack.clear(); g_bound = (int)bound;
			long runs = 0, deadlocks = 0, diffs = 0, badlogged = 0; size_t maxsteps = 0;
			std::string first_bad = "-"; bool complete = false;
			for (;;) {
				RunOut o = do_run(n, pol);
				bool bad = (o.status != ST_RET) || !o.same;
				if (o.status != ST_RET) deadlocks++; else if (!o.same) diffs++;
				if (bad && first_bad == "-") first_bad = sched_str(o.sched);
				if (o.sched.size() > maxsteps) maxsteps = o.sched.size();
				if ((bad && badlogged++ < 5) || (!bad && runs % logevery == 0)) reply(o.line);
				runs++;
				if (!dfs_backtrack()) { complete = true; break; }
				if (runs >= maxruns) break;
			}
			g_stack.clear();
			char buf[256];
			snprintf(buf, sizeof buf, "DFS n=%d m=%d bound=%ld runs=%ld complete=%d deadlocks=%ld diffs=%ld maxsteps=%zu first_bad_sched=",
			    n, g_p.m, bound, runs, complete ? 1 : 0, deadlocks, diffs, maxsteps);
			reply(std::string(buf) + first_bad);
			continue;
		}
		reply("ERR unknown or ill-formed command");
	}
	return 0;
}
