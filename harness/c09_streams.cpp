// Two further oracle streams for C09, on the real splinetable::fit (in-process, built from the tree under test).
// usage: c09_streams <mode> <count> <out> <tier>        one JSON object per line in <out>
//  mode large: fits with MORE THAN 65536 coefficients (the flattened index of the normal matrix passes 2^32) of
//              polynomial data of degree below the penalty order (bilinear for penalty order 2), smoothing > 0; the exact
//              Rat oracle is far too expensive there, so only the reproduction at the data points is measured (theorem
//              poly_any_degree_below_penalty_reproduced: such data are reproduced for EVERY smoothing strength); the fitted
//              spline is evaluated by this file's own Cox-de Boor recursion, not by the library.
//  mode scale: generated 1-d / 2-d (thorough: also 3-d) problems with smoothing > 0, dense and missing-cell data (some
//              well-posed only thanks to the penalty); the real fit on (w, lambda) and on (s*w, s*lambda) for
//              s = 2^-60, 2^-40, 2^-20, 2^20, 2^40 (exact scalings); reports how the float coefficients differ
//              (theorem C09_scale_equivariant: same minimiser).
// All randomness from VERIF_SEED via psv::Rng.
#include "common.h"
using namespace psv;

static double bsp(const std::vector<double>& k, double x, int i, int n) {
  if (n == 0) return (x >= k[i] && x < k[i + 1]) ? 1.0 : 0.0;
  double r = 0, d1 = k[i + n] - k[i], d2 = k[i + n + 1] - k[i + 1];
  if (d1 != 0) r = (x - k[i]) * bsp(k, x, i, n - 1) / d1;
  if (d2 != 0) r += (k[i + n + 1] - x) * bsp(k, x, i + 1, n - 1) / d2;
  return r;
}

static std::string jsafe(std::string s) { for (char& ch : s) if (ch == '"' || ch == '\\' || (unsigned char)ch < 32) ch = ' '; return s; }

static void jarr(FILE* f, const char* name, const std::vector<double>& v) {
  fprintf(f, "\"%s\": [", name);
  for (size_t i = 0; i < v.size(); i++) fprintf(f, "%s%.17g", i ? ", " : "", v[i]);
  fprintf(f, "]");
}

// ------------------------------------------------------------------ large fits
struct Shape { std::vector<int> n; int order; };

static void large_case(Rng& r, FILE* out, const Shape& sh, long serial) {
  int nd = sh.n.size();
  std::vector<uint32_t> ord(nd, sh.order);
  std::vector<std::vector<double>> kn(nd), coords(nd);
  for (int d = 0; d < nd; d++) {
    int nk = sh.n[d] + sh.order + 1;
    double t = (double)r.range(-8, 8) / 4;
    for (int j = 0; j < nk; j++) { kn[d].push_back(t); t += 0.01 * (0.5 + r.unit()); }
    // abscissae inside the fully supported range [t_order, t_n): about one per knot interval, irregular, some intervals
    // empty, some with two points
    for (int j = sh.order; j < sh.n[d]; j++) {
      double a = kn[d][j], h = kn[d][j + 1] - a;
      int cnt = r.range(0, 9) < 2 ? 0 : r.range(0, 9) < 2 ? 2 : 1;
      for (int q = 0; q < cnt; q++) coords[d].push_back(a + h * (0.02 + 0.96 * (q + r.unit()) / cnt));
    }
    if (coords[d].size() < 4) coords[d].push_back(kn[d][sh.order]);
  }
  // polynomial of degree 1 in every variable (below the penalty order 2): prod_d (a_d + b_d x_d)
  std::vector<double> pa(nd), pb(nd);
  for (int d = 0; d < nd; d++) { pa[d] = (double)r.range(-8, 8) / 4; pb[d] = (double)r.range(1, 8) / 4 * (r.coin() ? 1 : -1); if (pa[d] == 0) pa[d] = 0.75; }
  static const double lams[4] = {1e-3, 0.1, 0.5, 2};
  double lam = lams[r.range(0, 3)];
  int wmul = r.range(1, 13), wmod = r.range(5, 11);
  size_t tot = 1; for (int d = 0; d < nd; d++) tot *= coords[d].size();
  photospline::ndsparse data(tot, nd);
  std::vector<double> w; w.reserve(tot);
  std::vector<unsigned> g(nd, 0);
  std::vector<double> zs; zs.reserve(tot);
  double zmax = 0;
  for (size_t q = 0; q < tot; q++) {
    double v = 1; unsigned hsh = 0;
    for (int d = 0; d < nd; d++) { v *= pa[d] + pb[d] * coords[d][g[d]]; hsh = hsh * 31 + g[d] * (unsigned)wmul; }
    data.insertEntry(v, g.data()); zs.push_back(v); zmax = std::max(zmax, std::fabs(v));
    w.push_back(0.5 + (hsh % (unsigned)wmod) * 0.25);
    int d = nd - 1; while (d >= 0 && ++g[d] == coords[d].size()) { g[d] = 0; d--; }
  }
  for (int d = 0; d < nd; d++) data.ranges[d] = coords[d].size();
  fprintf(out, "{\"kind\": \"large\", \"serial\": %ld, \"ndim\": %d, \"order\": %d, \"penalty_order\": 2, \"smoothing\": %.17g, \"ncoef_per_dim\": [", serial, nd, sh.order, lam);
  size_t N = 1;
  for (int d = 0; d < nd; d++) { fprintf(out, "%s%d", d ? ", " : "", sh.n[d]); N *= sh.n[d]; }
  fprintf(out, "], \"ncoef\": %zu, \"npts_per_dim\": [", N);
  for (int d = 0; d < nd; d++) fprintf(out, "%s%zu", d ? ", " : "", coords[d].size());
  fprintf(out, "], \"nrows\": %zu, \"weights\": \"w = 0.5 + 0.25*((fold over d of h*31 + g_d*%d, 32-bit unsigned) %% %d)\", ", tot, wmul, wmod);
  jarr(out, "poly_const", pa); fprintf(out, ", "); jarr(out, "poly_slope", pb);
  for (int d = 0; d < nd; d++) { char nm[32]; snprintf(nm, 32, "knots_%d", d); fprintf(out, ", "); jarr(out, nm, kn[d]); snprintf(nm, 32, "coords_%d", d); fprintf(out, ", "); jarr(out, nm, coords[d]); }
  fflush(out);
  auto t0 = std::chrono::steady_clock::now();
  Table t;
  bool ok = true; std::string err;
  try { t.fit(data, w, coords, ord, kn, std::vector<double>{lam}, std::vector<uint32_t>{2}, Table::no_monodim, false); }
  catch (std::exception& e) { ok = false; err = jsafe(e.what()); }
  double secs = std::chrono::duration<double>(std::chrono::steady_clock::now() - t0).count();
  if (!ok) { fprintf(out, ", \"status\": \"failed\", \"error\": \"%s\", \"seconds\": %.3f}\n", err.c_str(), secs); fflush(out); return; }
  const float* c = t.get_coefficients();
  size_t nc = t.get_ncoeffs();
  if (nc != N) { fprintf(out, ", \"status\": \"wrong-size\", \"got\": %zu}\n", nc); fflush(out); return; }
  double cmax = 0; bool finite = true;
  for (size_t i = 0; i < nc; i++) { if (!std::isfinite(c[i])) finite = false; cmax = std::max(cmax, (double)std::fabs(c[i])); }
  // own evaluation: per dimension and abscissa the (at most order+1) non-zero basis functions
  std::vector<std::vector<std::vector<std::pair<int, double>>>> bas(nd);
  for (int d = 0; d < nd; d++) {
    bas[d].resize(coords[d].size());
    for (size_t q = 0; q < coords[d].size(); q++) {
      double x = coords[d][q];
      int m = std::upper_bound(kn[d].begin(), kn[d].end(), x) - kn[d].begin() - 1;
      for (int i = std::max(0, m - sh.order); i <= std::min(m, sh.n[d] - 1); i++) { double b = bsp(kn[d], x, i, sh.order); if (b != 0) bas[d][q].push_back({i, b}); }
    }
  }
  std::vector<size_t> stride(nd, 1);
  for (int d = nd - 2; d >= 0; d--) stride[d] = stride[d + 1] * sh.n[d + 1];
  double maxres = 0; size_t worst = 0, nbad = 0; double fworst = 0;
  std::fill(g.begin(), g.end(), 0);
  for (size_t q = 0; q < tot; q++) {
    // sum over the tensor product of the local supports
    double v = 0;
    std::vector<size_t> it(nd, 0);
    bool empty = false; for (int d = 0; d < nd; d++) if (bas[d][g[d]].empty()) empty = true;
    while (!empty) {
      double b = 1; size_t pos = 0;
      for (int d = 0; d < nd; d++) { auto& pr = bas[d][g[d]][it[d]]; b *= pr.second; pos += pr.first * stride[d]; }
      v += b * (double)c[pos];
      int d = nd - 1; while (d >= 0 && ++it[d] == bas[d][g[d]].size()) { it[d] = 0; d--; }
      if (d < 0) break;
    }
    double e = std::fabs(v - zs[q]);
    if (!(e <= maxres)) { maxres = e; worst = q; fworst = v; }
    if (!(e <= 1e-4 * std::max(1.0, zmax))) nbad++;
    int d = nd - 1; while (d >= 0 && ++g[d] == coords[d].size()) { g[d] = 0; d--; }
  }
  std::vector<size_t> wi(nd); { size_t q = worst; for (int d = nd - 1; d >= 0; d--) { wi[d] = q % coords[d].size(); q /= coords[d].size(); } }
  fprintf(out, ", \"status\": \"%s\", \"seconds\": %.3f, \"max_abs_coefficient\": %.17g, \"max_abs_datum\": %.17g, \"max_residual\": %.17g, \"points_off_by_1e-4\": %zu, \"worst_point\": [",
          finite ? "ok" : "nonfinite", secs, cmax, zmax, maxres, nbad);
  for (int d = 0; d < nd; d++) fprintf(out, "%s%zu", d ? ", " : "", wi[d]);
  fprintf(out, "], \"fit_at_worst\": %.17g, \"datum_at_worst\": %.17g}\n", fworst, zs[worst]);
  fflush(out);
}

// ------------------------------------------------------------------ scale equivariance
static bool fit_once(int nd, const std::vector<std::vector<unsigned>>& idx, const std::vector<double>& z, const std::vector<double>& w,
                     const std::vector<std::vector<double>>& coords, const std::vector<uint32_t>& ord, const std::vector<std::vector<double>>& kn,
                     const std::vector<double>& smooth, const std::vector<uint32_t>& porder, std::vector<float>& out, std::string& err) {
  photospline::ndsparse data(idx.size(), nd);
  for (size_t r = 0; r < idx.size(); r++) { std::vector<unsigned> t = idx[r]; data.insertEntry(z[r], t.data()); }
  for (int d = 0; d < nd; d++) data.ranges[d] = coords[d].size();
  Table t;
  try { t.fit(data, w, coords, ord, kn, smooth, porder, Table::no_monodim, false); }
  catch (std::exception& e) { err = jsafe(e.what()); return false; }
  out.assign(t.get_coefficients(), t.get_coefficients() + t.get_ncoeffs());
  return true;
}

static long long fkey(float f) { uint32_t u = bits(f); return (u >> 31) ? -(long long)(u & 0x7fffffffU) : (long long)u; }

static void scale_case(Rng& r, FILE* out, bool thorough, long serial) {
  int w100 = r.range(0, 99);
  int nd = w100 < 45 ? 1 : (thorough && w100 >= 90) ? 3 : 2;
  std::vector<uint32_t> ord(nd);
  std::vector<std::vector<double>> kn(nd), coords(nd);
  int maxn = nd == 1 ? 60 : nd == 2 ? 24 : 8;
  for (int d = 0; d < nd; d++) {
    ord[d] = r.range(0, 4);
    int n = r.range(ord[d] + 1, std::max<int>(ord[d] + 2, maxn));
    int nk = n + ord[d] + 1;
    double v = (double)r.range(-8, 8) / 4;
    bool dyadic = r.coin(1, 2);
    for (int i = 0; i < nk; i++) { kn[d].push_back(v); v += dyadic ? (double)r.range(1, 6) / 4 : 0.1 + r.unit(); }
    int npts = n + r.range(0, 6);
    double lo = kn[d][ord[d]], hi = kn[d][n];
    if (r.coin(1, 4)) { lo = 0.5 * (kn[d][0] + lo); hi = 0.5 * (hi + kn[d][nk - 1]); }
    for (int j = 0; j < npts; j++) { double x = lo + (hi - lo) * (j + 0.05 + 0.9 * r.unit()) / npts; if (x >= hi) x = lo + (hi - lo) * 0.999; coords[d].push_back(x); }
    if (r.coin(1, 3)) for (int j = npts - 1; j > 0; j--) std::swap(coords[d][j], coords[d][r.below(j + 1)]);
  }
  static const double lams[4] = {1e-3, 1, 1e3, 1e6};
  bool perdim_s = nd > 1 && r.coin(), perdim_p = nd > 1 && r.coin();
  std::vector<double> smooth; std::vector<uint32_t> porder;
  auto lam = [&]() { return r.coin(2, 3) ? lams[r.range(0, 3)] : std::pow(10.0, r.unit() * 8 - 4); };
  if (perdim_s) for (int d = 0; d < nd; d++) smooth.push_back(lam()); else smooth.push_back(lam());
  uint32_t minord = *std::min_element(ord.begin(), ord.end());
  if (perdim_p) for (int d = 0; d < nd; d++) porder.push_back(r.range(0, ord[d])); else porder.push_back(r.range(0, minord));
  bool missing = r.coin(3, 5);
  int droppct = missing ? r.range(10, 70) : 0;
  int wstyle = r.range(0, 3);   // 0: 10^U(-3,3)  1: all 1  2: tiny (1e-18-ish: huge variances)  3: huge
  std::vector<std::vector<unsigned>> idx; std::vector<double> z, w;
  std::vector<unsigned> g(nd, 0);
  bool done = false;
  while (!done) {
    if ((int)r.below(100) >= droppct) {
      double s = 0; for (int d = 0; d < nd; d++) s += std::sin(1.3 * coords[d][g[d]] + d);
      idx.push_back(g); z.push_back(s + 0.3 * (r.unit() - 0.5));
      double ww = wstyle == 1 ? 1.0 : std::pow(10.0, r.unit() * 6 - 3) * (wstyle == 2 ? 1e-18 : wstyle == 3 ? 1e12 : 1.0);
      if (r.coin(1, 15)) ww = 0.0;
      w.push_back(ww);
    }
    int d = nd - 1; while (d >= 0 && ++g[d] == coords[d].size()) { g[d] = 0; d--; }
    if (d < 0) done = true;
  }
  if (idx.empty()) return;
  // tiny / huge weights come with a smoothing of the same scale (the objective is merely rescaled)
  if (wstyle == 2) for (double& l : smooth) l *= 1e-18;
  if (wstyle == 3) for (double& l : smooth) l *= 1e12;
  // the problem in the F format of c09_harness (so that bin/props/C09.py can describe it)
  fprintf(out, "{\"kind\": \"scale\", \"serial\": %ld, \"ndim\": %d, \"missing_pct\": %d, \"weight_style\": %d, \"case_line\": \"F %d", serial, nd, droppct, wstyle, nd);
  for (int d = 0; d < nd; d++) { fprintf(out, " %u %zu", ord[d], kn[d].size()); for (double v : kn[d]) fprintf(out, " %llu", (unsigned long long)bits(v)); }
  for (int d = 0; d < nd; d++) { fprintf(out, " %zu", coords[d].size()); for (double v : coords[d]) fprintf(out, " %llu", (unsigned long long)bits(v)); }
  fprintf(out, " %zu", idx.size());
  for (size_t q = 0; q < idx.size(); q++) { for (unsigned v : idx[q]) fprintf(out, " %u", v); fprintf(out, " %llu %llu", (unsigned long long)bits(z[q]), (unsigned long long)bits(w[q])); }
  fprintf(out, " %zu", smooth.size()); for (double v : smooth) fprintf(out, " %llu", (unsigned long long)bits(v));
  fprintf(out, " %zu", porder.size()); for (uint32_t v : porder) fprintf(out, " %u", v);
  fprintf(out, "\", ");
  jarr(out, "smoothing", smooth);
  size_t N = 1; for (int d = 0; d < nd; d++) N *= kn[d].size() - ord[d] - 1;
  fprintf(out, ", \"ncoef\": %zu, \"nrows\": %zu", N, idx.size());
  std::vector<float> base, c2; std::string err;
  if (!fit_once(nd, idx, z, w, coords, ord, kn, smooth, porder, base, err)) {
    fprintf(out, ", \"base\": \"failed\", \"error\": \"%s\"}\n", err.c_str()); fflush(out); return;
  }
  double cmax = 0; bool finite = true;
  for (float v : base) { if (!std::isfinite(v)) finite = false; cmax = std::max(cmax, (double)std::fabs(v)); }
  fprintf(out, ", \"base\": \"%s\", \"max_abs_coefficient\": %.17g, \"results\": [", finite ? "ok" : "nonfinite", cmax);
  static const int exps[5] = {-60, -40, -20, 20, 40};
  for (int q = 0; q < 5; q++) {
    double s = std::ldexp(1.0, exps[q]);
    std::vector<double> w2 = w, sm2 = smooth;
    for (double& v : w2) v *= s;
    for (double& v : sm2) v *= s;
    fprintf(out, "%s{\"log2_s\": %d, ", q ? ", " : "", exps[q]);
    jarr(out, "scaled_smoothing", sm2);
    if (!fit_once(nd, idx, z, w2, coords, ord, kn, sm2, porder, c2, err)) { fprintf(out, ", \"status\": \"failed\", \"error\": \"%s\"}", err.c_str()); continue; }
    size_t ndiff = 0, at = 0; long long maxulp = 0; double maxabs = 0; bool fin2 = true;
    for (size_t i = 0; i < base.size() && i < c2.size(); i++) {
      if (!std::isfinite(c2[i])) fin2 = false;
      if (bits(base[i]) != bits(c2[i])) ndiff++;
      long long du = std::llabs(fkey(base[i]) - fkey(c2[i]));
      if (du > maxulp) maxulp = du;
      double da = std::fabs((double)base[i] - (double)c2[i]);
      if (da > maxabs) { maxabs = da; at = i; }
    }
    fprintf(out, ", \"status\": \"%s\", \"coefficients_differing\": %zu, \"max_ulps_float\": %lld, \"max_abs_diff\": %.17g, \"at\": %zu, \"base_there\": %.9g, \"scaled_there\": %.9g}",
            c2.size() != base.size() ? "wrong-size" : fin2 ? "ok" : "nonfinite", ndiff, maxulp, maxabs, at, base.empty() ? 0.0 : (double)base[at], c2.empty() ? 0.0 : (double)c2[at]);
  }
  fprintf(out, "]}\n"); fflush(out);
}

int main(int argc, char** argv) {
  if (argc < 5) { fprintf(stderr, "usage: c09_streams large|scale count out tier\n"); return 2; }
  std::string mode = argv[1], tier = argv[4];
  long n = atol(argv[2]);
  FILE* out = fopen(argv[3], "w");
  bool thorough = tier == "thorough";
  if (mode == "large") {
    Rng r(env_seed() * 0x9e3779b97f4a7c15ULL + 919);
    for (long i = 0; i < n; i++) {
      Shape sh;
      int pick = i == 0 ? 0 : (int)((i + env_seed()) % 4);
      if (thorough && i == n - 1) { sh.n = {41, 41, 41}; sh.order = 2; }                     // 68921 coefficients in 3-d
      else if (pick == 0) { sh.n = {257, 257}; sh.order = 2; }                                 // the smallest square above 2^16
      else if (pick == 1) { sh.n = {r.range(257, 270), r.range(257, 262)}; sh.order = 2; }
      else if (pick == 2) { sh.n = {r.range(300, 330), r.range(220, 240)}; sh.order = r.range(2, 3); }
      else { sh.n = {r.range(180, 200), r.range(370, 400)}; sh.order = 2; }
      large_case(r, out, sh, i);
    }
  } else {
    Rng r(env_seed() * 0x9e3779b97f4a7c15ULL + 929);
    for (long i = 0; i < n; i++) scale_case(r, out, thorough, i);
  }
  fclose(out);
  return 0;
}
