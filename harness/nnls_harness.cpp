// C11 correspondence harness: runs the four exported NNLS solvers of /repo/src/fitter/nnls.c in-process
// (each call in a forked child so that a hang, an abort or exit(1) is a *result*, not the end of the run)
// on generated symmetric positive-definite systems and prints system + returned vector as bit patterns.
//
// usage: nnls_harness <nsmall> <nlarge> <cases.out> <impl.out> <stats.out> <kkt_tol> <hang_seconds> [<nmedium>]
//        nnls_harness replay <caseline-file> <impl.out> <hang_seconds>
//        nnls_harness big <count> <big.out> <kkt_tol> <hang_seconds>            large dense staged-release stream (kind 11), judged here
//        nnls_harness bigreplay <big.out> <kkt_tol> <hang_seconds> <solver> <descriptor fields...>
//        nnls_harness corpus <corpus.txt> <cases.out> <impl.out> <stats.out> <kkt_tol> <hang_seconds> <t2,t3,..>   (kind 12; every solver at 1 worker, updown/block3 also at t2, t3, ..)
//
// cases.out lines
//   SYS id kind n ls rows nnz (i j bits)*nnz  v bits*rows      ls=0: A=M (n x n), b=v;  ls=1: A=M'M, b=M'v
//       kinds 0-4,7 small (n <= 12), 5 large sparse banded, 6 least-squares form,
//       8-10 dense n = 30..220 (<nmedium> systems; multi-row factor updates, see gen_dense_gram / gen_staged / gen_overshoot)
//   X id solver tolbits [nthreads]                              solver 0 LH(normaleq) 1 block 2 updown 3 block3 4 LH(least squares);
//                                                               nthreads: OMP_NUM_THREADS/GOTO_NUM_THREADS of this call (line-search workers)
// impl.out lines (one per cases line)
//   sys
//   ok bits*n | iters=<n> cap=<0/1> walk=<n> boundary=<n> full=<n> stuck=<n> constr=<n>
//               rowadd=<calls> madd=<calls adding >= 2 rows> rowdel=<calls> mdel=<calls deleting >= 2 rows> maxrows=<n> refac=<n> retries=<n>
//               forced=<walk_descents calls that took the last trial although no trial reduced the residual (d_res >= 0)> fidx=<their trial indices>
//               [ldkkt=<0/1> ldneed=<f> ldtol=<f>: long-double KKT verdict of this harness, kinds >= 8; cross-checked against the exact driver]
//   hang | abort <status>
#include <cholmod.h>
#include <sys/wait.h>
#include <unistd.h>
#include <fcntl.h>
#include <signal.h>
#include <time.h>
#include <string>
#include <vector>
#include <map>
#include <cstdio>
#include <cstdlib>
#include <cstring>
#include <cmath>
#include <cstdint>
#include <sstream>
#include <fstream>
#include <iostream>
extern "C" {
#include "photospline/detail/splineutil.h"
}

namespace {
struct Rng {
  uint64_t s;
  explicit Rng(uint64_t seed) : s(seed) {}
  uint64_t next() { uint64_t z = (s += 0x9e3779b97f4a7c15ULL); z = (z ^ (z >> 30)) * 0xbf58476d1ce4e5b9ULL; z = (z ^ (z >> 27)) * 0x94d049bb133111ebULL; return z ^ (z >> 31); }
  uint64_t below(uint64_t n) { return n ? next() % n : 0; }
  int range(int lo, int hi) { return lo + (int)below((uint64_t)(hi - lo + 1)); }
  double unit() { return (next() >> 11) * (1.0 / 9007199254740992.0); }
  bool coin(int num = 1, int den = 2) { return (int)below(den) < num; }
};
uint64_t bits(double d) { uint64_t u; memcpy(&u, &d, 8); return u; }
double from_bits(uint64_t u) { double d; memcpy(&d, &u, 8); return d; }

struct Sys {
  int kind, n, ls, rows;                 // M is rows x n
  std::vector<int> ti, tj; std::vector<double> tx;  // triplets of M (all entries, both triangles)
  std::vector<double> v;                 // rows
};

std::string sys_line(long id, const Sys& s) {
  std::ostringstream o;
  o << "SYS " << id << " " << s.kind << " " << s.n << " " << s.ls << " " << s.rows << " " << s.tx.size();
  for (size_t k = 0; k < s.tx.size(); k++) o << " " << s.ti[k] << " " << s.tj[k] << " " << bits(s.tx[k]);
  o << " v";
  for (double d : s.v) o << " " << bits(d);
  return o.str();
}

bool parse_sys(const std::string& line, long& id, Sys& s) {
  std::istringstream in(line); std::string tag; size_t nnz;
  if (!(in >> tag >> id >> s.kind >> s.n >> s.ls >> s.rows >> nnz) || tag != "SYS") return false;
  s.ti.resize(nnz); s.tj.resize(nnz); s.tx.resize(nnz);
  for (size_t k = 0; k < nnz; k++) { uint64_t u; if (!(in >> s.ti[k] >> s.tj[k] >> u)) return false; s.tx[k] = from_bits(u); }
  if (!(in >> tag) || tag != "v") return false;
  s.v.resize(s.rows);
  for (int k = 0; k < s.rows; k++) { uint64_t u; if (!(in >> u)) return false; s.v[k] = from_bits(u); }
  return true;
}

// dense symmetric n x n (row-major) -> Sys with ls = 0
Sys from_dense(int kind, int n, const std::vector<double>& A, const std::vector<double>& b) {
  Sys s; s.kind = kind; s.n = n; s.ls = 0; s.rows = n; s.v = b;
  for (int i = 0; i < n; i++) for (int j = 0; j < n; j++) if (A[i * n + j] != 0) { s.ti.push_back(i); s.tj.push_back(j); s.tx.push_back(A[i * n + j]); }
  return s;
}

double dyadic(Rng& r, int lo, int hi, int den) { return (double)r.range(lo * den, hi * den) / den; }

// A = B'B + eps I computed exactly (entries of B are multiples of 1/16, |.| <= 2, <= 40 rows: all sums exact in double)
void gram(int n, int m, const std::vector<double>& B, double eps, std::vector<double>& A) {
  A.assign(n * n, 0.0);
  for (int i = 0; i < n; i++) for (int j = i; j < n; j++) {
    double s = (i == j) ? eps : 0.0;
    for (int k = 0; k < m; k++) s += B[k * n + i] * B[k * n + j];
    A[i * n + j] = A[j * n + i] = s;
  }
}

Sys gen_small(Rng& r, int kind, int nmax) {
  int n = r.range(1, nmax);
  if (r.coin(1, 6)) n = nmax;
  int m = n + r.range(0, 4);
  std::vector<double> B(m * n), A, b(n);
  double dens = (kind == 1) ? 0.35 : 1.0;
  for (auto& e : B) e = (r.unit() < dens) ? dyadic(r, -2, 2, 16) : 0.0;
  double eps = (double)r.range(1, 64) / 64.0;
  switch (kind) {
    case 0: case 1: {   // dense / sparse dyadic Gram matrix, random right-hand side
      gram(n, m, B, eps, A);
      for (auto& e : b) e = dyadic(r, -4, 4, 16);
      if (r.coin(1, 3)) for (auto& e : b) e = std::fabs(e);      // many free coefficients
      break; }
    case 2: {           // degenerate: exact solution with exact zeros; ties x_i = g_i = 0
      gram(n, m, B, eps, A);
      std::vector<double> xs(n), g(n);
      for (int i = 0; i < n; i++) {
        int c = r.range(0, 3);
        xs[i] = (c == 0) ? dyadic(r, 0, 3, 8) : 0.0;             // may also be exactly 0
        g[i] = (xs[i] == 0 && c == 1) ? dyadic(r, 0, 2, 8) : 0.0; // c >= 2: x_i = 0 and g_i = 0 (tie)
      }
      if (r.coin(1, 4)) { double t = dyadic(r, 0, 2, 8); for (int i = 0; i < n; i++) if (xs[i] != 0) xs[i] = t; } // equal components
      for (int i = 0; i < n; i++) { double s = -g[i]; for (int j = 0; j < n; j++) s += A[i * n + j] * xs[j]; b[i] = s; } // exact: small dyadics
      break; }
    case 3: case 7: {   // badly scaled: D A D, D b with D = diag(2^e); kind 3: |e| <= 10 (entries of A over 1e-6 .. 1e6),
                        // kind 7: |e| <= 20 (D itself over 1e-6 .. 1e6; column norms 1e12 apart: below SuiteSparseQR's default
                        // rank tolerance, so Lawson-Hanson is not run on these)
      gram(n, m, B, eps, A);
      for (auto& e : b) e = dyadic(r, -4, 4, 16);
      std::vector<int> e(n);
      int style = r.range(0, 2);
      int E = (kind == 3) ? 10 : 20;
      for (int i = 0; i < n; i++) e[i] = style == 0 ? r.range(-E, E) : (style == 1 ? (r.coin() ? E : -E) : r.range(-E, 0));
      for (int i = 0; i < n; i++) { b[i] = std::ldexp(b[i], e[i]); for (int j = 0; j < n; j++) A[i * n + j] = std::ldexp(A[i * n + j], e[i] + e[j]); }
      break; }
    default: {          // 4: arbitrary doubles (rounded Gram matrix; positive definiteness certified exactly by the driver)
      for (auto& e2 : B) e2 = r.unit() * 2 - 1;
      A.assign(n * n, 0.0);
      double ep = 0.01 + r.unit();
      for (int i = 0; i < n; i++) for (int j = i; j < n; j++) { double s = (i == j) ? ep : 0.0; for (int k = 0; k < m; k++) s += B[k * n + i] * B[k * n + j]; A[i * n + j] = A[j * n + i] = s; }
      for (auto& e2 : b) e2 = r.unit() * 4 - 2;
      break; }
  }
  Sys s = from_dense(kind, n, A, b);
  return s;
}

// least-squares form for Lawson-Hanson with normaleq = 0: M = B (m x n, full column rank by an identity block), v = y
Sys gen_ls(Rng& r, int nmax) {
  int n = r.range(1, nmax), m = n + r.range(0, 4);
  Sys s; s.kind = 6; s.n = n; s.ls = 1; s.rows = m + n; s.v.resize(m + n);
  for (int k = 0; k < m; k++) for (int j = 0; j < n; j++) { double e = r.coin(2, 3) ? dyadic(r, -2, 2, 16) : 0.0; if (e != 0) { s.ti.push_back(k); s.tj.push_back(j); s.tx.push_back(e); } }
  double d = (double)r.range(1, 8) / 8.0;
  for (int j = 0; j < n; j++) { s.ti.push_back(m + j); s.tj.push_back(j); s.tx.push_back(d); }   // sqrt(eps) I block: M'M = B'B + d^2 I
  for (auto& e : s.v) e = dyadic(r, -4, 4, 16);
  return s;
}

// large sparse: banded integer B (n+2 x n) => A = B'B + I exactly representable, SPD by construction
Sys gen_large(Rng& r, int nlo, int nhi) {
  int n = r.range(nlo, nhi), bw = r.range(1, 4);
  std::vector<std::map<int, double>> rowsB(n + bw);
  for (int k = 0; k < n + bw; k++) for (int j = std::max(0, k - bw); j <= std::min(n - 1, k); j++) if (r.coin(3, 4)) rowsB[k][j] = (double)r.range(-3, 3);
  std::vector<std::map<int, double>> A(n);
  for (int i = 0; i < n; i++) A[i][i] = 1.0;
  for (auto& row : rowsB) for (auto& a : row) for (auto& c : row) A[a.first][c.first] += a.second * c.second;
  Sys s; s.kind = 5; s.n = n; s.ls = 0; s.rows = n; s.v.resize(n);
  for (int i = 0; i < n; i++) for (auto& e : A[i]) if (e.second != 0) { s.ti.push_back(i); s.tj.push_back(e.first); s.tx.push_back(e.second); }
  for (auto& e : s.v) e = (double)r.range(-8, 8);
  return s;
}

// ---- medium/large DENSE systems (n >= 30): the classes on which modify_factor takes its row-by-row path
// (cholmod_rowadd / cholmod_rowdel on a full-size factor) for SEVERAL rows in one call.  The heuristic
// fl / (9 * threads * (nH1+nH2) * modfl) > 1 needs a (nearly) dense factor with n > ~14 * (rows changed), an earlier
// update request that built the full-size factor, and then a change of >= 2 rows: quick small systems never get there.
// All entries are small integers (times a power of two for the scaled variant): A, b exact in double.
// Checked through the exact KKT test only (no enumeration).

void shuffle(Rng& r, std::vector<int>& p) { for (size_t i = p.size(); i > 1; i--) std::swap(p[i - 1], p[r.below(i)]); }

// kind 8: dense integer Gram matrix A = B'B + I (B (n+extra) x n, entries -2..2 at density d), right-hand side with a
// chosen fraction of positive entries (the sign of b_i decides whether coefficient i is released in the first iteration)
Sys gen_dense_gram(Rng& r, int nlo, int nhi) {
  int n = r.range(nlo, nhi), m = n + r.range(0, 8);
  double dens = r.coin(1, 3) ? 0.5 : 1.0;
  std::vector<double> B((size_t)m * n), A((size_t)n * n, 0.0), b(n);
  for (auto& e : B) e = (r.unit() < dens) ? (double)r.range(-2, 2) : 0.0;
  for (int i = 0; i < n; i++) for (int j = i; j < n; j++) {
    double s = (i == j) ? 1.0 : 0.0;
    for (int k = 0; k < m; k++) s += B[(size_t)k * n + i] * B[(size_t)k * n + j];
    A[(size_t)i * n + j] = A[(size_t)j * n + i] = s;
  }
  int style = r.range(0, 3);            // 0: symmetric signs, 1: mostly positive, 2: nearly all positive, 3: b = A x0 - g0 (planted solution)
  if (style == 3) {
    std::vector<double> x0(n), g0(n);
    int fnum = r.range(0, 2) == 0 ? 2 : (r.coin() ? 9 : 29), fden = fnum + 1;     // planted support: 2/3, 9/10 or 29/30 of the coefficients
    for (int i = 0; i < n; i++) { bool fr = r.coin(fnum, fden); x0[i] = fr ? (double)r.range(1, 6) : 0.0; g0[i] = fr ? 0.0 : (double)r.range(1, 40); }
    for (int i = 0; i < n; i++) { double s = -g0[i]; for (int j = 0; j < n; j++) s += A[(size_t)i * n + j] * x0[j]; b[i] = s; }
  } else {
    int num = style == 0 ? 1 : (style == 1 ? 4 : 15), den = style == 0 ? 2 : (style == 1 ? 5 : 16);
    for (auto& e : b) { double a = (double)r.range(1, 24); e = r.coin(num, den) ? a : -a; }
  }
  return from_dense(8, n, A, b);
}

// kind 9: staged release.  A = D - N + (sign-flipped couplings): symmetric, integer, strictly diagonally dominant with positive
// diagonal (a_ii = 1 + sum_j |a_ij|), i.e. a weighted graph Laplacian plus identity = B'B + I for the signed incidence
// matrix B.  Variables: a large dense core C (b > 0: released in the first iteration) and a chain of small groups
// Q_1 .. Q_s (b = 0 or slightly negative), Q_j coupled to Q_{j-1} (Q_0 = C) by negative entries: x_{Q_{j-1}} > 0 makes the
// gradient on Q_j negative, so Q_j (k_j >= 2 coefficients at once) is released in iteration j, after the full-size factor
// exists.  Positive couplings (probability pflip) push already free coefficients negative instead, which gives multi-row
// deletions.  The index sets are scattered by a random permutation (or kept contiguous / reversed).
Sys gen_staged(Rng& r, int nlo, int nhi, bool updown_style) {
  int n = r.range(nlo, nhi);
  int stages = r.range(1, 4);
  std::vector<int> k(stages + 1);
  int kmax = r.coin(1, 4) ? 9 : 4, used = 0;
  for (int j = 1; j <= stages; j++) { k[j] = r.coin(1, 6) ? 1 : r.range(2, kmax); used += k[j]; }
  if (updown_style) {
    // nnls_normal_block_updown switches whole blocks only while the number of infeasible coefficients stays above its
    // murty_steps counter (5, +1 per block step): a first group of >= 8 released together (still few enough for the
    // row-by-row path, n > ~14 k_1), then smaller ones
    stages = r.range(2, 4); k.assign(stages + 1, 0); used = 0;
    k[1] = r.range(8, std::max(8, n / 14));
    for (int j = 2; j <= stages; j++) k[j] = r.range(2, std::max(2, std::min(k[j - 1] + 1, 12 - 3 * j)));
    for (int j = 1; j <= stages; j++) used += k[j];
  }
  if (used > n / 3) { stages = 1; k.resize(2); k[1] = 2; used = 2; }
  k[0] = n - used;
  std::vector<int> perm(n); for (int i = 0; i < n; i++) perm[i] = i;
  int pstyle = r.range(0, 3);
  if (pstyle == 0) shuffle(r, perm); else if (pstyle == 1) for (int i = 0; i < n; i++) perm[i] = n - 1 - i;
  std::vector<int> start(stages + 2, 0); for (int j = 0; j <= stages; j++) start[j + 1] = start[j] + k[j];
  std::vector<double> A((size_t)n * n, 0.0), b(n, 0.0);
  auto add = [&](int u, int v, double w) { int a = perm[u], c = perm[v]; A[(size_t)a * n + c] += w; A[(size_t)c * n + a] += w; };
  double dens = r.coin(1, 4) ? 0.6 : 1.0;
  int pflip = r.coin(1, 3) ? r.range(1, 3) : 0;      // out of 10
  for (int u = 0; u < k[0]; u++) for (int v = u + 1; v < k[0]; v++) if (r.unit() < dens) add(u, v, -(double)r.range(1, 3));
  for (int j = 1; j <= stages; j++) {
    for (int u = start[j]; u < start[j + 1]; u++) {
      int deg = r.range(1, 3);
      for (int t = 0; t < deg; t++) {
        int v = start[j - 1] + (int)r.below(k[j - 1]);
        if (A[(size_t)perm[u] * n + perm[v]] != 0) continue;
        double w = (double)r.range(1, 3);
        add(u, v, ((int)r.below(10) < pflip) ? w : -w);
      }
      for (int v = u + 1; v < start[j + 1]; v++) if (r.coin(1, 3)) add(u, v, -(double)r.range(1, 2));
    }
  }
  for (int i = 0; i < n; i++) { double s = 1.0; for (int j = 0; j < n; j++) if (j != i) s += std::fabs(A[(size_t)i * n + j]); A[(size_t)i * n + i] = s; }
  int bstyle = r.range(0, 2);
  for (int u = 0; u < n; u++) {
    double e;
    if (u < k[0]) e = (bstyle == 2 && r.coin(1, 8)) ? -(double)r.range(1, 8) : (double)r.range(1, 16) * (double)k[0];
    else e = bstyle == 0 ? 0.0 : (r.coin(1, 2) ? 0.0 : -(double)r.range(1, 4) / 16.0);
    b[perm[u]] = e;
  }
  if (r.coin(1, 5)) {   // badly scaled copy: D A D, D b with D = diag(2^e), |e| <= 8 (exact)
    for (int i = 0; i < n; i++) { int e = r.range(-8, 8); b[i] = std::ldexp(b[i], e); for (int j = 0; j < n; j++) { A[(size_t)i * n + j] = std::ldexp(A[(size_t)i * n + j], e); A[(size_t)j * n + i] = std::ldexp(A[(size_t)j * n + i], e); } }
  }
  return from_dense(9, n, A, b);
}

// kind 10: overshoot.  Same matrix family as kind 9 (integer, strictly diagonally dominant), planted unconstrained solution
// x0 = A^-1 b with a large positive core and a small group N (k >= 2) of slightly NEGATIVE components, b = A x0 > 0 (exact):
// every coefficient is released in the first iteration (so the factor is full-size at once), the solve returns x0, and the
// whole group N has to be constrained again in one call (multi-row deletion; "descent at boundary" in BLOCK3).  An optional
// tail group Q (b slightly negative, negatively coupled to the core) is released one iteration later.
Sys gen_overshoot(Rng& r, int nlo, int nhi) {
  int n = r.range(nlo, nhi);
  int k = r.coin(1, 5) ? r.range(2, std::max(2, n / 6)) : r.range(2, std::max(2, n / 16));
  int q = r.coin(1, 2) ? r.range(1, 4) : 0;
  int core = n - k - q;
  std::vector<int> perm(n); for (int i = 0; i < n; i++) perm[i] = i;
  int pstyle = r.range(0, 2);
  if (pstyle == 0) shuffle(r, perm); else if (pstyle == 1) for (int i = 0; i < n; i++) perm[i] = n - 1 - i;
  std::vector<double> A((size_t)n * n, 0.0), b(n, 0.0), x0(n, 0.0);
  auto add = [&](int u, int v, double w) { int a = perm[u], c = perm[v]; A[(size_t)a * n + c] += w; A[(size_t)c * n + a] += w; };
  double dens = r.coin(1, 4) ? 0.6 : 1.0, densN = r.coin(1, 2) ? 1.0 : 0.4;
  for (int u = 0; u < core; u++) for (int v = u + 1; v < core; v++) if (r.unit() < dens) add(u, v, -(double)r.range(1, 3));
  for (int u = core; u < core + k; u++) {                      // N: positive couplings to the core, mixed inside
    bool any = false;
    for (int v = 0; v < core; v++) if (r.unit() < densN) { add(u, v, (double)r.range(1, 3)); any = true; }
    if (!any) add(u, (int)r.below(core), 2.0);
    for (int v = u + 1; v < core + k; v++) if (r.coin(1, 3)) add(u, v, r.coin() ? 1.0 : -1.0);
  }
  for (int u = core + k; u < n; u++) { int deg = r.range(1, 3); for (int t = 0; t < deg; t++) { int v = (int)r.below(core); if (A[(size_t)perm[u] * n + perm[v]] == 0) add(u, v, -(double)r.range(1, 3)); } }
  for (int i = 0; i < n; i++) { double s = 1.0; for (int j = 0; j < n; j++) if (j != i) s += std::fabs(A[(size_t)i * n + j]); A[(size_t)i * n + i] = s; }
  double c0 = (double)(r.range(4, 8) * (1 + 3 * k));
  bool vary = r.coin(1, 3);
  for (int u = 0; u < core; u++) x0[perm[u]] = c0 + (vary ? (double)r.range(0, 2) : 0.0);
  for (int u = core; u < core + k; u++) x0[perm[u]] = -(double)r.range(1, 7) / 8.0;
  for (int i = 0; i < n; i++) { double s = 0; for (int j = 0; j < n; j++) s += A[(size_t)i * n + j] * x0[j]; b[i] = s; }
  for (int u = core + k; u < n; u++) b[perm[u]] = -(double)r.range(1, 4) / 16.0;      // tail: not part of the planted solution
  return from_dense(10, n, A, b);
}


// ---- kind 11: LARGE dense staged release, n = 600..1600 (seeded change C11-5).  After repo fix 20cd6bb modify_factor takes the
// row-by-row path for nH1+nH2 >= 2 rows only if fl / (9*16*(nH1+nH2)*modfl) > 1; with a dense factor fl ~ n^3/3 and
// modfl ~ lnz ~ n^2/2 that is n > ~216 * (rows changed) - and only on a factor that is already full-size, i.e. after an
// earlier update REQUEST (a single released coefficient always requests one).  Construction (same matrix family as kind 9:
// integer, symmetric, strictly diagonally dominant with a_ii = 1 + sum_j |a_ij|, so all eigenvalues lie in [1, 2 a_ii]):
//   core C (dense, negative couplings, b > 0)             released in iteration 0   (factor of A[C,C] only)
//   Q_1 = one coefficient t, pulled up by the core         released in iteration 1   (single row: update requested -> full-size factor)
//   Q_2, Q_3, ... groups of 2..6 MUTUALLY COUPLED coefficients, Q_j pulled up by Q_{j-1}: released TOGETHER in iteration j
//   (multi-row cholmod_rowadd, nH2 = |Q_j|).
// A system is a function of its descriptor (generator seed + sizes): the replay carries the descriptor, not 2.25 million entries.
struct BigDesc { uint64_t gseed; int n, pstyle, scale, dense10, ridge, neg, nst; int k[8]; };

std::string big_desc_str(const BigDesc& d) {
  std::ostringstream o; o << d.gseed << " " << d.n << " " << d.pstyle << " " << d.scale << " " << d.dense10 << " " << d.ridge << " " << d.neg << " " << d.nst;
  for (int j = 0; j < d.nst; j++) o << " " << d.k[j];
  return o.str();
}

bool big_desc_parse(std::istream& in, BigDesc& d) {
  if (!(in >> d.gseed >> d.n >> d.pstyle >> d.scale >> d.dense10 >> d.ridge >> d.neg >> d.nst) || d.ridge < 0 || d.neg < 0 || d.neg > d.n / 8 || d.nst < 0 || d.nst > 8 || d.n < 8 || d.n > 4000) return false;
  int used = 0;
  for (int j = 0; j < d.nst; j++) { if (!(in >> d.k[j]) || d.k[j] < 1) return false; used += d.k[j]; }
  return used < d.n / 2 && (d.nst > 0 || d.neg > 0);
}

BigDesc draw_big(Rng& r, int slot) {
  BigDesc d; d.gseed = r.next() >> 1;
  d.pstyle = r.range(0, 2); d.scale = r.coin(1, 4) ? 1 : 0; d.dense10 = r.coin(1, 4) ? 8 : 10;
  { int rg[4] = {0, 2, 8, 32}; d.ridge = rg[r.range(0, 3)]; }   // extra diagonal weight of the staged coefficients: the weaker their mutual
                                                                // coupling relative to the diagonal, the smaller the effect of a wrong factor row
  d.neg = 0;
  if (slot % 5 == 2) {
    // overshoot (the large counterpart of kind 10): every coefficient is released at once - the first factor is already
    // full-size - and a planted group of 2..4 slightly negative components is constrained in ONE call: multi-row
    // cholmod_rowdel (nH1 >= 2; needs n > ~216 * rows as well); optionally one group released afterwards
    d.n = r.range(900, 1300); d.neg = r.range(2, std::min(4, d.n / 300)); d.ridge = 0;
    d.nst = r.coin() ? 0 : 1; d.k[0] = r.range(1, 2);
    return d;
  }
  if (slot % 5 == 4) {
    // nnls_normal_block_updown switches whole blocks only while the number of infeasible coefficients keeps falling and stays above
    // its murty_steps counter (5, +1 per block step): stages of 9..10 and then 8..9 coefficients; the first one is the update
    // request (n > 216 * 10), the second one the multi-row add
    d.n = r.range(2200, 2400); d.dense10 = 10; d.nst = 2; d.k[0] = r.range(9, 10); d.k[1] = r.range(8, d.k[0] - 1);
    return d;
  }
  // sizes: one system near each end of the range and the rest in between; the number of rows that can be added in one
  // row-by-row call grows with n (about n / 216)
  int lo[4] = {620, 1380, 0, 1100}, hi[4] = {800, 1600, 0, 1500};
  d.n = r.range(lo[slot % 5], hi[slot % 5]);
  int kcap = std::max(2, std::min(6, d.n / 240));
  // mostly ONE group after the single coefficient: a factor damaged by the multi-row add is then the one the returned vector is
  // computed from; with further stages the next multi-row change usually recomputes the factor from scratch (the flop estimate of
  // a row modification, Common->modfl, has grown by then), which hides the damage
  d.nst = r.coin(2, 3) ? 2 : r.range(3, 4);
  d.k[0] = 1;                                       // the single coefficient whose release builds the full-size factor
  for (int j = 1; j < d.nst; j++) d.k[j] = r.range(2, kcap);
  if (slot % 5 == 3 && d.nst >= 3) d.k[d.nst - 1] = 1;     // a late single release after a multi-row add
  return d;
}

// roles[i]: 0 core, -1 planted negative group, j >= 1 member of stage j
Sys gen_big(const BigDesc& d, std::vector<int>* roles = nullptr) {
  Rng r(d.gseed * 2 + 1);
  int n = d.n, used = 0; for (int j = 0; j < d.nst; j++) used += d.k[j];
  std::vector<int> k(d.nst + 1), start(d.nst + 2, 0);
  k[0] = n - used; for (int j = 1; j <= d.nst; j++) k[j] = d.k[j - 1];
  for (int j = 0; j <= d.nst; j++) start[j + 1] = start[j] + k[j];
  std::vector<int> perm(n); for (int i = 0; i < n; i++) perm[i] = i;
  if (d.pstyle == 0) shuffle(r, perm); else if (d.pstyle == 1) for (int i = 0; i < n; i++) perm[i] = n - 1 - i;
  std::vector<double> A((size_t)n * n, 0.0), b(n, 0.0);
  auto add = [&](int u, int v, double w) { int a = perm[u], c = perm[v]; A[(size_t)a * n + c] += w; A[(size_t)c * n + a] += w; };
  // couplings inside the core are negative, except those of a planted negative group N (the last d.neg core members), which
  // are positive towards the rest of the core and of either sign inside N
  int nlo = k[0] - d.neg;
  for (int u = 0; u < k[0]; u++) for (int v = u + 1; v < k[0]; v++) if ((int)r.below(10) < d.dense10) {
    double w = (double)r.range(1, 3);
    add(u, v, (v >= nlo && u < nlo) ? w : ((u >= nlo) ? (r.coin() ? 1.0 : -1.0) : -w));
  }
  for (int j = 1; j <= d.nst; j++) {
    for (int u = start[j]; u < start[j + 1]; u++) {
      int deg = r.range(1, 3);
      for (int t = 0; t < deg; t++) {                       // pulled up by the previous stage (not by a planted negative member)
        int v = start[j - 1] + (int)r.below(j == 1 ? std::max(1, nlo) : k[j - 1]);
        if (A[(size_t)perm[u] * n + perm[v]] != 0) continue;
        add(u, v, -(double)r.range(1, 3));
      }
      for (int v = u + 1; v < start[j + 1]; v++)            // members of one stage are coupled to each other
        if (r.coin(9, 10)) add(u, v, r.coin(1, 8) ? 1.0 : -(double)r.range(1, 2));
    }
  }
  for (int i = 0; i < n; i++) { double s = 1.0; for (int jj = 0; jj < n; jj++) if (jj != i) s += std::fabs(A[(size_t)i * n + jj]); A[(size_t)i * n + i] = s; }
  for (int u = k[0]; u < n; u++) A[(size_t)perm[u] * n + perm[u]] += (double)d.ridge;
  for (int u = 0; u < n; u++) b[perm[u]] = (u < k[0]) ? (double)r.range(1, 16) : (r.coin() ? 0.0 : -(double)r.range(1, 4) / 16.0);
  if (d.neg > 0) {
    // planted unconstrained solution on the core: x0 = c0 (+0..2) > 0 except on the last d.neg core members (the group N,
    // coupled POSITIVELY to the rest of the core: see below), where x0 = -(1..7)/8; b = A x0 on the core (exact, and > 0)
    std::vector<double> x0(n, 0.0); double c0 = (double)(r.range(4, 8) * (1 + 3 * d.neg)); bool vary = r.coin(1, 3);
    for (int u = 0; u < k[0]; u++) x0[perm[u]] = (u < k[0] - d.neg) ? c0 + (vary ? (double)r.range(0, 2) : 0.0) : -(double)r.range(1, 7) / 8.0;
    for (int u = 0; u < k[0]; u++) { int i = perm[u]; double sacc = 0; for (int jj = 0; jj < n; jj++) sacc += A[(size_t)i * n + jj] * x0[jj]; b[i] = sacc; }
  }
  if (d.scale) {   // D A D, D b with D = diag(2^e), |e| <= 3 (exact)
    std::vector<int> e(n); for (auto& x : e) x = r.range(-3, 3);
    for (int i = 0; i < n; i++) { b[i] = std::ldexp(b[i], e[i]); for (int jj = 0; jj < n; jj++) A[(size_t)i * n + jj] = std::ldexp(A[(size_t)i * n + jj], e[i] + e[jj]); }
  }
  if (roles) { roles->assign(n, 0); for (int u = nlo; u < k[0]; u++) (*roles)[perm[u]] = -1; for (int j = 1; j <= d.nst; j++) for (int u = start[j]; u < start[j + 1]; u++) (*roles)[perm[u]] = j; }
  return from_dense(11, n, A, b);
}

// Long-double KKT verdict with the tolerance of the exact driver (checkX, Cholesky-based solvers):
//   xp = max(x, 0), g = A xp - b, mag_i = sum_j |A_ij| xp_j + |b_i|, tol_i = tolS + negpart * sum_j |A_ij| + 64 n 2^-53 mag_i;
//   KKT: g_i >= -tol_i, and g_i <= tol_i where xp_i > 0.
// Entries of the dense classes are small integers (times powers of two) and x is a double: every product is exact in the
// 64-bit significand up to 2^-64 relative, the sums of n <= 1600 terms carry <= n 2^-64 relative to mag_i - five orders of
// magnitude below the rounding term of the tolerance.
struct LdKkt { bool finite, nonneg, negok, kkt; long double need, tolmax, rel, negpart; int worst; };
LdKkt ld_kkt(const Sys& s, const std::vector<double>& x, double tolS) {
  LdKkt o; o.finite = true; o.need = 0; o.tolmax = 0; o.rel = 0; o.negpart = 0; o.worst = -1;
  int n = s.n;
  for (double v : x) { if (!std::isfinite(v)) o.finite = false; if (-(long double)v > o.negpart) o.negpart = -(long double)v; }
  o.nonneg = (o.negpart == 0); o.negok = (o.negpart <= (long double)tolS);
  if (!o.finite) { o.kkt = false; return o; }
  std::vector<long double> g(n, 0.0L), mag(n, 0.0L), rs(n, 0.0L);
  for (size_t t = 0; t < s.tx.size(); t++) {
    int i = s.ti[t], j = s.tj[t]; long double xp = x[j] < 0 ? 0.0L : (long double)x[j];
    long double p = (long double)s.tx[t] * xp;
    g[i] += p; mag[i] += fabsl(p); rs[i] += fabsl((long double)s.tx[t]);
  }
  long double u = 64.0L * n / 9007199254740992.0L;
  o.kkt = true;
  for (int i = 0; i < n; i++) {
    g[i] -= (long double)s.v[i]; mag[i] += fabsl((long double)s.v[i]);
    long double tol = (long double)tolS + o.negpart * rs[i] + u * mag[i];
    long double viol = -g[i]; if (x[i] > 0 && g[i] > viol) viol = g[i]; if (viol < 0) viol = 0;
    if (tol > o.tolmax) o.tolmax = tol;
    if (viol > o.need) o.need = viol;
    if (mag[i] > 0 && viol / mag[i] > o.rel) { o.rel = viol / mag[i]; }
    if (viol > tol) o.kkt = false;
  }
  // index of the largest violation relative to its tolerance (for the report)
  long double best = -1;
  for (int i = 0; i < n; i++) {
    long double tol = (long double)tolS + o.negpart * rs[i] + u * mag[i];
    long double viol = -g[i]; if (x[i] > 0 && g[i] > viol) viol = g[i]; if (viol < 0) viol = 0;
    if (tol > 0 && viol / tol > best) { best = viol / tol; o.worst = i; }
  }
  return o;
}

cholmod_sparse* to_sparse(const Sys& s, cholmod_common* c) {
  cholmod_triplet* t = cholmod_l_allocate_triplet(s.rows, s.n, s.tx.size() + 1, 0, CHOLMOD_REAL, c);
  for (size_t k = 0; k < s.tx.size(); k++) { ((long*)t->i)[k] = s.ti[k]; ((long*)t->j)[k] = s.tj[k]; ((double*)t->x)[k] = s.tx[k]; }
  t->nnz = s.tx.size();
  cholmod_sparse* A = cholmod_l_triplet_to_sparse(t, t->nnz, c);
  cholmod_l_free_triplet(&t, c);
  return A;
}

// "\tAdd <k> rows:" / "\tDelete <k> rows:" are printed by modify_factor_p only on the row-by-row path (update requested and
// the factor already full-size): count the calls and those that changed >= 2 rows at once
void count_rowmods(const std::string& verb, const char* needle, int& calls, int& multi, int& maxrows) {
  size_t p = 0, l = strlen(needle);
  while ((p = verb.find(needle, p)) != std::string::npos) {
    p += l; long k = strtol(verb.c_str() + p, nullptr, 10);
    calls++; if (k >= 2) multi++; if (k > maxrows) maxrows = (int)k;
  }
}

int count_sub(const std::string& hay, const char* needle) { int n = 0; size_t p = 0, l = strlen(needle); while ((p = hay.find(needle, p)) != std::string::npos) { n++; p += l; } return n; }

// walk_descents prints "alpha[k] = <a>, d_res = <residual(trial k) - residual(current)>" for the trial it takes; it takes a trial
// either because it reduced the residual (d_res < 0) or because it is the last one (forced step, feasible = false): count the
// lines with d_res >= 0
int count_forced(const std::string& verb, std::string* idx = nullptr) {
  int n = 0; size_t p = 0; const char* needle = "d_res = ";
  while ((p = verb.find(needle, p)) != std::string::npos) {
    p += strlen(needle);
    if (!(strtod(verb.c_str() + p, nullptr) < 0)) {
      n++;
      size_t a = verb.rfind("alpha[", p);      // the index of the trial taken: "\talpha[<k>] = ..."
      if (idx && a != std::string::npos) { if (!idx->empty()) *idx += ","; *idx += std::to_string(atoi(verb.c_str() + a + 6)); }
    }
  }
  return n;
}

// child body: returns the result line
std::string solve_child(const Sys& s, int solver, double tol, int nthreads) {
  if (nthreads > 0) {   // get_nthreads() reads the environment on every call of walk_descents (GOTO_NUM_THREADS first)
    char buf[16]; snprintf(buf, sizeof buf, "%d", nthreads); setenv("OMP_NUM_THREADS", buf, 1); setenv("GOTO_NUM_THREADS", buf, 1);
  }
  char tmpl[] = "/tmp/psv-nnls-XXXXXX"; int vfd = mkstemp(tmpl); unlink(tmpl);
  fflush(stdout); int saved = dup(1); dup2(vfd, 1);
  cholmod_common c; cholmod_l_start(&c);
  cholmod_sparse* A = to_sparse(s, &c);
  cholmod_dense* b = cholmod_l_allocate_dense(s.rows, 1, s.rows, CHOLMOD_REAL, &c);
  for (int i = 0; i < s.rows; i++) ((double*)b->x)[i] = s.v[i];
  cholmod_dense* x = NULL;
  int maxit = 10 * s.n + 20;
  switch (solver) {
    case 0: x = nnls_lawson_hanson(A, b, tol, 0, maxit, 0, 1, 1, &c); break;
    case 1: x = nnls_normal_block(A, b, 1, &c); break;
    case 2: x = nnls_normal_block_updown(A, b, 1, &c); break;
    case 3: x = nnls_normal_block3(A, b, 1, &c); break;
    default: x = nnls_lawson_hanson(A, b, tol, 0, maxit, 0, 0, 1, &c); break;
  }
  fflush(stdout); dup2(saved, 1); close(saved);
  std::string verb; { off_t len = lseek(vfd, 0, SEEK_END); lseek(vfd, 0, SEEK_SET); verb.resize(len > 0 ? len : 0); if (len > 0) { ssize_t rd = read(vfd, &verb[0], len); (void)rd; } close(vfd); }
  if (getenv("PSV_NNLS_DUMP")) fprintf(stderr, "--- solver %d n=%d\n%s", solver, s.n, verb.c_str());   // debugging aid (replay mode)
  std::ostringstream o;
  if (!x) return "null";
  o << "ok";
  for (int i = 0; i < s.n; i++) o << " " << bits(((double*)x->x)[i]);
  int iters = (solver == 0 || solver == 4) ? count_sub(verb, "Freeing coefficient") : count_sub(verb, "Infeasibles:");
  int cap = 0;
  if (solver == 0 || solver == 4) cap = (iters >= maxit);
  else if (solver == 1 || solver == 2) cap = (iters >= 3 * s.n);
  else cap = count_sub(verb, "VARNING") > 0;
  o << " | iters=" << iters << " cap=" << cap << " walk=" << count_sub(verb, "alpha[") << " boundary=" << count_sub(verb, "descent at boundary")
    << " full=" << count_sub(verb, "Solution entirely feasible") << " stuck=" << count_sub(verb, "Stuck!") << " constr=" << count_sub(verb, "Constraining coefficient");
  int addc = 0, addm = 0, delc = 0, delm = 0, maxr = 0;
  count_rowmods(verb, "\tAdd ", addc, addm, maxr); count_rowmods(verb, "\tDelete ", delc, delm, maxr);
  o << " rowadd=" << addc << " madd=" << addm << " rowdel=" << delc << " mdel=" << delm << " maxrows=" << maxr
    << " refac=" << count_sub(verb, "Recomputing factorization from scratch");
  { std::string fidx; int nf = count_forced(verb, &fidx); o << " forced=" << nf << " fidx=" << (fidx.empty() ? "-" : fidx); }
  return o.str();
}

std::string run_forked(const Sys& s, int solver, double tol, double hang_s, int& retries, int nthreads = 0, int attempts = 3) {
  retries = 0;
  for (int attempt = 0; attempt < attempts; attempt++) {
    int p[2]; if (pipe(p) != 0) return "abort pipe";
    fflush(NULL);
    pid_t pid = fork();
    if (pid == 0) {
      close(p[0]);
      std::string r = solve_child(s, solver, tol, nthreads);
      size_t off = 0; while (off < r.size()) { ssize_t w = write(p[1], r.data() + off, r.size() - off); if (w <= 0) break; off += w; }
      close(p[1]); _exit(0);
    }
    close(p[1]);
    int fl = fcntl(p[0], F_GETFL); fcntl(p[0], F_SETFL, fl | O_NONBLOCK);
    std::string got; char buf[65536]; int status = 0; bool done = false;
    struct timespec t0; clock_gettime(CLOCK_MONOTONIC, &t0);
    while (true) {
      ssize_t rd = read(p[0], buf, sizeof buf);
      if (rd > 0) { got.append(buf, rd); continue; }
      pid_t w = waitpid(pid, &status, WNOHANG);
      if (w == pid) { while ((rd = read(p[0], buf, sizeof buf)) > 0) got.append(buf, rd); done = true; break; }
      struct timespec t1; clock_gettime(CLOCK_MONOTONIC, &t1);
      if ((t1.tv_sec - t0.tv_sec) + 1e-9 * (t1.tv_nsec - t0.tv_nsec) > hang_s) break;
      usleep(200);
    }
    close(p[0]);
    if (done) {
      if (WIFEXITED(status) && WEXITSTATUS(status) == 0 && got.compare(0, 2, "ok") == 0) return got;
      std::ostringstream o; o << "abort " << (WIFSIGNALED(status) ? 1000 + WTERMSIG(status) : WEXITSTATUS(status)); return o.str();
    }
    kill(pid, SIGKILL); waitpid(pid, &status, 0);
    retries++;      // scheduling-dependent hang (lost wake-up in walk_descents, property C12): try again
  }
  return "hang";
}

std::vector<double> parse_x(const std::string& r, int n) {
  std::vector<double> x; std::istringstream in(r.substr(2)); std::string t;
  for (int i = 0; i < n && (in >> t) && t != "|"; i++) x.push_back(from_bits(strtoull(t.c_str(), nullptr, 10)));
  return x;
}

std::string ld_info(const Sys& s, const std::string& r, double tol, LdKkt* out = nullptr) {
  std::vector<double> x = parse_x(r, s.n);
  if ((int)x.size() != s.n) return "ldkkt=na";
  LdKkt k = ld_kkt(s, x, tol); if (out) *out = k;
  char buf[256]; snprintf(buf, sizeof buf, "ldkkt=%d ldfinite=%d ldnonneg=%d ldnegok=%d ldneed=%.3Le ldtol=%.3Le ldrel=%.3Le ldnegpart=%.3Le ldworst=%d",
                          k.kkt ? 1 : 0, k.finite ? 1 : 0, k.nonneg ? 1 : 0, k.negok ? 1 : 0, k.need, k.tolmax, k.rel, k.negpart, k.worst);
  return buf;
}

void emit(std::ofstream& fc, std::ofstream& fi, long id, const Sys& s, double kkt_tol, double hang_s, std::map<std::string, long>& stats) {
  fc << sys_line(id, s) << "\n"; fi << "sys\n";
  static const double DBL_EPS = 2.220446049250313e-16;
  for (int solver = 0; solver < 5; solver++) {
    if (s.ls && solver != 4) continue;
    if (!s.ls && solver == 4) continue;
    if (s.kind == 5 && solver == 0 && s.n > 150) continue;
    if (s.kind >= 8 && s.kind <= 10 && solver == 0 && s.n > 60) continue;   // Lawson-Hanson: one coefficient per QR solve, no factor updates
    if (s.kind == 7 && solver == 0) continue;   // Lawson-Hanson frees one coefficient per QR solve: too slow for the quick tier
    double tol = (solver == 3) ? (double)s.n * DBL_EPS * 1e5 : ((solver == 1 || solver == 2) ? kkt_tol : ((id % 2) ? 1e-9 : 0.0));
    int retries = 0;
    std::string r = run_forked(s, solver, tol, hang_s, retries);
    fc << "X " << id << " " << solver << " " << bits(tol) << "\n";
    fi << r << (r.compare(0, 2, "ok") == 0 ? " retries=" + std::to_string(retries) : std::string());
    if (s.kind >= 8 && solver != 0 && r.compare(0, 2, "ok") == 0) fi << " " << ld_info(s, r, tol);   // the long-double judge of the large stream, tied to the exact driver here
    fi << "\n";
    stats["solver" + std::to_string(solver)]++;
    if (retries) stats["hang_retries"] += retries;
  }
  stats["kind" + std::to_string(s.kind)]++;
  stats["n" + std::to_string(s.n < 13 ? s.n : (s.n < 50 ? 49 : (s.n < 150 ? 149 : 400)))]++;
}
} // namespace

int main(int argc, char** argv) {
  if (argc >= 5 && std::string(argv[1]) == "replay") {
    std::ifstream in(argv[2]); std::string line; std::ofstream fi(argv[3]); double hang_s = atof(argv[4]);
    Sys s; long id = 0; bool have = false;
    while (std::getline(in, line)) {
      if (line.compare(0, 3, "SYS") == 0) { have = parse_sys(line, id, s); fi << "sys\n"; continue; }
      if (line.compare(0, 1, "X") == 0 && have) {
        std::istringstream is(line); std::string t; long i2; int solver; uint64_t tb; is >> t >> i2 >> solver >> tb; int retries;
        int nthr = 0; if (!(is >> nthr)) nthr = 0;
        std::string r = run_forked(s, solver, from_bits(tb), hang_s, retries, nthr, nthr ? 2 : 3);
        fi << r << (r.compare(0, 2, "ok") == 0 ? " retries=" + std::to_string(retries) : std::string()) << "\n";
      }
    }
    return 0;
  }
  static const double DBL_EPS_ = 2.220446049250313e-16;
  if (argc >= 6 && (std::string(argv[1]) == "big" || std::string(argv[1]) == "bigreplay")) {
    // big <count> <out> <kkt_tol> <hang_s>   |   bigreplay <out> <kkt_tol> <hang_s> <solver> <descriptor...>
    bool rep = std::string(argv[1]) == "bigreplay";
    std::ofstream fo(argv[rep ? 2 : 3]); double kkt_tol = atof(argv[rep ? 3 : 4]), hang_s = atof(argv[rep ? 4 : 5]);
    const char* e = getenv("VERIF_SEED"); uint64_t seed = e ? strtoull(e, nullptr, 10) : 1;
    Rng r(seed * 0x2545f4914f6cdd1dULL + 1105);
    std::vector<BigDesc> ds; int only = -1;
    if (rep) {
      if (argc < 7) return 2;
      only = atoi(argv[5]); std::ostringstream j; for (int a = 6; a < argc; a++) j << argv[a] << " ";
      std::istringstream in(j.str()); BigDesc d; if (!big_desc_parse(in, d)) { fprintf(stderr, "bad descriptor\n"); return 2; }
      ds.push_back(d);
    } else { long cnt = atol(argv[2]); for (long k = 0; k < cnt; k++) ds.push_back(draw_big(r, (int)k)); }
    for (size_t k = 0; k < ds.size(); k++) {
      std::vector<int> roles; Sys s = gen_big(ds[k], &roles);
      if (getenv("PSV_NNLS_DUMPSYS")) { std::ofstream fd(getenv("PSV_NNLS_DUMPSYS")); fd << sys_line((long)k, s) << "\n"; }
      for (int solver = 2; solver <= 3; solver++) {
        if (only >= 0 && solver != only) continue;
        double tol = (solver == 3) ? (double)s.n * DBL_EPS_ * 1e5 : kkt_tol;
        int retries = 0; struct timespec t0, t1; clock_gettime(CLOCK_MONOTONIC, &t0); std::string vec;
        std::string res = run_forked(s, solver, tol, hang_s, retries, 0, 1);
        clock_gettime(CLOCK_MONOTONIC, &t1);
        fo << "BIG " << k << " " << solver << " " << bits(tol) << " ; " << big_desc_str(ds[k]) << " ; ";
        if (res.compare(0, 2, "ok") == 0) {
          LdKkt kk; std::string li = ld_info(s, res, tol, &kk);
          size_t bar = res.find('|');
          fo << "ok ;" << (bar == std::string::npos ? "" : res.substr(bar + 1)) << " retries=" << retries << " ; " << li
             << " worstrole=" << (kk.worst >= 0 ? roles[kk.worst] : -1);
          std::vector<double> x = parse_x(res, s.n); int pos = 0; for (double v : x) if (v > 0) pos++;
          fo << " positive=" << pos;
          if (!(kk.kkt && kk.finite && kk.negok && (solver != 3 || kk.nonneg))) { size_t bar2 = res.find('|'); vec = res.substr(3, bar2 == std::string::npos ? std::string::npos : bar2 - 3); }
        } else fo << res << " ; ; ";
        fo << " ; secs=" << ((t1.tv_sec - t0.tv_sec) + 1e-9 * (t1.tv_nsec - t0.tv_nsec)) << " ; " << vec << "\n"; fo.flush();
      }
    }
    return 0;
  }
  if (argc >= 9 && std::string(argv[1]) == "corpus") {
    // corpus <corpus.txt> <cases.out> <impl.out> <stats.out> <kkt_tol> <hang_s> <t2,t3,...>
    // corpus lines: "n  a_11 .. a_nn  b_1 .. b_n" (small integers; '#' comments): systems on which some line search of
    // nnls_normal_block3 has NO trial step that lowers the objective (found by tools/c11_forced_search.cpp)
    std::ifstream in(argv[2]); std::ofstream fc(argv[3]), fi(argv[4]); double kkt_tol = atof(argv[6]), hang_s = atof(argv[7]);
    std::vector<int> thr; thr.push_back(1); { std::istringstream ts(argv[8]); std::string t; while (std::getline(ts, t, ',')) if (atoi(t.c_str()) > 1) thr.push_back(atoi(t.c_str())); }
    std::map<std::string, long> stats; std::string line; long id = 0; int hangs = 0;
    while (std::getline(in, line)) {
      if (line.empty() || line[0] == '#') continue;
      std::istringstream is(line); int n; if (!(is >> n) || n < 1 || n > 12) continue;
      std::vector<double> A((size_t)n * n), b(n); bool okp = true;
      for (auto& v : A) if (!(is >> v)) okp = false;
      for (auto& v : b) if (!(is >> v)) okp = false;
      if (!okp) { stats["corpus_bad_lines"]++; continue; }
      if (hangs >= 3) { stats["corpus_skipped_after_hangs"]++; continue; }
      Sys s = from_dense(12, n, A, b);
      fc << sys_line(id, s) << "\n"; fi << "sys\n";
      for (size_t ti = 0; ti < thr.size(); ti++) for (int solver = 0; solver < 4; solver++) {
        if (ti >= 1 && (solver == 0 || solver == 1)) continue;     // Lawson-Hanson and nnls_normal_block have no line-search workers
        double tol = (solver == 3) ? (double)n * DBL_EPS_ * 1e5 : ((solver == 1 || solver == 2) ? kkt_tol : 1e-9);
        int retries = 0;
        std::string r = (hangs >= 3) ? std::string("skipped") : run_forked(s, solver, tol, hang_s, retries, thr[ti], 2);
        if (r == "skipped") continue;
        if (r.compare(0, 4, "hang") == 0) hangs++;
        fc << "X " << id << " " << solver << " " << bits(tol) << " " << thr[ti] << "\n";
        fi << r << (r.compare(0, 2, "ok") == 0 ? " retries=" + std::to_string(retries) + " threads=" + std::to_string(thr[ti]) : std::string()) << "\n";
        stats["solver" + std::to_string(solver)]++;
        if (retries) stats["hang_retries"] += retries;
      }
      stats["kind12"]++; stats["n" + std::to_string(n)]++; id++;
    }
    std::ofstream fs(argv[5]);
    fs << "{"; bool first = true; for (auto& kv : stats) { fs << (first ? "" : ", ") << "\"" << kv.first << "\": " << kv.second; first = false; } fs << "}\n";
    return 0;
  }
  if (argc < 8) { fprintf(stderr, "usage\n"); return 2; }
  long nsmall = atol(argv[1]), nlarge = atol(argv[2]);
  std::ofstream fc(argv[3]), fi(argv[4]); double kkt_tol = atof(argv[6]), hang_s = atof(argv[7]);
  const char* e = getenv("VERIF_SEED"); uint64_t seed = e ? strtoull(e, nullptr, 10) : 1;
  Rng r(seed * 0x51ed270b1ULL + 11);
  std::map<std::string, long> stats;
  long id = 0;
  int nmax_ref = getenv("PSV_NNLS_NMAX") ? atoi(getenv("PSV_NNLS_NMAX")) : 12;
  for (long k = 0; k < nsmall; k++) {
    int kind = (int)(k % 7);
    if (kind == 6) kind = 7;
    Sys s = (kind == 5) ? gen_ls(r, nmax_ref) : gen_small(r, kind, (k % 5 == 0) ? nmax_ref : std::min(nmax_ref, 9));
    emit(fc, fi, id++, s, kkt_tol, hang_s, stats);
  }
  for (long k = 0; k < nlarge; k++) {
    Sys s = (k % 3 == 2) ? gen_large(r, 150, 400) : gen_large(r, 20, 149);
    emit(fc, fi, id++, s, kkt_tol, hang_s, stats);
  }
  // medium dense systems: multi-row factor updates (see gen_dense_gram / gen_staged)
  long nmed = argc >= 9 ? atol(argv[8]) : 0;
  for (long k = 0; k < nmed; k++) {
    Sys s;
    switch (k % 8) {
      case 0: s = gen_staged(r, 30, 90, false); break;
      case 1: s = gen_dense_gram(r, 40, 100); break;
      case 2: s = gen_staged(r, 120, 220, true); break;
      case 3: s = gen_overshoot(r, 30, 120); break;
      case 4: s = gen_dense_gram(r, 100, 220); break;
      case 5: s = gen_staged(r, 90, 160, false); break;
      case 6: s = gen_staged(r, 120, 220, true); break;
      default: s = gen_overshoot(r, 120, 220); break;
    }
    emit(fc, fi, id++, s, kkt_tol, hang_s, stats);
  }
  std::ofstream fs(argv[5]);
  fs << "{"; bool first = true; for (auto& kv : stats) { fs << (first ? "" : ", ") << "\"" << kv.first << "\": " << kv.second; first = false; } fs << "}\n";
  return 0;
}
