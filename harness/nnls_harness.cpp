// C11 correspondence harness: runs the four exported NNLS solvers of /repo/src/fitter/nnls.c in-process
// (each call in a forked child so that a hang, an abort or exit(1) is a *result*, not the end of the run)
// on generated symmetric positive-definite systems and prints system + returned vector as bit patterns.
//
// usage: nnls_harness <nsmall> <nlarge> <cases.out> <impl.out> <stats.out> <kkt_tol> <hang_seconds>
//        nnls_harness replay <caseline-file> <impl.out> <hang_seconds>
//
// cases.out lines
//   SYS id kind n ls rows nnz (i j bits)*nnz  v bits*rows      ls=0: A=M (n x n), b=v;  ls=1: A=M'M, b=M'v
//   X id solver tolbits                                         solver 0 LH(normaleq) 1 block 2 updown 3 block3 4 LH(least squares)
// impl.out lines (one per cases line)
//   sys
//   ok bits*n | free=<n> constr=<n> iters=<n> walk=<n> boundary=<n> full=<n> warn=<0/1> retries=<n>
//   hang | abort <status>
#include <cholmod.h>
#include <sys/wait.h>
#include <unistd.h>
#include <fcntl.h>
#include <signal.h>
#include <time.h>
#include <string>
#include <vector>
#include <map>
#include <cstdio>
#include <cstdlib>
#include <cstring>
#include <cmath>
#include <cstdint>
#include <sstream>
#include <fstream>
#include <iostream>
extern "C" {
#include "photospline/detail/splineutil.h"
}

namespace {
struct Rng {
  uint64_t s;
  explicit Rng(uint64_t seed) : s(seed) {}
  uint64_t next() { uint64_t z = (s += 0x9e3779b97f4a7c15ULL); z = (z ^ (z >> 30)) * 0xbf58476d1ce4e5b9ULL; z = (z ^ (z >> 27)) * 0x94d049bb133111ebULL; return z ^ (z >> 31); }
  uint64_t below(uint64_t n) { return n ? next() % n : 0; }
  int range(int lo, int hi) { return lo + (int)below((uint64_t)(hi - lo + 1)); }
  double unit() { return (next() >> 11) * (1.0 / 9007199254740992.0); }
  bool coin(int num = 1, int den = 2) { return (int)below(den) < num; }
};
uint64_t bits(double d) { uint64_t u; memcpy(&u, &d, 8); return u; }
double from_bits(uint64_t u) { double d; memcpy(&d, &u, 8); return d; }

struct Sys {
  int kind, n, ls, rows;                 // M is rows x n
  std::vector<int> ti, tj; std::vector<double> tx;  // triplets of M (all entries, both triangles)
  std::vector<double> v;                 // rows
};

std::string sys_line(long id, const Sys& s) {
  std::ostringstream o;
  o << "SYS " << id << " " << s.kind << " " << s.n << " " << s.ls << " " << s.rows << " " << s.tx.size();
  for (size_t k = 0; k < s.tx.size(); k++) o << " " << s.ti[k] << " " << s.tj[k] << " " << bits(s.tx[k]);
  o << " v";
  for (double d : s.v) o << " " << bits(d);
  return o.str();
}

bool parse_sys(const std::string& line, long& id, Sys& s) {
  std::istringstream in(line); std::string tag; size_t nnz;
  if (!(in >> tag >> id >> s.kind >> s.n >> s.ls >> s.rows >> nnz) || tag != "SYS") return false;
  s.ti.resize(nnz); s.tj.resize(nnz); s.tx.resize(nnz);
  for (size_t k = 0; k < nnz; k++) { uint64_t u; if (!(in >> s.ti[k] >> s.tj[k] >> u)) return false; s.tx[k] = from_bits(u); }
  if (!(in >> tag) || tag != "v") return false;
  s.v.resize(s.rows);
  for (int k = 0; k < s.rows; k++) { uint64_t u; if (!(in >> u)) return false; s.v[k] = from_bits(u); }
  return true;
}

// dense symmetric n x n (row-major) -> Sys with ls = 0
Sys from_dense(int kind, int n, const std::vector<double>& A, const std::vector<double>& b) {
  Sys s; s.kind = kind; s.n = n; s.ls = 0; s.rows = n; s.v = b;
  for (int i = 0; i < n; i++) for (int j = 0; j < n; j++) if (A[i * n + j] != 0) { s.ti.push_back(i); s.tj.push_back(j); s.tx.push_back(A[i * n + j]); }
  return s;
}

double dyadic(Rng& r, int lo, int hi, int den) { return (double)r.range(lo * den, hi * den) / den; }

// A = B'B + eps I computed exactly (entries of B are multiples of 1/16, |.| <= 2, <= 40 rows: all sums exact in double)
void gram(int n, int m, const std::vector<double>& B, double eps, std::vector<double>& A) {
  A.assign(n * n, 0.0);
  for (int i = 0; i < n; i++) for (int j = i; j < n; j++) {
    double s = (i == j) ? eps : 0.0;
    for (int k = 0; k < m; k++) s += B[k * n + i] * B[k * n + j];
    A[i * n + j] = A[j * n + i] = s;
  }
}

Sys gen_small(Rng& r, int kind, int nmax) {
  int n = r.range(1, nmax);
  if (r.coin(1, 6)) n = nmax;
  int m = n + r.range(0, 4);
  std::vector<double> B(m * n), A, b(n);
  double dens = (kind == 1) ? 0.35 : 1.0;
  for (auto& e : B) e = (r.unit() < dens) ? dyadic(r, -2, 2, 16) : 0.0;
  double eps = (double)r.range(1, 64) / 64.0;
  switch (kind) {
    case 0: case 1: {   // dense / sparse dyadic Gram matrix, random right-hand side
      gram(n, m, B, eps, A);
      for (auto& e : b) e = dyadic(r, -4, 4, 16);
      if (r.coin(1, 3)) for (auto& e : b) e = std::fabs(e);      // many free coefficients
      break; }
    case 2: {           // degenerate: exact solution with exact zeros; ties x_i = g_i = 0
      gram(n, m, B, eps, A);
      std::vector<double> xs(n), g(n);
      for (int i = 0; i < n; i++) {
        int c = r.range(0, 3);
        xs[i] = (c == 0) ? dyadic(r, 0, 3, 8) : 0.0;             // may also be exactly 0
        g[i] = (xs[i] == 0 && c == 1) ? dyadic(r, 0, 2, 8) : 0.0; // c >= 2: x_i = 0 and g_i = 0 (tie)
      }
      if (r.coin(1, 4)) { double t = dyadic(r, 0, 2, 8); for (int i = 0; i < n; i++) if (xs[i] != 0) xs[i] = t; } // equal components
      for (int i = 0; i < n; i++) { double s = -g[i]; for (int j = 0; j < n; j++) s += A[i * n + j] * xs[j]; b[i] = s; } // exact: small dyadics
      break; }
    case 3: case 7: {   // badly scaled: D A D, D b with D = diag(2^e); kind 3: |e| <= 10 (entries of A over 1e-6 .. 1e6),
                        // kind 7: |e| <= 20 (D itself over 1e-6 .. 1e6; column norms 1e12 apart: below SuiteSparseQR's default
                        // rank tolerance, so Lawson-Hanson is not run on these)
      gram(n, m, B, eps, A);
      for (auto& e : b) e = dyadic(r, -4, 4, 16);
      std::vector<int> e(n);
      int style = r.range(0, 2);
      int E = (kind == 3) ? 10 : 20;
      for (int i = 0; i < n; i++) e[i] = style == 0 ? r.range(-E, E) : (style == 1 ? (r.coin() ? E : -E) : r.range(-E, 0));
      for (int i = 0; i < n; i++) { b[i] = std::ldexp(b[i], e[i]); for (int j = 0; j < n; j++) A[i * n + j] = std::ldexp(A[i * n + j], e[i] + e[j]); }
      break; }
    default: {          // 4: arbitrary doubles (rounded Gram matrix; positive definiteness certified exactly by the driver)
      for (auto& e2 : B) e2 = r.unit() * 2 - 1;
      A.assign(n * n, 0.0);
      double ep = 0.01 + r.unit();
      for (int i = 0; i < n; i++) for (int j = i; j < n; j++) { double s = (i == j) ? ep : 0.0; for (int k = 0; k < m; k++) s += B[k * n + i] * B[k * n + j]; A[i * n + j] = A[j * n + i] = s; }
      for (auto& e2 : b) e2 = r.unit() * 4 - 2;
      break; }
  }
  Sys s = from_dense(kind, n, A, b);
  return s;
}

// least-squares form for Lawson-Hanson with normaleq = 0: M = B (m x n, full column rank by an identity block), v = y
Sys gen_ls(Rng& r, int nmax) {
  int n = r.range(1, nmax), m = n + r.range(0, 4);
  Sys s; s.kind = 6; s.n = n; s.ls = 1; s.rows = m + n; s.v.resize(m + n);
  for (int k = 0; k < m; k++) for (int j = 0; j < n; j++) { double e = r.coin(2, 3) ? dyadic(r, -2, 2, 16) : 0.0; if (e != 0) { s.ti.push_back(k); s.tj.push_back(j); s.tx.push_back(e); } }
  double d = (double)r.range(1, 8) / 8.0;
  for (int j = 0; j < n; j++) { s.ti.push_back(m + j); s.tj.push_back(j); s.tx.push_back(d); }   // sqrt(eps) I block: M'M = B'B + d^2 I
  for (auto& e : s.v) e = dyadic(r, -4, 4, 16);
  return s;
}

// large sparse: banded integer B (n+2 x n) => A = B'B + I exactly representable, SPD by construction
Sys gen_large(Rng& r, int nlo, int nhi) {
  int n = r.range(nlo, nhi), bw = r.range(1, 4);
  std::vector<std::map<int, double>> rowsB(n + bw);
  for (int k = 0; k < n + bw; k++) for (int j = std::max(0, k - bw); j <= std::min(n - 1, k); j++) if (r.coin(3, 4)) rowsB[k][j] = (double)r.range(-3, 3);
  std::vector<std::map<int, double>> A(n);
  for (int i = 0; i < n; i++) A[i][i] = 1.0;
  for (auto& row : rowsB) for (auto& a : row) for (auto& c : row) A[a.first][c.first] += a.second * c.second;
  Sys s; s.kind = 5; s.n = n; s.ls = 0; s.rows = n; s.v.resize(n);
  for (int i = 0; i < n; i++) for (auto& e : A[i]) if (e.second != 0) { s.ti.push_back(i); s.tj.push_back(e.first); s.tx.push_back(e.second); }
  for (auto& e : s.v) e = (double)r.range(-8, 8);
  return s;
}

cholmod_sparse* to_sparse(const Sys& s, cholmod_common* c) {
  cholmod_triplet* t = cholmod_l_allocate_triplet(s.rows, s.n, s.tx.size() + 1, 0, CHOLMOD_REAL, c);
  for (size_t k = 0; k < s.tx.size(); k++) { ((long*)t->i)[k] = s.ti[k]; ((long*)t->j)[k] = s.tj[k]; ((double*)t->x)[k] = s.tx[k]; }
  t->nnz = s.tx.size();
  cholmod_sparse* A = cholmod_l_triplet_to_sparse(t, t->nnz, c);
  cholmod_l_free_triplet(&t, c);
  return A;
}

int count_sub(const std::string& hay, const char* needle) { int n = 0; size_t p = 0, l = strlen(needle); while ((p = hay.find(needle, p)) != std::string::npos) { n++; p += l; } return n; }

// child body: returns the result line
std::string solve_child(const Sys& s, int solver, double tol) {
  char tmpl[] = "/tmp/psv-nnls-XXXXXX"; int vfd = mkstemp(tmpl); unlink(tmpl);
  fflush(stdout); int saved = dup(1); dup2(vfd, 1);
  cholmod_common c; cholmod_l_start(&c);
  cholmod_sparse* A = to_sparse(s, &c);
  cholmod_dense* b = cholmod_l_allocate_dense(s.rows, 1, s.rows, CHOLMOD_REAL, &c);
  for (int i = 0; i < s.rows; i++) ((double*)b->x)[i] = s.v[i];
  cholmod_dense* x = NULL;
  int maxit = 10 * s.n + 20;
  switch (solver) {
    case 0: x = nnls_lawson_hanson(A, b, tol, 0, maxit, 0, 1, 1, &c); break;
    case 1: x = nnls_normal_block(A, b, 1, &c); break;
    case 2: x = nnls_normal_block_updown(A, b, 1, &c); break;
    case 3: x = nnls_normal_block3(A, b, 1, &c); break;
    default: x = nnls_lawson_hanson(A, b, tol, 0, maxit, 0, 0, 1, &c); break;
  }
  fflush(stdout); dup2(saved, 1); close(saved);
  std::string verb; { off_t len = lseek(vfd, 0, SEEK_END); lseek(vfd, 0, SEEK_SET); verb.resize(len > 0 ? len : 0); if (len > 0) { ssize_t rd = read(vfd, &verb[0], len); (void)rd; } close(vfd); }
  std::ostringstream o;
  if (!x) return "null";
  o << "ok";
  for (int i = 0; i < s.n; i++) o << " " << bits(((double*)x->x)[i]);
  int iters = (solver == 0 || solver == 4) ? count_sub(verb, "Freeing coefficient") : count_sub(verb, "Infeasibles:");
  int cap = 0;
  if (solver == 0 || solver == 4) cap = (iters >= maxit);
  else if (solver == 1 || solver == 2) cap = (iters >= 3 * s.n);
  else cap = count_sub(verb, "VARNING") > 0;
  o << " | iters=" << iters << " cap=" << cap << " walk=" << count_sub(verb, "alpha[") << " boundary=" << count_sub(verb, "descent at boundary")
    << " full=" << count_sub(verb, "Solution entirely feasible") << " stuck=" << count_sub(verb, "Stuck!") << " constr=" << count_sub(verb, "Constraining coefficient");
  return o.str();
}

std::string run_forked(const Sys& s, int solver, double tol, double hang_s, int& retries) {
  retries = 0;
  for (int attempt = 0; attempt < 3; attempt++) {
    int p[2]; if (pipe(p) != 0) return "abort pipe";
    fflush(NULL);
    pid_t pid = fork();
    if (pid == 0) {
      close(p[0]);
      std::string r = solve_child(s, solver, tol);
      size_t off = 0; while (off < r.size()) { ssize_t w = write(p[1], r.data() + off, r.size() - off); if (w <= 0) break; off += w; }
      close(p[1]); _exit(0);
    }
    close(p[1]);
    int fl = fcntl(p[0], F_GETFL); fcntl(p[0], F_SETFL, fl | O_NONBLOCK);
    std::string got; char buf[65536]; int status = 0; bool done = false;
    struct timespec t0; clock_gettime(CLOCK_MONOTONIC, &t0);
    while (true) {
      ssize_t rd = read(p[0], buf, sizeof buf);
      if (rd > 0) { got.append(buf, rd); continue; }
      pid_t w = waitpid(pid, &status, WNOHANG);
      if (w == pid) { while ((rd = read(p[0], buf, sizeof buf)) > 0) got.append(buf, rd); done = true; break; }
      struct timespec t1; clock_gettime(CLOCK_MONOTONIC, &t1);
      if ((t1.tv_sec - t0.tv_sec) + 1e-9 * (t1.tv_nsec - t0.tv_nsec) > hang_s) break;
      usleep(200);
    }
    close(p[0]);
    if (done) {
      if (WIFEXITED(status) && WEXITSTATUS(status) == 0 && got.compare(0, 2, "ok") == 0) return got;
      std::ostringstream o; o << "abort " << (WIFSIGNALED(status) ? 1000 + WTERMSIG(status) : WEXITSTATUS(status)); return o.str();
    }
    kill(pid, SIGKILL); waitpid(pid, &status, 0);
    retries++;      // scheduling-dependent hang (lost wake-up in walk_descents, property C12): try again
  }
  return "hang";
}

void emit(std::ofstream& fc, std::ofstream& fi, long id, const Sys& s, double kkt_tol, double hang_s, std::map<std::string, long>& stats) {
  fc << sys_line(id, s) << "\n"; fi << "sys\n";
  static const double DBL_EPS = 2.220446049250313e-16;
  for (int solver = 0; solver < 5; solver++) {
    if (s.ls && solver != 4) continue;
    if (!s.ls && solver == 4) continue;
    if (s.kind == 5 && solver == 0 && s.n > 150) continue;
    if (s.kind == 7 && solver == 0) continue;   // Lawson-Hanson frees one coefficient per QR solve: too slow for the quick tier
    double tol = (solver == 3) ? (double)s.n * DBL_EPS * 1e5 : ((solver == 1 || solver == 2) ? kkt_tol : ((id % 2) ? 1e-9 : 0.0));
    int retries = 0;
    std::string r = run_forked(s, solver, tol, hang_s, retries);
    fc << "X " << id << " " << solver << " " << bits(tol) << "\n";
    fi << r << (r.compare(0, 2, "ok") == 0 ? " retries=" + std::to_string(retries) : std::string()) << "\n";
    stats["solver" + std::to_string(solver)]++;
    if (retries) stats["hang_retries"] += retries;
  }
  stats["kind" + std::to_string(s.kind)]++;
  stats["n" + std::to_string(s.n < 13 ? s.n : (s.n < 50 ? 49 : (s.n < 150 ? 149 : 400)))]++;
}
} // namespace

int main(int argc, char** argv) {
  if (argc >= 5 && std::string(argv[1]) == "replay") {
    std::ifstream in(argv[2]); std::string line; std::ofstream fi(argv[3]); double hang_s = atof(argv[4]);
    Sys s; long id = 0; bool have = false;
    while (std::getline(in, line)) {
      if (line.compare(0, 3, "SYS") == 0) { have = parse_sys(line, id, s); fi << "sys\n"; continue; }
      if (line.compare(0, 1, "X") == 0 && have) {
        std::istringstream is(line); std::string t; long i2; int solver; uint64_t tb; is >> t >> i2 >> solver >> tb; int retries;
        std::string r = run_forked(s, solver, from_bits(tb), hang_s, retries);
        fi << r << (r.compare(0, 2, "ok") == 0 ? " retries=" + std::to_string(retries) : std::string()) << "\n";
      }
    }
    return 0;
  }
  if (argc < 8) { fprintf(stderr, "usage\n"); return 2; }
  long nsmall = atol(argv[1]), nlarge = atol(argv[2]);
  std::ofstream fc(argv[3]), fi(argv[4]); double kkt_tol = atof(argv[6]), hang_s = atof(argv[7]);
  const char* e = getenv("VERIF_SEED"); uint64_t seed = e ? strtoull(e, nullptr, 10) : 1;
  Rng r(seed * 0x51ed270b1ULL + 11);
  std::map<std::string, long> stats;
  long id = 0;
  int nmax_ref = getenv("PSV_NNLS_NMAX") ? atoi(getenv("PSV_NNLS_NMAX")) : 12;
  for (long k = 0; k < nsmall; k++) {
    int kind = (int)(k % 7);
    if (kind == 6) kind = 7;
    Sys s = (kind == 5) ? gen_ls(r, nmax_ref) : gen_small(r, kind, (k % 5 == 0) ? nmax_ref : std::min(nmax_ref, 9));
    emit(fc, fi, id++, s, kkt_tol, hang_s, stats);
  }
  for (long k = 0; k < nlarge; k++) {
    Sys s = (k % 3 == 2) ? gen_large(r, 150, 400) : gen_large(r, 20, 149);
    emit(fc, fi, id++, s, kkt_tol, hang_s, stats);
  }
  std::ofstream fs(argv[5]);
  fs << "{"; bool first = true; for (auto& kv : stats) { fs << (first ? "" : ", ") << "\"" << kv.first << "\": " << kv.second; first = false; } fs << "}\n";
  return 0;
}
