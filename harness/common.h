// Shared plumbing for the correspondence harnesses: in-process access to the real photospline
// code built from /repo's working tree, deterministic PRNG, bit-pattern I/O, table builder.
#ifndef PSV_HARNESS_COMMON_H
#define PSV_HARNESS_COMMON_H
#include <algorithm>
#include <array>
#include <cassert>
#include <chrono>
#include <cmath>
#include <cstdint>
#include <cstdio>
#include <cstdlib>
#include <cstring>
#include <iostream>
#include <limits>
#include <map>
#include <memory>
#include <numeric>
#include <random>
#include <sstream>
#include <stdexcept>
#include <string>
#include <vector>
#include <fitsio.h>
#include <fitsio2.h>
#define private public
#include <photospline/splinetable.h>
#undef private
#include <photospline/cinter/splinetable.h>

namespace psv {

// splitmix64: every random choice derives from VERIF_SEED through this one state
struct Rng {
  uint64_t s;
  explicit Rng(uint64_t seed) : s(seed) {}
  uint64_t next() { uint64_t z = (s += 0x9e3779b97f4a7c15ULL); z = (z ^ (z >> 30)) * 0xbf58476d1ce4e5b9ULL; z = (z ^ (z >> 27)) * 0x94d049bb133111ebULL; return z ^ (z >> 31); }
  uint64_t below(uint64_t n) { return n ? next() % n : 0; }
  int range(int lo, int hi) { return lo + (int)below((uint64_t)(hi - lo + 1)); } // inclusive
  double unit() { return (next() >> 11) * (1.0 / 9007199254740992.0); }
  bool coin(int num = 1, int den = 2) { return (int)below(den) < num; }
};
inline uint64_t env_seed() { const char* e = getenv("VERIF_SEED"); return e ? strtoull(e, nullptr, 10) : 1; }
inline long env_long(const char* name, long dflt) { const char* e = getenv(name); return e ? atol(e) : dflt; }

inline uint64_t bits(double d) { uint64_t u; memcpy(&u, &d, 8); return u; }
inline uint32_t bits(float f) { uint32_t u; memcpy(&u, &f, 4); return u; }
inline double from_bits(uint64_t u) { double d; memcpy(&d, &u, 8); return d; }
inline float from_bits32(uint32_t u) { float d; memcpy(&d, &u, 4); return d; }
// canonical NaN so that sign/payload never produce a spurious difference
inline uint64_t cbits(double d) { return d != d ? 0x7ff8000000000000ULL : bits(d); }
inline uint32_t cbits(float d) { return d != d ? 0x7fc00000U : bits(d); }

// order-isomorphic integer key of a non-NaN double (±0 identified); NaN prints as "nan"
inline std::string key(double d) {
  if (d != d) return "nan";
  if (d == 0) return "0";
  uint64_t u = bits(d);
  long long k = (u >> 63) ? -(long long)(u & 0x7fffffffffffffffULL) : (long long)u;
  return std::to_string(k);
}

typedef photospline::splinetable<> Table;

// Build a table through the (now visible) members with the table's own allocator idiom
// (knots: allocate(nknots+2*order)+order), so that ASan red zones sit exactly at ±order.
// pad: value written to the padding (NaN by default so that any use of it would be visible).
inline void build_table(Table& t, const std::vector<uint32_t>& ord, const std::vector<std::vector<double>>& kn,
                        const std::vector<float>& coef, const std::vector<double>* padvals = nullptr) {
  uint32_t nd = ord.size();
  t.ndim = nd;
  t.order = t.allocate<uint32_t>(nd); t.nknots = t.allocate<uint64_t>(nd); t.naxes = t.allocate<uint64_t>(nd);
  t.strides = t.allocate<uint64_t>(nd); t.knots = t.allocate<double*>(nd); t.extents = t.allocate<double*>(nd);
  t.extents[0] = t.allocate<double>(2 * nd); t.periods = t.allocate<double>(nd);
  t.naux = 0; t.aux = nullptr;
  size_t pv = 0;
  for (uint32_t i = 0; i < nd; i++) {
    t.order[i] = ord[i]; t.nknots[i] = kn[i].size(); t.naxes[i] = kn[i].size() - ord[i] - 1; t.periods[i] = 0;
    double* raw = t.allocate<double>(kn[i].size() + 2 * ord[i]);
    for (size_t j = 0; j < kn[i].size() + 2 * ord[i]; j++) raw[j] = padvals ? (*padvals)[pv++ % padvals->size()] : std::numeric_limits<double>::quiet_NaN();
    t.knots[i] = raw + ord[i];
    std::copy(kn[i].begin(), kn[i].end(), t.knots[i]);
    t.extents[i] = &t.extents[0][2 * i]; t.extents[i][0] = kn[i][ord[i]]; t.extents[i][1] = kn[i][t.naxes[i]];
  }
  t.strides[nd - 1] = 1;
  for (int i = nd - 1; i > 0; i--) t.strides[i - 1] = t.strides[i] * t.naxes[i];
  uint64_t nc = t.strides[0] * t.naxes[0];
  assert(coef.size() == nc);
  t.coefficients = t.allocate<float>(nc);
  std::copy(coef.begin(), coef.end(), t.coefficients);
}

// same, from padded knot arrays (order elements of padding on both sides included), for replays
inline void build_table_padded(Table& t, const std::vector<uint32_t>& ord, const std::vector<std::vector<double>>& padded,
                               const std::vector<float>& coef) {
  std::vector<std::vector<double>> kn; std::vector<double> pads;
  for (size_t i = 0; i < ord.size(); i++) kn.push_back(std::vector<double>(padded[i].begin() + ord[i], padded[i].end() - ord[i]));
  build_table(t, ord, kn, coef, nullptr);
  for (size_t i = 0; i < ord.size(); i++) std::copy(padded[i].begin(), padded[i].end(), t.knots[i] - ord[i]);
}

inline uint64_t ncoef(const std::vector<uint32_t>& ord, const std::vector<std::vector<double>>& kn) {
  uint64_t n = 1; for (size_t i = 0; i < ord.size(); i++) n *= kn[i].size() - ord[i] - 1; return n;
}

// knot vector generator: styles uniform / irregular / repeated / wide-dynamic-range
inline std::vector<double> gen_knots(Rng& r, int order, int extra /*nknots = 2*order+2+extra*/, int style) {
  int nk = 2 * order + 2 + extra;
  std::vector<double> k(nk);
  double v = (style == 3) ? -1e3 * r.unit() : (r.unit() * 20 - 10);
  int mult = 1;
  for (int i = 0; i < nk; i++) {
    k[i] = v;
    double step;
    switch (style) {
      case 0: step = 1.0; break;
      case 1: step = 0.01 + r.unit() * 3; break;
      case 2: step = (r.coin(1, 4) && mult < order + 1) ? 0.0 : 0.25 * (1 + r.below(8)); break;   // repeated knots, multiplicity <= order+1
      default: step = std::ldexp(1.0 + r.unit(), r.range(-30, 30)); break;   // wildly varying spacing
    }
    mult = (step == 0.0) ? mult + 1 : 1;
    v += step;
  }
  return k;
}

} // namespace psv

// ---- concurrent phase (shared by the harnesses whose subject is a function of its arguments only) ------------------------
// The models are pure functions: the result of a call cannot depend on other calls in flight.  `run_concurrently` starts
// `nthreads` threads together, thread i calling job(i); the caller compares what each job produced with the result of the
// same call made alone.  It runs in a forked child with an alarm, so that a crash or a hang of the concurrent calls is an
// outcome (returned) and not the end of the harness: 0 = all jobs returned, >0 = the child's exit code, <0 = -signal.
#include <atomic>
#include <thread>
#include <functional>
#include <sys/wait.h>
#include <unistd.h>
namespace psv {
inline int run_concurrently(int nthreads, unsigned seconds, const std::function<void(int)>& job, const std::function<int()>& verdict) {
  fflush(nullptr);
  pid_t pid = fork();
  if (pid == 0) {
    alarm(seconds);
    std::atomic<int> go(0);
    std::vector<std::thread> th;
    for (int i = 0; i < nthreads; i++) th.emplace_back([&, i] { while (!go.load()) {} job(i); });
    go.store(1);
    for (auto& t : th) t.join();
    int v = verdict();
    fflush(nullptr);
    _exit(v);
  }
  int st = 0; waitpid(pid, &st, 0);
  if (WIFEXITED(st)) return WEXITSTATUS(st);
  return -(WIFSIGNALED(st) ? WTERMSIG(st) : 99);
}
} // namespace psv
#endif
