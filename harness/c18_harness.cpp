// Correspondence harness for C18 (the C interface is a faithful, leak-free wrapper).
// Interprets an op script: every op is executed through the C API (cinter/splinetable.h) on a C handle and
// through the C++ API on a parallel "twin" object, call by call.  Per op it prints
//   R <seq> <i> <op> C <status> <values..> dg=<digest> | T <status> <values..> dg=<digest> | <dC> <dT>
// C status: z (int 0) / nz (int != 0) / val (value wrapper) / void / null|ptr (pointer wrapper)
// T status: ok / fail (returned false / NULL) / throw / inv (an argument the C++ API cannot even express: NULL)
// dC/dT = change of the number of live heap bytes caused by the C call / the twin call (ASan allocator statistics).
// At the end of a sequence:  E <seq> sumC=<..> sumT=<..> lsan=<0|1> liveH=<n> liveR=<n>   (LSan sees only the C side:
// the twin's allocations are made under __lsan_disable(); liveH / liveR = C handles / result slots that still own
// something when the script ends, i.e. what the script itself failed to release; they are dropped before the leak
// check so that LeakSanitizer attributes whatever is unreachable to this sequence and not to the next one).
// Allocation failure (std::bad_alloc): the executable replaces the global `operator new` / `operator new[]` (they forward
// to the next definition in link order: ASan's, or libstdc++'s in the as-shipped build, so that the new/delete pairing
// checks of ASan stay intact).  Inside the measured window of the C call and of the twin call every request is counted
// and its size hashed; an op decorated with `A:<k>` makes the k-th request (k = 0, 1, ..) of the C call throw
// std::bad_alloc, and the k-th request of the twin call as well.  Every R line ends with
//   | aC=<requests>:<fired 0|1>:<hash of the sizes> aT=<requests>:<fired>:<hash>
// so that the runner can (a) check that the wrappers whose C++ operation the model classifies as `canThrow = false` make
// no request at all, (b) see whether the twin's requests are the ones the wrapper makes (same sizes in the same order up
// to the failing one), and (c) compare status / object state / heap after a failed allocation like after any other failure.
// Objects without data (ndim == 0): `get .. ndim|total`, `search` and the ops with a table->data guard are executed on
// them like on any table; the per-dimension accessors, `coeffs` and the evaluation ops are undefined in the C++ class
// there and answer `skip`, as does every value / evaluation op on a handle that owns nothing (token `if-object`: the
// script does not know what an injected allocation failure left behind and lets the harness decide).
// usage: c18_harness <script> <fixture-dir>       (script: FIX <seed> / SEQ <id> <nh> / op lines / END)
#include "common.h"
#include <fstream>
#include <cstdarg>
#include <new>
#include <dlfcn.h>
#include <unistd.h>
#include <sys/stat.h>
#if defined(__SANITIZE_ADDRESS__)
// (the sanitizer interface headers are not installed here; these are their stable C declarations)
extern "C" { size_t __sanitizer_get_current_allocated_bytes(void); void __lsan_disable(void); void __lsan_enable(void); int __lsan_do_recoverable_leak_check(void); }
#define HAVE_SAN 1
#else
#define HAVE_SAN 0
#endif
using namespace psv;

// ---------------------------------------------------------------- operator new: counting + injected std::bad_alloc
struct AllocWin { long n; int fired; uint64_t h; };
static struct { bool open; long countdown; AllocWin w; } INJ = {false, -1, {0, 0, 0}};
static inline void* inj_request(size_t n, const char* sym, void* (**real)(size_t)) {
  if (!*real) { *real = (void* (*)(size_t))dlsym(RTLD_NEXT, sym); if (!*real) { fputs("no next operator new\n", stderr); abort(); } }
  if (INJ.open) {
    if (INJ.countdown == 0) { INJ.countdown = -1; INJ.w.fired = 1; throw std::bad_alloc(); }
    if (INJ.countdown > 0) INJ.countdown--;
    INJ.w.n++; INJ.w.h = (INJ.w.h ^ (uint64_t)n) * 1099511628211ULL;
  }
  return (*real)(n);
}
void* operator new(size_t n) { static void* (*real)(size_t) = nullptr; return inj_request(n, "_Znwm", &real); }
void* operator new[](size_t n) { static void* (*real)(size_t) = nullptr; return inj_request(n, "_Znam", &real); }
static inline void inj_open(long k) { INJ.w.n = 0; INJ.w.fired = 0; INJ.w.h = 1469598103934665603ULL; INJ.countdown = k; INJ.open = true; }
static inline AllocWin inj_close() { INJ.open = false; INJ.countdown = -1; return INJ.w; }

static long heap_now() {
#if HAVE_SAN
  return (long)__sanitizer_get_current_allocated_bytes();
#else
  return 0;
#endif
}
static void lsan_off() {
#if HAVE_SAN
  __lsan_disable();
#endif
}
static void lsan_on() {
#if HAVE_SAN
  __lsan_enable();
#endif
}

// ---------------------------------------------------------------- hashing / formatting (no heap use in hot path)
static uint64_t fnv(const void* p, size_t n, uint64_t h = 1469598103934665603ULL) {
  const unsigned char* c = (const unsigned char*)p;
  for (size_t i = 0; i < n; i++) { h ^= c[i]; h *= 1099511628211ULL; }
  return h;
}
static uint64_t fnv_d(const double* d, size_t n, uint64_t h) { for (size_t i = 0; i < n; i++) { uint64_t b = cbits(d[i]); h = fnv(&b, 8, h); } return h; }
static uint64_t fnv_f(const float* d, size_t n, uint64_t h) { for (size_t i = 0; i < n; i++) { uint32_t b = cbits(d[i]); h = fnv(&b, 4, h); } return h; }

struct Buf {  // fixed-size output buffer: formatting a result must not disturb the heap statistics
  char s[2048]; size_t n;
  Buf() : n(0) { s[0] = 0; }
  void add(const char* fmt, ...) __attribute__((format(printf, 2, 3))) {
    va_list ap; va_start(ap, fmt); int k = vsnprintf(s + n, sizeof(s) - n, fmt, ap); va_end(ap);
    if (k > 0) n = std::min(sizeof(s) - 1, n + (size_t)k);
  }
};

// digest of the whole observable state of a table object (robust for empty / partially built objects)
static void digest(const Table* t, Buf& b) {
  if (!t) { b.add(" dg=null"); return; }
  uint64_t h = 1469598103934665603ULL;
  uint32_t nd = t->ndim;
  h = fnv(&nd, 4, h);
  if (nd == 0) { b.add(" dg=empty%u", (unsigned)t->naux); return; }
  if (!t->order || !t->nknots || !t->knots || !t->naxes || !t->strides || !t->coefficients || !t->extents) { b.add(" dg=partial"); return; }
  for (uint32_t i = 0; i < nd; i++) if (!t->knots[i] || !t->extents[i]) { b.add(" dg=partial"); return; }
  h = fnv(t->order, 4 * nd, h); h = fnv(t->nknots, 8 * nd, h); h = fnv(t->naxes, 8 * nd, h); h = fnv(t->strides, 8 * nd, h);
  for (uint32_t i = 0; i < nd; i++) { h = fnv_d(t->knots[i], t->nknots[i], h); h = fnv_d(t->extents[i], 2, h); }
  if (t->periods) h = fnv_d(t->periods, nd, h);
  h = fnv_f(t->coefficients, t->naxes[0] * t->strides[0], h);
  for (uint32_t i = 0; i < t->naux; i++) { h = fnv(t->aux[i][0], strlen(t->aux[i][0]) + 1, h); h = fnv(t->aux[i][1], strlen(t->aux[i][1]) + 1, h); }
  b.add(" dg=%016llx", (unsigned long long)h);
}

// ---------------------------------------------------------------- fixtures
struct Fixtures {
  std::string dir;
  std::vector<std::string> tfile;                       // t0..t4
  std::vector<std::pair<void*, size_t>> tmem;
  std::string garbage, empty, trunc, trunc2, missing, outC, outT, baddir;
  std::pair<void*, size_t> garbagemem, truncmem, trunc2mem;
} FX;

static void write_bytes(const std::string& p, const void* d, size_t n) { FILE* f = fopen(p.c_str(), "wb"); if (n) fwrite(d, 1, n, f); fclose(f); }

static void make_fixtures(uint64_t seed, const std::string& dir) {
  Rng r(seed * 7919 + 17);
  FX.dir = dir;
  struct Spec { std::vector<uint32_t> ord; std::vector<int> extra; bool zero; };
  std::vector<Spec> specs = {
    {{2}, {3}, false},
    {{2, 3}, {2, 2}, false},
    {{1, 2, 1}, {1, 1, 1}, false},
    {{1, 1, 1, 1, 1, 1, 1, 1}, {0, 0, 0, 0, 0, 0, 0, 0}, false},   // 8 dimensions: ndsplineeval_gradient refuses these
    {{1}, {2}, true},                                                // all-zero coefficients: grideval yields a result with 0 rows
  };
  for (size_t k = 0; k < specs.size(); k++) {
    Table t;
    std::vector<std::vector<double>> kn;
    for (size_t i = 0; i < specs[k].ord.size(); i++) kn.push_back(gen_knots(r, specs[k].ord[i], specs[k].extra[i], (int)r.below(2)));
    std::vector<float> coef(ncoef(specs[k].ord, kn));
    for (auto& c : coef) c = specs[k].zero ? 0.f : (r.coin(1, 6) ? 0.f : (float)(r.unit() * 2 - 1));
    if (!specs[k].zero) coef[0] = 0.5f;
    std::vector<double> pad(1, 0.0);
    build_table(t, specs[k].ord, kn, coef, &pad);
    t.write_key("INTKEY", 42); t.write_key("DBLKEY", 2.5); t.write_key("STRKEY", std::string("hello"));
    std::string p = dir + "/t" + std::to_string(k) + ".fits";
    t.write_fits(p);
    FX.tfile.push_back(p);
    FX.tmem.push_back(t.write_fits_mem());
  }
  std::vector<unsigned char> g(5000); for (auto& c : g) c = (unsigned char)r.below(256);
  FX.garbage = dir + "/garbage.fits"; write_bytes(FX.garbage, g.data(), g.size());
  FX.garbagemem.second = g.size(); FX.garbagemem.first = malloc(g.size()); memcpy(FX.garbagemem.first, g.data(), g.size());
  FX.empty = dir + "/empty.fits"; write_bytes(FX.empty, "", 0);
  // truncated inside the primary header: cfitsio cannot even open it
  size_t cut = 1000;
  FX.trunc = dir + "/trunc.fits"; write_bytes(FX.trunc, FX.tmem[1].first, cut);
  FX.truncmem.second = cut; FX.truncmem.first = malloc(cut); memcpy(FX.truncmem.first, FX.tmem[1].first, cut);
  // truncated after the coefficient HDU (the knot and extent HDUs are missing): the reader has already built part of the
  // object when it fails; it must release that and leave an empty table (arbitrary corruption is the subject of C07)
  size_t cut2 = 2 * 2880;
  if (cut2 >= FX.tmem[1].second) cut2 = FX.tmem[1].second - 2880;
  FX.trunc2 = dir + "/trunc2.fits"; write_bytes(FX.trunc2, FX.tmem[1].first, cut2);
  FX.trunc2mem.second = cut2; FX.trunc2mem.first = malloc(cut2); memcpy(FX.trunc2mem.first, FX.tmem[1].first, cut2);
  FX.missing = dir + "/missing.fits";
  FX.outC = dir + "/outC.fits"; FX.outT = dir + "/outT.fits";
  FX.baddir = dir + "/no_such_dir/x.fits";
}

static uint64_t file_hash(const std::string& p) {
  FILE* f = fopen(p.c_str(), "rb"); if (!f) return 0;
  uint64_t h = 1469598103934665603ULL; unsigned char b[4096]; size_t n;
  while ((n = fread(b, 1, sizeof b, f)) > 0) h = fnv(b, n, h);
  fclose(f); return h;
}

// ---------------------------------------------------------------- state
static const int MAXH = 3, MAXS = 8;
static struct splinetable H[MAXH];
static Table* W[MAXH];
static struct ndsparse* ND_C[MAXS];
static photospline::ndsparse* ND_T[MAXS];

static uint64_t nd_hash(const struct ndsparse* nd) {
  uint64_t h = 1469598103934665603ULL;
  uint64_t r = nd->rows, d = nd->ndim; h = fnv(&r, 8, h); h = fnv(&d, 8, h);
  h = fnv(nd->ranges, 4 * nd->ndim, h); h = fnv_d(nd->x, nd->rows, h);
  for (size_t i = 0; i < nd->ndim; i++) h = fnv(nd->i[i], 4 * nd->rows, h);
  return h;
}

// every array of an object with data is there (an object that a failed operation left half-built would make the twin's
// own calls undefined; the digest comparison reports such an object as `partial`)
static bool complete(const Table* t) {
  if (!t->order || !t->nknots || !t->knots || !t->naxes || !t->strides || !t->coefficients || !t->extents) return false;
  for (uint32_t i = 0; i < t->ndim; i++) if (!t->knots[i] || !t->extents[i]) return false;
  return true;
}

// scratch vectors reused across ops (sized once; resizing happens outside the measured windows)
static std::vector<double> X; static std::vector<int> CEN_C, CEN_T; static std::vector<double> G_C, G_T;

static bool draw_point(const Table* t, Rng& r, bool inside, const std::string& how = "") {
  uint32_t nd = t->ndim; X.resize(nd); CEN_C.assign(nd, -1); CEN_T.assign(nd, -1); G_C.assign(nd + 1, 0); G_T.assign(nd + 1, 0);
  for (uint32_t i = 0; i < nd; i++) {
    double lo = t->knots[i][0], hi = t->knots[i][t->nknots[i] - 1];
    X[i] = lo + (hi - lo) * (0.02 + 0.96 * r.unit());
  }
  if (!inside) { uint32_t i = (uint32_t)r.below(nd); X[i] = t->knots[i][t->nknots[i] - 1] + 1.0 + r.unit(); }
  // one coordinate NaN (searchcenters refuses it) / exactly on the last knot (accepted: the interval is closed on the right)
  if (nd && how == "nan") X[r.below(nd)] = std::numeric_limits<double>::quiet_NaN();
  if (nd && how == "edge") { uint32_t i = (uint32_t)r.below(nd); X[i] = t->knots[i][t->nknots[i] - 1]; }
  return true;
}

struct FitData {
  struct ndsparse data; std::vector<double> w; std::vector<std::vector<double>> coords, knots; std::vector<uint32_t> ord, pord; std::vector<double> smooth;
  std::vector<const double*> cptr, kptr; std::vector<uint64_t> nk; uint32_t monodim;
};
static void make_fit(FitData& f, const std::string& variant, Rng& r) {
  int nd = (variant == "good2") ? 2 : 1;
  std::vector<int> n = nd == 1 ? std::vector<int>{10} : std::vector<int>{6, 5};
  size_t rows = 1; for (int k : n) rows *= k;
  ndsparse_allocate(&f.data, rows, nd);
  f.coords.assign(nd, {}); f.knots.assign(nd, {}); f.ord.assign(nd, 2); f.pord.assign(nd, 2); f.smooth.assign(nd, 1e-2);
  for (int d = 0; d < nd; d++) {
    for (int i = 0; i < n[d]; i++) f.coords[d].push_back(i + 0.5);
    for (int i = -2; i <= n[d] + 2; i++) f.knots[d].push_back((double)i);
    f.data.ranges[d] = n[d];
  }
  for (size_t row = 0; row < rows; row++) {
    size_t c = row; double v = 0;
    for (int d = nd - 1; d >= 0; d--) { unsigned idx = c % n[d]; c /= n[d]; f.data.i[d][row] = idx; v += std::sin(0.4 * idx + d); }
    f.data.x[row] = v + 0.01 * (r.unit() - 0.5);
  }
  f.w.assign(rows, 1.0);
  f.monodim = Table::no_monodim;
  if (variant == "unsorted") std::swap(f.knots[0][1], f.knots[0][3]);
  if (variant == "badmono") f.monodim = nd + 1;
  if (variant == "badidx") f.data.i[0][0] = n[0] + 3;
  f.cptr.clear(); f.kptr.clear(); f.nk.clear();
  for (int d = 0; d < nd; d++) { f.cptr.push_back(f.coords[d].data()); f.kptr.push_back(f.knots[d].data()); f.nk.push_back(f.knots[d].size()); }
}

static std::vector<std::string> split(const std::string& l) { std::istringstream ss(l); std::vector<std::string> w; std::string t; while (ss >> t) w.push_back(t); return w; }

static const char* rc_status(int rc) { return rc == 0 ? "z" : "nz"; }

// ---------------------------------------------------------------- one op
// returns false when the op was skipped (not applicable to the current state)
static bool run_op(const std::vector<std::string>& w, Buf& c, Buf& t, long& dC, long& dT, AllocWin& aC, AllocWin& aT) {
  const std::string& op = w[0];
  dC = dT = 0; aC = aT = AllocWin{0, 0, 0};
  long a0, a1, a2;
  long inject = -1; for (auto& x : w) if (x.compare(0, 2, "A:") == 0) inject = atol(x.c_str() + 2);
#define CSIDE(stmt) do { a0 = heap_now(); inj_open(inject); stmt; aC = inj_close(); a1 = heap_now(); dC = a1 - a0; } while (0)
#define TSIDE(stmt) do { fputs("c\n", stdout); fflush(stdout); lsan_off(); a1 = heap_now(); inj_open(inject); stmt; aT = inj_close(); a2 = heap_now(); lsan_on(); dT = a2 - a1; } while (0)
  if (op == "nddestroy") {
    int s = atoi(w[1].c_str());
    CSIDE(ndsparse_destroy(ND_C[s]); ND_C[s] = nullptr);
    TSIDE(delete ND_T[s]; ND_T[s] = nullptr);
    c.add("void"); t.add("ok");
    return true;
  }
  int h = atoi(w[1].c_str());
  std::string nullarg; for (auto& x : w) if (x.compare(0, 2, "N:") == 0) nullarg = x.substr(2);
  struct splinetable* ch = nullarg == "table" ? nullptr : &H[h];
  Table* cobj = (Table*)H[h].data;
  if (op == "init") {
    int rc; CSIDE(rc = splinetable_init(ch)); c.add("%s", rc_status(rc));
    if (!ch) t.add("inv"); else { bool thrown = false; TSIDE(try { W[h] = new Table(); } catch (...) { thrown = true; }); t.add(thrown ? "throw" : "ok"); }
  } else if (op == "free") {
    CSIDE(splinetable_free(ch)); c.add("void data=%s", H[h].data ? "set" : "null");
    if (ch && H[h].data) H[h].data = nullptr;   // dangling: reported through data=set; do not touch the freed object below
    if (!ch) t.add("inv"); else { TSIDE(delete W[h]; W[h] = nullptr); t.add("ok data=null"); }
  } else if (op == "readfile") {
    const std::string& src = w[2];
    std::string path = src == "missing" ? FX.missing : src == "garbage" ? FX.garbage : src == "empty" ? FX.empty : src == "trunc" ? FX.trunc : src == "trunc2" ? FX.trunc2 : src[0] == 't' ? FX.tfile[src[1] - '0'] : "";
    const char* p = nullarg == "path" ? nullptr : path.c_str();
    int rc; CSIDE(rc = readsplinefitstable(p, ch)); c.add("%s", rc_status(rc));
    if (!p || !ch) t.add("inv");
    else { bool thrown = false; TSIDE(delete W[h]; W[h] = nullptr; try { W[h] = new Table(p); } catch (...) { thrown = true; }); t.add(thrown ? "throw" : "ok"); }
  } else if (op == "readmem") {
    const std::string& src = w[2];
    std::pair<void*, size_t> m = src == "garbage" ? FX.garbagemem : src == "trunc" ? FX.truncmem : src == "trunc2" ? FX.trunc2mem : FX.tmem[src[1] - '0'];
    struct splinetable_buffer b; b.data = nullarg == "data" ? nullptr : m.first; b.size = m.second;
    struct splinetable_buffer* bp = nullarg == "buffer" ? nullptr : &b;
    int rc; CSIDE(rc = readsplinefitstable_mem(bp, ch)); c.add("%s", rc_status(rc));
    if (!bp || !b.data || !ch) t.add("inv");
    else { int st = 0; TSIDE(try { if (!W[h]) W[h] = new Table(); st = W[h]->read_fits_mem(m.first, m.second) ? 0 : 1; } catch (...) { st = 2; });
      t.add(st == 0 ? "ok" : st == 1 ? "fail" : W[h] ? "throw" : "throw noobj"); }
  } else if (op == "writefile") {
    const std::string& dst = w[2];
    std::string pc = dst == "baddir" ? FX.baddir : FX.outC, pt = dst == "baddir" ? FX.baddir : FX.outT;
    const char* p = nullarg == "path" ? nullptr : pc.c_str();
    unlink(FX.outC.c_str()); unlink(FX.outT.c_str());
    int rc; CSIDE(rc = writesplinefitstable(p, ch)); c.add("%s", rc_status(rc));
    if (rc == 0) c.add(" fh=%016llx", (unsigned long long)file_hash(pc));
    if (!p || !ch || !W[h]) t.add("inv");
    else { bool thrown = false; const char* ptc = pt.c_str(); TSIDE(try { W[h]->write_fits(ptc); } catch (...) { thrown = true; }); t.add(thrown ? "throw" : "ok"); if (!thrown) t.add(" fh=%016llx", (unsigned long long)file_hash(pt)); }
  } else if (op == "writemem") {
    struct splinetable_buffer b; b.data = nullptr; b.size = 0; char dummy;
    if (nullarg == "occupied") b.data = &dummy;
    struct splinetable_buffer* bp = nullarg == "buffer" ? nullptr : &b;
    int rc; uint64_t hh = 0; size_t sz = 0;
    CSIDE(rc = writesplinefitstable_mem(bp, ch); if (rc == 0) { hh = fnv(b.data, b.size); sz = b.size; free(b.data); });
    c.add("%s", rc_status(rc)); if (rc == 0) c.add(" mh=%016llx n=%zu", (unsigned long long)hh, sz);
    if (!bp || nullarg == "occupied" || !ch || !W[h]) t.add("inv");
    else { bool thrown = false; TSIDE(try { auto r = W[h]->write_fits_mem(); hh = fnv(r.first, r.second); sz = r.second; free(r.first); } catch (...) { thrown = true; });
      t.add(thrown ? "throw" : "ok"); if (!thrown) t.add(" mh=%016llx n=%zu", (unsigned long long)hh, sz); }
  } else if (op == "getkey") {
    const char* key = nullarg == "key" ? nullptr : w[2].c_str();
    const char* v; CSIDE(v = splinetable_get_key(ch, key));
    if (v) c.add("ptr s=%s", v); else c.add("null");
    if (!key || !ch || !W[h]) t.add("inv"); else { const char* tv; TSIDE(tv = W[h]->get_aux_value(key)); if (tv) t.add("ok s=%s", tv); else t.add("fail"); }
  } else if (op == "readkey") {
    bool isint = w[2] == "i"; const char* key = nullarg == "key" ? nullptr : w[3].c_str();
    int iv = -777; double dv = -777.0; void* res = nullarg == "result" ? nullptr : (isint ? (void*)&iv : (void*)&dv);
    int rc; CSIDE(rc = splinetable_read_key(ch, isint ? SPLINETABLE_INT : SPLINETABLE_DOUBLE, key, res));
    c.add("%s", rc_status(rc)); if (rc == 0) { if (isint) c.add(" v=%d", iv); else c.add(" v=%llu", (unsigned long long)cbits(dv)); }
    if (!key || !res || !ch || !W[h]) t.add("inv");
    else { int tiv = -777; double tdv = -777.0; int st = 0;
      TSIDE(try { bool ok = isint ? W[h]->read_key(key, tiv) : W[h]->read_key(key, tdv); st = ok ? 0 : 1; } catch (...) { st = 2; });
      t.add(st == 0 ? "ok" : st == 1 ? "fail" : "throw"); if (st == 0) { if (isint) t.add(" v=%d", tiv); else t.add(" v=%llu", (unsigned long long)cbits(tdv)); } }
  } else if (op == "writekey") {
    bool isint = w[2] == "i"; const char* key = nullarg == "key" ? nullptr : w[3].c_str();
    int iv = atoi(w[4].c_str()); double dv = iv * 0.375;
    const void* val = nullarg == "value" ? nullptr : (isint ? (const void*)&iv : (const void*)&dv);
    int rc; CSIDE(rc = splinetable_write_key(ch, isint ? SPLINETABLE_INT : SPLINETABLE_DOUBLE, key, val)); c.add("%s", rc_status(rc));
    if (!key || !val || !ch || !W[h]) t.add("inv");
    else { int st = 0; TSIDE(try { if (isint) W[h]->write_key(key, iv); else W[h]->write_key(key, dv); } catch (...) { st = 2; }); t.add(st == 0 ? "ok" : "throw"); }
  } else if (op == "get") {
    const std::string& which = w[2]; Rng r(strtoull(w[3].c_str(), nullptr, 10));
    // no object behind the handle (the generator does not know the state after an injected allocation failure and asks
    // "if-object"): the value wrappers are undefined there (C18_undefined_without_object) -- never called
    const Table* tw = W[h]; if (!tw || !H[h].data) return false;
    uint32_t nd = tw->ndim; uint32_t d = nd ? (uint32_t)r.below(nd) : 0;
    // an object WITHOUT data (ndim == 0: after splinetable_init, after a failed read / fit / convolve): the accessors
    // without a dimension argument are defined by the C++ class -- get_ndim() = 0, get_ncoeffs() = the empty product 1 --
    // and are compared like on any other table; the per-dimension accessors (assert(dim<ndim), null arrays) and
    // get_coefficients() (`&coefficients[0]` on the null array) are not, and are skipped
    if (which == "ndim") { uint32_t v; CSIDE(v = splinetable_ndim(ch)); c.add("val v=%u", v); TSIDE(v = tw->get_ndim()); t.add("ok v=%u", v); }
    else if (which == "total") { uint64_t v; CSIDE(v = splinetable_total_ncoeffs(ch)); c.add("val v=%llu", (unsigned long long)v); TSIDE(v = tw->get_ncoeffs()); t.add("ok v=%llu", (unsigned long long)v); }
    else if (nd == 0 || !complete(tw)) return false;
    else if (which == "order") { uint32_t v; CSIDE(v = splinetable_order(ch, d)); c.add("val v=%u", v); TSIDE(v = tw->get_order(d)); t.add("ok v=%u", v); }
    else if (which == "nknots") { uint64_t v; CSIDE(v = splinetable_nknots(ch, d)); c.add("val v=%llu", (unsigned long long)v); TSIDE(v = tw->get_nknots(d)); t.add("ok v=%llu", (unsigned long long)v); }
    else if (which == "knots") { const double* v; CSIDE(v = splinetable_knots(ch, d)); c.add("ptr v=%016llx", (unsigned long long)fnv_d(v, cobj->nknots[d], 7)); TSIDE(v = tw->get_knots(d)); t.add("ok v=%016llx", (unsigned long long)fnv_d(v, tw->nknots[d], 7)); }
    else if (which == "knot") { uint64_t k = r.below(tw->nknots[d]); double v; CSIDE(v = splinetable_knot(ch, d, k)); c.add("val v=%llu", (unsigned long long)cbits(v)); TSIDE(v = tw->get_knot(d, k)); t.add("ok v=%llu", (unsigned long long)cbits(v)); }
    else if (which == "lower") { double v; CSIDE(v = splinetable_lower_extent(ch, d)); c.add("val v=%llu", (unsigned long long)cbits(v)); TSIDE(v = tw->lower_extent(d)); t.add("ok v=%llu", (unsigned long long)cbits(v)); }
    else if (which == "upper") { double v; CSIDE(v = splinetable_upper_extent(ch, d)); c.add("val v=%llu", (unsigned long long)cbits(v)); TSIDE(v = tw->upper_extent(d)); t.add("ok v=%llu", (unsigned long long)cbits(v)); }
    else if (which == "period") { if (!tw->periods || !cobj->periods) return false; double v; CSIDE(v = splinetable_period(ch, d)); c.add("val v=%llu", (unsigned long long)cbits(v)); TSIDE(v = tw->get_period(d)); t.add("ok v=%llu", (unsigned long long)cbits(v)); }
    else if (which == "ncoeffs") { uint64_t v; CSIDE(v = splinetable_ncoeffs(ch, d)); c.add("val v=%llu", (unsigned long long)v); TSIDE(v = tw->get_ncoeffs(d)); t.add("ok v=%llu", (unsigned long long)v); }
    else if (which == "stride") { uint64_t v; CSIDE(v = splinetable_stride(ch, d)); c.add("val v=%llu", (unsigned long long)v); TSIDE(v = tw->get_stride(d)); t.add("ok v=%llu", (unsigned long long)v); }
    else if (which == "coeffs") { const float* v; CSIDE(v = splinetable_coefficients(ch)); c.add("ptr v=%016llx", (unsigned long long)fnv_f(v, cobj->naxes[0] * cobj->strides[0], 7)); TSIDE(v = tw->get_coefficients()); t.add("ok v=%016llx", (unsigned long long)fnv_f(v, tw->naxes[0] * tw->strides[0], 7)); }
    else return false;
  } else if (op == "search" || op == "eval" || op == "grad" || op == "deriv") {
    // searchcenters of an object without data is defined (no dimension to test: true, nothing read or written), the
    // evaluation functions are not (`*std::max_element(order, order+0)`)
    const Table* tw = W[h]; if (!tw || !H[h].data || (tw->ndim == 0 && op != "search") || (tw->ndim != 0 && !complete(tw))) return false;
    Rng r(strtoull(w[3].c_str(), nullptr, 10));
    draw_point(tw, r, w[2] != "out" || tw->ndim == 0, w[2]);
    uint32_t nd = tw->ndim;
    if (op == "search") {
      int rc; CSIDE(rc = tablesearchcenters(ch, X.data(), CEN_C.data())); bool ok; TSIDE(ok = tw->searchcenters(X.data(), CEN_T.data()));
      c.add("%s", rc_status(rc)); t.add(ok ? "ok" : "fail");
      if (ok) { c.add(" c="); t.add(" c="); for (uint32_t i = 0; i < nd; i++) { c.add("%d,", CEN_C[i]); t.add("%d,", CEN_T[i]); } }
    } else {
      bool ok; lsan_off(); ok = tw->searchcenters(X.data(), CEN_T.data()); lsan_on();
      if (!ok) return false;
      CEN_C = CEN_T;
      if (op == "eval") {
        int mask = 0; for (uint32_t i = 0; i < nd; i++) if (r.coin(1, 4)) mask |= 1 << i;
        double v; CSIDE(v = ndsplineeval(ch, X.data(), CEN_C.data(), mask)); c.add("val v=%llu", (unsigned long long)cbits(v));
        TSIDE(v = tw->ndsplineeval(X.data(), CEN_T.data(), mask)); t.add("ok v=%llu", (unsigned long long)cbits(v));
      } else if (op == "grad") {
        for (auto& g : G_C) g = -777.0;
        CSIDE(ndsplineeval_gradient(ch, X.data(), CEN_C.data(), G_C.data()));
        bool thrown = false; TSIDE(try { tw->ndsplineeval_gradient(X.data(), CEN_T.data(), G_T.data()); } catch (...) { thrown = true; });
        c.add("void"); t.add(thrown ? "throw" : "ok");
        if (!thrown) { c.add(" g="); t.add(" g="); c.add("%016llx", (unsigned long long)fnv_d(G_C.data(), nd + 1, 7)); t.add("%016llx", (unsigned long long)fnv_d(G_T.data(), nd + 1, 7)); }
        else { bool allnan = true; for (auto g : G_C) if (g == g) allnan = false; c.add(allnan ? " g=nan" : " g=stale"); }
      } else {
        std::vector<unsigned int> dv(nd); for (uint32_t i = 0; i < nd; i++) dv[i] = (unsigned)r.below(std::min<uint32_t>(2, tw->order[i]) + 1);
        // derivatives == NULL is an input the C++ operation defines (it tests for it: no differentiation in any dimension)
        const unsigned int* dp = r.coin(1, 5) ? nullptr : dv.data();
        double v; CSIDE(v = ndsplineeval_deriv(ch, X.data(), CEN_C.data(), dp)); c.add("val v=%llu%s", (unsigned long long)cbits(v), dp ? "" : " dv=null");
        TSIDE(v = tw->ndsplineeval_deriv(X.data(), CEN_T.data(), dp)); t.add("ok v=%llu%s", (unsigned long long)cbits(v), dp ? "" : " dv=null");
      }
    }
  } else if (op == "glamfit") {
    Rng r(strtoull(w[3].c_str(), nullptr, 10));
    FitData f; make_fit(f, w[2], r);
    const struct ndsparse* dp = nullarg == "data" ? nullptr : &f.data;
    int rc; CSIDE(rc = splinetable_glamfit(ch, dp, f.w.data(), f.cptr.data(), f.ord.data(), f.kptr.data(), f.nk.data(), f.smooth.data(), f.pord.data(), f.monodim, false));
    c.add("%s", rc_status(rc));
    if (!dp || !ch || !W[h]) t.add("inv");
    else { bool thrown = false; TSIDE(try {
        using photospline::detail::array_view; const struct ndsparse* d = &f.data;
        array_view<double> wv(f.w.data(), d->rows);
        std::vector<array_view<double>> cv(d->ndim); for (size_t i = 0; i < d->ndim; i++) cv[i].reset(f.cptr[i], d->ranges[i]);
        array_view<uint32_t> ov(f.ord.data(), d->ndim);
        std::vector<array_view<double>> kv(d->ndim); for (size_t i = 0; i < d->ndim; i++) kv[i].reset(f.kptr[i], f.nk[i]);
        array_view<double> sv(f.smooth.data(), d->ndim); array_view<uint32_t> pv(f.pord.data(), d->ndim);
        W[h]->fit(*d, wv, cv, ov, kv, sv, pv, f.monodim, false); } catch (...) { thrown = true; }); t.add(thrown ? "throw" : "ok"); }
    ndsparse_free(&f.data);
  } else if (op == "grideval") {
    // an object without data: grideval of the C++ core dereferences the (null) arrays unless it checks ndim first; the
    // script asks for this call ("empty-ok") only when the core has that check (bin/props/C18.py: empty_grideval_defined)
    const Table* tw = W[h]; if (tw && tw->ndim == 0 && !(w.size() > 4 && w[4] == "empty-ok")) return false;
    int s = atoi(w[2].c_str()); Rng r(strtoull(w[3].c_str(), nullptr, 10));
    if (!tw || !ch) {   // no object behind the handle (or no handle): the guard must answer, *result must be NULL
      double dummy = 0; const double* cp1[1] = {&dummy}; uint32_t nc1[1] = {1}; int rc; struct ndsparse* res = (struct ndsparse*)0x1;
      CSIDE(rc = splinetable_grideval(ch, cp1, nc1, &res)); c.add("%s%s", rc_status(rc), res ? " res=stale" : " res=null"); t.add("inv res=null");
      digest((Table*)H[h].data, c); digest(W[h], t); return true;
    }
    uint32_t nd = tw->ndim;
    std::vector<std::vector<double>> co(nd); std::vector<const double*> cp(nd); std::vector<uint32_t> nc(nd);
    for (uint32_t i = 0; i < nd; i++) {
      int n = nd > 4 ? 1 : (int)r.range(1, 3);
      double lo = tw->extents[i][0], hi = tw->extents[i][1];
      for (int k = 0; k < n; k++) co[i].push_back(lo + (hi - lo) * (k + 0.5) / n);
      cp[i] = co[i].data(); nc[i] = n;
    }
    if (nd == 0) { cp.reserve(1); nc.reserve(1); }   // non-null (empty) argument arrays
    int rc; struct ndsparse* res = (struct ndsparse*)0x1;
    CSIDE(rc = splinetable_grideval(ch, cp.data(), nc.data(), &res));
    c.add("%s", rc_status(rc));
    if (rc == 0 && res) { c.add(" nd=%016llx", (unsigned long long)nd_hash(res)); ND_C[s] = res; } else c.add(res ? " res=stale" : " res=null");
    { bool thrown = false; TSIDE(try { using photospline::detail::array_view; std::vector<array_view<double>> cv(nd); for (uint32_t i = 0; i < nd; i++) cv[i].reset(cp[i], nc[i]);
          ND_T[s] = tw->grideval(cv).release(); } catch (...) { thrown = true; ND_T[s] = nullptr; });
      t.add(thrown ? "throw" : "ok"); if (!thrown) t.add(" nd=%016llx", (unsigned long long)nd_hash(ND_T[s])); else t.add(" res=null"); }
  } else if (op == "permute") {
    const Table* tw = W[h]; if (!tw) return false;
    Rng r(strtoull(w[3].c_str(), nullptr, 10)); uint32_t nd = tw->ndim;
    // (an empty table has no dimensions: the only permutation is the empty one, which permuteDimensions accepts)
    std::vector<size_t> p(nd); std::iota(p.begin(), p.end(), 0);
    for (uint32_t i = nd; i > 1; i--) std::swap(p[i - 1], p[r.below(i)]);
    if (w[2] == "dup" && nd > 0) { if (nd < 2) p[0] = 1; else p[0] = p[1]; }
    if (w[2] == "big" && nd > 0) p[r.below(nd)] = nd + r.below(3);
    std::vector<size_t> pc = p; size_t none[1] = {0};
    int rc; CSIDE(rc = splinetable_permute(ch, nd ? pc.data() : none)); c.add("%s", rc_status(rc));
    const size_t* pp = p.data(); bool thrown = false; TSIDE(try { std::vector<size_t> pv(nd); std::copy(pp, pp + nd, pv.begin()); W[h]->permuteDimensions(pv); } catch (...) { thrown = true; }); t.add(thrown ? "throw" : "ok");
  } else if (op == "convolve") {
    const Table* tw = W[h];
    if (!tw || !ch || nullarg == "knots") {
      double kk[2] = {-0.125, 0.125}; int rc; CSIDE(rc = splinetable_convolve(ch, 0, nullarg == "knots" ? nullptr : kk, 2)); c.add("%s", rc_status(rc)); t.add("inv");
      digest((Table*)H[h].data, c); digest(W[h], t); return true;
    }
    Rng r(strtoull(w[3].c_str(), nullptr, 10)); uint32_t nd = tw->ndim; int d = nd ? (int)r.below(nd) : 0;
    std::vector<double> k = r.coin() ? std::vector<double>{-0.125, 0.125} : std::vector<double>{-0.25, 0.0, 0.25};
    size_t nk = k.size();
    // on an empty table every dimension is out of range: convolve refuses whatever the other arguments are
    if (nd == 0) { if (w[2] == "negdim") d = -1; else if (w[2] == "nokernel") nk = 0; else if (w[2] == "baddim") d = (int)r.below(3); }
    else if (w[2] == "huge") {
      // an absurd n_knots (invalid argument): the size of the first scratch array, nknots*n_knots + 2*convorder, exceeds
      // what `new double[]` can express, so convolve throws std::bad_array_new_length before it touches the table
      nk = (~(size_t)0) / (size_t)tw->nknots[d] / 2;
    }
    else if (w[2] == "baddim") d = (int)(nd + r.below(3));        // dim >= ndim: refused
    else if (w[2] == "negdim") d = -1 - (int)r.below(2);          // negative dim: becomes a huge uint32_t, refused
    else if (w[2] == "nokernel") nk = 0;                          // empty kernel: refused
    else if (tw->order[d] + nk - 1 > 6) return false;
    int rc; CSIDE(rc = splinetable_convolve(ch, d, k.data(), nk)); c.add("%s", rc_status(rc));
    bool thrown = false; TSIDE(try { W[h]->convolve(d, k.data(), nk); } catch (...) { thrown = true; }); t.add(thrown ? "throw" : "ok");
  } else {
    fprintf(stderr, "unknown op %s\n", op.c_str()); exit(3);
  }
  digest((Table*)H[h].data, c); digest(W[h], t);
  return true;
}

static void warmup() {
  // one pass through every library the ops use, so that one-time allocations (cfitsio tables, BLAS threads, iostream
  // locale data) are not attributed to the first sequence
  struct splinetable s; s.data = nullptr;
  readsplinefitstable(FX.tfile[1].c_str(), &s);
  struct splinetable_buffer b; b.data = nullptr; b.size = 0; writesplinefitstable_mem(&b, &s); free(b.data);
  writesplinefitstable(FX.outC.c_str(), &s);
  int iv; double wv = 1.5; splinetable_read_key(&s, SPLINETABLE_INT, "INTKEY", &iv); splinetable_write_key(&s, SPLINETABLE_DOUBLE, "WARM", &wv);
  splinetable_free(&s); s.data = nullptr;   // (the warm-up must not depend on what it is there to help testing)
  readsplinefitstable(FX.missing.c_str(), &s); s.data = nullptr; readsplinefitstable(FX.garbage.c_str(), &s); s.data = nullptr;
  splinetable_init(&s); Rng r(1); FitData f; make_fit(f, "good2", r);
  splinetable_glamfit(&s, &f.data, f.w.data(), f.cptr.data(), f.ord.data(), f.kptr.data(), f.nk.data(), f.smooth.data(), f.pord.data(), f.monodim, false);
  std::vector<const double*> cp = {f.coords[0].data(), f.coords[1].data()}; std::vector<uint32_t> nc = {2, 2}; struct ndsparse* res = nullptr;
  splinetable_grideval(&s, cp.data(), nc.data(), &res);
  if (res) { photospline::ndsparse* d = static_cast<photospline::ndsparse*>(res); delete d; }
  ndsparse_free(&f.data); splinetable_free(&s);
  try { Table t(FX.missing); } catch (...) {}
  try { Table t; t.read_fits_mem(FX.garbagemem.first, FX.garbagemem.second); } catch (...) {}
}

int main(int argc, char** argv) {
  if (argc < 3) { fprintf(stderr, "usage: c18_harness <script> <fixture-dir>\n"); return 2; }
  std::ifstream in(argv[1]); std::string line; std::string seq = "-"; long sumC = 0, sumT = 0; int idx = 0;
  setvbuf(stdout, nullptr, _IOLBF, 1 << 16);
  X.reserve(16); CEN_C.reserve(16); CEN_T.reserve(16); G_C.reserve(17); G_T.reserve(17);
  while (std::getline(in, line)) {
    std::vector<std::string> w = split(line);
    if (w.empty()) continue;
    if (w[0] == "FIX") { make_fixtures(strtoull(w[1].c_str(), nullptr, 10), argv[2]); warmup(); printf("F ok san=%d\n", HAVE_SAN); continue; }
    if (w[0] == "SEQ") {
      seq = w[1]; sumC = sumT = 0; idx = 0;
      for (int i = 0; i < MAXH; i++) { H[i].data = nullptr; W[i] = nullptr; }
      for (int i = 0; i < MAXS; i++) { ND_C[i] = nullptr; ND_T[i] = nullptr; }
      printf("S %s\n", seq.c_str()); fflush(stdout); continue;
    }
    if (w[0] == "END") {
      int leak = 0, liveH = 0, liveR = 0;
      for (int i = 0; i < MAXH; i++) { if (H[i].data) liveH++; H[i].data = nullptr; }
      for (int i = 0; i < MAXS; i++) { if (ND_C[i]) liveR++; ND_C[i] = nullptr; }
#if HAVE_SAN
      leak = __lsan_do_recoverable_leak_check();
#endif
      printf("E %s sumC=%ld sumT=%ld lsan=%d liveH=%d liveR=%d\n", seq.c_str(), sumC, sumT, leak, liveH, liveR); fflush(stdout);
      fprintf(stderr, "@E %s\n", seq.c_str()); fflush(stderr); continue;
    }
    Buf c, t; long dC, dT; AllocWin aC, aT;
    printf("B %s %d %s\n", seq.c_str(), idx, w[0].c_str()); fflush(stdout);
    bool done = run_op(w, c, t, dC, dT, aC, aT);
    if (!done) printf("R %s %d %s skip\n", seq.c_str(), idx, w[0].c_str());
    else { printf("R %s %d %s C %s | T %s | %ld %ld | aC=%ld:%d:%016llx aT=%ld:%d:%016llx\n", seq.c_str(), idx, w[0].c_str(), c.s, t.s, dC, dT,
                  aC.n, aC.fired, (unsigned long long)aC.h, aT.n, aT.fired, (unsigned long long)aT.h); sumC += dC; sumT += dT; }
    fflush(stdout); idx++;
  }
  for (auto& m : FX.tmem) free(m.first);
  free(FX.garbagemem.first); free(FX.truncmem.first); free(FX.trunc2mem.first);
  printf("Q done\n");
  return 0;
}
