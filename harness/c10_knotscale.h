// C10, fourth stream: knot-scale (abscissa-scale) equivariance of the monotonic fit.  Included by mono_harness.cpp
// (uses its Problem / problem_line / parse_problem / do_fit), own sub-command, own generator state: the other three
// streams are unchanged.
//
//   mono_harness knotscale <nproblems> <out> <stats.out>
//   mono_harness ksreplay  <file with a P line followed by its KS line> <out> [<penK.out> <penC.out>]
//
// Theorem (Props/C10.lean, C10_knot_scale_equivariant): replace in dimension d the knots t by h_d*t, the abscissae x by
// h_d*x and the smoothing lambda_d by lambda_d*h_d^(2 p_d) (p_d the penalty order): the Cox-de Boor basis values are
// unchanged, the rows of the p-th divided-difference matrix of calc_penalty/divided_diffs are divided by h^p (every level
// of the recursion divides by delta = (t[j+order+1]-t[j+porder])/(order-(porder-1)), which is h times larger; there is no
// further factor), so the penalty D'D is divided by h^2p and the objective is the same function of the coefficients: the
// unconstrained and the monotonic fit must return the same coefficients.  For h a power of two every scaled quantity
// (knots, abscissae, knot differences, the quotients of the basis recursion, the entries of D, D*tril, D'D and
// lambda*h^2p*D'D) is the exact scaled value, so the assembled system is bit-identical.
//
// out (one record per problem):
//   P <problem words>                      the problem at scale 1 (shape = 20 + data class)
//   KS <ndim> (<bits of h_d> <e_d>)*       the scale of every dimension; e_d = its binary exponent if h_d is a power of two, else 9999
//   R <ncoef> <ok: 4 flags> (<m1> <u1> <mh> <uh>)*     float bits of: monotonic / unconstrained fit at scale 1, monotonic / unconstrained fit at scale h
//
// Penalty-matrix records (optional: `knotscale <n> <out> <stats> <npen> <penK.out> <penC.out>`, and always in `ksreplay <file> <out> <penK.out> <penC.out>`):
// for every dimension of the first <npen> problems the real calc_penalty (glam.c) is called in-process with ndim = 1 on the knots at
// scale 1 and on the rescaled knots, with mono = 1 and mono = 0:
//   penK:  K <order> <porder> <nk> <knot bits>* <h bits> <nk> <scaled knot bits>*          (input of `psvdriver C10`)
//   penC:  C <n> <status> <4 n^2 double bits: mono@1, plain@1, mono@h, plain@h, row-major>   (the code's DtD)
#ifndef PSV_C10_KNOTSCALE_H
#define PSV_C10_KNOTSCALE_H

extern "C" cholmod_sparse* calc_penalty(uint64_t* nsplines, double* knots, uint32_t ndim, uint32_t dim, uint32_t order,
                                        uint32_t porder, int mono, cholmod_common* c);

// the code's penalty matrix of one dimension (ndim = 1: no Kronecker factors), dense row-major; false when CHOLMOD failed
static bool ks_code_penalty(const std::vector<double>& knots, uint32_t order, uint32_t porder, int mono, std::vector<double>& out) {
  cholmod_common c; cholmod_l_start(&c);
  uint64_t ns = knots.size() - order - 1;
  std::vector<double> k(knots);
  cholmod_sparse* P = calc_penalty(&ns, k.data(), 1, 0, order, porder, mono, &c);
  bool ok = P != nullptr && c.status == CHOLMOD_OK;
  out.assign(ns * ns, std::numeric_limits<double>::quiet_NaN());
  if (ok) {
    cholmod_dense* D = cholmod_l_sparse_to_dense(P, &c);
    ok = D != nullptr;
    if (ok) { for (uint64_t i = 0; i < ns; i++) for (uint64_t j = 0; j < ns; j++) out[i * ns + j] = ((double*)D->x)[i + j * D->d]; cholmod_l_free_dense(&D, &c); }
  }
  if (P) cholmod_l_free_sparse(&P, &c);
  cholmod_l_finish(&c);
  return ok;
}

// data classes of this stream
//  0 inactive: smooth positive increasing (1 + 3t + t^2/2)
//  1 inactive through the smoothing: 1 + 3t + a sin(w t + ph) (a 0.15..0.3, w 20..40) with smoothing 10..1000: the penalty of the monotonic
//    dimension irons the ripple out (without it the monotone regression of the ripple has plateaus) - whether the unconstrained fit
//    is increasing with a margin is decided on its coefficients by the check
//  2 active: oscillating   3 active: decreasing   4 partly active: noisy increasing
static const char* KS_CLASSES[] = {"inactive (smooth increasing)", "increasing with a ripple, strong smoothing (inactive once the ripple is ironed out)",
                                   "oscillating (active)", "decreasing (active)", "noisy increasing (partly active)"};

struct KsScale { std::vector<double> h; std::vector<int> e; };

static double ks_pick_scale(Rng& r, int p, int* e, std::map<std::string, long>& stats) {
  // the four scales asked for in every class, plus two per penalty order chosen so that h^-p lies below 2^-52 also for p = 1, 2
  // (1/h^p < 2.2e-16: p = 3 from 3e5, p = 2 from 1e8, p = 1 from 1e16) and one more small scale
  static const int    e_common[3] = {20, 30, -20};
  int k = r.range(0, 5);
  double h; *e = 9999;
  if (k < 3) { *e = e_common[k]; h = std::ldexp(1.0, *e); }
  else if (k == 3) h = 1e6;
  else if (k == 4) {                       // a larger power of two: p = 1: 2^55, p = 2: 2^40, p = 3: 2^-30
    *e = p == 1 ? 55 : (p == 2 ? 40 : -30); h = std::ldexp(1.0, *e);
  } else h = p == 1 ? 1e17 : (p == 2 ? 1e9 : 3e-5);
  char buf[64]; snprintf(buf, sizeof buf, "ks_scale_%s%g", *e != 9999 ? "2^" : "", *e != 9999 ? (double)*e : h);
  stats[buf]++;
  return h;
}

static Problem gen_ks(Rng& r, long it, std::map<std::string, long>& stats, KsScale& sc) {
  Problem p;
  int pm = 1 + (int)(it % 3);                      // penalty order of the monotonic dimension
  p.ndim = ((it / 3) % 3 == 2) ? 2 : 1;
  int cls = (int)((it / 9) % 5);
  p.shape = 20 + cls;
  p.monodim = r.range(0, p.ndim - 1);
  p.order.resize(p.ndim); p.porder.resize(p.ndim); p.smooth.resize(p.ndim); p.knots.resize(p.ndim); p.coords.resize(p.ndim);
  std::vector<int> naxes(p.ndim);
  while (true) {
    long tot = 1;
    for (int d = 0; d < p.ndim; d++) {
      p.porder[d] = d == p.monodim ? pm : r.range(1, 3);
      p.order[d] = r.range(p.porder[d], p.ndim == 1 ? 4 : 3);
      int extra = p.ndim == 1 ? r.range(4, 12) : r.range(1, 3);
      naxes[d] = p.order[d] + 1 + extra; tot *= naxes[d];
    }
    if (tot <= 60) break;
  }
  for (int d = 0; d < p.ndim; d++) {
    int nk = naxes[d] + p.order[d] + 1;
    int style = r.range(0, 1);
    p.knots[d].resize(nk);
    double v = r.coin() ? 0.0 : (r.unit() * 4 - 2);
    for (int i = 0; i < nk; i++) { p.knots[d][i] = v; v += style == 0 ? 1.0 : (0.3 + r.unit() * 1.7); }
    static const double lams[] = {0.1, 1.0, 10.0, 100.0};
    static const double strong[] = {10.0, 100.0, 1000.0};
    p.smooth[d] = (cls == 1 && d == p.monodim) ? strong[r.range(0, 2)] : lams[r.range(0, 3)];
    int npts = p.ndim == 1 ? naxes[d] * r.range(2, 5) : naxes[d] + r.range(2, 6);
    double lo = p.knots[d][p.order[d]], hi = p.knots[d][naxes[d]];
    p.coords[d].resize(npts);
    for (int i = 0; i < npts; i++) p.coords[d][i] = lo + (hi - lo) * (i + 0.5 * r.unit()) / npts;
    stats["ks_order_" + std::to_string(p.order[d])]++;
    stats["ks_penalty_order_" + std::to_string(p.porder[d]) + (d == p.monodim ? "_monodim" : "_otherdim")]++;
  }
  // the scales: the monotonic dimension always gets one of the list; another dimension is left alone, gets the same or its own
  sc.h.assign(p.ndim, 1.0); sc.e.assign(p.ndim, 0);
  sc.h[p.monodim] = ks_pick_scale(r, pm, &sc.e[p.monodim], stats);
  for (int d = 0; d < p.ndim; d++) if (d != p.monodim) {
    int how = r.range(0, 2);
    if (how == 1) { sc.h[d] = sc.h[p.monodim]; sc.e[d] = sc.e[p.monodim]; }
    else if (how == 2) sc.h[d] = ks_pick_scale(r, p.porder[d], &sc.e[d], stats);
    stats[how == 0 ? "ks_otherdim_unscaled" : (how == 1 ? "ks_otherdim_same_scale" : "ks_otherdim_own_scale")]++;
  }
  double drop = (p.ndim == 1 || cls <= 1) ? 0.0 : (r.coin(1, 3) ? 0.0 : r.unit() * 0.4);
  double amp = std::ldexp(1.0, r.range(-2, 4));
  double ph = r.unit() * 6.28, ra = 0.15 + 0.15 * r.unit(), rw = 20 + 20 * r.unit();
  std::vector<unsigned> cell(p.ndim, 0);
  while (true) {
    if (r.unit() >= drop) {
      double t = (p.coords[p.monodim][cell[p.monodim]] - p.coords[p.monodim].front()) / (p.coords[p.monodim].back() - p.coords[p.monodim].front() + 1e-300);
      double other = 0; for (int d = 0; d < p.ndim; d++) if (d != p.monodim) other += 0.3 * std::sin(1.3 * p.coords[d][cell[d]] + d);
      double f;
      switch (cls) {
        case 0: f = 1.0 + 3 * t + 0.5 * t * t + 0.2 * (2 + other); break;
        case 1: f = 1.0 + 3 * t + ra * std::sin(rw * t + ph) + 0.2 * other; break;
        case 2: f = 1.5 + std::sin(9 * t + ph) + other; break;
        case 3: f = 3 - 4 * t + other + 0.2 * (r.unit() - 0.5); break;
        default: f = 2 * t + other + 0.4 * (r.unit() - 0.5); break;
      }
      p.idx.push_back(cell); p.z.push_back(amp * f);
      p.w.push_back((cls >= 2 && r.coin(1, 12)) ? 0.0 : std::ldexp(1.0, r.range(-3, 3)) * (0.5 + r.unit()));
    }
    int d = p.ndim - 1;
    while (d >= 0) { if (++cell[d] < p.coords[d].size()) break; cell[d] = 0; d--; }
    if (d < 0) break;
  }
  stats["ks_ndim_" + std::to_string(p.ndim)]++; stats["ks_class_" + std::to_string(cls)]++;
  return p;
}

// the same problem on rescaled axes: knots and abscissae of dimension d times h_d, smoothing times h_d^(2 p_d)
static Problem ks_rescale(const Problem& p, const KsScale& sc) {
  Problem q = p;
  for (int d = 0; d < p.ndim; d++) {
    double h = sc.h[d];
    for (double& k : q.knots[d]) k *= h;
    for (double& x : q.coords[d]) x *= h;
    if (sc.e[d] != 9999) q.smooth[d] = std::ldexp(p.smooth[d], 2 * (int)p.porder[d] * sc.e[d]);
    else { double f = 1; for (unsigned i = 0; i < 2 * p.porder[d]; i++) f *= h; q.smooth[d] = p.smooth[d] * f; }
  }
  return q;
}

static void ks_penalty_records(const Problem& p, const Problem& q, const KsScale& sc, FILE* fk, FILE* fcp, std::map<std::string, long>& stats) {
  for (int d = 0; d < p.ndim; d++) {
    fprintf(fk, "K %u %u %zu", p.order[d], p.porder[d], p.knots[d].size());
    for (double k : p.knots[d]) fprintf(fk, " %llu", (unsigned long long)bits(k));
    fprintf(fk, " %llu %zu", (unsigned long long)bits(sc.h[d]), q.knots[d].size());
    for (double k : q.knots[d]) fprintf(fk, " %llu", (unsigned long long)bits(k));
    fprintf(fk, "\n"); fflush(fk);
    size_t n = p.knots[d].size() - p.order[d] - 1; int status = 0;
    std::vector<double> m[4];
    status |= ks_code_penalty(p.knots[d], p.order[d], p.porder[d], 1, m[0]) ? 0 : 1;
    status |= ks_code_penalty(p.knots[d], p.order[d], p.porder[d], 0, m[1]) ? 0 : 2;
    status |= ks_code_penalty(q.knots[d], p.order[d], p.porder[d], 1, m[2]) ? 0 : 4;
    status |= ks_code_penalty(q.knots[d], p.order[d], p.porder[d], 0, m[3]) ? 0 : 8;
    fprintf(fcp, "C %zu %d", n, status);
    for (int f = 0; f < 4; f++) for (double v : m[f]) fprintf(fcp, " %llu", (unsigned long long)cbits(v));
    fprintf(fcp, "\n"); fflush(fcp);
    stats["ks_penalty_matrices"] += 4;
  }
}

static void ks_run(const Problem& p, const KsScale& sc, FILE* out, std::map<std::string, long>& stats, FILE* fk = nullptr, FILE* fcp = nullptr) {
  fprintf(out, "%s\n", problem_line(p).c_str());
  fprintf(out, "KS %d", p.ndim);
  for (int d = 0; d < p.ndim; d++) fprintf(out, " %llu %d", (unsigned long long)bits(sc.h[d]), sc.e[d]);
  fprintf(out, "\n"); fflush(out);
  Problem q = ks_rescale(p, sc);
  if (fk && fcp) ks_penalty_records(p, q, sc, fk, fcp, stats);
  Table t[4]; bool ok[4]; std::string err;
  ok[0] = do_fit(p, p.monodim, t[0], err);
  ok[1] = do_fit(p, Table::no_monodim, t[1], err);
  ok[2] = do_fit(q, q.monodim, t[2], err);
  ok[3] = do_fit(q, Table::no_monodim, t[3], err);
  uint64_t nc = 1; for (int d = 0; d < p.ndim; d++) nc *= p.knots[d].size() - p.order[d] - 1;
  fprintf(out, "R %llu %d%d%d%d", (unsigned long long)nc, ok[0], ok[1], ok[2], ok[3]);
  for (uint64_t j = 0; j < nc; j++)
    for (int f = 0; f < 4; f++) fprintf(out, " %u", ok[f] ? cbits(t[f].coefficients[j]) : 0x7fc00000U);
  fprintf(out, "\n"); fflush(out);
  stats["ks_fits"] += 4;
  for (int f = 0; f < 4; f++) if (!ok[f]) stats["ks_fit_threw"]++;
}

static int ks_main(int argc, char** argv) {
  std::map<std::string, long> stats;
  if (std::string(argv[1]) == "ksreplay") {
    std::ifstream in(argv[2]); std::string line, pl; FILE* out = fopen(argv[3], "w");
    FILE* fk = argc >= 6 ? fopen(argv[4], "w") : nullptr; FILE* fcp = argc >= 6 ? fopen(argv[5], "w") : nullptr;
    while (std::getline(in, line)) {
      if (line.compare(0, 2, "P ") == 0) { pl = line; continue; }
      if (line.compare(0, 3, "KS ") != 0 || pl.empty()) continue;
      Problem p; if (!parse_problem(pl, p)) continue;
      std::istringstream ks(line); std::string tag; int nd; ks >> tag >> nd;
      KsScale sc; sc.h.resize(nd); sc.e.resize(nd);
      for (int d = 0; d < nd; d++) { uint64_t u; ks >> u >> sc.e[d]; sc.h[d] = from_bits(u); }
      if (!ks || nd != p.ndim) continue;
      ks_run(p, sc, out, stats, fk, fcp);
    }
    fclose(out); if (fk) fclose(fk); if (fcp) fclose(fcp); return 0;
  }
  long n = atol(argv[2]);
  FILE* out = fopen(argv[3], "w");
  long npen = argc >= 8 ? atol(argv[5]) : 0;
  FILE* fk = npen ? fopen(argv[6], "w") : nullptr; FILE* fcp = npen ? fopen(argv[7], "w") : nullptr;
  Rng r(env_seed() * 0x2545F4914F6CDD1DULL + 3010);
  for (long it = 0; it < n; it++) { KsScale sc; Problem p = gen_ks(r, it, stats, sc); bool pen = it < npen; ks_run(p, sc, out, stats, pen ? fk : nullptr, pen ? fcp : nullptr); }
  fclose(out); if (fk) fclose(fk); if (fcp) fclose(fcp);
  std::ofstream fs(argv[4]);
  fs << "{"; bool first = true; for (auto& kv : stats) { fs << (first ? "" : ", ") << "\"" << kv.first << "\": " << kv.second; first = false; } fs << "}\n";
  return 0;
}
#endif
