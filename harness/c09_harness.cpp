// Correspondence harness for C09 (unconstrained penalised fit).
// usage: c09_harness <ncases> <cases> <impl> <stats> <tier> [minorder]
// <cases> (read by `psvdriver C09`):
//   F ndim (order nknots knotbits*)* (npts xbits*)* nrows (idx* zbits wbits)* ns smoothbits* np porder*
//   C ncoef coefbits32*        coefficients returned by a real fit of the current problem (or of an equivalent listing of it)
// <impl>: one line per case line: for F the data class; for C which call produced the coefficients
//   (base = splinetable::fit; cwrap = splinetable_glamfit with per-dimension arguments; variant = rows permuted and
//   zero-weight entries inserted; scalar/perdim = the other way of passing smoothing / penalty order)
#include "common.h"
using namespace psv;

static FILE *fc, *fi;
static std::map<std::string, long> stats;

static double bsp(const std::vector<double>& k, double x, int i, int n) {
  if (n == 0) return (x >= k[i] && x < k[i + 1]) ? 1.0 : 0.0;
  double r = 0, d1 = k[i + n] - k[i], d2 = k[i + n + 1] - k[i + 1];
  if (d1 != 0) r = (x - k[i]) * bsp(k, x, i, n - 1) / d1;
  if (d2 != 0) r += (k[i + n + 1] - x) * bsp(k, x, i + 1, n - 1) / d2;
  return r;
}

struct Problem {
  int nd;
  std::vector<uint32_t> ord;
  std::vector<std::vector<double>> kn, coords;
  std::vector<std::vector<unsigned>> idx;   // rows
  std::vector<double> z, w;
  std::vector<double> smooth; std::vector<uint32_t> porder;   // as passed (size 1 or nd)
};

static bool do_fit(const Problem& p, const std::vector<std::vector<unsigned>>& idx, const std::vector<double>& z, const std::vector<double>& w,
                   const std::vector<double>& smooth, const std::vector<uint32_t>& porder, bool cwrap, std::vector<float>& out) {
  photospline::ndsparse data(idx.size(), p.nd);
  for (size_t r = 0; r < idx.size(); r++) { std::vector<unsigned> t = idx[r]; data.insertEntry(z[r], t.data()); }
  for (int d = 0; d < p.nd; d++) data.ranges[d] = p.coords[d].size();
  Table t;
  try {
    if (!cwrap) {
      t.fit(data, w, p.coords, p.ord, p.kn, smooth, porder, Table::no_monodim, false);
    } else {
      struct splinetable ct; ct.data = &t;
      std::vector<const double*> cp(p.nd), kp(p.nd); std::vector<uint64_t> nk(p.nd);
      for (int d = 0; d < p.nd; d++) { cp[d] = p.coords[d].data(); kp[d] = p.kn[d].data(); nk[d] = p.kn[d].size(); }
      int rc = splinetable_glamfit(&ct, &data, w.data(), cp.data(), p.ord.data(), kp.data(), nk.data(), smooth.data(), porder.data(), Table::no_monodim, false);
      if (rc != 0) return false;
    }
  } catch (std::exception& e) {
    fprintf(stderr, "fit threw: %s\n", e.what());
    return false;
  }
  out.assign(t.get_coefficients(), t.get_coefficients() + t.get_ncoeffs());
  return true;
}

static void emit_C(const std::vector<float>& c, const char* tag) {
  fprintf(fc, "C %zu", c.size());
  for (float v : c) fprintf(fc, " %u", bits(v));
  fprintf(fc, "\n");
  fprintf(fi, "%s\n", tag);
}

static void one_case(Rng& r, const std::string& tier, int minorder) {
  Problem p;
  int w100 = r.range(0, 99);
  bool thorough = tier == "thorough";
  p.nd = w100 < 40 ? 1 : w100 < 78 ? 2 : (thorough && w100 >= 93) ? 4 : 3;
  int maxN = thorough ? (r.coin(1, 6) ? 120 : 70) : (p.nd == 1 ? 14 : p.nd == 2 ? 36 : 40);
  int kstyle = r.range(0, 9) < 8 ? 1 : 2;   // 1 irregular dyadic, 2 arbitrary mantissas (exact arithmetic gets large: small problems only)
  if (kstyle == 2) maxN = std::min(maxN, thorough ? 24 : 12);
  p.ord.resize(p.nd);
  for (auto& o : p.ord) o = r.range(minorder, 4);
  std::vector<int> extra(p.nd);
  for (auto& e : extra) e = r.range(0, p.nd == 1 ? 8 : 3);
  auto count = [&]() { long n = 1; for (int i = 0; i < p.nd; i++) n *= p.ord[i] + 1 + extra[i]; return n; };
  while (count() > maxN) { int i = r.range(0, p.nd - 1); if (extra[i] > 0) extra[i]--; else if ((int)p.ord[i] > minorder) p.ord[i]--; else { bool any = false; for (int j = 0; j < p.nd; j++) if (extra[j] > 0 || (int)p.ord[j] > minorder) any = true; if (!any) break; } }
  // sibling axes: dimension 1 has the order, the knot count and the number of abscissae of dimension 0 and the same first two
  // knots and abscissae, but differs from there on (a stretched copy) — whatever is derived per axis must be derived from
  // the whole axis
  bool sibling = p.nd >= 2 && r.coin(1, 3) && p.ord[1] == p.ord[0] && extra[1] == extra[0];
  if (!sibling && p.nd >= 2 && r.coin(1, 2)) { uint32_t o = std::min(p.ord[0], p.ord[1]); int e = std::min(extra[0], extra[1]); p.ord[0] = p.ord[1] = o; extra[0] = extra[1] = e; sibling = true; }
  if (sibling) stats["sibling_axes_problems"]++;
  stats["knotstyle_" + std::to_string(kstyle)]++;
  stats["ndim_" + std::to_string(p.nd)]++;
  int cls = r.range(0, 9);   // 0-4 random data, 5-6 spline data with lambda 0, 7-9 polynomial data below the penalty order
  const char* clsname = cls < 5 ? "random" : cls < 7 ? "spline" : "poly";
  for (int d = 0; d < p.nd; d++) {
    int nk = 2 * p.ord[d] + 2 + extra[d];
    std::vector<double> k(nk);
    double v = kstyle == 2 ? r.unit() * 2 - 1 : (double)r.range(-8, 8) / 4;
    for (int i = 0; i < nk; i++) { k[i] = v; v += kstyle == 1 ? (double)r.range(1, 6) / 4 : 0.1 + r.unit(); }
    p.kn.push_back(k);
    stats["order_" + std::to_string(p.ord[d])]++;
    int n = nk - p.ord[d] - 1;
    // abscissae: stratified over the fully supported range (random data: over a bit more), irregular, unsorted sometimes
    int npts = n + r.range(p.nd >= 3 ? 0 : 1, p.nd == 1 ? 8 : 3);
    double lo = k[p.ord[d]], hi = k[n];
    if (cls < 5 && r.coin(1, 3)) { lo = 0.5 * (k[0] + lo); hi = 0.5 * (hi + k[nk - 1]); stats["abscissae_beyond_full_support"]++; }
    std::vector<double> xs(npts);
    for (int j = 0; j < npts; j++) {
      double u = (j + 0.05 + 0.9 * r.unit()) / npts;
      xs[j] = lo + (hi - lo) * u;
      if (kstyle == 1) xs[j] = std::floor(xs[j] * 64) / 64.0;   // dyadic: keeps the exact arithmetic small
      if (xs[j] < lo) xs[j] = lo;
      if (xs[j] >= hi) xs[j] = lo + (hi - lo) * 0.999;
    }
    if (sibling && d == 1 && p.coords[0].size() >= 3) {
      // the stretched copy of axis 0 (generated above only to keep the stream of random numbers in step)
      const std::vector<double>& k0 = p.kn[0]; std::vector<double>& k1 = p.kn[1];
      // a gentle stretch about the second knot, the same for knots and abscissae: the geometry (which abscissa lies in which
      // knot interval) is that of axis 0, so the problem is as well-posed as it was, but every basis value differs
      double f = kstyle == 1 ? 1.0625 : 1.05 + 0.05 * r.unit();
      for (size_t i = 0; i < k1.size(); i++) k1[i] = i < 2 ? k0[i] : k0[1] + (k0[i] - k0[1]) * f;
      std::vector<double> s0 = p.coords[0]; bool sorted0 = std::is_sorted(s0.begin(), s0.end());
      xs = s0;
      for (size_t j = 2; j < xs.size(); j++) xs[j] = k0[1] + (s0[j] - k0[1]) * f;
      double lo1 = k1[p.ord[1]], hi1 = k1[k1.size() - p.ord[1] - 1];
      for (auto& x : xs) { if (x < lo1) x = lo1; if (x >= hi1) x = lo1 + (hi1 - lo1) * 0.999; }
      if (kstyle == 1) for (size_t j = 2; j < xs.size(); j++) xs[j] = std::floor(xs[j] * 1024) / 1024.0;
      (void)sorted0;
      p.coords.push_back(xs);
      continue;
    }
    if (r.coin(1, 3)) { for (int j = npts - 1; j > 0; j--) std::swap(xs[j], xs[r.below(j + 1)]); stats["unsorted_abscissae_dims"]++; }
    p.coords.push_back(xs);
  }
  // smoothing / penalty order arguments
  static const double lams[5] = {0, 1e-3, 1, 1e3, 1e6};
  bool perdim_s = p.nd > 1 && r.coin(), perdim_p = p.nd > 1 && r.coin();
  uint32_t minord = *std::min_element(p.ord.begin(), p.ord.end());
  int plo = cls >= 7 ? 1 : 0;
  if (cls >= 7 && minord == 0) { cls = 0; clsname = "random"; plo = 0; }
  if (perdim_p) for (int d = 0; d < p.nd; d++) p.porder.push_back(r.range(std::min<int>(plo, p.ord[d]), p.ord[d]));
  else p.porder.push_back(r.range(std::min<int>(plo, minord), minord));
  if (cls >= 5 && cls < 7) { p.smooth.assign(perdim_s ? p.nd : 1, 0.0); }
  else if (perdim_s) for (int d = 0; d < p.nd; d++) p.smooth.push_back(lams[r.range(cls >= 7 ? 1 : 0, 4)]);
  else p.smooth.push_back(lams[r.range(cls >= 7 ? 1 : 0, 4)]);
  for (double l : p.smooth) { char b[32]; snprintf(b, 32, "lambda_%g", l); stats[b]++; }
  for (uint32_t q : p.porder) stats["porder_" + std::to_string(q)]++;
  stats[perdim_s ? "smoothing_per_dimension" : "smoothing_scalar"]++;
  stats[perdim_p ? "porder_per_dimension" : "porder_scalar"]++;
  stats[std::string("data_") + clsname]++;
  // data generator
  std::vector<std::vector<double>> c0(p.nd), poly(p.nd);
  for (int d = 0; d < p.nd; d++) {
    int n = p.kn[d].size() - p.ord[d] - 1;
    for (int i = 0; i < n; i++) c0[d].push_back((double)r.range(-16, 16) / 8);
    uint32_t pd = p.porder.size() > 1 ? p.porder[d] : p.porder[0];
    for (uint32_t e = 0; e < std::max<uint32_t>(pd, 1); e++) poly[d].push_back(e < pd ? (double)r.range(-8, 8) / 4 : 1.0);
    if (pd >= 1 && poly[d].back() == 0) poly[d].back() = 0.5;
  }
  auto value = [&](const std::vector<unsigned>& g) {
    double v = 1;
    if (cls < 5) { double s = 0; for (int d = 0; d < p.nd; d++) s += std::sin(1.3 * p.coords[d][g[d]] + d); return s + 0.3 * (r.unit() - 0.5); }
    for (int d = 0; d < p.nd; d++) {
      double x = p.coords[d][g[d]], f = 0;
      if (cls < 7) { for (size_t i = 0; i < c0[d].size(); i++) f += c0[d][i] * bsp(p.kn[d], x, i, p.ord[d]); }   // separable spline on the same knots
      else { double xp = 1; for (double a : poly[d]) { f += a * xp; xp *= x; } }
      v *= f;
    }
    return v;
  };
  // grid cells: dense or with missing cells
  bool missing = r.coin(2, 5);
  int droppct = missing ? r.range(10, 35) : 0;
  stats[missing ? "missing_cell_data" : "dense_data"]++;
  std::vector<unsigned> g(p.nd, 0);
  bool done = false;
  bool zerow = r.coin(1, 3);
  while (!done) {
    if ((int)r.below(100) >= droppct) {
      p.idx.push_back(g); p.z.push_back(value(g));
      double w = std::pow(10.0, r.unit() * 6 - 3);
      if (r.coin(1, 4)) w = 1.0;
      if (zerow && r.coin(1, 12)) { w = 0.0; stats["zero_weight_rows_in_base"]++; }
      p.w.push_back(w);
    }
    int d = p.nd - 1;
    while (d >= 0 && ++g[d] == p.coords[d].size()) { g[d] = 0; d--; }
    if (d < 0) done = true;
  }
  if (p.idx.empty()) return;
  // ---- the F line
  fprintf(fc, "F %d", p.nd);
  for (int d = 0; d < p.nd; d++) { fprintf(fc, " %u %zu", p.ord[d], p.kn[d].size()); for (double v : p.kn[d]) fprintf(fc, " %llu", (unsigned long long)bits(v)); }
  for (int d = 0; d < p.nd; d++) { fprintf(fc, " %zu", p.coords[d].size()); for (double v : p.coords[d]) fprintf(fc, " %llu", (unsigned long long)bits(v)); }
  fprintf(fc, " %zu", p.idx.size());
  for (size_t q = 0; q < p.idx.size(); q++) { for (unsigned v : p.idx[q]) fprintf(fc, " %u", v); fprintf(fc, " %llu %llu", (unsigned long long)bits(p.z[q]), (unsigned long long)bits(p.w[q])); }
  fprintf(fc, " %zu", p.smooth.size()); for (double v : p.smooth) fprintf(fc, " %llu", (unsigned long long)bits(v));
  fprintf(fc, " %zu", p.porder.size()); for (uint32_t v : p.porder) fprintf(fc, " %u", v);
  fprintf(fc, "\n"); fflush(fc);
  fprintf(fi, "%s\n", clsname);
  // ---- real fits
  std::vector<float> cbase, c2;
  if (!do_fit(p, p.idx, p.z, p.w, p.smooth, p.porder, false, cbase)) { stats["fit_failed"]++; fprintf(fc, "C 0\n"); fprintf(fi, "base-failed\n"); return; }
  emit_C(cbase, "base");
  // per-dimension arguments through the C wrapper (must be the same computation)
  std::vector<double> sm(p.nd); std::vector<uint32_t> po(p.nd);
  for (int d = 0; d < p.nd; d++) { sm[d] = p.smooth.size() > 1 ? p.smooth[d] : p.smooth[0]; po[d] = p.porder.size() > 1 ? p.porder[d] : p.porder[0]; }
  if (do_fit(p, p.idx, p.z, p.w, sm, po, true, c2)) emit_C(c2, memcmp(c2.data(), cbase.data(), 4 * cbase.size()) == 0 ? "cwrap same-bits" : "cwrap other-bits");
  else { fprintf(fc, "C 0\n"); fprintf(fi, "cwrap-failed\n"); }
  // equivalent listing: rows permuted, zero-weight entries inserted (also at missing cells / duplicating cells)
  {
    std::vector<std::vector<unsigned>> idx = p.idx; std::vector<double> z = p.z, w = p.w;
    int nz = r.range(1, 4);
    for (int q = 0; q < nz; q++) {
      std::vector<unsigned> gg(p.nd); for (int d = 0; d < p.nd; d++) gg[d] = r.below(p.coords[d].size());
      idx.push_back(gg); z.push_back(1e3 * (r.unit() - 0.5)); w.push_back(0.0);
    }
    for (size_t j = idx.size() - 1; j > 0; j--) { size_t k = r.below(j + 1); std::swap(idx[j], idx[k]); std::swap(z[j], z[k]); std::swap(w[j], w[k]); }
    if (do_fit(p, idx, z, w, p.smooth, p.porder, false, c2)) emit_C(c2, "variant");
    else { fprintf(fc, "C 0\n"); fprintf(fi, "variant-failed\n"); }
  }
}

int main(int argc, char** argv) {
  if (argc < 6) { fprintf(stderr, "usage\n"); return 2; }
  long n = atol(argv[1]);
  fc = fopen(argv[2], "w"); fi = fopen(argv[3], "w");
  std::string tier = argv[5];
  int minorder = argc > 6 ? atoi(argv[6]) : 0;
  Rng r(env_seed() * 0x9e3779b97f4a7c15ULL + 909);
  for (long i = 0; i < n; i++) one_case(r, tier, minorder);
  fclose(fc); fclose(fi);
  FILE* fs = fopen(argv[4], "w");
  fprintf(fs, "{");
  bool first = true;
  for (auto& kv : stats) { fprintf(fs, "%s\"%s\": %ld", first ? "" : ", ", kv.first.c_str(), kv.second); first = false; }
  fprintf(fs, "}\n"); fclose(fs);
  return 0;
}
