// C06 correspondence harness: real write_fits / write_fits_mem / read_fits / read_fits_mem, in-process.
//   gen  <n> <cases> <impl> <stats> <maxcoef> <scratchdir> [quotes]   tables from VERIF_SEED; real write → bytes; real read-back
//   read <model-output> <impl2> <scratchdir>                 files encoded by the Lean side → real readers
//   file <path>...                                           dump shipped files through both real readers
#include "fits_common.h"
using namespace psv;

static std::vector<unsigned char> slurp(const std::string& p) {
  std::ifstream f(p, std::ios::binary);
  return std::vector<unsigned char>((std::istreambuf_iterator<char>(f)), std::istreambuf_iterator<char>());
}

// real read → "ok <dump>" | "err <site>"
static std::string read_mem(const std::vector<unsigned char>& b) {
  std::vector<unsigned char> copy(b);
  Table t;
  try { t.read_fits_mem(copy.data(), copy.size()); } catch (std::exception& e) { std::string s = "err " + site_of(e.what()); if (t.ndim) { t.ndim = 0; } return s; }
  return "ok " + dump(spec_of(t));
}
static std::string read_disk(const std::string& path) {
  Table t;
  try { t.read_fits(path); } catch (std::exception& e) { std::string s = "err " + site_of(e.what()); if (t.ndim) { t.ndim = 0; } return s; }
  return "ok " + dump(spec_of(t));
}

// identical evaluation of two tables at points taken from the knot grid (bit comparison, NaN canonical)
static int eval_same(const Table& a, const Table& b, Rng& r, int npts) {
  uint32_t nd = a.ndim;
  int done = 0;
  for (int p = 0; p < npts; p++) {
    std::vector<double> x(nd); std::vector<int> ca(nd), cb(nd);
    for (uint32_t i = 0; i < nd; i++) {
      uint64_t j = r.below(a.nknots[i]);
      double lo = a.knots[i][j], hi = a.knots[i][std::min<uint64_t>(j + 1, a.nknots[i] - 1)];
      x[i] = r.coin() ? hi : lo + (hi - lo) * 0.5;
    }
    bool oa = a.searchcenters(x.data(), ca.data()), ob = b.searchcenters(x.data(), cb.data());
    if (oa != ob) return 0;
    if (!oa) continue;
    if (ca != cb) return 0;
    double va = a.ndsplineeval(x.data(), ca.data(), 0), vb = b.ndsplineeval(x.data(), cb.data(), 0);
    if (cbits(va) != cbits(vb)) return 0;
    done++;
  }
  return 1 + done;   // 1 = same (no point inside), >1 = same on done points
}

int main(int argc, char** argv) {
  if (argc < 2) return 2;
  std::string mode = argv[1];
  Rng rng(env_seed() * 0x9E3779B97F4A7C15ULL + 6);
  if (mode == "gen") {
    int n = atoi(argv[2]);
    std::ofstream cases(argv[3]), impl(argv[4]), stats(argv[5]);
    GenOpts g; g.max_coef = atol(argv[6]);
    std::string dir = argv[7];
    g.aux_quotes = argc > 8 && std::string(argv[8]) == "quotes";   // C06 asks for apostrophes in aux values; C07 (base files) does not
    std::map<std::string, int> qstats;
    std::map<int, int> dims, orders, auxn; int disk = 0, mem = 0, special = 0, noext = 0, noper = 0, evalpts = 0;
    std::vector<Spec> kept;
    for (int id = 0; id < n; id++) {
      int qcls = !g.aux_quotes ? -1 : id < 2 * N_QCLS ? id % N_QCLS : rng.coin(1, 3) ? (int)rng.below(N_QCLS) : -1;
      Spec s = gen_spec(rng, g, id < 9 ? id + 1 : 0, qcls);
      if (qcls >= 0) qstats[std::string("forced:") + qcls_name(qcls)]++;
      for (auto& kv : s.aux) {
        const std::string& v = kv.second;
        size_t nq = std::count(v.begin(), v.end(), '\'');
        qstats["values"]++;
        { static const char* w[] = {"TYP", "ORDE", "NAXI", "PERIO", "EXTEN", "COMMEN", "SIMPL", "BITPI", "EXTNAM", "HDUNAM", "EN", "HISTOR", "CONTINU", "HIERARC", "BLANK", "XTENSIO", "PCOUN", "GCOUN", "BSCAL", "BZER"};
          bool nr = kv.first == "T" || kv.first == "E";
          for (auto x : w) if (kv.first.find(x) != std::string::npos) nr = true;
          if (nr) qstats["key-near-reserved-name"]++; }
        if (!nq) continue;
        qstats["with-apostrophe"]++;
        if (v.find("''") != std::string::npos) qstats["with-adjacent-apostrophes"]++;
        if (v.find("'''") != std::string::npos) qstats["with-run-of-3+"]++;
        if (nq == v.size()) qstats["apostrophes-only"]++;
        if (v[0] == '\'') qstats["leading"]++;
        if (v[v.size() - 1] == '\'') qstats["trailing"]++;
        if (v.size() + nq >= 66) qstats["stored-length>=66"]++;
        if (v.size() + nq == 68) qstats["stored-length=68"]++;
        if (v.size() + nq < 8) qstats["stored-length<8"]++;
      }
      Table t; build_from_spec(t, s);
      if (kept.size() < 6 && (id < 9 ? (id == 8 || id % 3 == 0) : true)) kept.push_back(s);   // for the concurrent and file-name phases (id 8 is the 9-d table)
      Spec built = spec_of(t);
      dims[s.order.size()]++; for (auto o : s.order) orders[o]++; auxn[s.aux.size() > 12 ? 40 : s.aux.size()]++;
      for (auto c : s.coef) if ((c & 0x7f800000u) == 0x7f800000u || (c & 0x7f800000u) == 0) { special++; break; }
      if (!s.has_ext) noext++; if (!s.has_per) noper++;
      cases << "T " << id << ' ' << dump(s) << "\n";
      // real write, alternating back ends
      bool use_disk = rng.coin();
      std::vector<unsigned char> bytes;
      std::string path = dir + "/w" + std::to_string(id) + ".fits";
      std::string werr;
      try {
        if (use_disk) { t.write_fits(path); bytes = slurp(path); disk++; }
        else { auto p = t.write_fits_mem(); bytes.assign((unsigned char*)p.first, (unsigned char*)p.first + p.second); free(p.first); mem++; }
      } catch (std::exception& e) { werr = e.what(); }
      // real read-back through both readers
      std::string rb_mem = read_mem(bytes);
      if (!use_disk) { std::ofstream f(path, std::ios::binary); f.write((const char*)bytes.data(), bytes.size()); }
      std::string rb_disk = read_disk(path);
      int eq = -1, ev = -1;
      {
        Table u; std::vector<unsigned char> copy(bytes);
        try {
          u.read_fits_mem(copy.data(), copy.size());
          // evaluate only what has the shape of the original (a mangled table is reported through the field comparison)
          Spec a = spec_of(t), b = spec_of(u);
          bool shape = a.order == b.order && a.naxes == b.naxes && a.strides == b.strides && a.coef.size() == b.coef.size() && a.knots.size() == b.knots.size();
          for (size_t i = 0; shape && i < a.knots.size(); i++) shape = a.knots[i].size() == b.knots[i].size();
          if (shape) { eq = ((t == u) == (t == t)) && ((t != u) == (t != t)) ? 1 : 0; ev = eval_same(t, u, rng, 12); if (ev > 1) evalpts += ev - 1; }
          else { eq = -2; ev = -2; }
        }
        catch (std::exception&) { u.ndim = 0; }
      }
      unlink(path.c_str());
      impl << "T " << id << " built=" << (dump(built) == dump(s) ? 1 : 0) << " werr=" << (werr.empty() ? "-" : "1") << " backend=" << (use_disk ? "disk" : "mem")
           << " same_readers=" << (rb_mem == rb_disk ? 1 : 0) << " eq=" << eq << " eval=" << ev << " | " << rb_mem << "\n";
      cases << "B " << id << ' ' << hex(bytes.data(), bytes.size()) << "\n";
      impl << "B " << id << ' ' << bytes.size() << "\n";
      // variants for the Lean-side writer: current layout, single ORDER key (when legal), without EXTENTS / PERIODn
      bool same_order = true; for (auto o : s.order) if (o != s.order[0]) same_order = false;
      for (int m = 0; m < 4; m++) {
        cases << "V " << id << " 0 " << m << "\n"; impl << "V " << id << " 0 " << m << "\n";
        if (same_order) { cases << "V " << id << " 1 " << m << "\n"; impl << "V " << id << " 1 " << m << "\n"; }
      }
    }
    // ---- file names: the round trip goes through a path, and a path is an opaque name. Names which cfitsio's *extended
    // file name syntax* would take apart (a trailing "+<digits>" is an HDU number there) are ordinary names to write_fits
    // and read_fits; with a sibling file named like the part before the "+" a reader that parses the name returns the
    // sibling's table. (Brackets, parentheses and a leading "!" are left out: fits_create_file itself interprets them.)
    long names_tested = 0, names_failed = 0; std::string first_bad_name;
    if (kept.size() >= 2) {
      static const char* odd[] = {"flux_1e+2", "spline_v+1", "table+0", "a+12.fits", "x+y", "plus+", "+3", "name with blank.fits", "UPPER.FITS", "dots.in.name.fit", "tab-2_final+7"};
      for (const char* nm : odd) {
        std::string path = dir + "/" + nm, base = path.substr(0, path.rfind('+') == std::string::npos ? path.size() : path.rfind('+'));
        Table a, b; build_from_spec(a, kept[names_tested % kept.size()]); build_from_spec(b, kept[(names_tested + 1) % kept.size()]);
        bool sibling = base != path && base != dir + "/";
        std::string verdict;
        try {
          // reference: what the same table reads back as under an everyday name
          std::string plain = dir + "/plain_name.fits"; a.write_fits(plain); const std::string ref = read_disk(plain); unlink(plain.c_str());
          if (ref.compare(0, 3, "ok ") != 0) throw std::runtime_error("reference round trip failed: " + ref);
          if (sibling) b.write_fits(base);           // another table under the name a parsing reader would open
          a.write_fits(path);
          verdict = read_disk(path) == ref ? "" : "reads back as something else";
          if (verdict.empty()) { struct splinetable ct; ct.data = nullptr; int rc = readsplinefitstable(path.c_str(), &ct); if (rc != 0 || !ct.data) verdict = "C reader fails"; else { if ("ok " + dump(spec_of(*static_cast<Table*>(ct.data))) != ref) verdict = "C reader returns another table"; splinetable_free(&ct); } }
          if (verdict.empty()) { Table viaCtor(path); if ("ok " + dump(spec_of(viaCtor)) != ref) verdict = "constructor returns another table"; }
        } catch (std::exception& e) { verdict = std::string("exception: ") + e.what(); }
        names_tested++;
        if (!verdict.empty()) { names_failed++; if (first_bad_name.empty()) first_bad_name = std::string(nm) + ": " + verdict; }
        unlink(path.c_str()); if (sibling) unlink(base.c_str());
      }
    }
    // ---- concurrent phase: write_fits_mem and read_fits_mem are functions of their arguments (const table / bytes); the bytes
    // written by several threads at the same time, and the tables read from them, must be what one thread produces alone
    int conc = 0; long conc_calls = 0;
    if (!kept.empty()) {
      std::vector<std::unique_ptr<Table>> tabs; std::vector<std::vector<unsigned char>> alone; std::vector<std::string> alone_read;
      for (auto& sp : kept) { tabs.emplace_back(new Table()); build_from_spec(*tabs.back(), sp); auto p = tabs.back()->write_fits_mem(); alone.emplace_back((unsigned char*)p.first, (unsigned char*)p.first + p.second); free(p.first); alone_read.push_back(read_mem(alone.back())); }
      const int NT = 4, ROUNDS = n >= 200 ? 120 : 40;
      std::vector<int> bad(NT, 0);
      conc = run_concurrently(NT, 120,
        [&](int k) { for (int round = 0; round < ROUNDS; round++) for (size_t j = 0; j < tabs.size(); j++) { size_t q = (j + k + round) % tabs.size();
            try { auto p = const_cast<const Table&>(*tabs[q]).write_fits_mem(); std::vector<unsigned char> b((unsigned char*)p.first, (unsigned char*)p.first + p.second); free(p.first);
                  if (b != alone[q]) bad[k]++; else if ((round % 4) == 0 && read_mem(b) != alone_read[q]) bad[k]++; }
            catch (std::exception&) { bad[k]++; } } },
        [&]() { int m = 0; for (int b : bad) m += b; return m > 100 ? 100 : m; });
      conc_calls = (long)NT * ROUNDS * (long)tabs.size();
    }
    stats << "{\"odd_file_names_tested\": " << names_tested << ", \"odd_file_names_failed\": " << names_failed << ", \"first_failing_file_name\": \"" << first_bad_name << "\""
          << ", \"concurrent_write_read_calls\": " << conc_calls << ", \"concurrent_outcome\": " << conc << ", ";
    stats << "\"tables\": " << n << ", \"disk\": " << disk << ", \"mem\": " << mem << ", \"with_special_coefficients\": " << special
          << ", \"without_extents\": " << noext << ", \"without_periods\": " << noper << ", \"eval_points_compared\": " << evalpts << ", \"ndim\": {";
    bool first = true; for (auto& kv : dims) { stats << (first ? "" : ", ") << '"' << kv.first << "\": " << kv.second; first = false; }
    stats << "}, \"order\": {"; first = true; for (auto& kv : orders) { stats << (first ? "" : ", ") << '"' << kv.first << "\": " << kv.second; first = false; }
    stats << "}, \"naux\": {"; first = true; for (auto& kv : auxn) { stats << (first ? "" : ", ") << '"' << kv.first << "\": " << kv.second; first = false; }
    stats << "}, \"aux_values\": {"; first = true; for (auto& kv : qstats) { stats << (first ? "" : ", ") << '"' << kv.first << "\": " << kv.second; first = false; }
    stats << "}}\n";
    return 0;
  }
  if (mode == "read") {
    std::ifstream in(argv[2]); std::ofstream out(argv[3]); std::string dir = argv[4];
    std::string line; int k = 0;
    while (std::getline(in, line)) {
      if (line.compare(0, 2, "V ") != 0) { out << "-\n"; continue; }
      std::istringstream ss(line); std::string v, id, hx; ss >> v >> id >> hx;
      std::vector<unsigned char> b = unhex(hx);
      std::string a = read_mem(b);
      std::string path = dir + "/r" + std::to_string(k++) + ".fits";
      { std::ofstream f(path, std::ios::binary); f.write((const char*)b.data(), b.size()); }
      std::string d = read_disk(path);
      unlink(path.c_str());
      out << "V " << id << ' ' << (a == d ? "same" : "READERS-DIFFER") << " | " << a << "\n";
    }
    return 0;
  }
  if (mode == "file") {
    for (int i = 2; i < argc; i++) {
      std::string a = read_mem(slurp(argv[i])), d = read_disk(argv[i]);
      std::string name = argv[i]; name = name.substr(name.rfind('/') + 1);
      std::cout << "F " << name << ' ' << (a == d ? "same" : "READERS-DIFFER") << " | " << d << "\n";
    }
    return 0;
  }
  return 2;
}
