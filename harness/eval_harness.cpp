// Correspondence harness for the evaluation properties (C01..C05).
// Generates tables and points from VERIF_SEED, calls the real code in-process, writes
//   <cases>  : the line protocol understood by `psvdriver EV`
//   <impl>   : one result line per case line, produced by the implementation
//   <stats>  : JSON with the input distribution
// usage: eval_harness <profile> <ntables> <npoints> <cases> <impl> <stats> [maxcoef]
// profiles: C01 (values), C02 (derivatives), C04 (lookup), C05 (arbitrary doubles, every entry point),
//           C03 (all evaluation paths, compared bitwise inside this process)
#include "common.h"
#include <unistd.h>
using namespace psv;

static FILE *fc, *fi;
static std::map<std::string, long> stats;

struct Gen {
  std::vector<uint32_t> ord;
  std::vector<std::vector<double>> kn;
  std::vector<std::vector<double>> padded; // what the driver sees: padding included
  std::vector<float> coef;
};

static float gen_coef(Rng& r, int style) {
  switch (style) {
    case 0: return (float)(r.unit() * 2 - 1);
    case 1: return 1.0f;
    case 2: { int m = r.range(0, 9); if (m == 0) return 0.0f; if (m == 1) return -0.0f; if (m == 2) return std::numeric_limits<float>::denorm_min() * (float)r.range(1, 1000);
              if (m == 3) return (float)std::ldexp(r.unit() * 2 - 1, r.range(60, 100)); if (m == 4) return (float)std::ldexp(r.unit() * 2 - 1, -r.range(60, 100)); return (float)(r.unit() * 2 - 1); }
    default: return (float)(r.unit() < 0.5 ? 0.0 : r.unit() * 10);
  }
}

static void gen_table(Rng& r, Gen& g, uint64_t maxcoef, const std::string& profile) {
  int nd;
  int w = r.range(0, 99);
  if (profile == "C03") nd = r.range(1, 9);
  else if (w < 30) nd = 1; else if (w < 55) nd = 2; else if (w < 70) nd = 3; else if (w < 80) nd = 4; else nd = r.range(5, 9);
  g.ord.assign(nd, 0);
  int pat = r.range(0, 9);
  if (pat < 4) { int k = r.range(0, 5); for (auto& o : g.ord) o = k; }
  else if (pat < 5 && (nd == 6 || profile == "C03" || r.coin())) { nd = 6; g.ord = {2, 2, 2, 3, 2, 2}; }   // mixed orders with their own specialised cores
  else if (pat < 6 && (nd == 6 || profile == "C03" || r.coin())) { nd = 6; g.ord = {2, 2, 2, 5, 2, 2}; }
  else if (pat < 8) { int k = r.range(2, 3); for (auto& o : g.ord) o = k; }
  else for (auto& o : g.ord) o = r.range(0, 5);
  // orders beyond 5 (tables made by convolve(), or read from a file: nothing bounds the order): every order-sized scratch
  // array of the basis routines has to follow the order
  if (profile != "C04" && profile != "C02" && r.coin(1, profile == "C01" ? 20 : 10)) {   // (C02: the exact oracle of high-order derivatives is too slow for the quick tier; C05 and C03 run every derivative entry point on these tables)
    nd = r.range(1, 3); g.ord.assign(nd, 0);
    for (auto& o : g.ord) o = r.range(0, 3);
    g.ord[r.range(0, nd - 1)] = r.range(6, 12);
    if (nd >= 2 && r.coin(1, 3)) g.ord[r.range(0, nd - 1)] = r.range(6, 10);
    stats["high_order_tables"]++;
  }
  // shrink until the coefficient count fits
  std::vector<int> extra(nd);
  for (auto& e : extra) { int m = r.range(0, 9); e = m < 3 ? 0 : m < 5 ? 1 : m < 7 ? 2 : r.range(3, 8); }
  if (profile == "C03") {
    if (pat >= 4 && pat < 6) { nd = 6; g.ord = (pat == 4) ? std::vector<uint32_t>{2, 2, 2, 3, 2, 2} : std::vector<uint32_t>{2, 2, 2, 5, 2, 2}; extra.assign(nd, 0); }
    if (nd >= 5) for (auto& e : extra) e = r.coin(1, 4) ? 1 : 0;
  }
  auto count = [&]() { uint64_t n = 1; for (int i = 0; i < nd; i++) n *= (uint64_t)(g.ord[i] + 1 + extra[i]); return n; };
  bool equal_pattern = true; for (int i = 1; i < nd; i++) if (g.ord[i] != g.ord[0]) equal_pattern = false;
  while (count() > maxcoef) {
    bool anyextra = false; for (int e : extra) anyextra |= e > 0;
    if (anyextra) { int i = r.range(0, nd - 1); if (extra[i] > 0) extra[i]--; continue; }
    if (equal_pattern && profile == "C03") { for (auto& o : g.ord) if (o > 0) o--; continue; }  // keep the constant-order pattern
    int i = r.range(0, nd - 1); if (g.ord[i] > 0) g.ord[i]--;
  }
  g.kn.clear(); g.padded.clear();
  for (int i = 0; i < nd; i++) {
    int style = r.range(0, 3);
    if (profile == "C02" && style == 2 && r.coin(3, 4)) style = 1;
    g.kn.push_back(gen_knots(r, g.ord[i], extra[i], style));
    stats["knotstyle_" + std::to_string(style)]++;
    stats["order_" + std::to_string(g.ord[i])]++;
    if (extra[i] == 0) stats["min_knot_count_dims"]++;
  }
  stats["ndim_" + std::to_string(nd)]++;
  int cstyle = r.range(0, 3);
  uint64_t nc = ncoef(g.ord, g.kn);
  g.coef.resize(nc);
  for (auto& c : g.coef) c = gen_coef(r, cstyle);
  stats["coefstyle_" + std::to_string(cstyle)]++;
}

static void emit_table(const Table& t) {
  fprintf(fc, "T %u", t.ndim);
  for (uint32_t i = 0; i < t.ndim; i++) {
    fprintf(fc, " %u %llu %llu", t.order[i], (unsigned long long)t.nknots[i], (unsigned long long)t.strides[i]);
    const double* raw = t.knots[i] - t.order[i];
    for (uint64_t j = 0; j < t.nknots[i] + 2 * t.order[i]; j++) fprintf(fc, " %llu", (unsigned long long)bits(raw[j]));
  }
  uint64_t nc = t.strides[0] * t.naxes[0];
  fprintf(fc, " %llu", (unsigned long long)nc);
  for (uint64_t j = 0; j < nc; j++) fprintf(fc, " %u", bits(t.coefficients[j]));
  fprintf(fc, "\n");
  fprintf(fi, "table\n");
}

static double pick_x(Rng& r, const std::vector<double>& k, int order, bool wild, std::string& kind) {
  int nk = k.size(); int naxes = nk - order - 1;
  int m = r.range(0, wild ? 15 : 11);
  switch (m) {
    case 0: kind = "knot"; return k[r.range(0, nk - 1)];
    case 1: kind = "knot_next_up"; return std::nextafter(k[r.range(0, nk - 1)], INFINITY);
    case 2: kind = "knot_next_down"; return std::nextafter(k[r.range(0, nk - 1)], -INFINITY);
    case 3: kind = "lower_margin"; return k[0] + (k[order] - k[0]) * r.unit();
    case 4: kind = "upper_margin"; return k[naxes] + (k[nk - 1] - k[naxes]) * r.unit();
    case 5: kind = "support_end"; return k[naxes];
    case 6: kind = "last_knot"; return k[nk - 1];
    case 7: kind = "first_supported"; return k[order];
    case 8: case 9: case 10: kind = "interior"; return k[order] + (k[naxes] - k[order]) * r.unit();
    case 11: kind = "any_in_range"; return k[0] + (k[nk - 1] - k[0]) * r.unit();
    case 12: kind = "beyond"; return r.coin() ? k[0] - r.unit() : k[nk - 1] + r.unit();
    case 13: kind = "inf"; return r.coin() ? INFINITY : -INFINITY;
    case 14: kind = "nan"; return from_bits(0x7ff8000000000000ULL | (r.next() & 0xfffffffffffffULL) | (r.coin() ? (1ULL << 63) : 0));
    default: kind = "random_bits"; return from_bits(r.next());
  }
}

template <typename F> static uint64_t call_value(const Table& t, const double* x, const int* c, int mask) { return cbits(t.ndsplineeval<F>(x, c, mask)); }

// REPLAY mode: re-execute the case lines of a file (a `T` line followed by S/V/B/D/E/G lines) on the real code
static int replay(const char* casefile, const char* implfile) {
  FILE* f = fopen(casefile, "r"); fi = fopen(implfile, "w");
  if (!f || !fi) return 2;
  std::unique_ptr<Table> t; struct splinetable ct; ct.data = nullptr;
  std::vector<char> buf(1 << 24);
  while (fgets(buf.data(), buf.size(), f)) {
    std::vector<std::string> w; { std::istringstream is(buf.data()); std::string z; while (is >> z) w.push_back(z); }
    if (w.empty()) continue;
    if (w[0] == "T") {
      size_t p = 1; uint32_t nd = std::stoul(w[p++]); std::vector<uint32_t> ord(nd); std::vector<std::vector<double>> padded(nd);
      for (uint32_t d = 0; d < nd; d++) { ord[d] = std::stoul(w[p++]); uint64_t nk = std::stoull(w[p++]); p++; /*stride*/
        for (uint64_t j = 0; j < nk + 2 * ord[d]; j++) padded[d].push_back(from_bits(std::stoull(w[p++]))); }
      uint64_t nc = std::stoull(w[p++]); std::vector<float> coef(nc); for (auto& c : coef) c = from_bits32((uint32_t)std::stoul(w[p++]));
      t.reset(new Table()); build_table_padded(*t, ord, padded, coef); ct.data = t.get();
      fprintf(fi, "table\n"); continue;
    }
    if (!t) { fprintf(fi, "no-table\n"); continue; }
    uint32_t nd = t->ndim; fflush(fi);
    auto xs_at = [&](size_t p) { std::vector<double> x(nd); for (uint32_t d = 0; d < nd; d++) x[d] = from_bits(std::stoull(w[p + d])); return x; };
    auto cs_at = [&](size_t p) { std::vector<int> c(nd); for (uint32_t d = 0; d < nd; d++) c[d] = std::stoi(w[p + d]); return c; };
    alarm(60);
    if (w[0] == "S") { auto x = xs_at(1); std::vector<int> c(nd, -12345); bool ok = t->searchcenters(x.data(), c.data());
      if (ok) { fprintf(fi, "ok"); for (uint32_t d = 0; d < nd; d++) fprintf(fi, " %d", c[d]); fprintf(fi, "\n"); } else fprintf(fi, "reject\n"); }
    else if (w[0] == "V" || w[0] == "B") { bool dbl = w[1] == "d"; int mask = std::stoi(w[2]); auto x = xs_at(3); auto c = cs_at(3 + nd);
      fprintf(fi, "%llu\n", (unsigned long long)(dbl ? call_value<double>(*t, x.data(), c.data(), mask) : call_value<float>(*t, x.data(), c.data(), mask))); }
    else if (w[0] == "D" || w[0] == "E") { bool dbl = w[1] == "d"; std::vector<unsigned> ks(nd); for (uint32_t d = 0; d < nd; d++) ks[d] = std::stoul(w[2 + d]); auto x = xs_at(2 + nd); auto c = cs_at(2 + 2 * nd);
      double v = dbl ? t->get_evaluator<double>().ndsplineeval_deriv(x.data(), c.data(), ks.data()) : t->ndsplineeval_deriv(x.data(), c.data(), ks.data());
      fprintf(fi, "%llu\n", (unsigned long long)cbits(v)); }
    else if (w[0] == "G") { bool dbl = w[1] == "d"; auto x = xs_at(2); auto c = cs_at(2 + nd); std::vector<double> g(nd + 1, -7);
      try { if (dbl) t->ndsplineeval_gradient<double>(x.data(), c.data(), g.data()); else t->ndsplineeval_gradient<float>(x.data(), c.data(), g.data());
        for (uint32_t j = 0; j <= nd; j++) fprintf(fi, "%s%llu", j ? " " : "", (unsigned long long)cbits(g[j])); fprintf(fi, "\n"); }
      catch (std::exception&) { fprintf(fi, "refused\n"); } }
    else fprintf(fi, "skipped\n");
  }
  fclose(fi); return 0;
}

// ---- concurrent phase: lookup and evaluation are const member functions whose result is a function of table and point (the
// models are pure functions), so calls made by several threads at the same time on the SAME const tables must return what
// the same calls return alone.
struct Kept { Table t; std::vector<std::vector<double>> xs; std::vector<std::vector<int>> cs; };
static std::vector<std::unique_ptr<Kept>> g_kept;
static void all_results(const Kept& k, std::vector<uint64_t>& out) {
  const Table& t = k.t; uint32_t nd = t.ndim;
  struct splinetable ct; ct.data = const_cast<Table*>(&t);
  auto evf = t.get_evaluator<float>(); auto evd = t.get_evaluator<double>();
  for (size_t p = 0; p < k.xs.size(); p++) {
    const double* x = k.xs[p].data(); const int* c = k.cs[p].data();
    std::vector<int> c2(nd, -1); out.push_back(t.searchcenters(x, c2.data())); for (int v : c2) out.push_back((uint64_t)(int64_t)v);
    int mask = (int)((p * 2654435761u) % (1u << nd));
    out.push_back(cbits(t.ndsplineeval<float>(x, c, 0))); out.push_back(cbits(t.ndsplineeval<double>(x, c, mask)));
    out.push_back(cbits(evf.ndsplineeval(x, c, mask))); out.push_back(cbits(evd.ndsplineeval(x, c, 0)));
    out.push_back(cbits(t(x))); out.push_back(cbits(ndsplineeval(&ct, x, c, mask)));
    std::vector<unsigned> ks(nd); for (uint32_t d = 0; d < nd; d++) ks[d] = (unsigned)((p + d) % (t.order[d] + 2));
    out.push_back(cbits(t.ndsplineeval_deriv(x, c, ks.data()))); out.push_back(cbits(evd.ndsplineeval_deriv(x, c, ks.data())));
    if (nd + 1 <= 8) {
      std::vector<double> g1(nd + 1, -7), g2(nd + 1, -7);
      try { t.ndsplineeval_gradient<float>(x, c, g1.data()); evd.ndsplineeval_gradient(x, c, g2.data()); } catch (std::exception&) { out.push_back(77); }
      for (double v : g1) out.push_back(cbits(v)); for (double v : g2) out.push_back(cbits(v));
    }
  }
}

int main(int argc, char** argv) {
  if (argc >= 4 && std::string(argv[1]) == "REPLAY") return replay(argv[2], argv[3]);
  if (argc < 7) { fprintf(stderr, "usage\n"); return 2; }
  std::string profile = argv[1];
  long ntables = atol(argv[2]), npoints = atol(argv[3]);
  fc = fopen(argv[4], "w"); fi = fopen(argv[5], "w");
  uint64_t maxcoef = argc > 7 ? strtoull(argv[7], nullptr, 10) : 20000;
  Rng r(env_seed() * 0x9e3779b97f4a7c15ULL + std::hash<std::string>()(profile));
  bool wild = (profile == "C05" || profile == "C04");
  stats["paths_points"] = 0;
  long path_mismatch = 0;
  for (long it = 0; it < ntables; it++) {
    alarm(60);  // watchdog: a lookup or evaluation that does not terminate kills the harness (SIGALRM) with the last input flushed
    Gen g; gen_table(r, g, maxcoef, profile);
    // padding: regenerate deterministic pads here so build_table and the driver agree
    std::vector<double> pads; { int ps = r.range(0, 3); for (int i = 0; i < 61; i++) pads.push_back(ps == 0 ? std::numeric_limits<double>::quiet_NaN() : ps == 1 ? r.unit() * 200 - 100 : ps == 2 ? (r.coin() ? INFINITY : -INFINITY) : 0.0); }
    Table t; build_table(t, g.ord, g.kn, g.coef, &pads);
    { // the extents are metadata (read verbatim from an EXTENTS HDU, moved by convolve): lookup and evaluation are defined by the
      // knots alone and must not depend on them, so they are set to something else than the fully supported range in most tables
      int es = r.range(0, 6); stats["extents_style_" + std::to_string(es)]++;
      for (uint32_t d = 0; d < t.ndim; d++) {
        const std::vector<double>& k = g.kn[d]; double lo = k[g.ord[d]], hi = k[t.naxes[d]], first = k.front(), last = k.back();
        switch (es) {
          case 0: break;                                                                          // the fully supported range
          case 1: t.extents[d][0] = lo + (hi - lo) * 0.25; t.extents[d][1] = hi - (hi - lo) * 0.25; break;   // narrower
          case 2: t.extents[d][0] = first; t.extents[d][1] = last; break;                         // the whole knot range
          case 3: t.extents[d][0] = first - 10 - std::fabs(first); t.extents[d][1] = last + 10 + std::fabs(last); break;  // beyond the knots
          case 4: t.extents[d][0] = hi; t.extents[d][1] = lo; break;                              // reversed
          case 5: t.extents[d][0] = std::numeric_limits<double>::quiet_NaN(); t.extents[d][1] = std::numeric_limits<double>::quiet_NaN(); break;
          default: t.extents[d][0] = -INFINITY; t.extents[d][1] = r.coin() ? INFINITY : lo; break;
        }
      }
    }
    emit_table(t);
    uint32_t nd = t.ndim;
    struct splinetable ct; ct.data = &t;
    // a copy of some tables, with the accepted points, for the concurrent phase at the end
    const bool keep = g_kept.size() < 6 && (it % 3 == 0 || ntables <= 6);
    if (keep) { g_kept.emplace_back(new Kept()); build_table(g_kept.back()->t, g.ord, g.kn, g.coef, &pads); for (uint32_t d = 0; d < nd; d++) { g_kept.back()->t.extents[d][0] = t.extents[d][0]; g_kept.back()->t.extents[d][1] = t.extents[d][1]; } }
    for (long p = 0; p < npoints; p++) {
      std::vector<double> x(nd); std::vector<int> c(nd, -12345);
      std::string kinds;
      for (uint32_t d = 0; d < nd; d++) { std::string k; x[d] = pick_x(r, g.kn[d], g.ord[d], wild, k); stats["x_" + k]++; }
      // S line first (flushed), so that a hang or crash inside the lookup leaves the offending input as the last line
      fprintf(fc, "S"); for (uint32_t d = 0; d < nd; d++) fprintf(fc, " %llu", (unsigned long long)bits(x[d])); fprintf(fc, "\n"); fflush(fc);
      bool ok = t.searchcenters(x.data(), c.data());
      if (ok) { fprintf(fi, "ok"); for (uint32_t d = 0; d < nd; d++) fprintf(fi, " %d", c[d]); fprintf(fi, "\n"); } else fprintf(fi, "reject\n");
      stats[ok ? "lookup_ok" : "lookup_reject"]++;
      { // the C wrapper and the evaluator object must agree with the member function
        std::vector<int> c2(nd, -12345); int ok2 = tablesearchcenters(&ct, x.data(), c2.data());
        auto ev = t.get_evaluator<float>(); std::vector<int> c3(nd, -12345); bool ok3 = ev.searchcenters(x.data(), c3.data());
        if ((ok2 == 0) != ok || ok3 != ok || (ok && (c2 != c || c3 != c))) { path_mismatch++; fprintf(fc, "X lookup-paths-differ\n"); fprintf(fi, "mismatch\n"); }
        double v = t(x.data());
        if (!ok && !(v == 0 && !std::signbit(v))) { path_mismatch++; fprintf(fc, "X callop-nonzero-on-reject\n"); fprintf(fi, "mismatch %llu\n", (unsigned long long)bits(v)); }
        if (ok) { double w = t.ndsplineeval(x.data(), c.data(), 0); if (cbits(v) != cbits(w)) { path_mismatch++; fprintf(fc, "X callop-differs-from-eval\n"); fprintf(fi, "mismatch %llu %llu\n", (unsigned long long)cbits(v), (unsigned long long)cbits(w)); } }
      }
      if (!ok) continue;
      if (keep && g_kept.back()->xs.size() < 40) { g_kept.back()->xs.push_back(x); g_kept.back()->cs.push_back(c); }
      bool dbl = r.coin();
      const char* prec = dbl ? "d" : "f";
      auto emit_xc = [&]() { for (uint32_t d = 0; d < nd; d++) fprintf(fc, " %llu", (unsigned long long)bits(x[d])); for (uint32_t d = 0; d < nd; d++) fprintf(fc, " %d", c[d]); fprintf(fc, "\n"); };
      if (profile == "C01" || profile == "C04") {
        fprintf(fc, "%s %s 0", profile == "C01" ? "V" : "B", prec); emit_xc();
        fprintf(fi, "%llu\n", (unsigned long long)(dbl ? call_value<double>(t, x.data(), c.data(), 0) : call_value<float>(t, x.data(), c.data(), 0)));
        stats[std::string("value_") + prec]++;
        if (profile == "C01") {
          // the same point through the other evaluation entry points (judged against the same exact value)
          uint64_t ve = dbl ? cbits(t.get_evaluator<double>().ndsplineeval(x.data(), c.data(), 0)) : cbits(t.get_evaluator<float>().ndsplineeval(x.data(), c.data(), 0));
          fprintf(fc, "U %s 0", prec); emit_xc(); fprintf(fi, "%llu\n", (unsigned long long)ve); stats["value_evaluator"]++;
          if (!dbl) {
            fprintf(fc, "U f 0"); emit_xc(); fprintf(fi, "%llu\n", (unsigned long long)cbits(ndsplineeval(&ct, x.data(), c.data(), 0))); stats["value_c_interface"]++;
            fprintf(fc, "U f 0"); emit_xc(); fprintf(fi, "%llu\n", (unsigned long long)cbits(t(x.data()))); stats["value_call_operator"]++;
          }
        }
      } else if (profile == "C03" || profile == "C05") {
        auto X = [&](const char* what, uint64_t a, uint64_t b) { path_mismatch++; fprintf(fc, "X %s\n", what); fprintf(fi, "mismatch %llu %llu\n", (unsigned long long)a, (unsigned long long)b); };
        int mask = r.range(0, (1 << nd) - 1); if (r.coin(1, 3)) mask = 0;
        std::vector<unsigned> ks(nd); for (uint32_t d = 0; d < nd; d++) ks[d] = r.coin(1, 2) ? 0 : r.range(0, g.ord[d] + 1);
        auto evf = t.get_evaluator<float>(); auto evd = t.get_evaluator<double>();
        // values / bitmask derivatives: generic member, evaluator (whatever routine it dispatches to), C interface
        uint64_t vf = call_value<float>(t, x.data(), c.data(), mask), vd = call_value<double>(t, x.data(), c.data(), mask);
        fprintf(fc, "B f %d", mask); emit_xc(); fprintf(fi, "%llu\n", (unsigned long long)vf);
        fprintf(fc, "B d %d", mask); emit_xc(); fprintf(fi, "%llu\n", (unsigned long long)vd);
        stats["paths_points"]++;
        if (cbits(evf.ndsplineeval(x.data(), c.data(), mask)) != vf) X("evaluator<float>.ndsplineeval != member", vf, cbits(evf.ndsplineeval(x.data(), c.data(), mask)));
        if (cbits(evd.ndsplineeval(x.data(), c.data(), mask)) != vd) X("evaluator<double>.ndsplineeval != member", vd, cbits(evd.ndsplineeval(x.data(), c.data(), mask)));
        if (cbits(ndsplineeval(&ct, x.data(), c.data(), mask)) != vf) X("C ndsplineeval != member", vf, cbits(ndsplineeval(&ct, x.data(), c.data(), mask)));
        if (cbits(evf(x.data(), mask)) != vf) X("evaluator<float> call operator != member", vf, cbits(evf(x.data(), mask)));
        if (cbits(evd(x.data(), mask)) != vd) X("evaluator<double> call operator != member", vd, cbits(evd(x.data(), mask)));
        // arbitrary-order derivatives
        uint64_t df = cbits(t.ndsplineeval_deriv(x.data(), c.data(), ks.data()));
        fprintf(fc, "E f"); for (uint32_t d = 0; d < nd; d++) fprintf(fc, " %u", ks[d]); emit_xc(); fprintf(fi, "%llu\n", (unsigned long long)df);
        uint64_t dd = cbits(evd.ndsplineeval_deriv(x.data(), c.data(), ks.data()));
        fprintf(fc, "E d"); for (uint32_t d = 0; d < nd; d++) fprintf(fc, " %u", ks[d]); emit_xc(); fprintf(fi, "%llu\n", (unsigned long long)dd);
        if (cbits(evf.ndsplineeval_deriv(x.data(), c.data(), ks.data())) != df) X("evaluator<float>.ndsplineeval_deriv != member", df, 0);
        if (cbits(ndsplineeval_deriv(&ct, x.data(), c.data(), ks.data())) != df) X("C ndsplineeval_deriv != member", df, 0);
        if (cbits(t.ndsplineeval_deriv(x.data(), c.data(), nullptr)) != call_value<float>(t, x.data(), c.data(), 0)) X("ndsplineeval_deriv(nullptr) != value", 0, 0);
        // value + gradient
        for (int dblg = 0; dblg < 2; dblg++) {
          std::vector<double> gm(nd + 1, -7), ge(nd + 1, -7), gc(nd + 1, -7);
          bool threw = false, threw_e = false, threw_c = false;
          try { if (dblg) t.ndsplineeval_gradient<double>(x.data(), c.data(), gm.data()); else t.ndsplineeval_gradient<float>(x.data(), c.data(), gm.data()); } catch (std::exception&) { threw = true; }
          try { if (dblg) evd.ndsplineeval_gradient(x.data(), c.data(), ge.data()); else evf.ndsplineeval_gradient(x.data(), c.data(), ge.data()); } catch (std::exception&) { threw_e = true; }
          fprintf(fc, "G %s", dblg ? "d" : "f"); emit_xc();
          if (threw) { fprintf(fi, "refused\n"); stats["gradient_refused"]++; }
          else { for (uint32_t j = 0; j <= nd; j++) fprintf(fi, "%s%llu", j ? " " : "", (unsigned long long)cbits(gm[j])); fprintf(fi, "\n"); stats["gradient_ok"]++; }
          if (threw != threw_e) X("gradient refusal differs between member and evaluator", threw, threw_e);
          if (!threw && !threw_e) for (uint32_t j = 0; j <= nd; j++) if (cbits(gm[j]) != cbits(ge[j])) X("evaluator gradient lane != member lane", cbits(gm[j]), cbits(ge[j]));
          if (!threw) {
            uint64_t v0 = dblg ? call_value<double>(t, x.data(), c.data(), 0) : call_value<float>(t, x.data(), c.data(), 0);
            if (cbits(gm[0]) != v0) X("gradient value lane != plain value", cbits(gm[0]), v0);
            for (uint32_t j = 0; j < nd; j++) { uint64_t vj = dblg ? call_value<double>(t, x.data(), c.data(), 1 << j) : call_value<float>(t, x.data(), c.data(), 1 << j);
              if (cbits(gm[j + 1]) != vj) X("gradient lane != single-derivative evaluation", cbits(gm[j + 1]), vj); }
          }
          if (!dblg) { try { ndsplineeval_gradient(&ct, x.data(), c.data(), gc.data()); } catch (std::exception&) { threw_c = true; }
            if (threw_c) X("C gradient wrapper let an exception escape", threw_c, threw);   // the C wrapper reports refusal by NaN results
            if (threw && !threw_c) for (uint32_t j = 0; j <= nd; j++) if (gc[j] == gc[j]) X("C gradient wrapper: refused request did not yield NaN", cbits(gc[j]), 0);
            if (!threw && !threw_c) for (uint32_t j = 0; j <= nd; j++) if (cbits(gm[j]) != cbits(gc[j])) X("C gradient lane != member lane", cbits(gm[j]), cbits(gc[j])); }
        }
      } else if (profile == "C02") {
        int mask = r.range(0, (1 << nd) - 1); if (r.coin(1, 4)) mask = 1 << r.range(0, nd - 1);
        fprintf(fc, "V %s %d", prec, mask); emit_xc();
        fprintf(fi, "%llu\n", (unsigned long long)(dbl ? call_value<double>(t, x.data(), c.data(), mask) : call_value<float>(t, x.data(), c.data(), mask)));
        stats["mask_bits_" + std::to_string(__builtin_popcount(mask))]++;
        { // the same derivative through the evaluator object (whatever routine get_evaluator dispatches to), judged like the V line
          uint64_t ve = dbl ? cbits(t.get_evaluator<double>().ndsplineeval(x.data(), c.data(), mask)) : cbits(t.get_evaluator<float>().ndsplineeval(x.data(), c.data(), mask));
          fprintf(fc, "U %s %d", prec, mask); emit_xc(); fprintf(fi, "%llu\n", (unsigned long long)ve); stats["mask_evaluator"]++;
          if (!dbl) { fprintf(fc, "U f %d", mask); emit_xc(); fprintf(fi, "%llu\n", (unsigned long long)cbits(ndsplineeval(&ct, x.data(), c.data(), mask))); stats["mask_c_interface"]++; }
        }
        // value-plus-gradient: every lane must be the value / single-derivative evaluation (checked exactly below)
        if (nd + 1 <= 8) {
          int dsel = r.range(0, nd - 1);
          uint64_t v0 = dbl ? call_value<double>(t, x.data(), c.data(), 0) : call_value<float>(t, x.data(), c.data(), 0);
          uint64_t vd = dbl ? call_value<double>(t, x.data(), c.data(), 1 << dsel) : call_value<float>(t, x.data(), c.data(), 1 << dsel);
          fprintf(fc, "V %s 0", prec); emit_xc(); fprintf(fi, "%llu\n", (unsigned long long)v0);
          fprintf(fc, "V %s %d", prec, 1 << dsel); emit_xc(); fprintf(fi, "%llu\n", (unsigned long long)vd);
          std::vector<double> gm(nd + 1, -7);
          if (dbl) t.ndsplineeval_gradient<double>(x.data(), c.data(), gm.data()); else t.ndsplineeval_gradient<float>(x.data(), c.data(), gm.data());
          fprintf(fc, "G %s", prec); emit_xc();
          for (uint32_t j = 0; j <= nd; j++) fprintf(fi, "%s%llu", j ? " " : "", (unsigned long long)cbits(gm[j])); fprintf(fi, "\n");
          if (cbits(gm[0]) != v0) { path_mismatch++; fprintf(fc, "X gradient value lane != plain value\n"); fprintf(fi, "mismatch %llu %llu\n", (unsigned long long)cbits(gm[0]), (unsigned long long)v0); }
          if (cbits(gm[dsel + 1]) != vd) { path_mismatch++; fprintf(fc, "X gradient lane %d != single-derivative evaluation\n", dsel + 1); fprintf(fi, "mismatch %llu %llu\n", (unsigned long long)cbits(gm[dsel + 1]), (unsigned long long)vd); }
          stats["gradient_points"]++;
          // the evaluator object's gradient (its own dispatched kernel and scratch arrays) and the C wrapper: lane by lane
          // the member's lanes, which are judged against the exact derivative through the V lines above
          std::vector<double> ge(nd + 1, -7);
          if (dbl) t.get_evaluator<double>().ndsplineeval_gradient(x.data(), c.data(), ge.data()); else t.get_evaluator<float>().ndsplineeval_gradient(x.data(), c.data(), ge.data());
          fprintf(fc, "G %s", prec); emit_xc();
          for (uint32_t j = 0; j <= nd; j++) fprintf(fi, "%s%llu", j ? " " : "", (unsigned long long)cbits(ge[j])); fprintf(fi, "\n");
          for (uint32_t j = 0; j <= nd; j++) if (cbits(ge[j]) != cbits(gm[j])) { path_mismatch++; fprintf(fc, "X evaluator<%s> gradient lane %u != member gradient lane\n", dbl ? "double" : "float", j); fprintf(fi, "mismatch %llu %llu\n", (unsigned long long)cbits(ge[j]), (unsigned long long)cbits(gm[j])); break; }
          if (!dbl) { std::vector<double> gc(nd + 1, -7); ndsplineeval_gradient(&ct, x.data(), c.data(), gc.data());
            for (uint32_t j = 0; j <= nd; j++) if (cbits(gc[j]) != cbits(gm[j])) { path_mismatch++; fprintf(fc, "X C gradient lane %u != member gradient lane\n", j); fprintf(fi, "mismatch %llu %llu\n", (unsigned long long)cbits(gc[j]), (unsigned long long)cbits(gm[j])); break; } }
          stats["gradient_evaluator_points"]++;
        }
        // arbitrary-order derivative (always float storage in the table member)
        std::vector<unsigned> ks(nd); bool big = false;
        for (uint32_t d = 0; d < nd; d++) { ks[d] = r.range(0, g.ord[d] + 1); if (ks[d] >= 2) big = true; }
        bool strict = true; for (uint32_t d = 0; d < nd; d++) if (ks[d] >= 2) for (size_t j = 1; j < g.kn[d].size(); j++) if (!(g.kn[d][j - 1] < g.kn[d][j])) strict = false;
        if (!big || strict) {
          fprintf(fc, "D f"); for (uint32_t d = 0; d < nd; d++) fprintf(fc, " %u", ks[d]); emit_xc();
          fprintf(fi, "%llu\n", (unsigned long long)cbits(t.ndsplineeval_deriv(x.data(), c.data(), ks.data())));
          stats[big ? "deriv_highorder" : "deriv_loworder"]++;
        }
      }
    }
  }
  fclose(fc); fclose(fi);
  alarm(0);
  if (!g_kept.empty()) {
    std::vector<std::vector<uint64_t>> alone(g_kept.size());
    for (size_t k = 0; k < g_kept.size(); k++) all_results(*g_kept[k], alone[k]);
    const int NT = 4, ROUNDS = 25;
    std::vector<int> bad(NT, 0); long calls = 0;
    for (auto& k : g_kept) calls += (long)k->xs.size();
    int rc = run_concurrently(NT, 120,
      [&](int th) { for (int round = 0; round < ROUNDS; round++) for (size_t j = 0; j < g_kept.size(); j++) { size_t q = (j + th + round) % g_kept.size(); std::vector<uint64_t> now; all_results(*g_kept[q], now); if (now != alone[q]) bad[th]++; } },
      [&]() { int n = 0; for (int b : bad) n += b; return n > 100 ? 100 : n; });
    stats["concurrent_threads"] = NT; stats["concurrent_tables"] = (long)g_kept.size(); stats["concurrent_points_evaluated"] = calls * NT * ROUNDS;
    stats["concurrent_outcome"] = rc;   // 0 = every result equal to the one obtained alone; > 0 = number of (table, round) sets that differ; < 0 = -signal
  }
  // ---- history phase: what an object evaluates to depends on its CURRENT content only (the models are functions of the table
  // as it is), not on what was asked of it before.  Every kept table has been looked up and evaluated above through every
  // entry point; it is now changed in place (convolved, or its dimensions permuted; through the C++ member or the C wrapper),
  // and evaluated again at every entry point next to a FRESH object holding the same content (FITS memory round trip, never
  // evaluated before).  Any difference means the first evaluations left something behind (a cached order, a memoised routine).
  if (!g_kept.empty()) {
    long differ = 0, compared = 0, ops_conv = 0, ops_perm = 0, failed = 0;
    int rc = run_concurrently(1, 120,
      [&](int) {
        for (size_t j = 0; j < g_kept.size(); j++) {
          Kept& k = *g_kept[j]; uint32_t nd = k.t.ndim;
          { uint64_t nc = 1; for (uint32_t i = 0; i < nd; i++) nc *= k.t.naxes[i]; if (nc > 6000) continue; }   // convolve costs naxes^2 per slice: small tables only
          std::vector<uint64_t> warm; all_results(k, warm);      // (again) populate whatever the implementation may cache
          std::vector<std::vector<double>> xs = k.xs;
          try {
            struct splinetable ct; ct.data = &k.t;
            if (j % 2 == 0 || nd < 2) {
              uint32_t dim = (uint32_t)(j % nd); double ck[3] = {-0.25, 0.0, 0.375};
              if (j % 4 == 0) k.t.convolve(dim, ck, 3); else if (splinetable_convolve(&ct, (int)dim, ck, 3) != 0) throw std::runtime_error("splinetable_convolve failed");
              ops_conv++;
            } else {
              std::vector<size_t> perm(nd); for (uint32_t i = 0; i < nd; i++) perm[i] = (i + 1) % nd;
              if (j % 4 == 1) k.t.permuteDimensions(perm); else if (splinetable_permute(&ct, perm.data()) != 0) throw std::runtime_error("splinetable_permute failed");
              for (auto& x : xs) { std::vector<double> y(nd); for (uint32_t i = 0; i < nd; i++) y[i] = x[perm[i]]; x = y; }
              ops_perm++;
            }
            auto buf = static_cast<const Table&>(k.t).write_fits_mem();
            Kept fresh; fresh.t.read_fits_mem(buf.first, buf.second); free(buf.first);
            k.xs.clear(); k.cs.clear();
            for (auto& x : xs) { std::vector<int> c(nd, -1); if (fresh.t.searchcenters(x.data(), c.data())) { k.xs.push_back(x); k.cs.push_back(c); fresh.xs.push_back(x); fresh.cs.push_back(c); } }
            std::vector<uint64_t> a, b; all_results(k, a); all_results(fresh, b);
            compared += (long)k.xs.size();
            if (a != b) differ++;
          } catch (std::exception& e) { failed++; }
        }
      },
      [&]() { FILE* f = fopen((std::string(argv[6]) + ".hist").c_str(), "w"); if (f) { fprintf(f, "%ld %ld %ld %ld %ld\n", differ, compared, ops_conv, ops_perm, failed); fclose(f); } return differ > 100 ? 100 : (int)differ; });
    long v[5] = {0, 0, 0, 0, 0};
    { FILE* f = fopen((std::string(argv[6]) + ".hist").c_str(), "r"); if (f) { if (fscanf(f, "%ld %ld %ld %ld %ld", &v[0], &v[1], &v[2], &v[3], &v[4]) != 5) v[1] = 0; fclose(f); } }
    stats["history_outcome"] = rc;   // 0 = modified object and fresh object agree at every entry point; > 0 = tables that differ; < 0 = -signal
    stats["history_points_compared"] = v[1]; stats["history_convolved_in_place"] = v[2]; stats["history_permuted_in_place"] = v[3]; stats["history_operation_failed"] = v[4];
  }
  FILE* fs = fopen(argv[6], "w");
  fprintf(fs, "{\"path_mismatch\": %ld", path_mismatch);
  for (auto& kv : stats) fprintf(fs, ", \"%s\": %ld", kv.first.c_str(), kv.second);
  fprintf(fs, "}\n"); fclose(fs);
  return 0;
}
