// Correspondence harness for C17 (grid evaluation) and for the array kernels of splineutil.c.
// usage: c17_harness <ncases> <cases> <impl> <stats> [tier]     (also writes <stats>.conc: result of the concurrent phase, JSON)
// Lines written to <cases> (read by `psvdriver C17`), one result line each in <impl>:
//   B order nknots knotbits{nknots} npts xbits{npts}            bsplinebasis(), dense, bit patterns (column-major as stored)
//   S ndim ranges{ndim} nent (idx{ndim} val)*nent dim nrow ncol b{nrow*ncol row-major}   slicemultiply() on small integers (exact in double)
//   T (same fields as S)   slicemultiply() on a sparse tensor with large index ranges (flattened section of 2^16 .. 2^22 columns:
//        the int/unsigned index arithmetic beyond 16 bits); result compared entry by entry, not densely
//   G ndim (order nknots stride knotbits{nknots})*ndim ncoef coefbits32{ncoef} (npts xbits{npts})*ndim
//        grideval through the C++ entry point and the C wrapper + pointwise ndsplineeval at every grid point
#include "common.h"
#include <atomic>
#include <mutex>
#include <thread>
#include <signal.h>
#include <sys/wait.h>
#include <unistd.h>
extern "C" {
#include <photospline/detail/splineutil.h>
}
using namespace psv;

static FILE *fc, *fi;
static std::map<std::string, long> stats;

static double nice(Rng& r, int scale) { return (double)r.range(-8 * scale, 8 * scale) / scale; }

// strictly increasing knots; style 0 uniform, 1 irregular dyadic, 2 arbitrary mantissas
static std::vector<double> knots_inc(Rng& r, int order, int extra, int style) {
  int nk = 2 * order + 2 + extra;
  std::vector<double> k(nk);
  double v = style == 2 ? r.unit() * 4 - 2 : (double)r.range(-16, 16) / 8;
  for (int i = 0; i < nk; i++) {
    k[i] = v;
    v += style == 0 ? 0.5 : style == 1 ? (double)r.range(1, 12) / 8 : 0.05 + r.unit() * 1.5;
  }
  return k;
}

static void emit_basis(Rng& r, cholmod_common* c) {
  int order = r.range(0, 4), extra = r.range(0, 4);
  int style = r.range(0, 3);
  std::vector<double> k = style == 3 ? gen_knots(r, order, extra, 2) /* repeated knots: 0/0 = NaN in the C code */ : knots_inc(r, order, extra, style);
  int npts = r.range(1, 7);
  std::vector<double> x(npts);
  for (auto& v : x) {
    int m = r.range(0, 9);
    if (m < 5) v = k.front() + (k.back() - k.front()) * r.unit();
    else if (m < 7) v = k[r.below(k.size())];
    else if (m < 8) v = k.front() - r.unit();
    else if (m < 9) v = k.back() + r.unit();
    else v = r.coin() ? std::numeric_limits<double>::quiet_NaN() : (r.coin() ? INFINITY : -INFINITY);
  }
  stats[std::string("B_knotstyle_") + std::to_string(style)]++;
  fprintf(fc, "B %d %zu", order, k.size());
  for (double v : k) fprintf(fc, " %llu", (unsigned long long)bits(v));
  fprintf(fc, " %d", npts);
  for (double v : x) fprintf(fc, " %llu", (unsigned long long)bits(v));
  fprintf(fc, "\n");
  cholmod_sparse* sb = bsplinebasis(k.data(), k.size(), x.data(), npts, order, c);
  cholmod_dense* d = cholmod_l_sparse_to_dense(sb, c);
  fprintf(fi, "%zu %zu", (size_t)d->nrow, (size_t)d->ncol);
  for (size_t row = 0; row < d->nrow; row++)
    for (size_t col = 0; col < d->ncol; col++) fprintf(fi, " %llu", (unsigned long long)cbits(((double*)d->x)[col * d->d + row]));
  fprintf(fi, "\n");
  cholmod_l_free_dense(&d, c);
  cholmod_l_free_sparse(&sb, c);
}

static void print_nd(FILE* f, const ::ndsparse* nd) {
  // canonical: ranges, then entries sorted by index tuple; values as bit patterns
  fprintf(f, "%zu", (size_t)nd->ndim);
  for (size_t d = 0; d < nd->ndim; d++) fprintf(f, " %u", nd->ranges[d]);
  std::vector<std::pair<std::vector<unsigned>, double>> es;
  for (size_t i = 0; i < nd->rows; i++) {
    std::vector<unsigned> idx(nd->ndim);
    for (size_t d = 0; d < nd->ndim; d++) idx[d] = nd->i[d][i];
    es.push_back({idx, nd->x[i]});
  }
  std::sort(es.begin(), es.end());
  fprintf(f, " %zu", es.size());
  for (auto& e : es) {
    for (unsigned v : e.first) fprintf(f, " %u", v);
    fprintf(f, " %llu", (unsigned long long)cbits(e.second));
  }
}

static void emit_slice(Rng& r, cholmod_common* c) {
  int nd = r.range(1, 4);
  std::vector<unsigned> ranges(nd);
  for (auto& v : ranges) v = r.range(1, nd >= 4 ? 3 : 4);
  int nent = r.range(1, 10);
  int dim = r.range(0, nd - 1);
  bool wrong = r.coin(1, 12);
  int nrow = wrong ? (int)ranges[dim] + (r.coin() ? 1 : -1) : (int)ranges[dim];
  if (nrow < 1) nrow = ranges[dim] + 1;
  int ncol = r.range(1, 5);
  ::ndsparse a;
  ndsparse_allocate(&a, nent, nd);
  fprintf(fc, "S %d", nd);
  for (int d = 0; d < nd; d++) { a.ranges[d] = ranges[d]; fprintf(fc, " %u", ranges[d]); }
  fprintf(fc, " %d", nent);
  for (int i = 0; i < nent; i++) {
    for (int d = 0; d < nd; d++) { a.i[d][i] = r.below(ranges[d]); fprintf(fc, " %u", a.i[d][i]); }
    a.x[i] = r.range(-9, 9);   // duplicates and explicit zeros on purpose
    fprintf(fc, " %d", (int)a.x[i]);
  }
  fprintf(fc, " %d %d %d", dim, nrow, ncol);
  cholmod_dense* bd = cholmod_l_zeros(nrow, ncol, CHOLMOD_REAL, c);
  for (int i = 0; i < nrow; i++)
    for (int j = 0; j < ncol; j++) {
      int v = r.coin(2, 5) ? 0 : r.range(-5, 5);
      ((double*)bd->x)[j * nrow + i] = v;
      fprintf(fc, " %d", v);
    }
  fprintf(fc, "\n");
  cholmod_sparse* b = cholmod_l_dense_to_sparse(bd, 1, c);
  cholmod_l_free_dense(&bd, c);
  int rc = slicemultiply(&a, b, dim, c);
  stats[rc == 0 ? "S_ok" : "S_dim_mismatch"]++;
  if (rc != 0) fprintf(fi, "fail");
  else print_nd(fi, &a);
  fprintf(fi, "\n");
  cholmod_l_free_sparse(&b, c);
  ndsparse_free(&a);
}

// slicemultiply with large index ranges and few entries: exercises the int / unsigned / long index arithmetic
// (stride products up to ~4e6; CHOLMOD needs one long per column of the flattened section, which bounds what can be run)
static void emit_slice_wide(Rng& r, cholmod_common* c) {
  int nd = r.range(2, 4);
  int dim = r.range(0, nd - 1);
  std::vector<unsigned> ranges(nd);
  // target number of columns 2^16 .. 2^22, spread over the other dimensions
  double target = std::ldexp(1.0, r.range(16, 22)) * (0.5 + r.unit());
  int others = nd - 1;
  for (int d = 0; d < nd; d++) {
    if (d == dim) { ranges[d] = r.range(1, 6); continue; }
    double f = std::pow(target, 1.0 / others) * (0.6 + 0.8 * r.unit());
    ranges[d] = (unsigned)std::max(2.0, std::floor(f));
  }
  double cols = 1; for (int d = 0; d < nd; d++) if (d != dim) cols *= ranges[d];
  while (cols > 6.0e6) { for (int d = 0; d < nd; d++) if (d != dim && ranges[d] > 2) { cols /= ranges[d]; ranges[d] = ranges[d] / 2 + 1; cols *= ranges[d]; } }
  int nent = r.range(1, 8);
  int nrow = ranges[dim], ncol = r.range(1, 3);
  ::ndsparse a;
  ndsparse_allocate(&a, nent, nd);
  fprintf(fc, "T %d", nd);
  for (int d = 0; d < nd; d++) { a.ranges[d] = ranges[d]; fprintf(fc, " %u", ranges[d]); }
  fprintf(fc, " %d", nent);
  for (int i = 0; i < nent; i++) {
    for (int d = 0; d < nd; d++) {
      int m = r.range(0, 5);   // extremes on purpose: largest index gives the largest flattened column
      a.i[d][i] = m == 0 ? ranges[d] - 1 : m == 1 ? 0 : r.below(ranges[d]);
      fprintf(fc, " %u", a.i[d][i]);
    }
    a.x[i] = r.range(-9, 9);
    fprintf(fc, " %d", (int)a.x[i]);
  }
  fprintf(fc, " %d %d %d", dim, nrow, ncol);
  cholmod_dense* bd = cholmod_l_zeros(nrow, ncol, CHOLMOD_REAL, c);
  for (int i = 0; i < nrow; i++)
    for (int j = 0; j < ncol; j++) {
      int v = r.coin(1, 4) ? 0 : r.range(-5, 5);
      ((double*)bd->x)[j * nrow + i] = v;
      fprintf(fc, " %d", v);
    }
  fprintf(fc, "\n");
  cholmod_sparse* b = cholmod_l_dense_to_sparse(bd, 1, c);
  cholmod_l_free_dense(&bd, c);
  int rc = slicemultiply(&a, b, dim, c);
  stats[rc == 0 ? "T_ok" : "T_fail"]++;
  { char key[40]; snprintf(key, sizeof key, "T_cols_2^%d", (int)std::floor(std::log2(cols))); stats[key]++; }
  if (rc != 0) fprintf(fi, "fail");
  else print_nd(fi, &a);
  fprintf(fi, "\n");
  cholmod_l_free_sparse(&b, c);
  ndsparse_free(&a);
}

// ---- concurrent phase -------------------------------------------------------------------------------------------
// A handful of the generated tables/grids (already evaluated on one thread, result kept in canonical form) are
// evaluated again by several threads at the same time, through the C++ member and the C entry point, on the shared
// const tables; every result must be the single-threaded one bit for bit (the model of grideval is a pure function of
// table and grid: its result cannot depend on other calls in flight).  Runs in a forked child with an alarm, so that
// a crash or hang is a result (with the tables/grids as replay) and not the end of the run.
struct ConcCase {
  std::unique_ptr<Table> t;
  std::vector<std::vector<double>> coords;
  std::string expect;     // print_nd of the single-threaded result
  long pos0, pos1;        // byte range of the case line in <cases>
};
static std::vector<ConcCase> conc_cases;
static const size_t CONC_MAX_CASES = 8;

static std::string nd_string(const ::ndsparse* nd) {
  char* p = nullptr; size_t l = 0; FILE* m = open_memstream(&p, &l); print_nd(m, nd); fclose(m);
  std::string out(p, l); free(p); return out;
}

static std::string json_escape(const std::string& in) {
  std::string o; for (char ch : in) { if (ch == '"' || ch == '\\') { o += '\\'; o += ch; } else if (ch == '\n') o += ' '; else o += ch; } return o;
}

static std::string case_line(const char* cases_path, const ConcCase& cc) {
  std::string out; FILE* f = fopen(cases_path, "r"); if (!f) return out;
  fseek(f, cc.pos0, SEEK_SET); out.resize(cc.pos1 - cc.pos0);
  size_t got = fread(&out[0], 1, out.size(), f); out.resize(got); fclose(f);
  while (!out.empty() && out.back() == '\n') out.pop_back();
  return out;
}

// returns JSON text for <stats>.conc
static std::string concurrent_phase(const char* cases_path, const std::string& tier) {
  const int nthreads = 6;
  const int per_thread = tier == "thorough" ? 400 : 60;
  std::ostringstream js;
  js << "{\"threads\": " << nthreads << ", \"calls\": " << nthreads * per_thread << ", \"tables\": " << conc_cases.size();
  if (conc_cases.empty()) { js << ", \"status\": \"no-cases\"}"; return js.str(); }
  std::string res_path = std::string(cases_path) + ".conc.child";
  remove(res_path.c_str());
  fflush(nullptr);
  pid_t pid = fork();
  if (pid == 0) {
    alarm(tier == "thorough" ? 240 : 90);
    std::mutex mu; std::vector<std::string> mism; std::atomic<long> done(0), bad(0);
    std::atomic<int> gate(0);
    auto work = [&](int tid) {
      gate++; while (gate.load() < nthreads) std::this_thread::yield();      // start together
      for (int it = 0; it < per_thread; it++) {
        size_t ci = (size_t)(it * 5 + tid * 3) % conc_cases.size();
        const ConcCase& cc = conc_cases[ci];
        bool cxx = ((it + tid) & 1) == 0;
        std::string got;
        try {
          if (cxx) {
            std::unique_ptr<photospline::ndsparse> res = static_cast<const Table&>(*cc.t).grideval(cc.coords);
            got = res ? nd_string(res.get()) : "null";
          } else {
            struct splinetable ct; ct.data = cc.t.get();
            size_t nd = cc.coords.size();
            std::vector<const double*> cp(nd); std::vector<uint32_t> ncs(nd);
            for (size_t d = 0; d < nd; d++) { cp[d] = cc.coords[d].data(); ncs[d] = cc.coords[d].size(); }
            ::ndsparse* raw = nullptr;
            int rc = splinetable_grideval(&ct, cp.data(), ncs.data(), &raw);
            std::unique_ptr<photospline::ndsparse> own(static_cast<photospline::ndsparse*>(raw));
            got = (rc == 0 && raw) ? nd_string(raw) : "rc=" + std::to_string(rc);
          }
        } catch (std::exception& e) { got = std::string("throw ") + e.what(); }
        done++;
        if (got != cc.expect) {
          bad++;
          std::lock_guard<std::mutex> lk(mu);
          if (mism.size() < 4) {
            std::ostringstream m;
            m << "{\"table\": " << ci << ", \"thread\": " << tid << ", \"call\": " << it << ", \"entry\": \"" << (cxx ? "splinetable::grideval" : "splinetable_grideval")
              << "\", \"got\": \"" << json_escape(got.substr(0, 600)) << "\", \"single_threaded\": \"" << json_escape(cc.expect.substr(0, 600)) << "\"}";
            mism.push_back(m.str());
          }
        }
      }
    };
    std::vector<std::thread> th;
    for (int i = 0; i < nthreads; i++) th.emplace_back(work, i);
    for (auto& t : th) t.join();
    FILE* f = fopen(res_path.c_str(), "w");
    fprintf(f, "\"calls_done\": %ld, \"calls_differing\": %ld, \"mismatches\": [", done.load(), bad.load());
    for (size_t i = 0; i < mism.size(); i++) fprintf(f, "%s%s", i ? ", " : "", mism[i].c_str());
    fprintf(f, "]");
    fclose(f);
    fflush(nullptr);
    _exit(0);
  }
  int st = 0; waitpid(pid, &st, 0);
  std::string child;
  { FILE* f = fopen(res_path.c_str(), "r"); if (f) { char buf[8192]; size_t n; while ((n = fread(buf, 1, sizeof buf, f)) > 0) child.append(buf, n); fclose(f); } }
  remove(res_path.c_str());
  if (WIFEXITED(st) && WEXITSTATUS(st) == 0 && !child.empty()) js << ", \"status\": \"completed\", " << child;
  else if (WIFSIGNALED(st)) js << ", \"status\": \"" << (WTERMSIG(st) == SIGALRM ? "hang" : "crash") << "\", \"signal\": " << WTERMSIG(st);
  else js << ", \"status\": \"crash\", \"exit_code\": " << (WIFEXITED(st) ? WEXITSTATUS(st) : -1);
  js << ", \"case_lines\": [";
  for (size_t i = 0; i < conc_cases.size(); i++) js << (i ? ", " : "") << "\"" << json_escape(case_line(cases_path, conc_cases[i])) << "\"";
  js << "]}";
  return js.str();
}

static void emit_grid(Rng& r, const std::string& tier) {
  int w = r.range(0, 99);
  int nd = w < 30 ? 1 : w < 60 ? 2 : w < 85 ? 3 : 4;
  std::vector<uint32_t> ord(nd);
  bool mixed = r.coin(2, 3);
  int common = r.range(0, 4);
  for (auto& o : ord) o = mixed ? r.range(0, 4) : common;
  std::vector<std::vector<double>> kn;
  uint64_t maxcoef = tier == "thorough" ? 400 : 150;
  std::vector<int> extra(nd);
  for (auto& e : extra) e = r.range(0, nd >= 3 ? 2 : 5);
  auto count = [&]() { uint64_t n = 1; for (int i = 0; i < nd; i++) n *= (uint64_t)(ord[i] + 1 + extra[i]); return n; };
  while (count() > maxcoef) { int i = r.range(0, nd - 1); if (extra[i] > 0) extra[i]--; else if (ord[i] > 0) ord[i]--; }
  int ks = r.range(0, 9);
  int kstyle = ks < 6 ? r.range(0, 1) : ks < 8 ? 2 : 3;   // 3: dyadic with a repeated knot
  for (int i = 0; i < nd; i++) {
    std::vector<double> k = knots_inc(r, ord[i], extra[i], kstyle == 3 ? 1 : kstyle);
    // multiplicity at most `order`: the spline stays continuous (multiplicity order+1 makes a zero-width span in the
    // pointwise evaluation's bsplvb, whose behaviour there belongs to C01/C05, not to the grid evaluation)
    // and the repeated group lies strictly inside the fully supported range (indices order+1 .. naxes-1): a zero-width
    // first/last supported interval makes the pointwise evaluation 0/0 at its end point (seen: order 4, knots[5]=knots[6]=
    // knots[naxes], x = knots[naxes] -> NaN from ndsplineeval), which is not the grid evaluation's business either
    int nax = (int)k.size() - (int)ord[i] - 1;
    if (kstyle == 3 && ord[i] >= 2 && nax - (int)ord[i] - 1 >= 2 && (i == 0 || r.coin())) {
      int mult = r.range(2, std::min((int)ord[i], nax - (int)ord[i] - 1));
      int at = r.range((int)ord[i] + 1, nax - mult);
      for (int j = 1; j < mult; j++) k[at + j] = k[at];   // still non-decreasing: the later knots are larger
      stats["G_repeated_knot_dims"]++;
    }
    kn.push_back(k); stats["G_order_" + std::to_string(ord[i])]++;
  }
  stats["G_ndim_" + std::to_string(nd)]++;
  stats["G_knotstyle_" + std::to_string(kstyle)]++;
  uint64_t nc = ncoef(ord, kn);
  std::vector<float> coef(nc);
  int zpct = r.range(50, 97);
  bool allzero = r.coin(1, 40);
  size_t nz = 0;
  for (auto& cf : coef) {
    if (allzero || (int)r.below(100) < zpct) cf = r.coin(1, 8) ? -0.0f : 0.0f;
    else { cf = r.coin() ? (float)(r.range(-40, 40) / 8.0) : (float)(r.unit() * 4 - 2); }
    if (cf != 0) nz++;
  }
  if (!allzero && nz == 0) { coef[r.below(nc)] = 1.5f; nz = 1; }
  stats[nz == 0 ? "G_all_zero_table" : "G_nonzero_table"]++;
  // grid axes
  std::vector<std::vector<double>> coords(nd);
  int maxpts = nd == 1 ? 9 : nd == 2 ? 6 : nd == 3 ? 4 : 3;
  for (int d = 0; d < nd; d++) {
    int n = r.coin(1, 4) ? 1 : r.range(1, maxpts);
    if (n == 1) stats["G_single_point_axes"]++;
    const std::vector<double>& k = kn[d];
    double lo = k.front(), hi = k.back();
    for (int j = 0; j < n; j++) {
      int m = r.range(0, 19);
      double v;
      if (m < 11) v = kstyle >= 2 ? lo + (hi - lo) * r.unit() : lo + (double)r.range(1, 63) / 64 * (hi - lo);
      else if (m < 14) { v = k[r.below(k.size())]; stats["G_pts_on_knot"]++; }
      else if (m < 16) { v = lo - r.unit(); stats["G_pts_below_range"]++; }
      else if (m < 18) { v = hi + r.unit(); stats["G_pts_above_range"]++; }
      else if (j > 0) { v = coords[d][r.below(j)]; stats["G_pts_repeated"]++; }
      else v = 0.5 * (lo + hi);
      coords[d].push_back(v);
    }
    if (r.coin(1, 3)) std::sort(coords[d].begin(), coords[d].end());
  }
  std::unique_ptr<Table> tp(new Table);
  Table& t = *tp;
  build_table(t, ord, kn, coef);
  long pos0 = ftell(fc);
  fprintf(fc, "G %d", nd);
  for (int d = 0; d < nd; d++) {
    fprintf(fc, " %u %zu %llu", ord[d], kn[d].size(), (unsigned long long)t.strides[d]);
    for (double v : kn[d]) fprintf(fc, " %llu", (unsigned long long)bits(v));
  }
  fprintf(fc, " %llu", (unsigned long long)nc);
  for (float cf : coef) fprintf(fc, " %u", bits(cf));
  for (int d = 0; d < nd; d++) {
    fprintf(fc, " %zu", coords[d].size());
    for (double v : coords[d]) fprintf(fc, " %llu", (unsigned long long)bits(v));
  }
  fprintf(fc, "\n");
  fflush(fc);
  long pos1 = ftell(fc);
  // C++ entry point
  std::unique_ptr<photospline::ndsparse> res;
  std::string err;
  try { res = t.grideval(coords); } catch (std::exception& e) { err = e.what(); }
  if (!res) {
    stats["G_threw"]++;
    fprintf(fi, "throw");
  } else {
    print_nd(fi, res.get());
  }
  // C wrapper: same answer, ownership handed over as a raw pointer
  {
    struct splinetable ct; ct.data = &t;
    std::vector<const double*> cp(nd); std::vector<uint32_t> ncs(nd);
    for (int d = 0; d < nd; d++) { cp[d] = coords[d].data(); ncs[d] = coords[d].size(); }
    ::ndsparse* raw = (::ndsparse*)0x1;
    int rc = splinetable_grideval(&ct, cp.data(), ncs.data(), &raw);  // prints the exception text to stderr
    // the object really is a photospline::ndsparse: release it through that type (ndsparse_destroy deletes
    // through the C base type, a defect that belongs to C18)
    std::unique_ptr<photospline::ndsparse> own(static_cast<photospline::ndsparse*>(raw));
    bool same;
    if (!res) same = (rc != 0 && raw == nullptr);
    else {
      same = rc == 0 && raw && raw->rows == res->rows && raw->ndim == res->ndim;
      if (same) {
        std::string a, b; char* pa = nullptr; size_t la = 0; FILE* ma = open_memstream(&pa, &la); print_nd(ma, res.get()); fclose(ma);
        char* pb = nullptr; size_t lb = 0; FILE* mb = open_memstream(&pb, &lb); print_nd(mb, raw); fclose(mb);
        same = la == lb && memcmp(pa, pb, la) == 0; free(pa); free(pb);
      }
    }
    fprintf(fi, " | cwrap %s", same ? "same" : "DIFFERENT");
  }
  // pointwise evaluation at every grid point (row-major over the grid indices)
  fprintf(fi, " | P");
  std::vector<size_t> g(nd, 0);
  bool done = false;
  while (!done) {
    std::vector<double> x(nd);
    for (int d = 0; d < nd; d++) x[d] = coords[d][g[d]];
    std::vector<int> cen(nd);
    if (t.searchcenters(x.data(), cen.data())) {
      double v = t.ndsplineeval(x.data(), cen.data(), 0);
      fprintf(fi, " %llu", (unsigned long long)cbits(v));
    } else fprintf(fi, " x");
    int d = nd - 1;
    while (d >= 0 && ++g[d] == coords[d].size()) { g[d] = 0; d--; }
    if (d < 0) done = true;
  }
  fprintf(fi, "\n");
  // keep some non-trivial cases (result lists something, at least 2 dimensions preferred) for the concurrent phase
  if (res && res->rows > 0 && conc_cases.size() < CONC_MAX_CASES && (nd >= 2 || conc_cases.size() % 4 == 3)) {
    ConcCase cc; cc.expect = nd_string(res.get()); cc.coords = coords; cc.pos0 = pos0; cc.pos1 = pos1; cc.t = std::move(tp);
    conc_cases.push_back(std::move(cc));
    stats["G_kept_for_concurrent_phase"]++;
  }
}

int main(int argc, char** argv) {
  if (argc < 5) { fprintf(stderr, "usage\n"); return 2; }
  long n = atol(argv[1]);
  fc = fopen(argv[2], "w"); fi = fopen(argv[3], "w");
  std::string tier = argc > 5 ? argv[5] : "quick";
  Rng r(env_seed() * 0x9e3779b97f4a7c15ULL + 17);
  cholmod_common c; cholmod_l_start(&c);
  for (long i = 0; i < n; i++) {
    emit_grid(r, tier);
    if (i % 2 == 0) emit_basis(r, &c);
    emit_slice(r, &c);
    emit_slice(r, &c);
    if (i % 3 == 1) emit_slice_wide(r, &c);
  }
  cholmod_l_finish(&c);
  fclose(fc); fclose(fi);
  {
    std::string cj = concurrent_phase(argv[2], tier);
    FILE* fq = fopen((std::string(argv[4]) + ".conc").c_str(), "w");
    fprintf(fq, "%s\n", cj.c_str()); fclose(fq);
  }
  FILE* fs = fopen(argv[4], "w");
  fprintf(fs, "{");
  bool first = true;
  for (auto& kv : stats) { fprintf(fs, "%s\"%s\": %ld", first ? "" : ", ", kv.first.c_str(), kv.second); first = false; }
  fprintf(fs, "}\n"); fclose(fs);
  return 0;
}
