// C15 correspondence harness: runs the real splinetable::permuteDimensions and the C wrapper
// splinetable_permute (built from the working tree) on generated tables and arguments, and writes
//   <cases>  one line per call for the Lean driver:  P|Q|C <table dump before> # <argument>
//   <impl>   one line per call: <outcome> <table dump after> ptr=<0|1>
//   <evals>  one line per valid call: E <case line no> <nterms> <ndim> (<value before> <value after> <magnitude>)*
//   <stats>  JSON input distribution
// P = C++ call on a fresh table, Q = C++ call with the inverse permutation on the table produced by the
// preceding P line, C = call through the C wrapper (argument = ndim words of caller memory).
// Table dump: ndim order* naxes* strides* nknots* (L bits{L})* (ext_lo ext_hi)* hasperiods periods* ncoef coef*
// where (L bits{L}) is the whole allocation knots[i] points into (padding included), identified through the
// pointer value, so that the dump shows which *pointer* sits in slot i and what it points to now.
#include "common.h"
using namespace psv;

static FILE *fc, *fi, *fe;
static std::map<std::string, long> stats;

struct Gen {
  std::vector<uint32_t> ord;
  std::vector<std::vector<double>> kn;
  std::vector<float> coef;
  std::vector<double> ext;   // 2*nd, empty = keep build_table's
  std::vector<double> per;   // nd
  int periods_kind;          // 0 = array (builder), 1 = NULL (as after a fit), 2 = through FITS write/read in memory
};

struct Alloc { uint32_t order; uint64_t nknots; };
typedef std::map<const double*, Alloc> PtrMap;

static PtrMap ptrmap(const Table& t) {
  PtrMap m;
  for (uint32_t i = 0; i < t.ndim; i++) m[t.knots[i]] = Alloc{t.order[i], t.nknots[i]};
  return m;
}

static std::string dump(const Table& t, const PtrMap& pm, uint64_t ncoef_alloc) {
  std::ostringstream s;
  uint32_t nd = t.ndim;
  s << nd;
  for (uint32_t i = 0; i < nd; i++) s << ' ' << t.order[i];
  for (uint32_t i = 0; i < nd; i++) s << ' ' << t.naxes[i];
  for (uint32_t i = 0; i < nd; i++) s << ' ' << t.strides[i];
  for (uint32_t i = 0; i < nd; i++) s << ' ' << t.nknots[i];
  for (uint32_t i = 0; i < nd; i++) {
    auto it = pm.find(t.knots[i]);
    if (it == pm.end()) { s << " 1 0"; continue; }   // a pointer that was not in the table before: shows as a difference
    uint64_t L = it->second.nknots + 2 * it->second.order;
    const double* raw = t.knots[i] - it->second.order;
    s << ' ' << L;
    for (uint64_t j = 0; j < L; j++) s << ' ' << bits(raw[j]);
  }
  for (uint32_t i = 0; i < nd; i++) s << ' ' << bits(t.extents[i][0]) << ' ' << bits(t.extents[i][1]);
  if (t.periods) { s << " 1"; for (uint32_t i = 0; i < nd; i++) s << ' ' << bits(t.periods[i]); }
  else s << " 0";
  s << ' ' << ncoef_alloc;
  for (uint64_t j = 0; j < ncoef_alloc; j++) s << ' ' << bits(t.coefficients[j]);
  return s.str();
}

static void make_table(Table& t, const Gen& g) {
  Table b;
  build_table(b, g.ord, g.kn, g.coef);
  uint32_t nd = g.ord.size();
  if (!g.ext.empty()) for (uint32_t i = 0; i < nd; i++) { b.extents[i][0] = g.ext[2 * i]; b.extents[i][1] = g.ext[2 * i + 1]; }
  for (uint32_t i = 0; i < nd; i++) b.periods[i] = g.per[i];
  if (g.periods_kind == 1) { b.deallocate(b.periods, nd); b.periods = nullptr; }
  if (g.periods_kind == 2) {
    // padding must be finite for the writer? it only writes knots[0..nknots); go through memory
    std::pair<void*, size_t> buf = b.write_fits_mem();
    bool ok = t.read_fits_mem(buf.first, buf.second);
    free(buf.first);
    if (!ok) { fprintf(stderr, "FITS round trip failed\n"); exit(3); }
    return;
  }
  t = std::move(b);
}

static std::string classify(const std::exception& ex) {
  std::string w = ex.what();
  if (w.find("Wrong number") != std::string::npos) return "wrongNumber";
  if (w.find("Too large") != std::string::npos) return "tooLarge";
  if (w.find("Duplicate") != std::string::npos) return "duplicate";
  if (w.find("Missing") != std::string::npos) return "missing";
  return "other";
}

static long lineno = 0;

static std::string argstr(const std::vector<size_t>& p) {
  std::ostringstream s; s << p.size(); for (size_t v : p) s << ' ' << v; return s.str();
}

// what the pointers in the knots array must be afterwards: relabelled on success, untouched on failure
static bool ptr_check(const Table& t, const std::vector<const double*>& before, const std::vector<size_t>& perm, bool ok) {
  if (ok && perm.size() != t.ndim) return false;
  for (uint32_t i = 0; i < t.ndim; i++) {
    if (ok && perm[i] >= before.size()) return false;     // accepted something that is not a permutation
    const double* want = ok ? before[perm[i]] : before[i];
    if (t.knots[i] != want) return false;
  }
  return true;
}

struct Scalars { const void *order, *naxes, *strides, *nknots, *knots, *extents, *extents0, *periods, *coef; uint64_t ndim; };
static Scalars scalars(const Table& t) {
  return Scalars{(const void*)t.order, (const void*)t.naxes, (const void*)t.strides, (const void*)t.nknots, (const void*)t.knots,
                 (const void*)t.extents, t.extents ? (const void*)t.extents[0] : nullptr, (const void*)t.periods, (const void*)t.coefficients, t.ndim};
}
static bool same(const Scalars& a, const Scalars& b) { return memcmp(&a, &b, sizeof(Scalars)) == 0; }

// one C++ call; returns true when the permutation was accepted
static bool call_cpp(Table& t, const char* tag, const std::vector<size_t>& perm, uint64_t nc, std::string* after = nullptr, const PtrMap* known = nullptr) {
  PtrMap pm = known ? *known : ptrmap(t);   // the true allocations (a wrongly permuted table must not mislead the dump)
  std::vector<const double*> before(t.knots, t.knots + t.ndim);
  Scalars s0 = scalars(t);
  fprintf(fc, "%s %s # %s\n", tag, dump(t, pm, nc).c_str(), argstr(perm).c_str());
  std::string outcome = "none";
  try { t.permuteDimensions(perm); }
  catch (std::exception& ex) { outcome = classify(ex); }
  catch (...) { outcome = "other"; }
  bool ok = outcome == "none";
  std::string d = dump(t, pm, nc);
  // the arrays themselves stay where they are (the routine copies back into the table's own storage)
  bool pok = same(s0, scalars(t)) && ptr_check(t, before, perm, ok);
  fprintf(fi, "%s %s ptr=%d\n", outcome.c_str(), d.c_str(), pok ? 1 : 0);
  fflush(fc); fflush(fi);   // a later crash must not lose the lines already produced
  lineno++;
  stats[std::string("outcome_") + outcome]++;
  if (after) *after = d;
  return ok;
}

static void call_c(Table& t, const std::vector<size_t>& mem, uint64_t nc) {
  PtrMap pm = ptrmap(t);
  std::vector<const double*> before(t.knots, t.knots + t.ndim);
  Scalars s0 = scalars(t);
  std::ostringstream a; a << mem.size(); for (size_t v : mem) a << ' ' << v;
  fprintf(fc, "C %s # %s\n", dump(t, pm, nc).c_str(), a.str().c_str());
  struct splinetable st; st.data = &t;
  std::vector<size_t> m(mem);
  FILE* saved = stderr; (void)saved;
  int rc = splinetable_permute(&st, m.data());
  bool unchanged_arg = (m == mem);
  bool pok = same(s0, scalars(t)) && ptr_check(t, before, mem, rc == 0) && unchanged_arg && st.data == &t;
  fprintf(fi, "rc%d %s ptr=%d\n", rc, dump(t, pm, nc).c_str(), pok ? 1 : 0);
  fflush(fc); fflush(fi);
  lineno++;
  stats[std::string("c_rc_") + std::to_string(rc)]++;
}

static Gen gen_table(Rng& r, uint32_t nd, int periods_kind, uint64_t maxcoef) {
  Gen g; g.periods_kind = periods_kind;
  for (int attempt = 0;; attempt++) {
    std::vector<uint32_t> pool = {0, 1, 2, 3, 4, 5};
    for (int i = 5; i > 0; i--) std::swap(pool[i], pool[r.below(i + 1)]);
    g.ord.assign(pool.begin(), pool.begin() + nd);           // pairwise different orders
    std::vector<uint64_t> naxes(nd);
    int spread = attempt < 200 ? 4 : 0;
    for (uint32_t i = 0; i < nd; i++) naxes[i] = g.ord[i] + 1 + r.below(spread + 1);
    // shape classes: pairwise different axis lengths (the layout is then visible in the shape alone), but also tables in which
    // some or all axes have the SAME length: a permutation that exchanges such axes leaves the shape unchanged and only the
    // placement of the coefficients (and every per-axis attribute) tells whether it was carried out
    int shape = (nd >= 2) ? (int)r.below(5) : 4;
    if (shape == 0) { uint64_t N = 0; for (uint32_t i = 0; i < nd; i++) N = std::max<uint64_t>(N, g.ord[i] + 1); N += r.below(2); for (auto& n : naxes) n = N; }
    else if (shape == 1) { uint32_t a = r.below(nd), b = r.below(nd - 1); if (b >= a) b++; uint64_t N = std::max(g.ord[a], g.ord[b]) + 1 + r.below(3); naxes[a] = naxes[b] = N; }
    stats[shape == 0 ? "shape_all_axes_equal" : shape == 1 ? "shape_two_axes_equal" : "shape_axes_pairwise_different"]++;
    bool distinct = true; uint64_t prod = 1;
    for (uint32_t i = 0; i < nd; i++) { prod *= naxes[i]; for (uint32_t j = 0; j < i; j++) if (naxes[i] == naxes[j]) distinct = false; }
    if ((shape >= 2 && !distinct) || prod > maxcoef) { if (attempt < 400) continue; }
    g.kn.clear();
    for (uint32_t i = 0; i < nd; i++) {
      int extra = (int)(naxes[i] - g.ord[i] - 1);
      g.kn.push_back(gen_knots(r, g.ord[i], extra, 1));   // strictly increasing, irregular
    }
    g.coef.resize(prod);
    for (auto& c : g.coef) c = (float)(r.unit() * 2 - 1);
    if (r.coin(1, 8)) g.coef[r.below(prod)] = 0.0f;
    g.ext.clear();
    if (r.coin()) for (uint32_t i = 0; i < nd; i++) { double lo = -50 + 7.0 * i + r.unit(); g.ext.push_back(lo); g.ext.push_back(lo + 1 + i + r.unit()); }
    g.per.clear();
    for (uint32_t i = 0; i < nd; i++) g.per.push_back(1.5 * (i + 1) + r.unit());      // pairwise different periods
    return g;
  }
}

static uint64_t prod_order(const Gen& g) { uint64_t n = 1; for (uint32_t o : g.ord) n *= o + 1; return n; }

// a point inside (first knot, last knot] in every dimension, mostly in the fully supported range
static std::vector<double> pick_point(Rng& r, const Gen& g) {
  std::vector<double> x;
  for (size_t i = 0; i < g.ord.size(); i++) {
    const std::vector<double>& k = g.kn[i]; int o = g.ord[i]; int na = (int)k.size() - o - 1;
    double lo = k[o], hi = k[na];
    int m = r.range(0, 9);
    double v;
    if (m == 0) { lo = k[0]; hi = k[o]; }                // lower margin
    else if (m == 1) { lo = k[na]; hi = k.back(); }      // upper margin
    if (m == 2) v = k[r.range(o, na)];                   // on a knot
    else v = lo + (hi - lo) * r.unit();
    if (!(v > k[0])) v = std::nextafter(k[0], INFINITY);
    if (v > k.back()) v = k.back();
    x.push_back(v);
  }
  return x;
}

static void valid_case(Rng& r, const Gen& g, const Gen& gabs, const std::vector<size_t>& perm, int npts) {
  uint32_t nd = g.ord.size();
  Table t, ta; make_table(t, g); make_table(ta, gabs);
  std::vector<std::vector<double>> xs; std::vector<double> vb, mag;
  for (int p = 0; p < npts; p++) {
    xs.push_back(pick_point(r, g));
    vb.push_back(t(xs.back().data()));
    mag.push_back(ta(xs.back().data()));
  }
  long mine = lineno + 1;
  std::string after;
  PtrMap pm0 = ptrmap(t);
  bool ok = call_cpp(t, "P", perm, g.coef.size(), &after, &pm0);
  if (!ok) return;
  fprintf(fe, "E %ld %llu %u", mine, (unsigned long long)prod_order(g), nd);
  for (int p = 0; p < npts; p++) {
    std::vector<double> y(nd);
    for (uint32_t i = 0; i < nd; i++) y[i] = xs[p][perm[i]];
    double va = t(y.data());
    fprintf(fe, " %llu %llu %llu", (unsigned long long)cbits(vb[p]), (unsigned long long)cbits(va), (unsigned long long)cbits(mag[p]));
    stats["eval_points"]++;
    if (vb[p] != 0) stats["eval_nonzero"]++;
  }
  fprintf(fe, "\n"); fflush(fe);
  std::vector<size_t> inv(nd);
  for (uint32_t i = 0; i < nd; i++) inv[perm[i]] = i;
  bool involution = inv == perm;
  stats[involution ? "perm_involution" : "perm_non_involution"]++;
  call_cpp(t, "Q", inv, g.coef.size(), nullptr, &pm0);
}

static std::vector<size_t> random_perm(Rng& r, uint32_t nd) {
  std::vector<size_t> p(nd); std::iota(p.begin(), p.end(), 0);
  for (int i = nd - 1; i > 0; i--) std::swap(p[i], p[r.below(i + 1)]);
  return p;
}

static void malformed_cases(Rng& r, const Gen& g, int reps) {
  uint32_t nd = g.ord.size();
  uint64_t nc = g.coef.size();
  std::vector<std::pair<std::string, std::vector<size_t>>> args;
  for (int rep = 0; rep < reps; rep++) {
    std::vector<size_t> p = random_perm(r, nd);
    // wrong length
    { auto q = p; q.pop_back(); args.push_back({"short", q}); }
    { auto q = p; q.push_back(nd); args.push_back({"long_fresh", q}); }
    { auto q = p; q.push_back(p[r.below(nd)]); args.push_back({"long_dup", q}); }
    if (rep == 0) { args.push_back({"empty", {}}); auto q = p; q.insert(q.end(), p.begin(), p.end()); args.push_back({"double", q}); }
    // duplicate (hence also a missing index)
    if (nd >= 2) {
      auto q = p; size_t a = r.below(nd), b = (a + 1 + r.below(nd - 1)) % nd; q[a] = q[b]; args.push_back({"dup", q});
      auto q2 = p; for (auto& v : q2) v = p[0]; args.push_back({"all_same", q2});
    }
    // out of range
    { auto q = p; q[r.below(nd)] = nd; args.push_back({"oor_ndim", q}); }
    { auto q = p; q[r.below(nd)] = nd + 1 + r.below(5); args.push_back({"oor_above", q}); }
    { auto q = p; size_t a = r.below(nd); q[a] = (size_t)4294967296ULL + q[a]; args.push_back({"oor_alias_2^32", q}); }   // equal to a valid index after truncation to uint32_t
    { auto q = p; q[r.below(nd)] = (size_t)-1; args.push_back({"oor_size_max", q}); }
    { auto q = p; q[r.below(nd)] = (size_t)1 << 63; args.push_back({"oor_2^63", q}); }
    // duplicate and out of range together: which one is met first decides the message
    if (nd >= 3) {
      auto q = p; q[0] = q[1]; q[2] = nd + 2; args.push_back({"dup_then_oor", q});
      auto q2 = p; q2[0] = nd + 2; q2[2] = q2[1]; args.push_back({"oor_then_dup", q2});
    }
  }
  for (auto& a : args) {
    Table t; make_table(t, g);
    stats["malformed_" + a.first]++;
    call_cpp(t, "P", a.second, nc);
    if (a.second.size() >= nd && nd >= 1) {   // the C wrapper reads exactly ndim words
      Table t2; make_table(t2, g);
      std::vector<size_t> mem(a.second.begin(), a.second.begin() + nd);
      stats["c_malformed_or_prefix"]++;
      call_c(t2, mem, nc);
    }
  }
}

int main(int argc, char** argv) {
  if (argc < 6) { fprintf(stderr, "usage: permute_harness quick|thorough cases impl evals stats\n"); return 2; }
  bool thorough = std::string(argv[1]) == "thorough";
  fc = fopen(argv[2], "w"); fi = fopen(argv[3], "w"); fe = fopen(argv[4], "w");
  if (!fc || !fi || !fe) return 2;
  Rng r(env_seed() * 0x9e3779b97f4a7c15ULL + 15);
  int tables_per_dim = thorough ? 6 : 3;
  int npts = thorough ? 6 : 3;
  int n6 = thorough ? 120 : 24;
  for (uint32_t nd = 1; nd <= 6; nd++) {
    for (int ti = 0; ti < tables_per_dim; ti++) {
      int pk = ti % 3;    // periods: array, NULL, through FITS
      uint64_t maxcoef = nd <= 3 ? 400 : nd == 4 ? 900 : nd == 5 ? (thorough ? 2500 : 1000) : (thorough ? 4000 : 1500);
      Gen g = gen_table(r, nd, pk, maxcoef);
      Gen gabs = g; for (auto& c : gabs.coef) c = std::fabs(c);
      stats["tables_ndim_" + std::to_string(nd)]++;
      stats["tables_periods_kind_" + std::to_string(pk)]++;
      stats["ncoef_total"] += g.coef.size();
      std::vector<std::vector<size_t>> perms;
      if (nd <= 5) {
        std::vector<size_t> p(nd); std::iota(p.begin(), p.end(), 0);
        do perms.push_back(p); while (std::next_permutation(p.begin(), p.end()));
      } else {
        for (int k = 0; k < n6 / tables_per_dim; k++) perms.push_back(random_perm(r, nd));
        std::vector<size_t> rot(nd); for (uint32_t i = 0; i < nd; i++) rot[i] = (i + 1) % nd; perms.push_back(rot);
        std::vector<size_t> rev(nd); for (uint32_t i = 0; i < nd; i++) rev[i] = nd - 1 - i; perms.push_back(rev);
      }
      for (auto& p : perms) { stats["valid_ndim_" + std::to_string(nd)]++; valid_case(r, g, gabs, p, npts); }
      // valid permutations through the C wrapper (all up to 4-d, sampled above)
      {
        std::vector<std::vector<size_t>> cp;
        if (nd <= 4) cp = perms; else for (int k = 0; k < 12; k++) cp.push_back(random_perm(r, nd));
        for (auto& p : cp) {
          Table t; make_table(t, g);
          std::vector<size_t> mem(p);
          if (r.coin()) { mem.push_back(77); mem.push_back(0); }   // memory behind the ndim words is the caller's business
          mem.resize(nd);
          stats["c_valid"]++;
          call_c(t, mem, g.coef.size());
        }
      }
      malformed_cases(r, g, thorough ? 4 : 2);
    }
  }
  // ---- concurrent phase: permuteDimensions works on its own table only, so permutations of DIFFERENT tables running at the
  // same time must each give what they give alone (the model is a function of table and argument).  Four tables large
  // enough for the calls to overlap, each permuted by a non-involutive permutation and back by its inverse, several
  // rounds, by four threads started together; every state is compared with the one the same call produced alone.
  {
    const int NT = 4, ROUNDS = thorough ? 12 : 5;
    std::vector<Gen> gs; std::vector<std::vector<size_t>> ps, inv;
    std::vector<std::string> after_p(NT), after_q(NT);
    for (int k = 0; k < NT; k++) {
      uint32_t nd = 3 + (k % 2);
      Gen g = gen_table(r, nd, 0, 1500);
      // blow the table up: many more knots per axis (about 30000..120000 coefficients)
      g.kn.clear(); uint64_t prod = 1;
      for (uint32_t i = 0; i < nd; i++) { int extra = (int)(nd == 3 ? 30 + r.below(15) : 12 + r.below(6)); g.kn.push_back(gen_knots(r, g.ord[i], extra, 1)); prod *= g.ord[i] + 1 + extra; }
      g.coef.resize(prod); for (auto& c : g.coef) c = (float)(r.unit() * 2 - 1);
      g.ext.clear();
      gs.push_back(g);
      std::vector<size_t> p(nd); for (uint32_t i = 0; i < nd; i++) p[i] = (i + 1 + (k / 2)) % nd;   // a rotation: not its own inverse
      std::vector<size_t> q(nd); for (uint32_t i = 0; i < nd; i++) q[p[i]] = i;
      ps.push_back(p); inv.push_back(q);
      Table t; make_table(t, g); PtrMap pm = ptrmap(t);
      t.permuteDimensions(p); after_p[k] = dump(t, pm, prod);
      t.permuteDimensions(q); after_q[k] = dump(t, pm, prod);
      stats["concurrent_table_ncoef_total"] += prod;
    }
    std::vector<int> bad(NT, 0);
    int rc = run_concurrently(NT, 120,
      [&](int k) {
        for (int round = 0; round < ROUNDS; round++) {
          Table t; make_table(t, gs[k]); PtrMap pm = ptrmap(t);
          try { t.permuteDimensions(ps[k]); if (dump(t, pm, gs[k].coef.size()) != after_p[k]) bad[k]++;
                t.permuteDimensions(inv[k]); if (dump(t, pm, gs[k].coef.size()) != after_q[k]) bad[k]++; }
          catch (std::exception&) { bad[k]++; }
        }
      },
      [&]() { int n = 0; for (int b : bad) n += b; return n > 100 ? 100 : n; });
    stats["concurrent_threads"] = NT; stats["concurrent_permute_calls"] = 2 * NT * ROUNDS;
    stats["concurrent_outcome"] = rc;   // 0 = every state equal to the sequential one; > 0 = number of differing states; < 0 = -signal (crash / hang)
  }
  fclose(fc); fclose(fi); fclose(fe);
  FILE* fs = fopen(argv[5], "w");
  fprintf(fs, "{");
  bool first = true;
  for (auto& kv : stats) { fprintf(fs, "%s\"%s\": %ld", first ? "" : ", ", kv.first.c_str(), kv.second); first = false; }
  fprintf(fs, "}\n");
  fclose(fs);
  return 0;
}
