// C07 battery: every input file is read by the real readers in a forked child (so that a sanitizer abort, a
// crash or a hang is attributed to that file), then a battery of operations runs on whatever was loaded.
//   battery <infile> <outfile> <scratchdir> <goodhex-file>
// infile lines: "<name> <hex>"; one output line per input line:
//   <name> mem=<ok|err:site> empty=<0|1|-> reuse=<0|1|-> disk=<ok|err:site> ctor=<ok|err> cmem=<status> cdisk=<status> bat=<summary> lk=<lookup probes> | <dump or ->
//   <name> CRASH <how> <first lines of the sanitizer report>
#include "fits_common.h"
#include <sys/wait.h>
#include <signal.h>
using namespace psv;

static std::vector<unsigned char> good;   // a valid spline file, for the reuse test

static std::string verdict(const std::string& s) { return s.compare(0, 2, "ok") == 0 ? "ok" : "err:" + s.substr(4); }

// operations on a loaded table; exceptions are fine, memory errors / hangs are what we look for
static std::string battery(const Table& t, Rng& r) {
  int evals = 0, rejected = 0, thrown = 0;
  uint32_t nd = t.ndim;
  std::vector<double> x(nd); std::vector<int> c(nd);
  for (int p = 0; p < 10; p++) {
    for (uint32_t i = 0; i < nd; i++) {
      double lo = t.knots[i][0], hi = t.knots[i][t.nknots[i] - 1];
      int style = r.below(8);
      uint64_t j = r.below(t.nknots[i]);
      x[i] = style == 0 ? lo : style == 1 ? hi : style == 2 ? t.knots[i][j] : style == 3 ? std::nextafter(t.knots[i][j], hi)
           : style == 4 && p == 9 ? std::numeric_limits<double>::quiet_NaN() : lo + (hi - lo) * r.unit();
    }
    try {
      if (!t.searchcenters(x.data(), c.data())) { rejected++; continue; }
      volatile double v = t.ndsplineeval(x.data(), c.data(), 0); (void)v;
      v = t.ndsplineeval(x.data(), c.data(), 1 << r.below(nd));
      v = t(x.data());
      std::vector<unsigned> der(nd, 0); der[r.below(nd)] = r.range(0, 3);
      v = t.ndsplineeval_deriv(x.data(), c.data(), der.data());
      std::vector<double> g(nd + 1);
      try { t.ndsplineeval_gradient(x.data(), c.data(), g.data()); } catch (std::exception&) { thrown++; }
      try {
        auto ev = t.get_evaluator<float>();
        std::vector<int> c2(nd);
        if (ev.searchcenters(x.data(), c2.data())) { v = ev.ndsplineeval(x.data(), c2.data(), 0); ev.ndsplineeval_gradient(x.data(), c2.data(), g.data()); v = ev(x.data()); }
      } catch (std::exception&) { thrown++; }
      evals++;
    } catch (std::exception&) { thrown++; }
  }
  bool self_eq = (t == t);
  int rw = -1;
  try {
    auto p = t.write_fits_mem();
    Table u; u.read_fits_mem(p.first, p.second);
    Spec a = spec_of(t), b = spec_of(u);
    a.aux.clear(); b.aux.clear();
    rw = (dump(a) == dump(b)) ? 1 : 0;
    volatile bool e = (t == u) && !(u != t); (void)e;
    free(p.first);
  } catch (std::exception&) { rw = -2; }
  std::ostringstream o;
  o << "evals:" << evals << ",rejected:" << rejected << ",thrown:" << thrown << ",selfeq:" << self_eq << ",rewrite:" << rw;
  return o.str();
}

// deterministic lookup probes formed from the knot values of the table that was read (the Lean driver `C07`, command L,
// forms the same ones on the model's table and runs the lookup model on `Table.lookupAxes`): probe p takes in
// dimension i knot number j = (7p + 3i + p*p) mod nknots[i], for odd p the midpoint with the next knot; probe 11 puts
// a NaN into dimension 11 mod ndim.  Result: R = rejected, else the centres joined by '.'; probes joined by ';'.
static std::string probes(const Table& t) {
  std::ostringstream o; uint32_t nd = t.ndim;
  std::vector<double> x(nd); std::vector<int> c(nd);
  for (uint32_t i = 0; i < nd; i++) if (t.nknots[i] == 0) return "-";
  for (uint64_t p = 0; p < 12; p++) {
    for (uint32_t i = 0; i < nd; i++) {
      uint64_t nk = t.nknots[i], j = (7 * p + 3 * uint64_t(i) + p * p) % nk;
      volatile double a = t.knots[i][j];
      if (p % 2 == 1) { volatile double b = t.knots[i][(j + 1) % nk]; volatile double s = a + b; a = s * 0.5; }
      x[i] = a;
    }
    if (p == 11) x[11 % nd] = std::numeric_limits<double>::quiet_NaN();
    if (p) o << ";";
    bool ok = false;
    try { ok = t.searchcenters(x.data(), c.data()); } catch (std::exception&) { o << "X"; continue; }
    if (!ok) o << "R"; else for (uint32_t i = 0; i < nd; i++) { if (i) o << "."; o << c[i]; }
  }
  return o.str();
}

// after a failed read the object must be empty and reusable
static void after_failure(Table& t, int& empty, int& reuse) {
  empty = object_empty(t) ? 1 : 0;
  std::vector<unsigned char> g(good);
  try { t.read_fits_mem(g.data(), g.size()); reuse = (t.ndim > 0) ? 1 : 0; } catch (std::exception& e) { reuse = 0; }
}

// two stages, one output line each: D (disk readers + battery), M (memory readers).  The parent attributes a crash
// to the stage whose line is missing.
static void child(const std::string& name, const std::vector<unsigned char>& b, const std::string& dir, int fd) {
  Rng r(env_seed() * 1315423911ULL + b.size());
  std::string path = dir + "/c07_" + std::to_string(getpid()) + ".fits";
  { std::ofstream f(path, std::ios::binary); f.write((const char*)b.data(), b.size()); }
  std::string diskdump = "-";
  {
    std::ostringstream o;
    std::string res, bat = "-", lk = "-", ctor; int empty = -1, reuse = -1, cdisk;
    {
      Table t; bool ok = false;
      try { t.read_fits(path); ok = true; res = "ok"; } catch (std::exception& e) { res = "err:" + site_of(e.what()); }
      if (ok) { diskdump = dump(spec_of(t)); lk = probes(t); bat = battery(t, r); } else after_failure(t, empty, reuse);
    }   // destructor
    try { Table t(path); ctor = "ok"; } catch (std::exception& e) { ctor = "err"; }
    { struct splinetable cd; cd.data = nullptr; cdisk = readsplinefitstable(path.c_str(), &cd);
      if (cdisk == 0) { Table* tt = (Table*)cd.data; std::vector<double> x(tt->ndim, 0.5); std::vector<int> cc(tt->ndim); tablesearchcenters(&cd, x.data(), cc.data()); }
      splinetable_free(&cd); }
    o << "D " << name << " disk=" << res << " empty=" << empty << " reuse=" << reuse << " ctor=" << ctor << " cdisk=" << cdisk << " bat=" << bat << " lk=" << lk << " | " << diskdump << "\n";
    std::string s = o.str(); (void)!write(fd, s.data(), s.size());
  }
  unlink(path.c_str());
  {
    std::ostringstream o;
    std::string res, memdump; int empty = -1, reuse = -1, cmem, same = -1;
    {
      Table t; std::vector<unsigned char> copy(b); bool ok = false;
      try { t.read_fits_mem(copy.data(), copy.size()); ok = true; res = "ok"; } catch (std::exception& e) { res = "err:" + site_of(e.what()); }
      if (ok) { memdump = dump(spec_of(t)); same = (memdump == diskdump) ? 1 : 0; } else after_failure(t, empty, reuse);
    }
    { struct splinetable ct; ct.data = nullptr; std::vector<unsigned char> copy(b);
      splinetable_buffer buf; buf.data = copy.data(); buf.size = copy.size();
      cmem = readsplinefitstable_mem(&buf, &ct); splinetable_free(&ct); }
    o << "M " << name << " mem=" << res << " empty=" << empty << " reuse=" << reuse << " cmem=" << cmem << " same=" << same << " | " << (same == 0 ? memdump : std::string("-")) << "\n";
    std::string s = o.str(); (void)!write(fd, s.data(), s.size());
  }
}

int main(int argc, char** argv) {
  if (argc < 6 || std::string(argv[1]) != "battery") return 2;
  std::ifstream in(argv[2]); std::ofstream out(argv[3]); std::string dir = argv[4];
  { std::ifstream g(argv[5]); std::string hx; g >> hx; good = unhex(hx); }
  std::vector<std::string> all; { std::string line; while (std::getline(in, line)) all.push_back(line); }
  int timeout_s = (int)env_long("PSV_C07_TIMEOUT", 20);
  std::string errpath = dir + "/c07_stderr.txt";
  size_t start = 0;
  // one child handles as many files as it survives; a crash / hang is attributed to the file it was working on
  while (start < all.size()) {
    int pfd[2]; if (pipe(pfd)) return 3;
    fflush(stdout);
    pid_t pid = fork();
    if (pid == 0) {
      close(pfd[0]);
      if (!freopen(errpath.c_str(), "w", stderr)) _exit(9);
      for (size_t k = start; k < all.size(); k++) {
        const std::string& line = all[k];
        size_t sp = line.find(' ');
        std::string name = line.substr(0, sp), hx = sp == std::string::npos ? "" : line.substr(sp + 1);
        alarm(timeout_s);
        child(name, unhex(hx), dir, pfd[1]);
      }
      _exit(0);
    }
    close(pfd[1]);
    std::string res; char buf[65536]; ssize_t k;
    while ((k = read(pfd[0], buf, sizeof buf)) > 0) res.append(buf, k);
    close(pfd[0]);
    int st = 0; waitpid(pid, &st, 0);
    size_t nl = 0, lastnl = 0; for (size_t i = 0; i < res.size(); i++) if (res[i] == '\n') { nl++; lastnl = i + 1; }
    out << res.substr(0, lastnl);
    start += nl / 2;
    if (start < all.size()) {
      std::string name = all[start].substr(0, all[start].find(' '));
      if (nl % 2 == 0) out << "D " << name << " CRASH-STAGE\n";
      std::string how = WIFSIGNALED(st) ? (WTERMSIG(st) == SIGALRM ? "HANG" : "signal:" + std::to_string(WTERMSIG(st))) : "exit:" + std::to_string(WEXITSTATUS(st));
      std::ifstream ef(errpath); std::string l, rep; int n = 0;
      while (std::getline(ef, l) && n < 400) {
        if (l.find("ERROR:") != std::string::npos || l.find("runtime error") != std::string::npos || l.find("SUMMARY") != std::string::npos || (l.find("    #") == 0 && n < 40 && (l.find("photospline") != std::string::npos || l.find("harness") != std::string::npos || l.find("mem_read") != std::string::npos)))
          { rep += l.substr(0, 200) + " ;; "; n++; }
      }
      out << "M " << name << " CRASH " << (nl % 2 == 0 ? "disk " : "mem ") << how << " " << rep.substr(0, 1500) << "\n";
      start++;
    }
    out.flush();
  }
  return 0;
}
