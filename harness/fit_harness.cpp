// C13 correspondence harness: splinetable<>::fit and the C wrapper splinetable_glamfit on the cross product of
// valid / invalid argument values.  Every case runs in a forked child (a sanitizer abort, a segfault or a hang of
// one case is a *result* of that case and must not take the rest of the run with it).
//
//   fit_harness gen <n_random> <cases_out> <stats_out>   write the case file (all randomness from VERIF_SEED)
//   fit_harness run <cases_in> <impl_out>               run each case against the real code, one verdict line per case
//
// Case line (all integers decimal, doubles as uint64 bit patterns):
//   F ndim rows  ranges[ndim]  idx[ndim][rows]  x[rows]  nw w[nw]  nc (len c[len])*nc  no o[no]
//     nk (len k[len])*nk  ns s[ns]  np p[np]  monodim  tag
#include "common.h"
#include <fstream>
#include <sys/wait.h>
#include <unistd.h>
#include <fcntl.h>
#include <signal.h>
using namespace psv;

struct Case {
  size_t ndim = 0, rows = 0;
  std::vector<unsigned> ranges;
  std::vector<std::vector<unsigned>> idx;
  std::vector<double> x, w;
  std::vector<std::vector<double>> coords, knots;
  std::vector<uint32_t> orders, pen;
  std::vector<double> smooth;
  uint32_t monodim = 0xffffffffu;
  std::string tag = "-";
};

static void put(std::ostream& o, const std::vector<double>& v) { for (double d : v) o << ' ' << bits(d); }

static std::string serialize(const Case& c) {
  std::ostringstream o;
  o << "F " << c.ndim << ' ' << c.rows;
  for (auto r : c.ranges) o << ' ' << r;
  for (auto& col : c.idx) for (auto v : col) o << ' ' << v;
  put(o, c.x);
  o << ' ' << c.w.size(); put(o, c.w);
  o << ' ' << c.coords.size(); for (auto& v : c.coords) { o << ' ' << v.size(); put(o, v); }
  o << ' ' << c.orders.size(); for (auto v : c.orders) o << ' ' << v;
  o << ' ' << c.knots.size(); for (auto& v : c.knots) { o << ' ' << v.size(); put(o, v); }
  o << ' ' << c.smooth.size(); put(o, c.smooth);
  o << ' ' << c.pen.size(); for (auto v : c.pen) o << ' ' << v;
  o << ' ' << c.monodim << ' ' << c.tag;
  return o.str();
}

static bool parse(const std::string& line, Case& c) {
  std::istringstream in(line);
  std::string f; in >> f; if (f != "F") return false;
  auto rd = [&](std::vector<double>& v, size_t n) { v.resize(n); for (size_t i = 0; i < n; i++) { uint64_t u; in >> u; v[i] = from_bits(u); } };
  in >> c.ndim >> c.rows;
  c.ranges.resize(c.ndim); for (auto& r : c.ranges) in >> r;
  c.idx.assign(c.ndim, std::vector<unsigned>(c.rows)); for (auto& col : c.idx) for (auto& v : col) in >> v;
  rd(c.x, c.rows);
  size_t n; in >> n; rd(c.w, n);
  in >> n; c.coords.resize(n); for (auto& v : c.coords) { size_t l; in >> l; rd(v, l); }
  in >> n; c.orders.resize(n); for (auto& v : c.orders) in >> v;
  in >> n; c.knots.resize(n); for (auto& v : c.knots) { size_t l; in >> l; rd(v, l); }
  in >> n; rd(c.smooth, n);
  in >> n; c.pen.resize(n); for (auto& v : c.pen) in >> v;
  in >> c.monodim >> c.tag;
  return !in.fail();
}

// ------------------------------------------------------------------------------------------------ digest
static std::string digest(const Table& t, bool deep = true) {
  std::ostringstream o;
  o << "nd=" << t.ndim << " p=" << (const void*)t.order << ',' << (const void*)t.knots << ',' << (const void*)t.nknots << ','
    << (const void*)t.extents << ',' << (const void*)t.periods << ',' << (const void*)t.coefficients << ','
    << (const void*)t.naxes << ',' << (const void*)t.strides << ',' << t.naux << ',' << (const void*)t.aux;
  if (deep && t.ndim && t.order && t.nknots && t.knots && t.naxes && t.strides) {
    uint64_t nc = 1;
    for (uint32_t i = 0; i < t.ndim; i++) {
      o << " |" << t.order[i] << ' ' << t.nknots[i] << ' ' << t.naxes[i] << ' ' << t.strides[i] << ' ' << (const void*)t.knots[i];
      for (uint64_t j = 0; j < t.nknots[i]; j++) o << ' ' << cbits(t.knots[i][j]);
      if (t.extents) o << " e" << cbits(t.extents[i][0]) << ' ' << cbits(t.extents[i][1]);
      if (t.periods) o << " P" << cbits(t.periods[i]);
      nc *= t.naxes[i];
    }
    uint64_t h = 1469598103934665603ULL;
    if (t.coefficients) for (uint64_t j = 0; j < nc; j++) { h ^= cbits(t.coefficients[j]); h *= 1099511628211ULL; }
    o << " c" << h;
  }
  return o.str();
}

// shape of a freshly fitted table, in the model's vocabulary (no pointers)
static std::string shape(const Table& t) {
  std::ostringstream o;
  o << t.ndim;
  uint64_t nc = 1;
  for (uint32_t i = 0; i < t.ndim; i++) {
    o << ' ' << t.order[i] << ' ' << t.nknots[i] << ' ' << t.naxes[i] << ' ' << t.strides[i]
      << ' ' << key(t.extents[i][0]) << ' ' << key(t.extents[i][1]);
    nc *= t.naxes[i];
  }
  bool finite = true, knots_ok = true;
  for (uint64_t j = 0; j < nc; j++) if (!std::isfinite(t.coefficients[j])) finite = false;
  o << " nc=" << nc << " finite=" << finite;
  return o.str();
}

static std::string classify(const std::string& w) {
  auto dim = [&](const char* marker) { size_t p = w.find(marker); return p == std::string::npos ? std::string("?") : std::to_string(atol(w.c_str() + p + strlen(marker))); };
  if (w.find("Number of weights") == 0) return "weights";
  if (w.find("at least one dimension") != std::string::npos) return "noDims";
  if (w.find("No data points") == 0) return "noData";
  if (w.find("Range of coordinate indices") == 0) return "indexRange " + dim("in dimension ");
  if (w.find("Number of coordinate vectors") == 0) return "ncoords";
  if (w.find("Coordinate vector for dimension ") == 0) return "coordLen " + dim("for dimension ");
  if (w.find("Number of spline orders") == 0) return "norders";
  if (w.find("Number of knot vectors") == 0) return "nknotvecs";
  if (w.find("Knot vector for dimension ") == 0 && w.find("not in sorted order") != std::string::npos) return "unsorted " + dim("for dimension ");
  if (w.find("Knot vector for dimension ") == 0 && w.find("too few knots") != std::string::npos) return "fewKnots " + dim("for dimension ");
  if (w.find("Number of smoothing strengths") == 0) return "nsmooth";
  if (w.find("Number of penalty orders") == 0) return "npenalty";
  if (w.find("Penalty order") == 0) return "penaltyOrder " + dim("in dimension ");
  if (w.find("Requested monotonic dimension") == 0) return "monodim";
  if (w.find("already contains data") != std::string::npos) return "occupied";
  std::string s = "other:" + w; for (auto& ch : s) if (ch == ' ' || ch == '\n') ch = '_';
  return s;
}

struct NdData {
  ndsparse d;
  explicit NdData(const Case& c) {
    if (ndsparse_allocate(&d, c.rows, c.ndim)) { fprintf(stderr, "ndsparse_allocate failed\n"); _exit(3); }
    for (size_t i = 0; i < c.ndim; i++) { d.ranges[i] = c.ranges[i]; for (size_t r = 0; r < c.rows; r++) d.i[i][r] = c.idx[i][r]; }
    for (size_t r = 0; r < c.rows; r++) d.x[r] = c.x[r];
  }
  ~NdData() { ndsparse_free(&d); }
};

// exact-size heap copies so that ASan's red zone starts right after the last element
template <class T> static std::vector<T> exact(const std::vector<T>& v) { std::vector<T> r(v); r.shrink_to_fit(); return r; }

// returns the verdict word(s) of the C++ call; `t` is the table it is applied to
static std::string call_cpp(const Case& c, Table& t, bool& threw) {
  NdData nd(c);
  std::vector<double> w = exact(c.w), sm = exact(c.smooth);
  std::vector<uint32_t> ord = exact(c.orders), pen = exact(c.pen);
  std::vector<std::vector<double>> co, kn;
  for (auto& v : c.coords) co.push_back(exact(v));
  for (auto& v : c.knots) kn.push_back(exact(v));
  threw = true;
  try {
    t.fit(nd.d, w, co, ord, kn, sm, pen, c.monodim, false);
    threw = false;
    return "ok";
  } catch (std::logic_error& e) { return "reject " + classify(e.what()); }
  catch (std::runtime_error& e) { return std::string(e.what()) == "GLAM fit failed" ? "glamfail" : "runtime:" + classify(e.what()); }
  catch (std::bad_alloc&) { return "bad_alloc"; }
  catch (std::exception& e) { return "exception:" + classify(e.what()); }
  catch (...) { return "unknown-exception"; }
}

static bool c_expressible(const Case& c) {
  if (c.w.size() != c.rows || c.coords.size() != c.ndim || c.orders.size() != c.ndim || c.knots.size() != c.ndim ||
      c.smooth.size() != c.ndim || c.pen.size() != c.ndim) return false;
  for (size_t i = 0; i < c.ndim; i++) if (c.coords[i].size() != c.ranges[i]) return false;
  return true;
}

static void run_case(const Case& c, int fd) {
  std::ostringstream out;
  bool threw;
  {
    Table t;
    std::string before = digest(t), before_sh = digest(t, false);
    std::string v = call_cpp(c, t, threw);
    out << v;
    if (!threw) out << " shape " << shape(t);
    else {
      // after a throw the members may be half-initialised: compare the shallow state first, contents only if it is intact
      bool same = digest(t, false) == before_sh && digest(t) == before;
      out << (same ? " table=unchanged" : " table=CHANGED");
      if (!same) { t.ndim = 0; }   // do not let the destructor walk a half-built table (that is C20's subject)
    }
    {
      // The same call on a populated table: since the C20 repair "fit refuses a table which already contains data" it
      // must be refused (std::runtime_error) for EVERY argument tuple, and every field (pointers and contents) must stay
      // as it was.  popv = the verdict, pop = whether the table is unchanged.
      Table p;
      build_table(p, {1}, {{0, 1, 2, 3}}, {1.5f, -2.5f});
      std::string b2 = digest(p), b2s = digest(p, false); bool th2;
      std::string v2 = call_cpp(c, p, th2);
      for (auto& ch : v2) if (ch == ' ') ch = '_';
      bool same2 = th2 && digest(p, false) == b2s && digest(p) == b2;
      out << " pop=" << (same2 ? "unchanged" : "CHANGED") << " popv=" << v2;
      if (!same2) p.ndim = 0;
    }
  }
  if (c_expressible(c)) {
    // C wrapper on a fresh table, and the C++ call through the same kind of views on another fresh table
    struct splinetable st; st.data = nullptr;
    if (splinetable_init(&st)) { out << " c=init-failed"; }
    else {
      NdData nd(c);
      std::vector<double> w = exact(c.w), sm = exact(c.smooth);
      std::vector<uint32_t> ord = exact(c.orders), pen = exact(c.pen);
      std::vector<std::vector<double>> co, kn; std::vector<const double*> cop, knp; std::vector<uint64_t> nk;
      for (auto& v : c.coords) co.push_back(exact(v));
      for (auto& v : c.knots) kn.push_back(exact(v));
      for (auto& v : co) cop.push_back(v.data());
      for (auto& v : kn) { knp.push_back(v.data()); nk.push_back(v.size()); }
      Table& real = *static_cast<Table*>(st.data);
      std::string before = digest(real), before_sh = digest(real, false);
      int rc = splinetable_glamfit(&st, &nd.d, w.data(), cop.data(), ord.data(), knp.data(), nk.data(), sm.data(), pen.data(), c.monodim, false);
      bool csame = rc == 0 || (digest(real, false) == before_sh && digest(real) == before);
      out << " c=" << rc << " ctable=" << (rc == 0 ? "fitted" : (csame ? "unchanged" : "CHANGED"));
      if (!csame) real.ndim = 0;
      splinetable_free(&st);
      // null handles
      struct splinetable nulls; nulls.data = nullptr;
      int r1 = splinetable_glamfit(nullptr, &nd.d, w.data(), cop.data(), ord.data(), knp.data(), nk.data(), sm.data(), pen.data(), c.monodim, false);
      int r2 = splinetable_glamfit(&nulls, &nd.d, w.data(), cop.data(), ord.data(), knp.data(), nk.data(), sm.data(), pen.data(), c.monodim, false);
      struct splinetable st3; splinetable_init(&st3);
      int r3 = splinetable_glamfit(&st3, nullptr, w.data(), cop.data(), ord.data(), knp.data(), nk.data(), sm.data(), pen.data(), c.monodim, false);
      splinetable_free(&st3);
      out << " cnull=" << (r1 != 0) << (r2 != 0) << (r3 != 0);
    }
  } else out << " c=na";
  std::string s = out.str() + "\n";
  if (write(fd, s.data(), s.size()) < 0) _exit(4);
}

static std::string first_report_line(const std::string& path) {
  FILE* f = fopen(path.c_str(), "r"); if (!f) return "";
  char buf[4096]; std::string res;
  while (fgets(buf, sizeof buf, f)) {
    std::string l(buf);
    if (l.find("runtime error:") != std::string::npos || l.find("ERROR: AddressSanitizer") != std::string::npos ||
        l.find("Assertion") != std::string::npos || l.find("terminate called") != std::string::npos) {
      res = l; break;
    }
  }
  // first frame inside the repository, to make the report useful
  std::string frame;
  if (!res.empty()) while (fgets(buf, sizeof buf, f)) { std::string l(buf); if (l.find(" in ") != std::string::npos && (l.find("/src/fitter/") != std::string::npos || l.find("/src/cinter/") != std::string::npos || l.find("/src/core/") != std::string::npos || l.find("/include/photospline") != std::string::npos)) { frame = l; break; } }
  fclose(f);
  res += " @ " + frame;
  for (auto& ch : res) if (ch == '\n' || ch == ' ') ch = '_';
  return res;
}


static int do_run(const char* cases, const char* impl) {
  FILE* fc = fopen(cases, "r"); FILE* fo = fopen(impl, "w");
  if (!fc || !fo) { fprintf(stderr, "cannot open files\n"); return 2; }
  std::string errpath = std::string(impl) + ".stderr";
  long timeout = env_long("PSV_CASE_TIMEOUT", 60);
  std::vector<char> buf(1 << 22);
  size_t n = 0;
  while (fgets(buf.data(), buf.size(), fc)) {
    std::string line(buf.data()); n++;
    Case c;
    if (!parse(line, c)) { fprintf(fo, "bad-case\n"); continue; }
    // A timeout is retried twice: monotone fits go through nnls_normal_block3 -> walk_descents (pthread pool), whose
    // lost wake-up (property C12) can hang a run nondeterministically; only a persistent timeout is this case's result.
    for (int attempt = 0; attempt < 3; attempt++) {
      int pfd[2]; if (pipe(pfd)) return 2;
      fflush(fo);
      pid_t pid = fork();
      if (pid == 0) {
        close(pfd[0]);
        int e = open(errpath.c_str(), O_WRONLY | O_CREAT | O_TRUNC, 0600); dup2(e, 2);
        int dn = open("/dev/null", O_WRONLY); dup2(dn, 1);
        alarm((unsigned)timeout);
        run_case(c, pfd[1]);
        _exit(0);
      }
      close(pfd[1]);
      std::string res; char b[4096]; ssize_t k;
      while ((k = read(pfd[0], b, sizeof b)) > 0) res.append(b, k);
      close(pfd[0]);
      int st = 0; waitpid(pid, &st, 0);
      if (WIFEXITED(st) && WEXITSTATUS(st) == 0 && !res.empty()) {
        if (attempt) { res.pop_back(); res += " retried=" + std::to_string(attempt) + "\n"; }
        fputs(res.c_str(), fo); break;
      } else if (WIFSIGNALED(st) && WTERMSIG(st) == SIGALRM) {
        if (attempt == 2) fprintf(fo, "timeout after %lds (3 attempts)\n", timeout);
      } else {
        std::string rep = first_report_line(errpath);
        if (WIFSIGNALED(st)) fprintf(fo, "crash signal=%d %s\n", WTERMSIG(st), rep.c_str());
        else fprintf(fo, "crash exit=%d %s\n", WEXITSTATUS(st), rep.c_str());
        break;
      }
    }
  }
  fclose(fc); fclose(fo); unlink(errpath.c_str());
  return 0;
}

// ------------------------------------------------------------------------------------------------ generator
struct Base { Case c; bool wellposed; };

static Base base_case(Rng& r, int ndim) {
  Base b; Case& c = b.c;
  c.ndim = ndim; b.wellposed = true;
  std::vector<int> nspl(ndim);
  bool uniform = r.coin(2, 3);
  for (int d = 0; d < ndim; d++) {
    int o = ndim == 3 ? r.range(0, 2) : r.range(0, 3);
    int extra = ndim == 3 ? r.range(0, 1) : r.range(0, 2);
    int nk = 2 * o + 2 + extra;
    std::vector<double> k(nk); double v = r.range(-3, 3);
    for (int j = 0; j < nk; j++) { k[j] = v; v += uniform ? 1.0 : 0.25 * (1 + r.below(8)); }
    c.orders.push_back(o); c.knots.push_back(k);
    nspl[d] = nk - o - 1;
    int npts = nspl[d] + 1 + (int)r.below(nspl[d] + 1);
    if (ndim == 3 && npts > 6) npts = 6;
    c.ranges.push_back(npts);
    std::vector<double> x(npts);
    for (int j = 0; j < npts; j++) x[j] = k[0] + (j + 0.5) / npts * (k[nk - 1] - k[0]);
    c.coords.push_back(x);
  }
  if (!uniform) b.wellposed = false;
  bool full = r.coin(3, 4);
  if (!full) b.wellposed = false;
  std::vector<unsigned> cur(ndim, 0);
  c.idx.assign(ndim, {});
  while (true) {
    if (full || r.coin(3, 5)) {
      for (int d = 0; d < ndim; d++) c.idx[d].push_back(cur[d]);
      double val = 1.0; for (int d = 0; d < ndim; d++) val += std::sin(0.7 * c.coords[d][cur[d]] + d);
      c.x.push_back(val + 0.01 * (r.unit() - 0.5));
      c.w.push_back(0.5 + r.unit());
    }
    int d = ndim - 1;
    while (d >= 0 && ++cur[d] == c.ranges[d]) { cur[d] = 0; d--; }
    if (d < 0) break;
  }
  if (c.x.empty()) { for (int d = 0; d < ndim; d++) c.idx[d].push_back(0); c.x.push_back(1.0); c.w.push_back(1.0); }
  c.rows = c.x.size();
  size_t ns = r.coin() ? 1 : ndim, np = r.coin() ? 1 : ndim;
  for (size_t i = 0; i < ns; i++) c.smooth.push_back(r.coin(1, 5) ? 0.0 : std::pow(10.0, -(double)r.range(0, 3)));
  uint32_t minord = *std::min_element(c.orders.begin(), c.orders.end());
  for (size_t i = 0; i < np; i++) c.pen.push_back(r.below((np == 1 ? minord : c.orders[i]) + 1));
  if (r.coin(3, 10)) c.monodim = r.below(ndim);
  c.tag = "base";
  return b;
}

static const int NVAR[8] = {3, 7, 7, 8, 11, 5, 8, 4};
static const char* ARGN[8] = {"weights", "data", "coords", "orders", "knots", "smoothing", "penalty", "monodim"};

// returns true when the variant is a *valid* value of that argument (the case stays acceptable if it was)
static bool mutate(Case& c, int arg, int v, Rng& r) {
  size_t nd = c.ndim; size_t d = nd ? r.below(nd) : 0;
  bool valid = false;
  switch (arg) {
    case 0:
      if (v == 0) { if (!c.w.empty()) c.w.pop_back(); else c.w.push_back(1.0); }
      else if (v == 1) c.w.push_back(1.0);
      else { if (c.w.empty()) c.w.push_back(1.0); else c.w.clear(); }
      break;
    case 1:
      if (v == 0) { c.rows = 0; for (auto& col : c.idx) col.clear(); c.x.clear(); c.w.clear(); }
      else if (v >= 1 && v <= 3) { if (nd && c.rows) { size_t rr = r.below(c.rows); c.idx[d][rr] = v == 1 ? c.ranges[d] : v == 2 ? c.ranges[d] + 7 : 0xffffffffu; } }
      else if (v == 4) { if (nd) c.ranges[d] = 0; }
      else if (v == 5) { c.ndim = 0; c.ranges.clear(); c.idx.clear(); c.coords.clear(); c.orders.clear(); c.knots.clear(); c.smooth.resize(1, 0.1); c.pen.resize(1, 0); }
      else { if (nd) c.ranges[d] += 2; }
      break;
    case 2:
      if (v == 0) { if (!c.coords.empty()) c.coords.pop_back(); }
      else if (v == 1) c.coords.push_back(std::vector<double>(3, 0.5));
      else if (v == 2) c.coords.clear();
      else if (d < c.coords.size()) {
        auto& x = c.coords[d];
        unsigned mx = 0; if (d < c.idx.size()) for (auto i : c.idx[d]) mx = std::max(mx, i);
        if (v == 3) { if (!x.empty()) x.pop_back(); }
        else if (v == 4) { if (mx + 1 < x.size()) x.resize(mx + 1); else if (!x.empty()) x.pop_back(); }
        else if (v == 5) x.clear();
        else { x.push_back(x.empty() ? 0.0 : x.back() + 0.125); valid = true; }
      }
      break;
    case 3:
      if (v == 0) { if (!c.orders.empty()) c.orders.pop_back(); }
      else if (v == 1) c.orders.push_back(1);
      else if (d < c.orders.size()) {
        size_t nk = d < c.knots.size() ? c.knots[d].size() : 0;
        if (v == 2) c.orders[d] += 1;
        else if (v == 3) c.orders[d] = nk ? nk - 1 : 0;
        else if (v == 4) c.orders[d] = nk;
        else if (v == 5) c.orders[d] = 1000;
        else if (v == 6) c.orders[d] = 0x80000000u;
        else c.orders[d] = 0xffffffffu;
      }
      break;
    case 4:
      if (v == 0) { if (!c.knots.empty()) c.knots.pop_back(); }
      else if (v == 1) c.knots.push_back({0, 1, 2, 3});
      else if (d < c.knots.size()) {
        auto& k = c.knots[d]; size_t o = d < c.orders.size() ? c.orders[d] : 0; if (o > 64) o = 64;
        if (v == 2) { if (k.size() >= 2) { size_t j = r.below(k.size() - 1); std::swap(k[j], k[j + 1]); } }
        else if (v == 3) k.resize(std::min(k.size(), 2 * o + 1));
        else if (v == 4) k.resize(std::min(k.size(), o + 2));
        else if (v == 5) k.resize(std::min(k.size(), o + 1));
        else if (v == 6) k.resize(std::min(k.size(), o));
        else if (v == 7) k.clear();
        else if (v == 8) { if (k.size() >= 2) { size_t j = r.below(k.size() - 1); k[j + 1] = k[j]; } valid = true; }
        else if (v == 9) { if (!k.empty()) k.back() = k.front() - 1.0; }
        else { k.push_back(k.empty() ? 0.0 : k.back() + 1.0); valid = true; }
      }
      break;
    case 5:
      if (v == 0) c.smooth.clear();
      else if (v == 1) c.smooth.assign(nd + 1, 0.1);
      else if (v == 2) c.smooth.assign(nd == 3 ? 2 : nd + 2, 0.1);
      else if (v == 3) { for (auto& s : c.smooth) s = 0.0; valid = true; }
      else { c.smooth.assign(1, 0.05); valid = true; }
      break;
    case 6:
      if (v == 0) c.pen.clear();
      else if (v == 1) c.pen.assign(nd + 1, 0);
      else if (!c.pen.empty()) {
        size_t j = c.pen.size() > 1 ? std::min(d, c.pen.size() - 1) : 0;
        uint32_t o = 0;
        if (c.pen.size() > 1) o = j < c.orders.size() ? c.orders[j] : 0;
        else if (!c.orders.empty()) o = *std::min_element(c.orders.begin(), c.orders.end());
        if (v >= 2 && v <= 4) c.pen[j] = o + (v - 1);
        else if (v == 5) c.pen[j] = 0xffffffffu;
        else if (v == 6) { c.pen[j] = o; valid = true; }
        else { c.pen[j] = 0; valid = true; }
      }
      break;
    case 7:
      if (v == 0) c.monodim = nd;
      else if (v == 1) c.monodim = nd + 1;
      else if (v == 2) c.monodim = 0xfffffffeu;
      else { c.monodim = nd ? (uint32_t)r.below(nd) : 0; valid = nd > 0; }
      break;
  }
  return valid;
}

static int do_gen(long nrandom, const char* cases, const char* stats) {
  Rng r(env_seed() * 0x9e3779b97f4a7c15ULL + 13);
  std::ofstream fc(cases);
  std::map<std::string, long> dist;
  long n = 0;
  auto emit = [&](Case& c, bool wp, const std::string& tag) {
    c.tag = (wp ? "wp:" : "np:") + tag; fc << serialize(c) << "\n"; n++;
  };
  // 1. plain valid cases
  for (int nd = 1; nd <= 3; nd++) for (int k = 0; k < 12; k++) { Base b = base_case(r, nd); emit(b.c, b.wellposed, "base"); dist["base"]++; }
  // 2. every single (argument, variant) in 1..3 dimensions
  for (int nd = 1; nd <= 3; nd++) for (int a = 0; a < 8; a++) for (int v = 0; v < NVAR[a]; v++) for (int rep = 0; rep < 2; rep++) {
    Base b = base_case(r, nd);
    bool valid = mutate(b.c, a, v, r);
    emit(b.c, b.wellposed && valid && !(a == 4 && (v == 8 || v == 10)), std::string(ARGN[a]) + std::to_string(v));
    dist[std::string("single:") + ARGN[a]]++;
  }
  // 2b. consistent arguments of absurd size (the number of coefficients reaches 2^64 and wraps): they pass the sanity
  //     block, glamfit_complex gives up ("GLAM fit failed"), and the storage guard must leave the table empty.  These are
  //     the cases that exercise the failure path behind the sanity block (model: Ext.glamFailed, NoWrapB = false).
  {
    static const int HUGE[4][3] = {{16, 17, 0}, {8, 257, 0}, {16, 18, 1}, {11, 65, 0}};   // ndim, nknots, order
    for (int h = 0; h < 4; h++) for (int rep = 0; rep < 2; rep++) {
      Case c; size_t nd = HUGE[h][0]; int nk = HUGE[h][1]; uint32_t o = HUGE[h][2];
      c.ndim = nd; c.rows = 1; c.x = {1.0 + r.unit()}; c.w = {1.0};
      std::vector<double> k(nk); for (int j = 0; j < nk; j++) k[j] = j;
      for (size_t d = 0; d < nd; d++) {
        c.ranges.push_back(1); c.idx.push_back({0}); c.coords.push_back({nk / 2 + 0.25 * (1 + r.below(3))});
        c.orders.push_back(o); c.knots.push_back(k);
      }
      size_t ns = rep ? nd : 1;
      c.smooth.assign(ns, 0.0); c.pen.assign(ns, 0);
      emit(c, false, "huge" + std::to_string(h)); dist["huge"]++;
    }
  }
  // 3. random points of the cross product: every argument independently valid / one of its invalid variants
  for (long k = 0; k < nrandom; k++) {
    Base b = base_case(r, r.range(1, 3));
    std::string tag; bool wp = b.wellposed; int nm = 0;
    for (int a = 0; a < 8; a++) if (r.coin(2, 9)) {
      int v = r.below(NVAR[a]);
      bool valid = mutate(b.c, a, v, r);
      wp = wp && valid && !(a == 4 && (v == 8 || v == 10));
      tag += (tag.empty() ? "" : "+") + std::string(ARGN[a]) + std::to_string(v); nm++;
    }
    if (tag.empty()) tag = "base";
    emit(b.c, wp, tag);
    dist["cross:" + std::to_string(nm) + "-mutations"]++;
  }
  std::ofstream fs(stats);
  fs << "{\"cases\": " << n << ", \"classes\": {";
  bool first = true; for (auto& kv : dist) { fs << (first ? "" : ", ") << "\"" << kv.first << "\": " << kv.second; first = false; }
  fs << "}, \"dims\": \"1..3\", \"orders\": \"0..3 (0..2 in 3-d) + invalid up to 2^32-1\", \"knots\": \"2*order+2+{0,1,2}, uniform or irregular\"}\n";
  return 0;
}

int main(int argc, char** argv) {
  if (argc >= 5 && std::string(argv[1]) == "gen") return do_gen(atol(argv[2]), argv[3], argv[4]);
  if (argc >= 4 && std::string(argv[1]) == "run") return do_run(argv[2], argv[3]);
  fprintf(stderr, "usage: fit_harness gen <n> <cases> <stats> | run <cases> <impl>\n");
  return 2;
}
