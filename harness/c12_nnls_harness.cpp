// C12 supporting evidence: the real nnls_normal_block3 (the solver behind monotonic fits; it calls walk_descents
// with real, unserialised threads) run in-process for OMP_NUM_THREADS = 1..T on the same problems; coefficients are
// compared bit for bit with the 1-thread result.  No scheduler shim here.  Results go to the file argv[1]
// (stdout is left to the library, which prints when sched_setaffinity fails for worker ids >= #cpus).
// usage: c12_nnls <outfile> <nproblems> <maxthreads>      (seed: VERIF_SEED)
#include <cmath>
#include <cstdio>
#include <cstdlib>
#include <cstring>
#include <cstdint>
#include <vector>
#include <string>
extern "C" {
#include <cholmod.h>
cholmod_dense* nnls_normal_block3(cholmod_sparse* AtA, cholmod_dense* Atb, int verbose, cholmod_common* c);
}
struct Rng { uint64_t s; explicit Rng(uint64_t seed) : s(seed) {}
  uint64_t next() { uint64_t z = (s += 0x9e3779b97f4a7c15ULL); z = (z ^ (z >> 30)) * 0xbf58476d1ce4e5b9ULL; z = (z ^ (z >> 27)) * 0x94d049bb133111ebULL; return z ^ (z >> 31); }
  double unit() { return (next() >> 11) * (1.0 / 9007199254740992.0); } uint64_t below(uint64_t n) { return next() % n; } };
static uint64_t bits(double d) { uint64_t u; memcpy(&u, &d, 8); return d != d ? 0x7ff8000000000000ULL : u; }
int main(int argc, char** argv) {
  if (argc < 4) return 2;
  FILE* out = fopen(argv[1], "w"); int np = atoi(argv[2]), maxt = atoi(argv[3]);
  const char* e = getenv("VERIF_SEED"); uint64_t seed = e ? strtoull(e, 0, 10) : 1;
  unsetenv("GOTO_NUM_THREADS");
  Rng rng(seed * 7919 + 12);
  for (int p = 0; p < np; p++) {
    // least-squares fit of overlapping Gaussian bumps (strongly correlated columns) to noisy data with sign changes:
    // coefficients that were positive go negative when others are released, which is what sends block3 into walk_descents
    int n = 4 + (int)rng.below(28), rows = 3 * n + (int)rng.below(8);
    double width = 0.8 + 2.5 * rng.unit(), freq = 0.5 + 3 * rng.unit(), noise = 0.3 * rng.unit(), off = 0.6 * rng.unit() - 0.1;
    std::vector<double> B(rows * n), A(n * n), b(n), y(rows);
    for (int k = 0; k < rows; k++) {
      double t = (double)k / rows * n;
      for (int i = 0; i < n; i++) { double d = (t - i - 0.5) / width; B[k * n + i] = exp(-0.5 * d * d); }
      y[k] = sin(freq * t) + off + noise * (rng.unit() - 0.5) * 4;
    }
    for (int i = 0; i < n; i++) for (int j = 0; j < n; j++) { double s2 = (i == j) ? 1e-6 : 0; for (int k = 0; k < rows; k++) s2 += B[k * n + i] * B[k * n + j]; A[i * n + j] = s2; }
    for (int i = 0; i < n; i++) { double s2 = 0; for (int k = 0; k < rows; k++) s2 += B[k * n + i] * y[k]; b[i] = s2; }
    std::vector<uint64_t> ref; int walks = 0;
    for (int t = 1; t <= maxt; t++) {
      char buf[16]; snprintf(buf, sizeof buf, "%d", t); setenv("OMP_NUM_THREADS", buf, 1);
      // fresh cholmod_common per solve: modify_factor's update/refactor heuristic reads flop counts left in it by earlier calls
      cholmod_common c; cholmod_l_start(&c);
      cholmod_dense* Ad = cholmod_l_allocate_dense(n, n, n, CHOLMOD_REAL, &c);
      for (int i = 0; i < n; i++) for (int j = 0; j < n; j++) ((double*)Ad->x)[j * n + i] = A[i * n + j];
      cholmod_sparse* As = cholmod_l_dense_to_sparse(Ad, 1, &c);
      cholmod_dense* bd = cholmod_l_allocate_dense(n, 1, n, CHOLMOD_REAL, &c);
      for (int i = 0; i < n; i++) ((double*)bd->x)[i] = b[i];
      if (getenv("C12_VERBOSE")) { printf("=== P %d T %d\n", p, t); fflush(stdout); }   // segment marker for the solver's own log
      cholmod_dense* x = nnls_normal_block3(As, bd, getenv("C12_VERBOSE")?1:0, &c);
      std::vector<uint64_t> xb(n); int nz = 0;
      for (int i = 0; i < n; i++) { xb[i] = bits(((double*)x->x)[i]); if (((double*)x->x)[i] == 0) nz++; }
      if (t == 1) { ref = xb; fprintf(out, "P %d n=%d rows=%d zeros=%d", p, n, rows, nz); for (auto u : xb) fprintf(out, " %llu", (unsigned long long)u); fprintf(out, "\n"); }
      bool same = (xb == ref);
      fprintf(out, "N %d %d %d %d", p, n, t, same ? 1 : 0);
      if (!same) for (auto u : xb) fprintf(out, " %llu", (unsigned long long)u);
      fprintf(out, "\n"); fflush(out);
      cholmod_l_free_dense(&x, &c); cholmod_l_free_dense(&bd, &c); cholmod_l_free_sparse(&As, &c); cholmod_l_free_dense(&Ad, &c); cholmod_l_finish(&c);
    }
  }
  fprintf(out, "DONE\n"); fclose(out);
  return 0;
}
