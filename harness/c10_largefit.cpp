// Memory-safety regression for larger monotonic fits (factor growth in modify_factor -> recompute_factor):
// 3-d monotonic fits of noisy oscillating data, built with ASan/UBSan; one line per seed.
// usage: c10_largefit seed...   prints "ok <seed> <ncoef>"; a sanitizer abort identifies the seed on stderr ("seed <n> ...").
#include "photospline/splinetable.h"
#include <cstdio>
#include <cstdlib>
#include <cmath>
#include <vector>
static unsigned long long s;
static double rnd() { s ^= s << 13; s ^= s >> 7; s ^= s << 17; return (s >> 11) * (1.0 / 9007199254740992.0); }
int main(int argc, char** argv) {
  for (int a = 1; a < argc; a++) {
    unsigned long long seed = strtoull(argv[a], 0, 10); s = seed ? seed : 1;
    fprintf(stderr, "seed %llu starting\n", seed); fflush(stderr);
    const int dim = 3; const uint32_t monodim = (uint32_t)(seed % 3 == 2 ? 1 : 0);
    std::vector<uint32_t> ord(dim, 2);
    std::vector<size_t> nk = {9, 10, 11}, ns = {9, 10, 11};
    std::vector<std::vector<double>> knots(dim), coords(dim);
    for (int i = 0; i < dim; i++) {
      for (size_t j = 0; j < nk[i]; j++) knots[i].push_back(-1.0 + 3.0 * j / (nk[i] - 1));
      for (size_t j = 0; j < ns[i]; j++) coords[i].push_back(-0.5 + 2.0 * (j + 0.5) / ns[i]);
    }
    size_t tot = ns[0] * ns[1] * ns[2];
    photospline::ndsparse data(tot, dim);
    std::vector<double> w(tot, 1.0);
    std::vector<unsigned> idx(dim, 0);
    for (size_t n = 0; n < tot; n++) {
      size_t r = n; for (int j = dim - 1; j >= 0; j--) { idx[j] = r % ns[j]; r /= ns[j]; }
      double x = coords[monodim][idx[monodim]], o = coords[(monodim + 1) % 3][idx[(monodim + 1) % 3]] + coords[(monodim + 2) % 3][idx[(monodim + 2) % 3]];
      double v = 1 + 0.5 * std::sin(9 * x) + 0.6 * x + 0.3 * rnd() + 0.2 * std::cos(3 * o);
      data.insertEntry(v, idx.data());
    }
    photospline::splinetable<> sp;
    sp.fit(data, w, coords, ord, knots, std::vector<double>{1e-3}, std::vector<uint32_t>{1}, monodim, false);
    // the result must be non-decreasing along monodim (C10), checked exactly on the float coefficients
    uint64_t n0 = sp.get_ncoeffs(0), n1 = sp.get_ncoeffs(1), n2 = sp.get_ncoeffs(2); const float* c = sp.get_coefficients();
    uint64_t st[3] = {n1 * n2, n2, 1}, nn[3] = {n0, n1, n2}; long dec = 0;
    for (uint64_t p = 0; p < n0 * n1 * n2; p++) { uint64_t i = (p / st[monodim]) % nn[monodim]; if (i + 1 < nn[monodim] && c[p + st[monodim]] < c[p]) dec++; }
    printf("ok %llu %llu decreasing_pairs=%ld\n", seed, (unsigned long long)(n0 * n1 * n2), dec);
    fflush(stdout);
  }
  return 0;
}
