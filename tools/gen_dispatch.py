#!/usr/bin/env python3
"""Translator: regenerates lean/PsV/Generated/Dispatch.lean from /repo's current source.

Extracts, for both template modes, every assignment to eval.eval_ptr / eval.v_eval_ptr in
splinetable::get_evaluator (include/photospline/detail/bspline_eval.h) together with the switch
labels it is filed under, the mixed-order overrides guarded by detail::orders_are, and the SIMD
constants of detail/simd.h.  Fails closed (exit 1) when the construct can no longer be parsed."""
import os, re, subprocess, sys
REPO = os.environ.get("PSV_REPO", "/repo")
OUT = os.path.join(os.path.dirname(os.path.dirname(os.path.abspath(__file__))), "lean", "PsV", "Generated", "Dispatch.lean")

def die(msg):
    print("gen_dispatch: cannot translate: " + msg, file=sys.stderr); sys.exit(1)

def preprocess(defines):
    src = "#include <photospline/splinetable.h>\nPSV_MAXDIM=PHOTOSPLINE_MAXDIM PSV_VECTOR_SIZE=PHOTOSPLINE_VECTOR_SIZE PSV_NVECS=(PHOTOSPLINE_NVECS)\n"
    r = subprocess.run(["g++", "-std=c++11", "-E", "-P", "-x", "c++", "-I" + os.path.join(REPO, "include"), "-I/usr/include/suitesparse"] + ["-D" + d for d in defines] + ["-"],
                       input=src, stdout=subprocess.PIPE, stderr=subprocess.PIPE, text=True)
    if r.returncode != 0: die("preprocessing failed: " + r.stderr[-500:])
    return r.stdout

def body_of(text, header_re):
    m = re.search(header_re, text)
    if not m: die("get_evaluator not found")
    i = text.index("{", m.end() - 1); depth = 0; j = i
    while j < len(text):
        if text[j] == "{": depth += 1
        elif text[j] == "}":
            depth -= 1
            if depth == 0: return text[i + 1:j]
        j += 1
    die("unbalanced braces")

def routine(expr):
    expr = expr.replace(" ", "")
    m = re.fullmatch(r"&splinetable::(?:template)?(\w+)<([^>]*)>", expr)
    if not m: die("unrecognised routine expression " + expr)
    name, args = m.group(1), m.group(2).split(",")
    if args[0] != "Float": die("first template argument is not Float in " + expr)
    nums = args[1:]
    if any(not a.isdigit() for a in nums): die("non-literal template argument in " + expr)
    nums = [int(a) for a in nums]
    base = name.replace("ndsplineeval_multibasis_", "ndsplineeval_")
    vec = "multibasis" in name
    if base == "ndsplineeval_core" and not nums: r = ".generic"
    elif base == "ndsplineeval_coreD" and len(nums) == 1: r = "(.coreD %d)" % nums[0]
    elif base == "ndsplineeval_coreD_FixedOrder" and len(nums) == 2: r = "(.fixedOrder %d %d)" % tuple(nums)
    elif base == "ndsplineeval_core_KnownOrder" and nums: r = "(.knownOrder [%s])" % ", ".join(map(str, nums))
    else: die("unknown routine " + expr)
    return r, vec

def parse(body):
    """tiny recursive parser for `switch(v){ case k: ... default: ... }` nests"""
    toks = re.findall(r"switch\s*\(\s*(\w+)\s*\)|case\s+(\d+)\s*:|(default)\s*:|eval\.(v_eval_ptr|eval_ptr)\s*=\s*([^;]+);|(\{)|(\})|(break)\s*;|(if)\s*\(\s*detail::orders_are\s*\(\s*\*this\s*,\s*\{([^}]*)\}\s*\)\s*\)|(else)", body)
    entries = {}   # (constOrder label, ndim label) -> {"s":..., "v":...}
    overrides = []
    stack = []     # list of [var, label]
    pending_switch = None; cur_override = None; brace_kinds = []
    for t in toks:
        sw, case, dflt, which, expr, lb, rb, brk, iff, orders, els = t[0], t[1], t[2], t[3], t[4], t[5], t[6], t[7], t[8], t[9], t[10]
        if sw: pending_switch = sw
        elif lb:
            if pending_switch: stack.append([pending_switch, None]); brace_kinds.append("switch"); pending_switch = None
            else: brace_kinds.append("block")
        elif rb:
            if not brace_kinds: die("brace mismatch")
            k = brace_kinds.pop()
            if k == "switch": stack.pop()
            elif k == "block" and cur_override is not None and not stack: cur_override = None
        elif case: 
            if not stack: die("case outside switch")
            stack[-1][1] = int(case)
        elif dflt:
            if not stack: die("default outside switch")
            stack[-1][1] = "default"
        elif iff:
            cur_override = [int(z) for z in orders.replace(" ", "").split(",") if z != ""]
            overrides.append({"orders": cur_override})
        elif which:
            r, vec = routine(expr)
            if (which == "v_eval_ptr") != vec: die("scalar/vector routine assigned to the wrong pointer: " + expr)
            if stack:
                key = {}
                for var, lab in stack:
                    if lab is None: die("assignment before any case label")
                    key[var] = lab
                if set(key) - {"constOrder", "ndim"}: die("unexpected switch variable " + str(key))
                k = (key.get("constOrder", "any"), key.get("ndim", "any"))
                entries.setdefault(k, {})["v" if vec else "s"] = r
            elif cur_override is not None:
                overrides[-1]["v" if vec else "s"] = r
            else: die("assignment outside switch/override")
    for k, e in entries.items():
        if set(e) != {"s", "v"}: die("entry %s lacks a scalar or vector routine" % (k,))
    for o in overrides:
        if set(o) != {"orders", "s", "v"}: die("override lacks a routine")
    if not entries: die("no dispatch entries found")
    return entries, overrides

def lean_label(l): return "none" if l in ("default", "any") else "(some %d)" % l

def emit_mode(name, entries, overrides):
    out = ["def %sEntries : List Entry := [" % name]
    rows = []
    for (co, nd), e in entries.items():
        rows.append("  ⟨%s, %s, %s, %s⟩" % (lean_label(co), lean_label(nd), e["s"], e["v"]))
    out.append(",\n".join(rows) + "]")
    out.append("def %sOverrides : List Override := [" % name)
    out.append(",\n".join("  ⟨[%s], %s, %s⟩" % (", ".join(map(str, o["orders"])), o["s"], o["v"]) for o in overrides) + "]")
    return "\n".join(out)

def main():
    res = {}
    consts = None
    for mode, defs in (("templated", []), ("generic", ["PHOTOSPLINE_NO_EVAL_TEMPLATES"])):
        text = preprocess(defs)
        m = re.search(r"PSV_MAXDIM=(\d+)\s+PSV_VECTOR_SIZE=(\d+)\s+PSV_NVECS=\(([^)]*)\)", text)
        if not m: die("SIMD constants not found")
        c = (int(m.group(1)), int(m.group(2)), m.group(3).replace(" ", ""))
        if consts and consts != c: die("constants differ between modes")
        consts = c
        body = body_of(text, r"splinetable<Alloc>::get_evaluator\(\)\s*const\s*\{")
        res[mode] = parse(body)
        # the refusal test of the gradient routines
        if len(re.findall(r"ndim\s*\+\s*1\s*>\s*%d\s*\)\s*throw" % c[0], text)) < 2: die("gradient dimension guard `ndim+1 > PHOTOSPLINE_MAXDIM` not found in both gradient routines")
    maxdim, vsize, nvecs = consts
    if nvecs != "%d/%d" % (maxdim, vsize): die("unexpected PHOTOSPLINE_NVECS " + nvecs)
    lean = ["import PsV.Model.Dispatch",
            "/-! GENERATED by tools/gen_dispatch.py from /repo (include/photospline/detail/bspline_eval.h, simd.h). Do not edit. -/",
            "namespace PsV.Gen", "open PsV.Dispatch",
            "def maxDim : Nat := %d" % maxdim, "def vectorSize : Nat := %d" % vsize, "def nvecs : Nat := %d" % (maxdim // vsize),
            emit_mode("templated", *res["templated"]), emit_mode("generic", *res["generic"]), "end PsV.Gen", ""]
    new = "\n".join(lean)
    os.makedirs(os.path.dirname(OUT), exist_ok=True)
    old = open(OUT).read() if os.path.exists(OUT) else None
    if old != new:
        with open(OUT, "w") as f: f.write(new)
    print("gen_dispatch: %d templated entries, %d overrides; %d generic-mode entries; maxDim=%d%s" % (
        len(res["templated"][0]), len(res["templated"][1]), len(res["generic"][0]), maxdim, "" if old == new else " (file updated)"))

if __name__ == "__main__": main()
