#!/usr/bin/env python3
"""Translator for C18: src/cinter/splinetable.cpp  ->  lean/PsV/Generated/C18.lean (+ a JSON side file).

On every run the *current* source is parsed by clang (`-Xclang -ast-dump=json`; the translation unit includes the
.cpp inside a namespace so that `-ast-dump-filter` can pick exactly its declarations) and, per wrapper function, the
following syntactic facts are extracted:

  * C return type class (status int / pointer / value / void);
  * which pointer arguments (and `table->data`, `buffer->data`) are tested by a guard that returns early, and whether
    that guard returns the failure value;
  * every call into the C++ library (member calls on the table object, new/delete expressions, calls of other wrappers,
    anything else that may allocate or throw): the operation, whether it is lexically inside a `try` block that has a
    `catch(...)` handler, and what happens to its result (returned / returned negated / checked / stored / discarded);
  * whether every catch handler returns the failure value and whether the final return is the success value;
  * the pointer handling of the life-cycle wrappers (init / free / readers / grideval / ndsparse_destroy / write_mem).

Anything the translator does not recognise makes it FAIL CLOSED (non-zero exit, no output file written).
usage: gen_c18.py [--repo /repo] [--out lean/PsV/Generated/C18.lean] [--json path]
"""
import argparse, json, os, re, subprocess, sys, tempfile

HERE = os.path.dirname(os.path.dirname(os.path.abspath(__file__)))


class Closed(Exception):
    pass


def die(msg):
    raise Closed(msg)


TRANSPARENT = {"ParenExpr", "ImplicitCastExpr", "ExprWithCleanups", "MaterializeTemporaryExpr", "CXXBindTemporaryExpr",
               "CXXFunctionalCastExpr", "ConstantExpr"}

MEMBER_OPS = {  # member functions of photospline::splinetable<>
    "read_fits_mem": "readFitsMem", "write_fits": "writeFits", "write_fits_mem": "writeFitsMem",
    "get_aux_value": "getAuxValue", "read_key": "readKey", "write_key": "writeKey",
    "get_ndim": "getter", "get_order": "getter", "get_nknots": "getter", "get_knots": "getter", "get_knot": "getter",
    "lower_extent": "getter", "upper_extent": "getter", "get_period": "getter", "get_ncoeffs": "getter",
    "get_stride": "getter", "get_coefficients": "getter",
    "searchcenters": "searchcenters", "ndsplineeval": "ndsplineeval", "ndsplineeval_gradient": "ndsplineevalGradient",
    "ndsplineeval_deriv": "ndsplineevalDeriv", "convolve": "convolve", "fit": "fit", "grideval": "grideval",
    "permuteDimensions": "permuteDimensions",
}
# members of helper types that neither allocate nor throw (array_view, unique_ptr, std::exception, vector accessors)
NOTHROW_MEMBERS = {"reset", "release", "what", "begin", "end", "data", "size", "get"}
NOTHROW_FUNCS = {"fprintf"}
NOTHROW_CTOR_TYPES = ("array_view",)
NOTHROW_OPERATORS = ("operator[]", "operator*", "operator->")


def run_clang(repo):
    src = os.path.join(repo, "src/cinter/splinetable.cpp")
    if not os.path.exists(src): die("missing " + src)
    with tempfile.TemporaryDirectory(prefix="psv-gen-c18-") as d:
        tu = os.path.join(d, "tu.cpp")
        with open(tu, "w") as f:
            f.write('#include "photospline/cinter/splinetable.h"\n#include "photospline/splinetable.h"\n'
                    'namespace psv_c18_probe {\n#include "%s"\n}\n' % src)
        cmd = ["clang++-14", "-std=gnu++17", "-Xclang", "-ast-dump=json", "-Xclang", "-ast-dump-filter=psv_c18_probe",
               "-fsyntax-only", "-I" + os.path.join(repo, "include"), "-I/usr/include/suitesparse",
               "-DPHOTOSPLINE_INCLUDES_SPGLAM", tu]
        r = subprocess.run(cmd, stdout=subprocess.PIPE, stderr=subprocess.PIPE, text=True)
        if r.returncode != 0: die("clang failed: " + r.stderr[-800:])
        dec = json.JSONDecoder(); txt = r.stdout; pos = 0; roots = []
        while True:
            while pos < len(txt) and txt[pos].isspace(): pos += 1
            if pos >= len(txt): break
            obj, pos = dec.raw_decode(txt, pos); roots.append(obj)
    ns = [x for x in roots if x.get("kind") == "NamespaceDecl" and x.get("name") == "psv_c18_probe"]
    if len(ns) != 1: die("expected exactly one probe namespace in the AST dump, got %d" % len(ns))
    fns = []
    def collect(n):
        for c in n.get("inner", []):
            if c.get("kind") == "LinkageSpecDecl": collect(c)
            elif c.get("kind") == "FunctionDecl":
                if any(i.get("kind") == "CompoundStmt" for i in c.get("inner", [])): fns.append(c)
            elif c.get("kind") in ("UsingDirectiveDecl", "UsingDecl", "EmptyDecl"): pass
            else: die("unexpected top-level declaration %s in splinetable.cpp" % c.get("kind"))
    collect(ns[0])
    return fns


def header_functions(repo):
    txt = open(os.path.join(repo, "include/photospline/cinter/splinetable.h")).read()
    txt = re.sub(r"/\*.*?\*/", "", txt, flags=re.S); txt = re.sub(r"//[^\n]*", "", txt)
    return sorted(set(re.findall(r"\b(\w+)\s*\([^;{()]*(?:\([^()]*\)[^;{()]*)*\)\s*;", txt)))


def qt(n):
    t = n.get("type", {})
    return t.get("desugaredQualType") or t.get("qualType") or ""


def strip(n):
    while n.get("kind") in TRANSPARENT and n.get("inner"):
        n = n["inner"][-1] if n["kind"] == "CXXFunctionalCastExpr" else n["inner"][0]
    return n


def is_null_literal(n):
    n = strip(n)
    return n.get("kind") in ("GNUNullExpr", "CXXNullPtrLiteralExpr") or (n.get("kind") == "IntegerLiteral" and n.get("value") == "0")


def int_literal(n):
    n = strip(n)
    if n.get("kind") == "IntegerLiteral": return int(n["value"])
    return None


def ptr_atom(n):
    """`p` or `p->data` for a parameter p -> text, else None"""
    n = strip(n)
    if n.get("kind") == "DeclRefExpr" and n.get("referencedDecl", {}).get("kind") == "ParmVarDecl":
        return n["referencedDecl"]["name"]
    if n.get("kind") == "MemberExpr" and n.get("isArrow") and n.get("inner"):
        b = ptr_atom(n["inner"][0])
        if b: return b + "->" + n["name"]
    return None


def cond_atoms(n, out):
    """flatten a||b||c ; each atom -> ('null', name) for !name, ('set', name) for name"""
    n = strip(n)
    if n.get("kind") == "BinaryOperator" and n.get("opcode") == "||":
        return cond_atoms(n["inner"][0], out) and cond_atoms(n["inner"][1], out)
    if n.get("kind") == "UnaryOperator" and n.get("opcode") == "!":
        a = ptr_atom(n["inner"][0])
        if a: out.append(("null", a)); return True
        return False
    a = ptr_atom(n)
    if a: out.append(("set", a)); return True
    return False


def ret_class(fn):
    t = fn["type"]["qualType"].split("(")[0].strip()
    if t == "int": return "status", t
    if t == "void": return "void", t
    if t.endswith("*"): return "pointer", t
    if t in ("uint32_t", "uint64_t", "double"): return "value", t
    die("%s: unsupported return type %r" % (fn["name"], t))


def return_is_failure(stmt, rc):
    """stmt: ReturnStmt. failure literal for the return class?  None when not a literal."""
    inner = stmt.get("inner", [])
    if rc == "void": return True if not inner else None
    if not inner: return None
    if rc == "status":
        v = int_literal(inner[0]); return None if v is None else (v != 0)
    if rc == "pointer": return True if is_null_literal(inner[0]) else None
    return None


class FnAnalysis:
    def __init__(self, fn):
        self.fn = fn; self.name = fn["name"]
        self.rc, self.rtype = ret_class(fn)
        self.params = [(p["name"], p["type"]["qualType"]) for p in fn.get("inner", []) if p.get("kind") == "ParmVarDecl"]
        self.body = [i for i in fn["inner"] if i.get("kind") == "CompoundStmt"][0]
        self.null_checked = []; self.must_be_null = []; self.guard_fails = True
        self.calls = []; self.handler_fails = True; self.has_try = False; self.catch_all = False
        self.final_succeeds = self.rc in ("void", "value")
        self.derefs_data = False
        self.stmts = self.body.get("inner", [])
        self.analyse()

    def fail(self, msg): die("%s: %s" % (self.name, msg))

    def analyse(self):
        for s in self.stmts:
            k = s.get("kind")
            if k == "IfStmt" and len(s["inner"]) == 2 and strip(s["inner"][1]).get("kind") == "ReturnStmt":
                atoms = []
                if not cond_atoms(s["inner"][0], atoms): self.fail("guard condition not understood")
                for kind, a in atoms:
                    (self.null_checked if kind == "null" else self.must_be_null).append(a)
                f = return_is_failure(strip(s["inner"][1]), self.rc)
                if f is None: self.fail("guard return value not a literal")
                self.guard_fails = self.guard_fails and f
            self.walk(s, [], False, False)
        # final statement
        last = self.stmts[-1] if self.stmts else None
        if self.rc in ("status", "pointer"):
            if last is None or last.get("kind") != "ReturnStmt": self.fail("non-void wrapper does not end in a return")
            f = return_is_failure(last, self.rc)
            self.final_succeeds = (f is False)

    # ------------------------------------------------------------------ traversal
    def walk(self, n, parents, guarded, in_handler):
        k = n.get("kind")
        if k == "CXXTryStmt":
            self.has_try = True
            handlers = [c for c in n["inner"] if c.get("kind") == "CXXCatchStmt"]
            call = any(not h["inner"][0] or h["inner"][0].get("kind") is None for h in handlers)
            self.catch_all = self.catch_all or call
            if self.rc == "value": self.fail("try block in a value wrapper is not modelled")
            self.walk(n["inner"][0], parents + [n], guarded or call, in_handler)
            for h in handlers:
                body = h["inner"][-1]
                if body.get("kind") != "CompoundStmt": self.fail("catch handler without a body")
                last = body.get("inner", [])[-1] if body.get("inner") else None
                if self.rc != "void":
                    f = return_is_failure(last, self.rc) if last is not None and last.get("kind") == "ReturnStmt" else None
                    self.handler_fails = self.handler_fails and (f is True)
                self.walk(body, parents + [n, h], guarded, True)
            return
        if k == "CXXStaticCastExpr" and any(ptr_atom(c) and ptr_atom(c).endswith("->data") for c in n.get("inner", [])):
            self.derefs_data = True
        op = self.classify(n, in_handler)
        if op is not None:
            self.calls.append({"op": op, "guarded": guarded, "disp": self.disposition(n, parents), "text": self.describe(n)})
        for c in n.get("inner", []):
            if c: self.walk(c, parents + [n], guarded, in_handler)

    def describe(self, n):
        k = n["kind"]
        if k in ("CXXMemberCallExpr", "CallExpr", "CXXOperatorCallExpr"):
            cal = strip(n["inner"][0])
            return cal.get("name") or cal.get("referencedDecl", {}).get("name") or k
        return k + ":" + qt(n)

    def classify(self, n, in_handler):
        k = n.get("kind")
        if k == "CXXMemberCallExpr":
            cal = strip(n["inner"][0])
            if cal.get("kind") != "MemberExpr": return "other"
            name = cal.get("name"); obj = qt(cal["inner"][0]) if cal.get("inner") else ""
            if "photospline::splinetable" in obj:
                if name not in MEMBER_OPS: self.fail("unknown splinetable member %r" % name)
                return MEMBER_OPS[name]
            if name in NOTHROW_MEMBERS: return None
            return "other"
        if k == "CallExpr":
            cal = strip(n["inner"][0]); name = cal.get("referencedDecl", {}).get("name")
            if name == "splinetable_free": return "wrapperFree"
            if name in NOTHROW_FUNCS and in_handler: return None
            if qt(cal).rstrip().endswith("noexcept"): return None     # declared noexcept (e.g. numeric_limits<>::quiet_NaN)
            return "other"
        if k == "CXXOperatorCallExpr":
            cal = strip(n["inner"][0]); name = cal.get("referencedDecl", {}).get("name")
            return None if name in NOTHROW_OPERATORS else "other"
        if k == "CXXNewExpr":
            if "photospline::splinetable" not in qt(n): return "other"
            ctor = [c for c in n.get("inner", []) if c.get("kind") == "CXXConstructExpr"]
            if len(ctor) != 1: self.fail("new-expression without a constructor call")
            args = [a for a in ctor[0].get("inner", []) if a.get("kind") != "CXXDefaultArgExpr"]
            if len(args) == 0: return "newEmpty"
            if len(args) == 1: return "newFromFile"
            self.fail("unknown splinetable constructor")
        if k == "CXXDeleteExpr":
            t = qt(n["inner"][0])
            if t.replace(" ", "").startswith("photospline::splinetable<"): return "deleteTable"
            if t.replace(" ", "") == "photospline::ndsparse*": return "deleteNdDerived"
            return "deleteUntyped"
        if k == "CXXConstructExpr":
            t = qt(n)
            if any(x in t for x in NOTHROW_CTOR_TYPES) and "vector" not in t: return None
            if "photospline::splinetable" in t: return None      # accounted for by the enclosing new-expression
            return "other"
        if k == "CXXThrowExpr": return "other"
        return None

    def disposition(self, n, parents):
        if n["kind"] in ("CXXDeleteExpr",): return "noResult"
        if qt(n) == "void": return "noResult"
        child = n
        for p in reversed(parents):
            pk = p.get("kind")
            if pk in TRANSPARENT: child = p; continue
            if pk == "ReturnStmt": return "returned"
            if pk == "UnaryOperator" and p.get("opcode") == "!":
                gp = [q for q in reversed(parents[:parents.index(p)]) if q.get("kind") not in TRANSPARENT]
                if gp and gp[0].get("kind") == "ReturnStmt": return "returnedNegated"
                if gp and gp[0].get("kind") == "IfStmt" and len(gp[0]["inner"]) == 2:
                    then = strip(gp[0]["inner"][1])
                    if then.get("kind") == "CompoundStmt" and len(then.get("inner", [])) == 1: then = then["inner"][0]
                    if then.get("kind") == "ReturnStmt" and return_is_failure(then, self.rc) is True: return "checked"
                return "stored"
            if pk == "ConditionalOperator" and strip(p["inner"][0]) is strip(child):
                gp = [q for q in reversed(parents[:parents.index(p)]) if q.get("kind") not in TRANSPARENT]
                a, b = int_literal(p["inner"][1]), int_literal(p["inner"][2])
                if gp and gp[0].get("kind") == "ReturnStmt" and a == 0 and b not in (None, 0): return "returnedNegated"
                if gp and gp[0].get("kind") == "ReturnStmt" and b == 0 and a not in (None, 0): return "returned"
                return "stored"
            if pk in ("CompoundStmt", "CaseStmt", "DefaultStmt", "IfStmt", "ForStmt", "WhileStmt", "SwitchStmt", "CXXTryStmt", "CXXCatchStmt"):
                if pk == "IfStmt" and p["inner"][0] is child: return "stored"   # used as a condition
                return "discarded"
            return "stored"
        return "stored"


# ---------------------------------------------------------------------- life-cycle facts
def find_all(n, pred, acc=None):
    acc = [] if acc is None else acc
    if n and pred(n): acc.append(n)
    for c in (n or {}).get("inner", []) or []:
        if c: find_all(c, pred, acc)
    return acc


def is_assign(n, lhs_pred, rhs_pred):
    return n.get("kind") == "BinaryOperator" and n.get("opcode") == "=" and lhs_pred(n["inner"][0]) and rhs_pred(n["inner"][1])


def lhs_is(atom): return lambda n: ptr_atom(n) == atom


def rhs_new(nargs):
    def f(n):
        n = strip(n)
        if n.get("kind") != "CXXNewExpr" or "photospline::splinetable" not in qt(n): return False
        ctor = [c for c in n.get("inner", []) if c.get("kind") == "CXXConstructExpr"]
        return len(ctor) == 1 and len([a for a in ctor[0].get("inner", []) if a.get("kind") != "CXXDefaultArgExpr"]) == nargs
    return f


def life_facts(an):
    def need(name):
        if name not in an: die("life-cycle wrapper %s not found" % name)
        return an[name]
    F = {}
    init = need("splinetable_init")
    F["initStoresNew"] = bool(find_all(init.body, lambda n: is_assign(n, lhs_is("table->data"), rhs_new(0))))
    free = need("splinetable_free")
    dels = [(i, s) for i, s in enumerate(free.stmts) if s.get("kind") == "CXXDeleteExpr"]
    F["freeDeletesTyped"] = len(dels) == 1 and qt(dels[0][1]["inner"][0]).replace(" ", "").startswith("photospline::splinetable<")
    if len(find_all(free.body, lambda n: n.get("kind") == "CXXDeleteExpr")) > 1: die("splinetable_free: more than one delete")
    F["freeResetsHandle"] = bool(dels) and any(is_assign(s, lhs_is("table->data"), is_null_literal) for s in free.stmts[dels[0][0] + 1:])
    rf = need("readsplinefitstable")
    def frees_if_set(s):
        if s.get("kind") != "IfStmt" or len(s["inner"]) != 2: return False
        atoms = []
        if not cond_atoms(s["inner"][0], atoms) or atoms != [("set", "table->data")]: return False
        then = strip(s["inner"][1])
        if then.get("kind") == "CompoundStmt" and len(then.get("inner", [])) == 1: then = then["inner"][0]
        if then.get("kind") != "CallExpr": return False
        cal = strip(then["inner"][0]).get("referencedDecl", {}).get("name")
        return cal == "splinetable_free" and ptr_atom(then["inner"][1]) == "table"
    tries = [i for i, s in enumerate(rf.stmts) if s.get("kind") == "CXXTryStmt"]
    F["readFileFreesOccupied"] = bool(tries) and any(frees_if_set(s) for s in rf.stmts[:tries[0]])
    F["readFileStoresNew"] = bool(find_all(rf.body, lambda n: is_assign(n, lhs_is("table->data"), rhs_new(1))))
    if find_all(rf.body, lambda n: is_assign(n, lhs_is("table->data"), rhs_new(0))): die("readsplinefitstable: unexpected default construction")
    rm = need("readsplinefitstable_mem")
    def alloc_if_null(s):
        if s.get("kind") != "IfStmt" or len(s["inner"]) != 2: return False
        atoms = []
        if not cond_atoms(s["inner"][0], atoms) or atoms != [("null", "table->data")]: return False
        then = strip(s["inner"][1])
        if then.get("kind") == "CompoundStmt" and len(then.get("inner", [])) == 1: then = then["inner"][0]
        return is_assign(then, lhs_is("table->data"), rhs_new(0))
    news = find_all(rm.body, lambda n: n.get("kind") == "CXXNewExpr")
    conds = find_all(rm.body, alloc_if_null)
    F["readMemAllocsOnlyIfNull"] = len(news) == 1 and len(conds) == 1
    ge = need("splinetable_grideval")
    def releases(n):
        if not (n.get("kind") == "BinaryOperator" and n.get("opcode") == "="): return False
        l = strip(n["inner"][0])
        if not (l.get("kind") == "UnaryOperator" and l.get("opcode") == "*" and ptr_atom(l["inner"][0]) == "result"): return False
        r = strip(n["inner"][1])
        return r.get("kind") == "CXXMemberCallExpr" and strip(r["inner"][0]).get("name") == "release" and "photospline::ndsparse" in qt(r)
    F["gridevalReleasesResult"] = bool(find_all(ge.body, releases))
    def clears(n):   # `*result = NULL;`
        if not (n.get("kind") == "BinaryOperator" and n.get("opcode") == "="): return False
        l = strip(n["inner"][0])
        return l.get("kind") == "UnaryOperator" and l.get("opcode") == "*" and ptr_atom(l["inner"][0]) == "result" and is_null_literal(n["inner"][1])
    F["gridevalClearsResult"] = bool(ge.stmts) and clears(ge.stmts[0])
    nd = need("ndsparse_destroy")
    dl = find_all(nd.body, lambda n: n.get("kind") == "CXXDeleteExpr")
    if len(dl) != 1: die("ndsparse_destroy: expected exactly one delete")
    F["destroyDeletesDerived"] = qt(dl[0]["inner"][0]).replace(" ", "") == "photospline::ndsparse*"
    wm = need("writesplinefitstable_mem")
    F["writeMemHandsOverBuffer"] = bool(find_all(wm.body, lambda n: n.get("kind") == "BinaryOperator" and n.get("opcode") == "=" and ptr_atom(n["inner"][0]) == "buffer->data"))
    return F


# ---------------------------------------------------------------------- output
def lean_str(s): return '"' + s.replace("\\", "\\\\").replace('"', '\\"') + '"'
def lean_bool(b): return "true" if b else "false"


def emit(an_list, F, repo):
    o = ["import PsV.Model.CApi",
         "/-! GENERATED by tools/gen_c18.py from src/cinter/splinetable.cpp — do not edit; regenerated on every run of the C18 check. -/",
         "namespace PsV.Generated.C18", "open PsV.CApi", ""]
    for a in an_list:
        calls = ", ".join("⟨.%s, %s, .%s⟩" % (c["op"], lean_bool(c["guarded"]), c["disp"]) for c in a.calls)
        o.append("def w_%s : Wrapper :=\n  { name := %s, ret := .%s, nullChecked := [%s], mustBeNull := [%s], derefsData := %s,\n    guardFails := %s, handlerFails := %s, finalSucceeds := %s,\n    calls := [%s] }" % (
            a.name, lean_str(a.name), a.rc, ", ".join(lean_str(x) for x in a.null_checked), ", ".join(lean_str(x) for x in a.must_be_null), lean_bool(a.derefs_data),
            lean_bool(a.guard_fails), lean_bool(a.handler_fails), lean_bool(a.final_succeeds), calls))
    o.append("")
    o.append("def wrappers : List Wrapper :=\n  [" + ",\n   ".join("w_" + a.name for a in an_list) + "]")
    o.append("")
    o.append("def facts : LifeFacts :=\n  { " + ",\n    ".join("%s := %s" % (k, lean_bool(v)) for k, v in F.items()) + " }")
    o.append("")
    o.append("end PsV.Generated.C18")
    return "\n".join(o) + "\n"


def generate(repo):
    fns = run_clang(repo)
    names = [f["name"] for f in fns]
    if len(set(names)) != len(names): die("duplicate definitions")
    declared = header_functions(repo)
    missing = sorted(set(declared) - set(names)); extra = sorted(set(names) - set(declared))
    if missing or extra: die("functions declared in cinter/splinetable.h and defined in splinetable.cpp differ: missing=%s extra=%s" % (missing, extra))
    ans = [FnAnalysis(f) for f in fns]
    an = {a.name: a for a in ans}
    F = life_facts(an)
    side = {"wrappers": {a.name: {"ret": a.rc, "rtype": a.rtype, "params": a.params, "nullChecked": a.null_checked, "mustBeNull": a.must_be_null,
                                  "hasTry": a.has_try, "catchAll": a.catch_all, "guardFails": a.guard_fails, "handlerFails": a.handler_fails,
                                  "finalSucceeds": a.final_succeeds, "derefsData": a.derefs_data, "calls": a.calls} for a in ans},
            "facts": F}
    return emit(ans, F, repo), side


def main():
    ap = argparse.ArgumentParser()
    ap.add_argument("--repo", default=os.environ.get("PSV_REPO", "/repo"))
    ap.add_argument("--out", default=os.path.join(HERE, "lean/PsV/Generated/C18.lean"))
    ap.add_argument("--json", default=None)
    a = ap.parse_args()
    try:
        text, side = generate(a.repo)
    except Closed as e:
        print("gen_c18: FAIL CLOSED: %s" % e, file=sys.stderr); sys.exit(1)
    os.makedirs(os.path.dirname(a.out), exist_ok=True)
    old = open(a.out).read() if os.path.exists(a.out) else None
    if old != text:
        with open(a.out, "w") as f: f.write(text)
    if a.json:
        with open(a.json, "w") as f: json.dump(side, f, indent=1)
    print("gen_c18: %d wrappers -> %s%s" % (len(side["wrappers"]), a.out, "" if old != text else " (unchanged)"))


if __name__ == "__main__":
    main()
