#!/usr/bin/env python3
"""Translator for property C19: regenerates lean/PsV/Generated/C19.lean from the CURRENT source tree.

What is extracted (and from where):
  * include/photospline/detail/fitsio.h, splinetable<Alloc>::estimateMemory:
      - `size_t size = <e>;`, every `size += <e>;` (with the loop it sits in), the rounding statement,
        `const size_t KB = <e>;`
      - the adjustments `order[convolution_dimension] += <e>`, `nknots *= <e>`, `naxes[i] = <e>` and the
        condition under which they are applied, the definition of `ncoeffs`
      - which HDU is current when `countAuxKeywords(fits)` is called (before / after the `fits_movnam_hdu` loop)
  * fitsio.h read_fits_core and convolve.h convolve: every allocate<T>(n) / deallocate(p, n) call in source
    order, with element type, count expression, enclosing loop (per aux key / per dimension), the `if` condition
    around it inside the loop body (translated: `storedlen != valuelen` for the second block of a quoted aux value)
    and, in convolve, its position relative to the statements that install the post-convolution shape.
    Calls inside a `catch` handler that re-throws belong to the failing path only and are listed but not modelled.
    `storage_guard g(this)` must be dismissed unconditionally after the last allocator call (then its destructor
    requests nothing on the path that returns normally).  Every assignment to a pointer member must be an
    allocate call, a null, a local that holds an allocate result, or the alias `&extents[0][…]`.
  * the conditions under which read_fits_core rejects a file because of its shape (`throw` in the knot loop whose
    condition mentions only nknots[i], order[i], naxes[i]) and under which convolve rejects its arguments.
  * sizeof constants and FLEN_KEYWORD / FLEN_VALUE / sizeof(splinetable<>): measured by compiling a one-liner
    against the same include tree.
Everything is translated to Lean `Nat` expressions.  The generator FAILS CLOSED (exit 1, no file written) when
the source contains an assignment to a tracked variable, a loop, a condition or an expression it does not
understand: the check then reports a broken tie.

usage: gen_c19.py [--repo DIR] [--out FILE] [--json FILE]
"""
import argparse, json, os, re, subprocess, sys, tempfile

HERE = os.path.dirname(os.path.abspath(__file__))
VERIF = os.path.dirname(HERE)


class GenError(Exception):
    pass


def need(cond, msg):
    if not cond:
        raise GenError(msg)


# ------------------------------------------------------------------------------------------------ lexical helpers
def strip_comments(src):
    out, i, n = [], 0, len(src)
    while i < n:
        c = src[i]
        if c == '"' or c == "'":
            j = i + 1
            while j < n and src[j] != c:
                j += 2 if src[j] == "\\" else 1
            out.append(src[i:j + 1]); i = j + 1
        elif src.startswith("//", i):
            j = src.find("\n", i); i = n if j < 0 else j
        elif src.startswith("/*", i):
            j = src.find("*/", i); need(j >= 0, "unterminated comment")
            out.append(" " + "\n" * src.count("\n", i, j)); i = j + 2
        else:
            out.append(c); i += 1
    return "".join(out)


OPEN, CLOSE = "([{", ")]}"


def match_close(s, i):
    """s[i] is an opening bracket; index of the matching closing one."""
    depth, n = 0, len(s)
    while i < n:
        c = s[i]
        if c == '"' or c == "'":
            j = i + 1
            while j < n and s[j] != c:
                j += 2 if s[j] == "\\" else 1
            i = j + 1; continue
        if c in OPEN: depth += 1
        elif c in CLOSE:
            depth -= 1
            if depth == 0: return i
        i += 1
    raise GenError("unbalanced brackets")


def function_body(src, signature_re):
    m = re.search(signature_re, src)
    need(m, "function not found: " + signature_re)
    need(len(re.findall(signature_re, src)) == 1, "function defined more than once: " + signature_re)
    p = src.index("(", m.end() - 1)
    q = match_close(src, p)
    b = q + 1
    while src[b].isspace(): b += 1
    need(src[b] == "{", "no body after " + signature_re)
    e = match_close(src, b)
    return src[b + 1:e]


# ------------------------------------------------------------------------------------------------ statement tree
class Node:
    count = 0

    def __init__(self, kind, text="", head="", body=None, orelse=None, handlers=None):
        self.kind, self.text, self.head, self.body, self.orelse = kind, text, head, body or [], orelse or []
        self.handlers = handlers or []      # try: list of (head, block)
        Node.count += 1
        self.uid = Node.count


def skip_ws(s, i):
    while i < len(s) and s[i].isspace(): i += 1
    return i


def parse_stmt(s, i):
    i = skip_ws(s, i)
    if i >= len(s): return None, i
    if s[i] == "{":
        e = match_close(s, i)
        return Node("block", body=parse_seq(s[i + 1:e])), e + 1
    m = re.match(r"(for|while|if)\b\s*\(", s[i:])
    if m:
        p = i + m.end() - 1
        q = match_close(s, p)
        head = s[p + 1:q]
        body, j = parse_stmt(s, q + 1)
        need(body is not None, "missing body of " + m.group(1))
        node = Node(m.group(1), head=" ".join(head.split()), body=[body])
        if m.group(1) == "if":
            k = skip_ws(s, j)
            if re.match(r"else\b", s[k:]):
                eb, j = parse_stmt(s, k + 4)
                node.orelse = [eb]
        return node, j
    if re.match(r"try\b", s[i:]):
        j = skip_ws(s, i + 3)
        need(j < len(s) and s[j] == "{", "try without a block near: " + s[i:i + 40])
        e = match_close(s, j)
        node = Node("try", body=[Node("block", body=parse_seq(s[j + 1:e]))])
        j = e + 1
        while True:
            k = skip_ws(s, j)
            m = re.match(r"catch\b\s*\(", s[k:])
            if not m: break
            p = k + m.end() - 1
            q = match_close(s, p)
            b = skip_ws(s, q + 1)
            need(b < len(s) and s[b] == "{", "catch without a block")
            e = match_close(s, b)
            node.handlers.append((" ".join(s[p + 1:q].split()), Node("block", body=parse_seq(s[b + 1:e]))))
            j = e + 1
        need(node.handlers, "try without catch")
        return node, j
    if re.match(r"(do|catch|goto|switch)\b", s[i:]):
        raise GenError("unsupported control construct near: " + s[i:i + 40])
    # plain statement: up to ';' at bracket depth 0
    j, depth = i, 0
    while j < len(s):
        c = s[j]
        if c == '"' or c == "'":
            k = j + 1
            while s[k] != c: k += 2 if s[k] == "\\" else 1
            j = k + 1; continue
        if c in OPEN: depth += 1
        elif c in CLOSE: depth -= 1
        elif c == ";" and depth == 0:
            return Node("stmt", text=" ".join(s[i:j].split())), j + 1
        j += 1
    raise GenError("unterminated statement near: " + s[i:i + 60])


def parse_seq(s):
    res, i = [], 0
    while True:
        node, i = parse_stmt(s, i)
        if node is None: return res
        res.append(node)


def last_stmt(nodes):
    """text of the last plain statement executed by a statement sequence that ends in one, else None"""
    if not nodes: return None
    nd = nodes[-1]
    if nd.kind == "stmt": return nd.text
    if nd.kind == "block": return last_stmt(nd.body)
    return None


def walk(nodes, ctx=()):
    """yield (statement text, ctx) in source order; ctx = tuple of (kind, head, uid-of-the-node) with kind one of
    'for' | 'while' | 'if' | 'else' | 'try' | 'catch' ('catch' only for handlers that end by throwing)"""
    for nd in nodes:
        if nd.kind == "stmt":
            yield nd.text, ctx
        elif nd.kind == "block":
            for x in walk(nd.body, ctx): yield x
        elif nd.kind == "if":
            for x in walk(nd.body, ctx + (("if", nd.head, nd.uid),)): yield x
            for x in walk(nd.orelse, ctx + (("else", nd.head, nd.uid),)): yield x
        elif nd.kind == "try":
            for x in walk(nd.body, ctx + (("try", "", nd.uid),)): yield x
            for head, blk in nd.handlers:
                ls = last_stmt([blk])
                need(ls is not None and re.match(r"throw\b", ls), "catch (%s) handler that does not end by throwing: execution would continue after it" % head)
                for x in walk([blk], ctx + (("catch", head, nd.uid),)): yield x
        else:
            for x in walk(nd.body, ctx + ((nd.kind, nd.head, nd.uid),)): yield x


# ------------------------------------------------------------------------------------------------ expressions
TOK = re.compile(r"\s*(?:(\d+)(?:[uUlL]*)|(sizeof)\s*\(\s*([\w:<> ]+?)\s*\)|((?:this->)?[A-Za-z_]\w*(?:\[[^\]]*\])?)|(<<|[-+*/%()]))")


def tokenize(e):
    toks, i = [], 0
    e = e.strip()
    while i < len(e):
        m = TOK.match(e, i)
        need(m and m.end() > i, "cannot tokenise expression: %r at %r" % (e, e[i:]))
        if m.group(1) is not None: toks.append(("num", int(m.group(1))))
        elif m.group(2): toks.append(("sizeof", m.group(3).strip()))
        elif m.group(4): toks.append(("id", re.sub(r"\s+", "", m.group(4))))
        else: toks.append(("op", m.group(5)))
        i = m.end()
    return toks


class Expr:
    """translated expression: Lean text + (value if closed)"""
    def __init__(self, lean, val=None):
        self.lean, self.val = lean, val


CAST = re.compile(r"\b(?:size_t|uint64_t|uint32_t|unsigned)\s*\(")


def translate(e, env, sizes, subs=None):
    """C unsigned-integer expression -> Lean Nat expression.  env: C name -> Lean name (or int constant).
    Function-style casts to an unsigned type of a non-negative value are the identity on Nat.
    subs: if a list, every subtraction `a - b` met is appended as (lean a, lean b) so that the caller can state
    when the unsigned subtraction would wrap around (Lean's subtraction truncates at 0 instead)."""
    toks = tokenize(CAST.sub("(", e))
    pos = [0]

    def peek():
        return toks[pos[0]] if pos[0] < len(toks) else (None, None)

    def take():
        t = peek(); pos[0] += 1; return t

    def binop(op, a, b):
        v = None
        if a.val is not None and b.val is not None:
            v = {"+": a.val + b.val, "-": max(a.val - b.val, 0), "*": a.val * b.val, "%": a.val % b.val if b.val else None,
                 "/": a.val // b.val if b.val else None, "<<": a.val << b.val}[op]
        if op == "<<":
            need(b.val is not None, "shift by a non-constant")
            return Expr("(%s * %d)" % (a.lean, 1 << b.val), v)
        if op == "-" and subs is not None:
            subs.append((a.lean, b.lean))
        return Expr("(%s %s %s)" % (a.lean, op, b.lean), v)

    def primary():
        k, v = take()
        if k == "num": return Expr(str(v), v)
        if k == "sizeof":
            need(v in sizes, "sizeof of unknown type: " + v)
            return Expr(str(sizes[v]), sizes[v])
        if k == "id":
            need(v in env, "unknown identifier in size expression: %s (in %r)" % (v, e))
            t = env[v]
            return Expr(str(t), t) if isinstance(t, int) else Expr(t)
        if k == "op" and v == "(":
            x = shift()
            need(take() == ("op", ")"), "missing ) in " + e)
            return x
        raise GenError("unexpected token %r in %r" % (v, e))

    def mul():
        x = primary()
        while peek() in (("op", "*"), ("op", "/"), ("op", "%")):
            op = take()[1]; x = binop(op, x, primary())
        return x

    def add():
        x = mul()
        while peek() in (("op", "+"), ("op", "-")):
            op = take()[1]; x = binop(op, x, mul())
        return x

    def shift():
        x = add()
        while peek() == ("op", "<<"):
            take(); x = binop("<<", x, add())
        return x

    r = shift()
    need(pos[0] == len(toks), "trailing tokens in " + e)
    return r


def split_top(s, sep):
    """split at `sep` outside brackets"""
    parts, depth, cur, i = [], 0, "", 0
    while i < len(s):
        c = s[i]
        if c in OPEN: depth += 1
        if c in CLOSE: depth -= 1
        if depth == 0 and s.startswith(sep, i):
            parts.append(cur); cur = ""; i += len(sep); continue
        cur += c; i += 1
    parts.append(cur)
    return [p.strip() for p in parts]


def cond_identifiers(c):
    """identifiers (with one subscript, as the expression tokenizer reads them) of a C condition; None if it has
    something else than identifiers, numbers, casts, arithmetic and comparison operators"""
    c = CAST.sub("(", c)
    ids, i = set(), 0
    while i < len(c):
        if c[i].isspace(): i += 1; continue
        m = re.compile(r"(?:this->)?[A-Za-z_]\w*(?:\[[^\]]*\])?").match(c, i)
        if m:
            j = m.end()
            if j < len(c) and c[j] in "([.":      # a call, a second subscript, a member access
                return None
            if c.startswith("->", j) or c.startswith("::", j): return None
            ids.add(re.sub(r"\s+", "", m.group(0))); i = j; continue
        m = re.compile(r"\d+[uUlL]*|\|\||&&|[!=<>]=|[-+*/%()<>]").match(c, i)
        if not m: return None
        i = m.end()
    return ids


def translate_cond(c, env, sizes):
    """C condition over unsigned quantities -> Lean Bool expression.
    Grammar: disjunction of conjunctions of single comparisons `a OP b` (OP one of != == < <= > >=); no negation,
    no parenthesised boolean sub-expression.  An unsigned subtraction is accepted only on one side of `!=`: there a
    wrap-around (a < b in `a - b`) makes the two sides differ (a wrapped value is >= 2^64 - b, the other side is a
    size far below that: the no-wrap-around assumption of the check), which is emitted as an extra disjunct."""
    def comparison(t):
        for op in ("!=", "==", "<=", ">="):
            ps = split_top(t, op)
            if len(ps) == 2: return op, ps
        for op in ("<", ">"):
            ps = [x for x in split_top(t.replace("<<", "\0"), op)]
            if len(ps) == 2: return op, [x.replace("\0", "<<") for x in ps]
        raise GenError("condition is not a single comparison: %r (in %r)" % (t, c))

    def conj(t):
        op, (l, r) = comparison(t)
        subs = []
        a, b = translate(l, env, sizes, subs), translate(r, env, sizes, subs)
        if op == "!=":
            wrap = ["decide (%s < %s)" % ab for ab in subs]
            core = "(%s != %s)" % (a.lean, b.lean)
            return "(" + " || ".join(wrap + [core]) + ")" if wrap else core
        need(not subs, "unsigned subtraction inside a `%s` comparison is not understood: %r" % (op, t))
        if op == "==": return "(%s == %s)" % (a.lean, b.lean)
        return "decide (%s %s %s)" % (a.lean, {"<": "<", "<=": "≤", ">": ">", ">=": "≥"}[op], b.lean)

    need("!" not in c.replace("!=", ""), "negation in a condition is not understood: " + c)
    ors = []
    for d in split_top(c, "||"):
        ands = [conj(t) for t in split_top(d, "&&")]
        ors.append(ands[0] if len(ands) == 1 else "(" + " && ".join(ands) + ")")
    return ors[0] if len(ors) == 1 else "(" + " || ".join(ors) + ")"


# ------------------------------------------------------------------------------------------------ measured constants
ELEM_TYPES = ["uint32_t", "uint64_t", "float", "double", "char", "double_ptr", "char_ptr", "char_ptr_ptr", "double_ptr_ptr",
              "float_ptr", "uint32_t_ptr", "uint64_t_ptr", "char_ptr_ptr_ptr"]


def measure(repo):
    src = ["#include <cstdio>", "#include <fitsio.h>", "#include <photospline/splinetable.h>",
           "typedef photospline::splinetable<> T;", "int main(){"]
    src.append('printf("FLEN_KEYWORD %zu\\n",(size_t)FLEN_KEYWORD); printf("FLEN_VALUE %zu\\n",(size_t)FLEN_VALUE);')
    src.append('printf("splinetable<Alloc> %zu\\n",sizeof(T));')
    for t in ELEM_TYPES:
        q = ("T::" + t) if t.endswith("_ptr") else t
        src.append('printf("%s %%zu\\n",sizeof(%s));' % (t, q))
    src.append("return 0;}")
    d = tempfile.mkdtemp(prefix="psv-genc19-")
    try:
        cpp, exe = os.path.join(d, "m.cpp"), os.path.join(d, "m")
        open(cpp, "w").write("\n".join(src))
        r = subprocess.run(["g++", "-std=c++11", "-w", "-O0", "-I" + os.path.join(repo, "include"), cpp, "-o", exe],
                           stdout=subprocess.PIPE, stderr=subprocess.STDOUT, text=True)
        need(r.returncode == 0, "cannot compile the sizeof probe: " + r.stdout[-800:])
        out = subprocess.run([exe], stdout=subprocess.PIPE, text=True).stdout
    finally:
        subprocess.run(["rm", "-rf", d])
    res = {}
    for line in out.splitlines():
        k, v = line.rsplit(" ", 1); res[k] = int(v)
    need("FLEN_KEYWORD" in res and "splinetable<Alloc>" in res, "sizeof probe printed nothing")
    return res


# ------------------------------------------------------------------------------------------------ estimateMemory
def lhs_of(stmt):
    """name assigned by a statement (declaration with initialiser, =, op=, ++/--), or None"""
    m = re.match(r"(?:const\s+)?(?:[\w:<>]+\s+)?((?:this->)?\w+(?:\[[^\]]*\])?)\s*(=(?!=)|[-+*/%&|^]=|<<=|>>=|\+\+|--)", stmt)
    return (re.sub(r"\s+", "", m.group(1)), m.group(2)) if m else None


def gen_estimate(fits_src, sizes, consts):
    body = function_body(fits_src, r"splinetable<Alloc>::estimateMemory\s*\(")
    stmts = list(walk(parse_seq(body)))
    tracked = {"size", "order[convolution_dimension]", "order[i]", "nknots", "naxes[i]", "ncoeffs", "naux", "KB", "dim"}
    info = {"size_terms": [], "loop_terms": []}
    DIMLOOP = re.compile(r"^int i = 0\s*;\s*i < dim\s*;\s*i\+\+$")
    CONVCOND = re.compile(r"^unsigned\s*\(\s*i\s*\)\s*==\s*convolution_dimension$")
    seen_movnam_in_loop = False
    naux_pos = None
    out = {}
    for idx, (st, ctx) in enumerate(stmts):
        need(all(k in ("for", "while", "if", "else") for k, h, _ in ctx), "estimateMemory: try/catch is not understood here")
        loops = [h for k, h, _ in ctx if k in ("for", "while")]
        conds = [(k, h) for k, h, _ in ctx if k in ("if", "else")]
        if "fits_movnam_hdu" in st or "fits_movabs_hdu" in st or "fits_movrel_hdu" in st:
            if "fits_movabs_hdu" in st:
                need(re.search(r"fits_movabs_hdu\s*\(\s*fits\s*,\s*1\s*,", st) and not loops and "naux_hdu" not in out, "unexpected fits_movabs_hdu: " + st)
                need(naux_pos is None, "HDU moved back after counting aux keywords")
            elif "fits_movnam_hdu" in st:
                need(len(loops) == 1 and DIMLOOP.match(loops[0]), "fits_movnam_hdu outside the knot loop: " + st)
                seen_movnam_in_loop = True
            else:
                raise GenError("unexpected HDU move: " + st)
        a = lhs_of(st)
        # the local `long nknots;` declaration has no initialiser and is filled by fits_get_img_size
        if a is None:
            need(not re.search(r"\b(size|ncoeffs|naux|KB)\b\s*(\+\+|--)", st), "unrecognised update: " + st)
            continue
        name, op = a
        if name not in tracked:
            continue
        if name == "size":
            if op == "=" and re.match(r"size_t size\s*=", st):
                need(not ctx and "init" not in out, "size initialised twice or inside a block")
                out["init"] = st.split("=", 1)[1].strip()
            elif op == "+=":
                rhs = st.split("+=", 1)[1].strip()
                if not ctx:
                    info["size_terms"].append(rhs)
                else:
                    need(len(loops) == 1 and DIMLOOP.match(loops[0]) and not conds, "size += in an unexpected context: %s / %s" % (st, ctx))
                    info["loop_terms"].append(rhs)
            else:
                raise GenError("unrecognised assignment to size: " + st)
        elif name == "order[convolution_dimension]":
            need(op == "+=" and not ctx and "order_adj" not in out, "unrecognised update of order[convolution_dimension]: " + st)
            need(not info["loop_terms"], "order adjusted after the knot loop")
            out["order_adj"] = st.split("+=", 1)[1].strip()
        elif name == "nknots":
            need(op == "*=" and len(loops) == 1 and DIMLOOP.match(loops[0]) and len(conds) == 1 and conds[0][0] == "if" and CONVCOND.match(conds[0][1]),
                 "unrecognised update of nknots: %s / %s" % (st, ctx))
            need("nknots_adj" not in out and not info["loop_terms"], "nknots adjusted twice or after use")
            out["nknots_adj"] = st.split("*=", 1)[1].strip()
        elif name == "naxes[i]":
            need(op == "=" and len(loops) == 1 and DIMLOOP.match(loops[0]) and len(conds) == 1 and conds[0][0] == "if" and CONVCOND.match(conds[0][1]),
                 "unrecognised update of naxes[i]: %s / %s" % (st, ctx))
            need("nknots_adj" in out and "naxes_adj" not in out, "naxes[i] assigned before nknots is scaled, or twice")
            out["naxes_adj"] = st.split("=", 1)[1].strip()
        elif name == "ncoeffs":
            need(not ctx and re.match(r"int64_t ncoeffs = std::accumulate\(naxes\.begin\(\),\s*naxes\.end\(\),\s*\(int64_t\)1,\s*std::multiplies<int64_t>\(\)\)$", st)
                 and "ncoeffs" not in out, "unrecognised definition of ncoeffs: " + st)
            need(info["loop_terms"] and "naxes_adj" in out, "ncoeffs computed before the knot loop")
            out["ncoeffs"] = True
        elif name == "naux":
            need(not ctx and re.match(r"uint32_t naux = countAuxKeywords\(fits\)$", st) and "naux_hdu" not in out, "unrecognised definition of naux: " + st)
            out["naux_hdu"] = "lastKnots" if seen_movnam_in_loop else "primary"
            naux_pos = idx
        elif name == "KB":
            need(not ctx and re.match(r"const size_t KB\s*=", st) and "KB" not in out, "unrecognised definition of KB: " + st)
            out["KB"] = st.split("=", 1)[1].strip()
        elif name in ("dim", "order[i]"):
            raise GenError("unexpected assignment to %s: %s" % (name, st))
    for k in ("init", "order_adj", "nknots_adj", "naxes_adj", "ncoeffs", "naux_hdu", "KB"):
        need(k in out, "estimateMemory: did not find " + k)
    need(len(info["loop_terms"]) >= 1 and len(info["size_terms"]) >= 2, "estimateMemory: too few size terms")
    need(re.search(r"return\s*\(?\s*size\s*\)?$", stmts[-1][0]), "estimateMemory does not end with return(size)")
    # the last top-level `size +=` is the rounding statement (it mentions size itself)
    rounding = [t for t in info["size_terms"] if re.search(r"\bsize\b", t)]
    plain = [t for t in info["size_terms"] if not re.search(r"\bsize\b", t)]
    need(len(rounding) == 1 and info["size_terms"][-1] == rounding[0], "rounding statement is not the last size update")
    need(all(not re.search(r"\bsize\b", t) for t in info["loop_terms"]), "loop term mentions size")

    kb = translate(out["KB"], {}, sizes)
    need(kb.val is not None and kb.val > 0, "KB is not a positive constant")
    env_fixed = {"dim": "dim", "ncoeffs": "ncoeffs", "naux": "naux", "FLEN_KEYWORD": consts["FLEN_KEYWORD"], "FLEN_VALUE": consts["FLEN_VALUE"]}
    res = {
        "init_src": out["init"],
        "order_adj_src": out["order_adj"], "order_adj": translate("order + (" + out["order_adj"] + ")", {"order": "order", "n_convolution_knots": "n"}, sizes).lean,
        "nknots_adj_src": out["nknots_adj"], "nknots_adj": translate("nknots * (" + out["nknots_adj"] + ")", {"nknots": "nknots", "n_convolution_knots": "n"}, sizes).lean,
        "naxes_adj_src": out["naxes_adj"], "naxes_adj": translate(out["naxes_adj"], {"nknots": "nknots", "order[i]": "order"}, sizes).lean,
        "loop_terms_src": info["loop_terms"], "loop_terms": [translate(t, {"nknots": "nknots", "order[i]": "order"}, sizes).lean for t in info["loop_terms"]],
        "fixed_src": plain, "fixed": [translate(t, env_fixed, sizes).lean for t in plain],
        "rounding_src": rounding[0], "rounding": translate(rounding[0], {"size": "size", "KB": kb.val}, sizes).lean,
        "KB_src": out["KB"], "KB": kb.val, "naux_hdu": out["naux_hdu"],
    }
    need(re.match(r"sizeof\s*\(\s*splinetable<Alloc>\s*\)$", out["init"]), "size is not initialised with sizeof(splinetable<Alloc>): " + out["init"])
    return res


# ------------------------------------------------------------------------------------------------ call sites
def member_types(header_src):
    types = {}
    for m in re.finditer(r"^\s*(\w+_ptr)\s+(\w+)\s*;", header_src, re.M):
        types[m.group(2)] = m.group(1)
    for k in ("order", "knots", "nknots", "extents", "periods", "coefficients", "naxes", "strides", "aux"):
        need(k in types, "member %s not found in splinetable.h" % k)
    return types


def split_top_commas(s):
    parts, depth, cur = [], 0, ""
    for c in s:
        if c in OPEN: depth += 1
        if c in CLOSE: depth -= 1
        if c == "," and depth == 0:
            parts.append(cur); cur = ""
        else:
            cur += c
    parts.append(cur)
    return [p.strip() for p in parts]


ALLOWED_CONDS = {("if", "nkeys > 0")}   # a FITS header always has cards; stated as an assumption of the check

PTR_LHS = re.compile(r"^((?:this->)?)(\w+)((?:\s*\[[^\]]*\])*)\s*=(?!=)\s*(.*)$")


def local_names(body):
    """locals of the function that shadow members (convolve keeps unique_ptr copies called naxes, strides, coefficients)"""
    return set(re.findall(r"std::unique_ptr<[^;{}]*?>\s+(\w+)\s*\(", body))


def check_pointer_assignments(stmts, func, mtypes, shadows):
    """Every assignment to a pointer-valued member (array pointer, or element of an array of pointers) must be
    understood: an allocate call (plus the `+ order[i]` offset of the knot vectors), a null, a local that was itself
    assigned from an allocate call, or the alias `extents[i] = &extents[0][...]`.  Returns what it saw."""
    alloc_locals = set()
    for st, _ in stmts:
        m = re.match(r"^(\w+)\s*=\s*allocate\s*<", st)
        if m and m.group(1) not in mtypes: alloc_locals.add(m.group(1))
    for name in alloc_locals:
        need(any(re.match(r"^\w+_ptr\s+%s$" % re.escape(name), st) for st, _ in stmts), "%s: local %s receives an allocate result but is not declared as a *_ptr" % (func, name))
    seen = {"allocate": 0, "null": 0, "local": 0, "alias": 0}

    def check(st, whole):
        m = PTR_LHS.match(st)
        if not m: return False
        this, base, subs, rhs = m.group(1), m.group(2), m.group(3), m.group(4).strip()
        if base not in mtypes or (not this and base in shadows): return False
        depth = mtypes[base].count("_ptr") - subs.count("[")
        need(depth >= 0, "%s: too many subscripts: %s" % (func, whole))
        if depth == 0: return False           # an element (number / character), not a pointer
        if re.match(r"^allocate\s*<\s*[\w:]+\s*>\s*\(", rhs):
            q = match_close(rhs, rhs.index("("))
            tail = rhs[q + 1:].strip()
            need(tail == "" or re.match(r"^\+\s*order\[i\]$", tail), "%s: unexpected arithmetic on an allocate result: %s" % (func, whole))
            seen["allocate"] += 1
        elif rhs in ("nullptr", "NULL", "0"):
            seen["null"] += 1
        elif rhs in alloc_locals:
            seen["local"] += 1
        elif base == "extents" and subs.count("[") == 1 and re.match(r"^&\s*extents\[0\]\[[^\]]*\]$", rhs):
            seen["alias"] += 1
        elif check(rhs, whole):                # chained assignment  a = b = NULL
            pass
        else:
            raise GenError("%s: pointer member assigned something the translator does not understand: %s" % (func, whole))
        return True

    for st, _ in stmts:
        check(st, st)
    return seen


def check_guard(stmts, func, head_src, site_positions):
    """`storage_guard g(this);` releases the whole table from its destructor unless dismissed.  On the path that
    returns normally it must therefore be dismissed: unconditionally, after the last allocator call."""
    decl = [(k, st, ctx) for k, (st, ctx) in enumerate(stmts) if re.match(r"^storage_guard\b", st)]
    if not decl:
        need(not any("storage_guard" in st for st, _ in stmts), "%s: storage_guard used in a way the translator does not understand" % func)
        return None
    need(len(decl) == 1, "%s: more than one storage_guard" % func)
    k, st, ctx = decl[0]
    m = re.match(r"^storage_guard\s+(\w+)\s*\(\s*this\s*\)$", st)
    need(m and not ctx, "%s: unrecognised storage_guard declaration: %s" % (func, st))
    g = m.group(1)
    gdef = re.search(r"struct\s+storage_guard\s*\{(.*?)\}\s*;", head_src, re.S)
    need(gdef, "storage_guard is not defined in splinetable.h")
    need(re.search(r"~storage_guard\s*\(\s*\)\s*\{\s*if\s*\(\s*table\s*\)\s*table->release_storage\s*\(\s*\)\s*;\s*\}", gdef.group(1))
         and re.search(r"void\s+dismiss\s*\(\s*\)\s*\{\s*table\s*=\s*(NULL|nullptr|0)\s*;\s*\}", gdef.group(1)),
         "storage_guard no longer is `~storage_guard(){ if(table) table->release_storage(); }` with `dismiss(){ table=NULL; }`")
    uses = [(j, s2, c2) for j, (s2, c2) in enumerate(stmts) if j != k and re.search(r"\b%s\b\s*[.=(]" % re.escape(g), s2) and not re.match(r"^storage_guard\b", s2)]
    need(len(uses) == 1 and re.match(r"^%s\s*\.\s*dismiss\s*\(\s*\)$" % re.escape(g), uses[0][1]) and not uses[0][2],
         "%s: the storage guard is not dismissed exactly once, unconditionally: %s" % (func, [u[1] for u in uses]))
    need(uses[0][0] > k and all(p < uses[0][0] for p in site_positions) , "%s: allocator calls after the storage guard is dismissed" % func)
    return {"declared": st, "dismissed": uses[0][1], "allocator_calls_before_guard": sum(1 for p in site_positions if p < k)}


def reject_conditions(stmts, func, env, sizes, loop_re):
    """conditions of `if (c) throw …;` whose identifiers are all in env (the shape quantities of the model), inside the
    loop matched by loop_re (None: top level), as Lean Bool expressions.  Throws guarded by other quantities (cfitsio
    status, knot values, …) reject further files and are outside the size model."""
    res, skipped = [], []
    for st, ctx in stmts:
        if not re.match(r"^throw\b", st): continue
        loops = [h for k, h, _ in ctx if k in ("for", "while")]
        if loop_re is None:
            if loops: continue
        elif not (len(loops) == 1 and re.search(loop_re, loops[0])): continue
        conds = [(k, h) for k, h, _ in ctx if k not in ("for", "while")]
        if len(conds) != 1 or conds[0][0] != "if":
            skipped.append(" / ".join("%s(%s)" % kh for kh in conds)); continue
        ids = cond_identifiers(conds[0][1])
        if ids is None or not ids or not ids <= set(env):
            skipped.append(conds[0][1]); continue
        res.append((conds[0][1], translate_cond(conds[0][1], env, sizes)))
    return res, skipped


def gen_sites(body, func, sizes, mtypes, env, head_src, shape_updates=None, cond_env=None, allowed_conds=None):
    """-> (blocks, info); blocks: ('one', site) | ('forAux', [site]) | ('forDim', [site]) | ('updateShape',)"""
    blocks = []
    upd_seen = []
    failure_only = []
    positions = []
    if allowed_conds is None: allowed_conds = ALLOWED_CONDS
    stmts = list(walk(parse_seq(body)))

    def classify(ctx, st):
        """-> (kind, uid of the loop, lean condition, condition source) or None for a failure-path-only call"""
        loops = [(h, u) for k, h, u in ctx if k in ("for", "while")]
        cond, cond_src = [], []
        if any(k == "catch" for k, _, _ in ctx): return None
        in_loop = False
        for k, h, _ in ctx:
            if k in ("for", "while"): in_loop = True
            if k in ("for", "while", "try") or (k, h) in allowed_conds: continue
            need(k == "if" and in_loop and cond_env is not None,
                 "%s: allocator call under a condition the translator does not understand `%s(%s)`: %s" % (func, k, h, st))
            ids = cond_identifiers(h)
            need(ids is not None and ids and ids <= set(cond_env), "%s: allocator call under an unknown condition `%s`: %s" % (func, h, st))
            cond.append(translate_cond(h, cond_env, sizes)); cond_src.append(h)
        need(len(cond) <= 1, "%s: allocator call under nested conditions: %s" % (func, st))
        lean_cond = cond[0] if cond else "true"
        if not loops:
            need(not cond, "%s: conditional allocator call outside a loop: %s" % (func, st))
            return ("one", None, lean_cond, "")
        need(len(loops) == 1, "%s: allocation in a nested loop: %s" % (func, st))
        head, uid = loops[0]
        c = head.split(";")[1] if head.count(";") == 2 else ""
        need(re.search(r"\+\+\s*$", head), "%s: loop without unit increment: %s" % (func, head))
        if re.search(r"\bi\s*<\s*naux\b", c): return ("forAux", uid, lean_cond, " ".join(cond_src))
        need(not cond, "%s: conditional allocator call in a per-dimension loop: %s" % (func, st))
        if re.search(r"\bi\s*<\s*ndim\b", c) and re.search(r"\bi\s*=\s*0\b", head.split(";")[0]): return ("forDim", uid, lean_cond, "")
        raise GenError("%s: allocation in an unrecognised loop `%s`" % (func, head))

    for pos, (st, ctx) in enumerate(stmts):
        sites = []
        for m in re.finditer(r"\ballocate\s*<\s*([\w:]+)\s*>\s*\(", st):
            q = match_close(st, m.end() - 1)
            t = m.group(1)
            need(t in sizes, "%s: allocate of unknown element type %s" % (func, t))
            arg = st[m.end():q]
            sites.append({"kind": "alloc", "type": t, "elem": sizes[t], "src": arg, "count": translate(arg, env, sizes).lean, "stmt": st})
        for m in re.finditer(r"\bdeallocate\s*\(", st):
            q = match_close(st, m.end() - 1)
            parts = split_top_commas(st[m.end():q])
            need(len(parts) == 2, "%s: deallocate with %d arguments: %s" % (func, len(parts), st))
            pm = re.match(r"(?:this->)?(\w+)((?:\[[^\]]*\])*)", parts[0])
            need(pm and pm.group(1) in mtypes, "%s: deallocate of something that is not a member array: %s" % (func, parts[0]))
            t = mtypes[pm.group(1)]
            for _ in range(pm.group(2).count("[")):
                need(t.endswith("_ptr_ptr") or False, "%s: too many subscripts in %s" % (func, parts[0])); t = t[:-4]
            need(t.endswith("_ptr"), "not a pointer: " + parts[0]); t = t[:-4]
            need(t in sizes, "%s: deallocate of unknown element type %s" % (func, t))
            sites.append({"kind": "free", "type": t, "elem": sizes[t], "src": parts[1], "count": translate(parts[1], env, sizes).lean, "stmt": st, "ptr": parts[0]})
        need(len(sites) <= 1, "%s: more than one allocator call in one statement: %s" % (func, st))
        need(not sites or not re.match(r"^(return|throw)\b", st), "%s: allocator call in a return/throw statement: %s" % (func, st))
        if shape_updates is not None:
            for name, pat in shape_updates:
                if re.match(pat, st):
                    need(not ctx, "%s: shape update inside a block: %s" % (func, st))
                    need(name not in upd_seen, "%s: shape member %s updated twice" % (func, name))
                    if not upd_seen: blocks.append(("updateShape",))
                    else: need(blocks[-1] == ("updateShape",), "%s: allocator call between the shape updates" % func)
                    upd_seen.append(name)
            a = lhs_of(st)
            if a and (re.match(r"(this->)?(nknots|order)\[", a[0]) or re.match(r"this->(naxes|strides)\[", a[0])):
                need(any(re.match(p, st) for _, p in shape_updates), "%s: unrecognised update of the table shape: %s" % (func, st))
        if not sites: continue
        cl = classify(ctx, st)
        if cl is None:
            failure_only.append(st); continue
        kind, uid, lean_cond, cond_src = cl
        sites[0]["cond"], sites[0]["cond_src"] = lean_cond, cond_src
        positions.append(pos)
        if kind == "one": blocks.append(("one", sites[0]))
        elif blocks and blocks[-1][0] == kind and blocks[-1][2] == uid: blocks[-1][1].append(sites[0])
        else: blocks.append((kind, [sites[0]], uid))
    if shape_updates is not None:
        need(len(upd_seen) == len(shape_updates), "%s: not all shape updates found (%s)" % (func, upd_seen))
    need(any(b[0] != "updateShape" for b in blocks), "%s: no allocator calls found" % func)
    # a loop body is modelled as straight-line code with conditional calls: no `continue`/`break` may come after the
    # first allocator call of a loop body (before it, `continue` only selects which cards/dimensions are iterated)
    for b in blocks:
        if b[0] in ("forAux", "forDim"):
            inloop = [(pos, st) for pos, (st, ctx) in enumerate(stmts) if any(u == b[2] for _, _, u in ctx)]
            first = min(pos for pos, st in inloop if st == b[1][0]["stmt"])
            need(not any(pos > first and re.match(r"^(continue|break|return)\b", st) for pos, st in inloop),
                 "%s: continue/break/return after an allocator call inside a loop body" % func)
    info = {"failure_path_only": failure_only,
            "guard": check_guard(stmts, func, head_src, positions),
            "pointer_assignments": check_pointer_assignments(stmts, func, mtypes, local_names(body))}
    return [b[:2] for b in blocks], info, stmts


def lean_site(s):
    return "⟨.%s, %d, fun v => %s, fun v => %s⟩" % (s["kind"], s["elem"], s["count"], s["cond"])


def lean_blocks(blocks):
    lines = ["["]
    for k, b in enumerate(blocks):
        sep = "," if k < len(blocks) - 1 else ""
        if b[0] == "updateShape":
            lines.append("  .updateShape" + sep)
        elif b[0] == "one":
            lines.append("  .one %s%s   -- %s" % (lean_site(b[1]), sep, b[1]["stmt"]))
        else:
            lines.append("  .%s [" % b[0])
            for j, st in enumerate(b[1]):
                lines.append("      %s%s   -- %s%s" % (lean_site(st), "," if j < len(b[1]) - 1 else "", st["stmt"], ("   [if (%s)]" % st["cond_src"]) if st.get("cond_src") else ""))
            lines.append("    ]" + sep)
    lines.append("]")
    return "\n".join(lines)


# ------------------------------------------------------------------------------------------------ main
def generate(repo):
    fits_src = strip_comments(open(os.path.join(repo, "include/photospline/detail/fitsio.h")).read())
    conv_src = strip_comments(open(os.path.join(repo, "include/photospline/detail/convolve.h")).read())
    head_src = strip_comments(open(os.path.join(repo, "include/photospline/splinetable.h")).read())
    consts = measure(repo)
    sizes = {k: v for k, v in consts.items() if k not in ("FLEN_KEYWORD", "FLEN_VALUE", "splinetable<Alloc>")}
    for t in ELEM_TYPES: need(t in sizes, "sizeof(%s) not measured" % t)
    # allocate<T>/deallocate must still go through the allocator parameter
    ab = function_body(head_src, r"rebind_traits<T>::pointer\s+allocate\s*\(")
    need(re.search(r"other_alloc_traits::allocate\s*\(\s*other_alloc\s*,\s*n\s*\)", ab), "splinetable::allocate no longer forwards (other_alloc, n)")
    db = function_body(head_src, r"void\s+deallocate\s*\(")
    need(re.search(r"other_alloc_traits::deallocate\s*\(\s*other_alloc\s*,\s*buf\s*,\s*n\s*\)", db), "splinetable::deallocate no longer forwards (other_alloc, buf, n)")

    est = gen_estimate(fits_src, sizes, consts)
    mtypes = member_types(head_src)
    env_read = {"naux": "v.naux", "keylen": "v.keylen", "valuelen": "v.valuelen", "storedlen": "v.storedlen", "ndim": "v.ndim", "ncoeffs": "v.ncoeffs",
                "nknots[i]": "v.nknots", "order[i]": "v.order"}
    # quantities an `if` around an allocator call inside the per-card loop may compare
    env_auxcond = {"valuelen": "v.valuelen", "storedlen": "v.storedlen", "keylen": "v.keylen"}
    rbody = function_body(fits_src, r"splinetable<Alloc>::read_fits_core\s*\(")
    # how the reader obtains the symbols used in the counts
    need(re.search(r"uint64_t ncoeffs\s*=\s*strides\[0\]\s*\*\s*naxes\[0\]\s*;", rbody), "read_fits_core: ncoeffs is no longer strides[0]*naxes[0]")
    need(re.search(r"keylen\s*=\s*strlen\(key\)\s*\+\s*1\s*;", rbody) and re.search(r"valuelen\s*=\s*strlen\(value\)\s*\+\s*1\s*;", rbody),
         "read_fits_core: keylen/valuelen are no longer strlen+1")
    if re.search(r"\bstoredlen\b", rbody):
        need(len(re.findall(r"\bstoredlen\s*(?:=(?!=)|\+\+|--|[-+*/]=)", rbody)) == 1 and
             re.search(r"size_t storedlen\s*=\s*strlen\(\s*&aux\[i\]\[1\]\[0\]\s*\)\s*\+\s*1\s*;", rbody),
             "read_fits_core: storedlen is no longer strlen(&aux[i][1][0])+1, assigned once")
    read_blocks, read_info, rstmts = gen_sites(rbody, "read_fits_core", sizes, mtypes, env_read, head_src, cond_env=env_auxcond)
    # shape validation of the reader: `if (c) throw` in the per-dimension knot loop, c over nknots[i], order[i], naxes[i]
    rej, rej_skipped = reject_conditions(rstmts, "read_fits_core", {"nknots[i]": "nknots", "order[i]": "order", "naxes[i]": "naxes"}, sizes,
                                         r"^unsigned i = 0\s*;\s*i < ndim\s*;\s*i\+\+$")
    need(re.search(r"nknots\[i\]\s*=\s*nknots_temp\s*;", rbody) or not rej, "read_fits_core: nknots[i] is no longer the size of the KNOTSi image")
    cbody = function_body(conv_src, r"splinetable<Alloc>::convolve\s*\(")
    # `this->naxes[0]*this->strides[0]` is the old coefficient count (members, not the shadowing locals)
    cbody2, nsub = re.subn(r"this->naxes\[0\]\s*\*\s*this->strides\[0\]", "OLDNCOEFFS", cbody)
    env_conv = {"OLDNCOEFFS": "v.ncoeffs", "arraysize": "v.arraysize", "nknots[i]": "v.nknots", "order[i]": "v.order", "ndim": "v.ndim"}
    upd = [("nknots", r"this->nknots\[dim\]\s*=\s*n_rho$"), ("order", r"this->order\[dim\]\s*=\s*convorder$"), ("naxes", r"this->naxes\[dim\]\s*=\s*naxes\[dim\]$")]
    conv_blocks, conv_info, cstmts = gen_sites(cbody2, "convolve", sizes, mtypes, env_conv, head_src, shape_updates=upd)
    # argument checks of convolve: top-level `if (c) throw` over dim, ndim, n_conv_knots; they must precede every allocator call
    crej, crej_skipped = reject_conditions(cstmts, "convolve", {"dim": "dim", "ndim": "ndim", "n_conv_knots": "n"}, sizes, None)
    first_site = min(k for k, (st, _) in enumerate(cstmts) if re.search(r"\b(de)?allocate\s*[<(]", st))
    for src, _ in crej:
        k = next(k for k, (st, ctx) in enumerate(cstmts) if re.match(r"^throw\b", st) and any(h == src for _, h, _ in ctx))
        need(k < first_site, "convolve: argument check `%s` comes after an allocator call" % src)
    # definitions of the locals the post-convolution shape is made of (pattern check; their meaning is tied by the event comparison)
    for pat, what in [(r"const uint32_t convorder\s*=\s*order\[dim\]\s*\+\s*n_conv_knots\s*-\s*1\s*;", "convorder"),
                      (r"naxes\[dim\]\s*=\s*n_rho\s*-\s*convorder\s*-\s*1\s*;", "naxes[dim]"),
                      (r"for \(uint32_t i = 0; i < nknots\[dim\]; i\+\+\)\s*for \(uint32_t j = 0; j < n_conv_knots; j\+\+\)\s*rho\[n_rho\+\+\]", "n_rho")]:
        need(re.search(pat, cbody), "convolve: definition of %s changed" % what)

    # ---- the destructor: what a table that was loaded (and convolved) gives back to the allocator
    dbody = function_body(head_src, r"~splinetable\s*\(")
    need(re.search(r"uint64_t ncoeffs\s*=\s*strides\[0\]\s*\*\s*naxes\[0\]\s*;", dbody), "~splinetable: ncoeffs is no longer strides[0]*naxes[0]")
    # the sizes of the two strings of an entry are recomputed from their contents: the key block holds a string of
    # keylen-1 characters, the value block the stored string (storedlen is defined by the reader as exactly this strlen+1)
    dbody2, nk = re.subn(r"strlen\(\s*&aux\[i\]\[0\]\[0\]\s*\)\s*\+\s*1", "KEYLEN", dbody)
    dbody2, nv = re.subn(r"strlen\(\s*&aux\[i\]\[1\]\[0\]\s*\)\s*\+\s*1", "STOREDLEN", dbody2)
    need(nk == 1 and nv == 1 and "strlen" not in dbody2, "~splinetable: the sizes released for key and value are no longer strlen+1 of the stored strings")
    need(re.search(r"std::copy\(\s*key\s*,\s*key\s*\+\s*keylen\s*,\s*aux\[i\]\[0\]\s*\)", rbody),
         "read_fits_core: the key block no longer receives the key string (needed for the size the destructor releases)")
    # `if (ndim)`: a loaded table has at least one dimension (Valid.cdim_lt / NAXIS >= 1 is required by the reader);
    # `if (extents)`, `if (periods)`: both are requested unconditionally by read_fits_core (checked here)
    one_stmts = [b[1]["stmt"] for b in read_blocks if b[0] == "one"]
    for mem in ("extents", "periods"):
        need(any(re.match(r"^%s\s*=\s*allocate\s*<" % mem, st) for st in one_stmts),
             "read_fits_core no longer allocates %s unconditionally: the destructor's `if (%s)` is not known to hold" % (mem, mem))
    env_destroy = {"ndim": "v.ndim", "naux": "v.naux", "ncoeffs": "v.ncoeffs", "nknots[i]": "v.nknots", "order[i]": "v.order",
                   "KEYLEN": "v.keylen", "STOREDLEN": "v.storedlen"}
    destroy_blocks, destroy_info, dstmts = gen_sites(dbody2, "~splinetable", sizes, mtypes, env_destroy, head_src,
                                                     allowed_conds={("if", "ndim"), ("if", "extents"), ("if", "periods")})
    need(all(s["kind"] == "free" for b in destroy_blocks for s in ([b[1]] if b[0] == "one" else b[1])), "~splinetable: the destructor allocates")
    need(not any(re.match(r"^(return|throw|continue|break)\b", st) for st, _ in dstmts), "~splinetable: early exit in the destructor")
    # ---- routines that work on a loaded table without the table's allocator (scratch memory is new[]/std::vector)
    perm_src = strip_comments(open(os.path.join(repo, "include/photospline/detail/permute.h")).read())
    need(not re.search(r"\b(de)?allocate\s*[<(]", perm_src), "permute.h: permuteDimensions now calls the table's allocator (it used new[] scratch only)")
    # ---- in the two anchored files the allocator is called from nowhere but the two modelled functions
    for src, body, name in ((fits_src, rbody, "fitsio.h/read_fits_core"), (conv_src, cbody, "convolve.h/convolve")):
        need(len(re.findall(r"\b(?:de)?allocate\s*[<(]", src)) == len(re.findall(r"\b(?:de)?allocate\s*[<(]", body)),
             "%s: allocator calls outside the modelled function" % name)

    L = []
    L.append("import PsV.Model.AllocBase")
    L.append("/-! GENERATED by tools/gen_c19.py from the photospline source tree — do not edit.")
    L.append("    Regenerated on every run of the C19 check; the C19 theorems are stated about these definitions. -/")
    L.append("set_option linter.unusedVariables false")
    L.append("namespace PsV.Generated.C19")
    L.append("open PsV.C19")
    L.append("")
    L.append("/-- `FLEN_KEYWORD`, `FLEN_VALUE` of <fitsio.h>; `sizeof(splinetable<>)` (default allocator), measured. -/")
    L.append("def FLEN_KEYWORD : Nat := %d" % consts["FLEN_KEYWORD"])
    L.append("def FLEN_VALUE : Nat := %d" % consts["FLEN_VALUE"])
    L.append("def sizeofSplinetable : Nat := %d" % consts["splinetable<Alloc>"])
    L.append("")
    L.append("/-! ## estimateMemory (fitsio.h) -/")
    L.append("/-- `size_t size = %s;` -/" % est["init_src"])
    L.append("def sizeInit (sizeofTable : Nat) : Nat := sizeofTable")
    L.append("/-- `order[convolution_dimension] += %s;` -/" % est["order_adj_src"])
    L.append("def orderAdj (order n : Nat) : Nat := %s" % est["order_adj"])
    L.append("/-- `if (unsigned(i) == convolution_dimension) nknots *= %s;` -/" % est["nknots_adj_src"])
    L.append("def nknotsAdj (nknots n : Nat) : Nat := %s" % est["nknots_adj"])
    L.append("/-- `naxes[i] = %s;` (same branch, after the two adjustments above) -/" % est["naxes_adj_src"])
    L.append("def naxesAdj (nknots order : Nat) : Nat := %s" % est["naxes_adj"])
    L.append("/-- `size += …` inside `for (int i = 0; i < dim; i++)`: %s -/" % " ; ".join(est["loop_terms_src"]))
    L.append("def knotTerms (nknots order : Nat) : List Nat := [%s]" % ", ".join(est["loop_terms"]))
    L.append("/-- the top-level `size += …` statements, in source order:")
    for s in est["fixed_src"]: L.append("      size += %s;" % s)
    L.append("-/")
    L.append("def fixedTerms (dim ncoeffs naux : Nat) : List Nat :=\n  [%s]" % ",\n   ".join(est["fixed"]))
    L.append("/-- `const size_t KB = %s;`  `size += %s;` -/" % (est["KB_src"], est["rounding_src"]))
    L.append("def KB : Nat := %d" % est["KB"])
    L.append("def roundingTerm (size : Nat) : Nat := %s" % est["rounding"])
    L.append("/-- which header `countAuxKeywords(fits)` reads: the call comes %s the `fits_movnam_hdu` loop over the KNOTS extensions -/" %
             ("AFTER" if est["naux_hdu"] == "lastKnots" else "before"))
    L.append("def nauxCounted (primaryHdu lastKnotsHdu : Nat) : Nat := %s" % ("lastKnotsHdu" if est["naux_hdu"] == "lastKnots" else "primaryHdu"))
    L.append("")
    L.append("/-! ## validation -/")
    L.append("/-- read_fits_core, per dimension (in the loop over the KNOTSi extensions): the file is rejected (`throw`) when")
    for src, _ in rej: L.append("      %s" % src)
    L.append("    (an unsigned subtraction that would wrap makes `!=` true; Lean's truncated subtraction is guarded accordingly) -/")
    L.append("def readerRejects (nknots order naxes : Nat) : Bool := %s" % (" || ".join(l for _, l in rej) if rej else "false"))
    L.append("/-- convolve(dim, knots, n) on a table of ndim dimensions throws before touching the allocator when")
    for src, _ in crej: L.append("      %s" % src)
    L.append("-/")
    L.append("def convolveRejects (dim ndim n : Nat) : Bool := %s" % (" || ".join(l for _, l in crej) if crej else "false"))
    L.append("")
    L.append("/-! ## allocator call sites, in source order -/")
    L.append("/-- read_fits_core (fitsio.h) -/")
    L.append("def readBlocks : List Block := " + lean_blocks(read_blocks))
    L.append("")
    L.append("/-- convolve (convolve.h); `.updateShape` = `this->nknots[dim] = n_rho; this->order[dim] = convorder; this->naxes[dim] = naxes[dim];` -/")
    L.append("def convolveBlocks : List Block := " + lean_blocks(conv_blocks))
    L.append("")
    L.append("/-- ~splinetable (splinetable.h), on a table for which `ndim`, `extents`, `periods` are non-null (every loaded table);")
    L.append("    `strlen(&aux[i][0][0])+1` is `keylen`, `strlen(&aux[i][1][0])+1` is `storedlen` -/")
    L.append("def destroyBlocks : List Block := " + lean_blocks(destroy_blocks))
    L.append("")
    L.append("end PsV.Generated.C19")
    def fmt(s): return s["stmt"] + (("   [if %s]" % s["cond_src"]) if s.get("cond_src") else "")
    summary = {"constants": consts, "estimate": est,
               "reader_rejects": [src for src, _ in rej], "reader_throws_outside_the_size_model": rej_skipped,
               "convolve_rejects": [src for src, _ in crej],
               "read_info": read_info, "convolve_info": conv_info,
               "destroy_sites": [[b[0]] + ([fmt(b[1])] if b[0] == "one" else [fmt(s) for s in b[1]]) for b in destroy_blocks],
               "routines_without_allocator_calls": ["permute.h: permuteDimensions"],
               "read_sites": [[b[0]] + ([fmt(b[1])] if b[0] == "one" else [fmt(s) for s in b[1]] if b[0] != "updateShape" else []) for b in read_blocks],
               "convolve_sites": [[b[0]] + ([fmt(b[1])] if b[0] == "one" else [fmt(s) for s in b[1]] if b[0] != "updateShape" else []) for b in conv_blocks]}
    return "\n".join(L) + "\n", summary


def main():
    ap = argparse.ArgumentParser()
    ap.add_argument("--repo", default=os.environ.get("PSV_REPO", "/repo"))
    ap.add_argument("--out", default=os.path.join(VERIF, "lean", "PsV", "Generated", "C19.lean"))
    ap.add_argument("--json", default=None)
    a = ap.parse_args()
    try:
        text, summary = generate(a.repo)
    except GenError as ex:
        print("gen_c19: FAILED (fail closed): %s" % ex)
        sys.exit(1)
    os.makedirs(os.path.dirname(a.out), exist_ok=True)
    old = open(a.out).read() if os.path.exists(a.out) else None
    if old != text:
        open(a.out, "w").write(text)
    if a.json:
        json.dump(summary, open(a.json, "w"), indent=1)
    print("gen_c19: %s %s (naux counted in %s HDU; %d read blocks, %d convolve blocks)" % (
        "wrote" if old != text else "unchanged", a.out, summary["estimate"]["naux_hdu"], len(summary["read_sites"]), len(summary["convolve_sites"])))


if __name__ == "__main__":
    main()
