#!/usr/bin/env python3
"""Translator for C16: regenerates lean/PsV/Generated/C16.lean from the working tree of the library.

Extracted (and nothing else):
  * the (literal, n) pairs of `reservedFitsKeyword` in src/core/fitsio.cpp,
  * the length constants of `write_key` in include/photospline/detail/aux.h
    (`keylen<=9`, `maxdatalen=68`, `maxdatalen=80-(13+keylen-1)`, and the optional guard
    `if(13+keylen-1>=80)` that rejects keys leaving no room for a value),
  * the name and character tests of `write_key` added by fixes/C16-5.diff, each optional (absent in the
    unrepaired source): `if(keylen==1 || key[0]==' ' || key[keylen-2]==' ')`, the second name test
    (a disjunction of `strncmp("lit",key,n)==0` / `strcmp("lit",key)==0`), the range test
    `key[i]<LO || key[i]>HI` in the long-key loop and `valuedata[i]<LO || valuedata[i]>HI` on the value,
  * FLEN_KEYWORD / FLEN_VALUE / FLEN_CARD of the installed cfitsio.
Fails closed (exit 2, nothing written) when a construct cannot be parsed exactly.
usage: gen_c16.py <repo> <out.lean>
"""
import os, re, sys

def die(msg):
    sys.stderr.write("gen_c16: cannot parse: %s\n" % msg); sys.exit(2)

def strip_comments(s):
    s = re.sub(r"/\*.*?\*/", " ", s, flags=re.S)
    return re.sub(r"//[^\n]*", " ", s)

def lean_chars(s):
    for c in s:
        if not (32 <= ord(c) < 127) or c in "'\\": die("unsupported character in literal %r" % s)
    return "[" + ", ".join("'%s'" % c for c in s) + "]"

def one(rx, src, what, optional=False):
    m = re.findall(rx, src)
    if len(m) == 0 and optional: return None
    if len(m) != 1: die("%s: expected exactly one match of %s, found %d" % (what, rx, len(m)))
    return m[0]

def main():
    import os
    here = os.path.dirname(os.path.dirname(os.path.abspath(__file__)))
    repo = sys.argv[1] if len(sys.argv) > 1 else os.environ.get('PSV_REPO', '/repo')
    out = sys.argv[2] if len(sys.argv) > 2 else os.path.join(here, 'lean', 'PsV', 'Generated', 'C16.lean')
    fits = strip_comments(open(os.path.join(repo, "src/core/fitsio.cpp")).read())
    m = re.search(r"bool\s+reservedFitsKeyword\s*\(\s*const\s+char\s*\*\s*key\s*\)\s*\{(.*?)\}", fits, re.S)
    if not m: die("reservedFitsKeyword definition")
    body = m.group(1)
    rx = r'strncmp\(\s*"([^"\\]*)"\s*,\s*key\s*,\s*(\d+)\s*\)\s*==\s*0'
    pairs = [(a, int(b)) for a, b in re.findall(rx, body)]
    rest = re.sub(rx, "@", body)
    rest = re.sub(r"\s+", "", rest)
    if not pairs or rest != "return(" + "||".join("@" * len(pairs)) + ");":
        die("body of reservedFitsKeyword is not a disjunction of strncmp(lit,key,n)==0: %r" % rest)
    aux = strip_comments(open(os.path.join(repo, "include/photospline/detail/aux.h")).read())
    m = re.search(r"bool\s+splinetable<Alloc>::write_key\s*\(.*?\n\}", aux, re.S)
    if not m: die("write_key definition")
    wk = re.sub(r"[ \t]+", "", m.group(0))
    if one(r"size_tkeylen=strlen\(key\)\+1;", wk, "keylen") is None: die("keylen")
    short_max = int(one(r"size_tmaxdatalen=(\d+);", wk, "short maxdatalen"))
    short_keylen = int(one(r"if\(keylen<=(\d+)\)\{", wk, "short key test"))
    card, over = one(r"maxdatalen=(\d+)-\((\d+)\+keylen-1\);", wk, "HIERARCH maxdatalen")
    guard = one(r"if\((\d+)\+keylen-1>=(\d+)\)", wk, "long key guard", optional=True)
    if len(re.findall(r"maxdatalen=", wk)) != 2: die("unexpected additional assignment to maxdatalen")
    # --- tests added by fixes/C16-5.diff (all optional; order of the statements is checked below) ---
    edge = one(r"if\(keylen==1\|\|key\[0\]==''\|\|key\[keylen-2\]==''\)\s*throw", wk, "empty/edge-blank test", optional=True)
    m2 = re.findall(r"if\(((?:str(?:ncmp\(\"[^\"\\]*\",key,\d+\)|cmp\(\"[^\"\\]*\",key\))==0(?:\|\|)?\s*)+)\)\s*throwstd::runtime_error\(\"Cannotsetkeywithreservedname\"", wk)
    if len(m2) > 1: die("more than one second name test")
    wpre, wexact = [], []
    if m2:
        # literals are taken from the text with blanks intact (wk has blanks removed)
        raw = re.search(r"if\s*\(\s*((?:\s*str(?:ncmp\(\s*\"[^\"\\]*\"\s*,\s*key\s*,\s*\d+\s*\)|cmp\(\s*\"[^\"\\]*\"\s*,\s*key\s*\))\s*==\s*0\s*(?:\|\|)?\s*)+)\)\s*throw\s+std::runtime_error\(\"Cannot set key with reserved name \"", m.group(0))
        if not raw: die("second name test (raw text)")
        cond = raw.group(1)
        wpre = [(a, int(b)) for a, b in re.findall(r'strncmp\(\s*"([^"\\]*)"\s*,\s*key\s*,\s*(\d+)\s*\)\s*==\s*0', cond)]
        wexact = re.findall(r'strcmp\(\s*"([^"\\]*)"\s*,\s*key\s*\)\s*==\s*0', cond)
        rest2 = re.sub(r'str(?:ncmp\(\s*"[^"\\]*"\s*,\s*key\s*,\s*\d+\s*\)|cmp\(\s*"[^"\\]*"\s*,\s*key\s*\))\s*==\s*0', "@", cond)
        if re.sub(r"\s+", "", rest2) != "||".join("@" * (len(wpre) + len(wexact))): die("second name test is not a plain disjunction: %r" % rest2)
    keyrange = one(r"if\(key\[i\]<(\d+)\|\|key\[i\]>(\d+)\)\s*throw", wk, "key character range test", optional=True)
    valrange = one(r"for\(size_ti=0;i<valuedata\.size\(\);i\+\+\)\{\s*if\(valuedata\[i\]<(\d+)\|\|valuedata\[i\]>(\d+)\)\s*throw", wk, "value character range test", optional=True)
    # positions: edge test and second name test between keylen and the short/long split; the key range test first in the
    # long loop (before the '=' test); the value range test between valuedata and the length test
    def pos(rx): 
        mm = re.search(rx, wk); return mm.start() if mm else None
    p_keylen, p_split = pos(r"size_tkeylen=strlen"), pos(r"if\(keylen<=\d+\)\{")
    p_eq, p_vd, p_len = pos(r"if\(key\[i\]=='='\)"), pos(r"std::stringvaluedata=ss\.str\(\);"), pos(r"if\(storedlen>maxdatalen\)")
    if None in (p_keylen, p_split, p_eq, p_vd, p_len): die("landmarks of write_key")
    if edge is not None and not (p_keylen < pos(r"if\(keylen==1\|\|") < p_split): die("position of the empty/edge-blank test")
    if m2 and not (p_keylen < wk.find(m2[0]) < p_split): die("position of the second name test")
    if edge is not None and m2 and not (pos(r"if\(keylen==1\|\|") < wk.find(m2[0])): die("order of the edge-blank and second name tests")
    if keyrange is not None:
        pk = pos(r"if\(key\[i\]<\d+\|\|key\[i\]>\d+\)\s*throw")
        if not (p_split < pk < p_eq) or "else{" not in wk[p_split:pk]: die("position of the key character range test")
    if valrange is not None and not (p_vd < pos(r"if\(valuedata\[i\]<") < p_len): die("position of the value character range test")
    hdr = open("/usr/include/fitsio.h").read()
    flen = {}
    for n in ("FLEN_KEYWORD", "FLEN_VALUE", "FLEN_CARD"):
        flen[n] = int(one(r"#define\s+%s\s+(\d+)" % n, hdr, n))
    L = []
    L.append("/-! GENERATED by tools/gen_c16.py from the library working tree -- do not edit.")
    L.append("    reservedFitsKeyword (src/core/fitsio.cpp), length constants of write_key (detail/aux.h), cfitsio FLEN_*. -/")
    L.append("namespace PsV.Gen.C16")
    L.append("")
    L.append("/-- the `strncmp(literal, key, n) == 0` disjuncts of `reservedFitsKeyword`, in source order -/")
    L.append("def reservedPrefixes : List (List Char × Nat) :=")
    L.append("  [" + ",\n   ".join("(%s, %d)" % (lean_chars(a), b) for a, b in pairs) + "]")
    L.append("")
    L.append("/-- `if(keylen<=N)`: keys whose strlen+1 is at most N are standard (short) keys -/")
    L.append("def shortKeylenMax : Nat := %d" % short_keylen)
    L.append("/-- `size_t maxdatalen=N` for short keys -/")
    L.append("def shortMaxData : Nat := %d" % short_max)
    L.append("/-- `maxdatalen=A-(B+keylen-1)` for long keys: A -/")
    L.append("def cardLen : Nat := %d" % int(card))
    L.append("/-- `maxdatalen=A-(B+keylen-1)` for long keys: B -/")
    L.append("def hierOverhead : Nat := %d" % int(over))
    L.append("/-- `if(B+keylen-1>=A) throw` in front of the subtraction (absent in the unrepaired source) -/")
    L.append("def longKeyGuard : Option (Nat × Nat) := %s" % ("none" if guard is None else "some (%d, %d)" % (int(guard[0]), int(guard[1]))))
    L.append("/-- `if(keylen==1 || key[0]==' ' || key[keylen-2]==' ') throw` in front of the syntax tests (absent in the unrepaired source) -/")
    L.append("def edgeBlankCheck : Bool := %s" % ("true" if edge is not None else "false"))
    L.append("/-- the `strncmp(literal, key, n) == 0` disjuncts of the second name test of `write_key` (absent in the unrepaired source) -/")
    L.append("def writeReservedPrefixes : List (List Char × Nat) := [" + ", ".join("(%s, %d)" % (lean_chars(a), b) for a, b in wpre) + "]")
    L.append("/-- the `strcmp(literal, key) == 0` disjuncts of the second name test of `write_key` -/")
    L.append("def writeReservedExact : List (List Char) := [" + ", ".join(lean_chars(a) for a in wexact) + "]")
    L.append("/-- `if(key[i]<LO || key[i]>HI) throw`, first test of the long-key loop (absent in the unrepaired source) -/")
    L.append("def keyCharRange : Option (Nat × Nat) := %s" % ("none" if keyrange is None else "some (%d, %d)" % (int(keyrange[0]), int(keyrange[1]))))
    L.append("/-- `if(valuedata[i]<LO || valuedata[i]>HI) throw` on every character of the value text (absent in the unrepaired source) -/")
    L.append("def valueCharRange : Option (Nat × Nat) := %s" % ("none" if valrange is None else "some (%d, %d)" % (int(valrange[0]), int(valrange[1]))))
    L.append("def flenKeyword : Nat := %d" % flen["FLEN_KEYWORD"])
    L.append("def flenValue : Nat := %d" % flen["FLEN_VALUE"])
    L.append("def flenCard : Nat := %d" % flen["FLEN_CARD"])
    L.append("")
    L.append("end PsV.Gen.C16")
    text = "\n".join(L) + "\n"
    old = open(out).read() if os.path.exists(out) else None
    if old != text:
        with open(out, "w") as f: f.write(text)
    print("gen_c16: %d reserved prefixes; constants %d %d %d %d guard=%s; write_key name tests: edge=%s prefixes=%s exact=%s keyrange=%s valuerange=%s%s" % (len(pairs), short_keylen, short_max, int(card), int(over), guard,
          edge is not None, wpre, wexact, keyrange, valrange, "" if old == text else " (file updated)"))

if __name__ == "__main__":
    main()
