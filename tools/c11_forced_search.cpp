// Search program behind bin/props/C11_forced_corpus.txt (property C11, "no improving trial step" stream).
//
// walk_descents (src/fitter/cholesky_solve.c) tries the step lengths alpha[1] = 1 > alpha[2] > ... > alpha[n_alpha-1] along the
// descent vector and takes the first one whose projected point lowers the objective; when NONE does, it takes the last
// (smallest) one anyway ("i*n_threads + j == n_alpha-1"), reports feasible = false, and nnls_normal_block3 binds the blocking
// coefficients and solves again.  That forced step is rare: x is the minimiser on the previous passive set, so a short enough
// step always descends - the last trial fails only when the freshly released coefficients that want to grow gain little, the
// other released ones are held at their bound by the projection, and the first constraint crossing of an old positive
// coefficient is already too far.
//
// This program draws small integer SPD systems (several families), runs the UNCHANGED nnls_normal_block3 in-process with
// verbose output captured, and keeps the systems on which some line search printed "alpha[k] = ..., d_res = <value >= 0>"
// (the trial taken did not lower the residual: forced step).  Output: one corpus line per system,
//      n  a_11 ... a_nn  b_1 ... b_n          (row-major, small integers)
// preceded by a comment with family / seed / number of forced steps.  Duplicates (same n, A, b) are dropped.
//
// build (as the check's harnesses; see bin/props/C11.py: build()):
//   gcc -std=gnu99 -O2 -w -DPHOTOSPLINE_INCLUDES_SPGLAM -I/repo/include -I/usr/include/suitesparse -c /repo/src/fitter/{glam,nnls,splineutil,cholesky_solve}.c
//   g++ -std=c++11 -O2 -w -DPHOTOSPLINE_INCLUDES_SPGLAM -I/repo/include -I/usr/include/suitesparse tools/c11_forced_search.cpp *.o
//       -lcfitsio -lcholmod -lspqr -lsuitesparseconfig -lopenblas -lpthread -lm -o c11_forced_search
// run:   OMP_NUM_THREADS=1 ./c11_forced_search <seed> <tries> <family 0..5 | -1 = all> [check <corpus file>]
//        "check <file>": run the detector on an existing corpus and print the number of forced steps per line.
#include <cholmod.h>
#include <unistd.h>
#include <fcntl.h>
#include <cstdio>
#include <cstdlib>
#include <cstring>
#include <cstdint>
#include <cmath>
#include <string>
#include <vector>
#include <set>
#include <sstream>
#include <fstream>
#include <iostream>
extern "C" {
#include "photospline/detail/splineutil.h"
}

struct Rng {
  uint64_t s;
  explicit Rng(uint64_t seed) : s(seed) {}
  uint64_t next() { uint64_t z = (s += 0x9e3779b97f4a7c15ULL); z = (z ^ (z >> 30)) * 0xbf58476d1ce4e5b9ULL; z = (z ^ (z >> 27)) * 0x94d049bb133111ebULL; return z ^ (z >> 31); }
  uint64_t below(uint64_t n) { return n ? next() % n : 0; }
  int range(int lo, int hi) { return lo + (int)below((uint64_t)(hi - lo + 1)); }
  bool coin(int num = 1, int den = 2) { return (int)below(den) < num; }
};

static int g_fd = -1, g_saved = -1;
static void capture_begin() {
  fflush(stdout);
  if (g_fd < 0) { char t[] = "/tmp/psv-c11search-XXXXXX"; g_fd = mkstemp(t); unlink(t); g_saved = dup(1); }
  if (ftruncate(g_fd, 0) != 0) {}
  lseek(g_fd, 0, SEEK_SET); dup2(g_fd, 1);
}
static std::string capture_end() {
  fflush(stdout); dup2(g_saved, 1);
  off_t len = lseek(g_fd, 0, SEEK_END); lseek(g_fd, 0, SEEK_SET);
  std::string v; v.resize(len > 0 ? len : 0);
  if (len > 0) { ssize_t rd = read(g_fd, &v[0], len); (void)rd; }
  return v;
}

// number of line searches that took a trial which did not lower the residual; also the largest n_alpha among them
static int forced_steps(const std::string& verb, int* idx_max) {
  int n = 0; size_t p = 0;
  while ((p = verb.find("\talpha[", p)) != std::string::npos) {
    int k = atoi(verb.c_str() + p + 7);
    size_t q = verb.find("d_res = ", p); if (q == std::string::npos) break;
    double d = strtod(verb.c_str() + q + 8, nullptr);
    if (!(d < 0)) { n++; if (idx_max && k > *idx_max) *idx_max = k; }
    p = q + 8;
  }
  return n;
}

static int solve_and_count(int n, const std::vector<double>& A, const std::vector<double>& b, int* idx_max, bool* kkt_ok) {
  cholmod_common c; cholmod_l_start(&c);
  cholmod_dense* Ad = cholmod_l_allocate_dense(n, n, n, CHOLMOD_REAL, &c);
  for (int i = 0; i < n; i++) for (int j = 0; j < n; j++) ((double*)Ad->x)[(size_t)j * n + i] = A[(size_t)i * n + j];
  cholmod_sparse* As = cholmod_l_dense_to_sparse(Ad, 1, &c);
  cholmod_dense* bd = cholmod_l_allocate_dense(n, 1, n, CHOLMOD_REAL, &c);
  for (int i = 0; i < n; i++) ((double*)bd->x)[i] = b[i];
  capture_begin();
  cholmod_dense* x = nnls_normal_block3(As, bd, 1, &c);
  std::string verb = capture_end();
  int f = forced_steps(verb, idx_max);
  if (kkt_ok) {   // plain double KKT residual (information only; the check judges with the exact oracle)
    *kkt_ok = true;
    for (int i = 0; i < n; i++) {
      double g = -b[i], xi = ((double*)x->x)[i];
      for (int j = 0; j < n; j++) g += A[(size_t)i * n + j] * ((double*)x->x)[j];
      if (xi < 0 || g < -1e-7 || (xi > 0 && g > 1e-7)) *kkt_ok = false;
    }
  }
  cholmod_l_free_dense(&x, &c); cholmod_l_free_dense(&bd, &c); cholmod_l_free_sparse(&As, &c); cholmod_l_free_dense(&Ad, &c);
  cholmod_l_finish(&c);
  return f;
}

// ---- families of small integer SPD systems --------------------------------------------------------------------------------
// 0: Gram B'B + I, entries of B in -2..2, b in -6..6
// 1: Gram B'B + I with a wide right-hand side (b in -20..20, mostly positive)
// 2: strictly diagonally dominant, mixed-sign couplings in -3..3, b in -8..8
// 3: "block" structure: an old passive block P (b > 0), a released pair/triple R (b slightly positive), positive couplings R-R and
//    P-R (so that members of R push each other and P down), diagonally dominant
// 4: Gram of a nearly collinear family: B rows = base vector + small integer perturbations (strongly correlated columns, as the
//    overlapping bumps of a spline fit)
// 5: tridiagonal-plus-rank-one (second-difference like) integer matrices
static void gen(Rng& r, int fam, int& n, std::vector<double>& A, std::vector<double>& b) {
  n = r.range(3, 7);
  A.assign((size_t)n * n, 0.0); b.assign(n, 0.0);
  auto gram = [&](const std::vector<int>& B, int m, int ridge) {
    for (int i = 0; i < n; i++) for (int j = 0; j < n; j++) { long s = (i == j) ? ridge : 0; for (int k = 0; k < m; k++) s += (long)B[k * n + i] * B[k * n + j]; A[(size_t)i * n + j] = (double)s; }
  };
  switch (fam) {
    case 0: case 1: {
      int m = n + r.range(0, 2); std::vector<int> B(m * n); for (auto& e : B) e = r.range(-2, 2);
      gram(B, m, r.range(1, 3));
      for (auto& e : b) e = fam == 0 ? r.range(-6, 6) : (r.coin(4, 5) ? r.range(0, 20) : -r.range(0, 20));
      break; }
    case 2: {
      for (int i = 0; i < n; i++) for (int j = i + 1; j < n; j++) if (r.coin(3, 4)) { double w = r.range(-3, 3); A[(size_t)i * n + j] = A[(size_t)j * n + i] = w; }
      for (int i = 0; i < n; i++) { double s = r.range(1, 3); for (int j = 0; j < n; j++) if (j != i) s += std::fabs(A[(size_t)i * n + j]); A[(size_t)i * n + i] = s; }
      for (auto& e : b) e = r.range(-8, 8);
      break; }
    case 3: {
      int p = r.range(1, n - 2);
      for (int i = 0; i < n; i++) for (int j = i + 1; j < n; j++) {
        double w = 0;
        if (i < p && j < p) w = r.coin(1, 2) ? -r.range(0, 2) : r.range(0, 2);
        else if (i < p) w = r.coin(3, 4) ? r.range(0, 4) : -r.range(0, 2);
        else w = r.coin(3, 4) ? r.range(1, 5) : -r.range(0, 2);
        A[(size_t)i * n + j] = A[(size_t)j * n + i] = w;
      }
      for (int i = 0; i < n; i++) { double s = r.range(1, 2); for (int j = 0; j < n; j++) if (j != i) s += std::fabs(A[(size_t)i * n + j]); A[(size_t)i * n + i] = s; }
      for (int i = 0; i < n; i++) b[i] = (i < p) ? r.range(4, 30) : r.range(0, 6);
      break; }
    case 4: {
      int m = n + r.range(0, 3); std::vector<int> B(m * n), base(m);
      for (auto& e : base) e = r.range(1, 4);
      for (int k = 0; k < m; k++) for (int i = 0; i < n; i++) B[k * n + i] = base[k] + r.range(-1, 1);
      gram(B, m, r.range(1, 2));
      for (auto& e : b) e = r.range(-10, 30);
      break; }
    default: {
      for (int i = 0; i < n; i++) { A[(size_t)i * n + i] = r.range(2, 6); if (i + 1 < n) { double w = r.range(-3, 3); A[(size_t)i * n + i + 1] = A[(size_t)(i + 1) * n + i] = w; } }
      std::vector<int> u(n); for (auto& e : u) e = r.range(-2, 2);
      for (int i = 0; i < n; i++) for (int j = 0; j < n; j++) A[(size_t)i * n + j] += u[i] * u[j];
      for (int i = 0; i < n; i++) { double s = 1; for (int j = 0; j < n; j++) if (j != i) s += std::fabs(A[(size_t)i * n + j]); if (A[(size_t)i * n + i] < s) A[(size_t)i * n + i] = s; }
      for (auto& e : b) e = r.range(-9, 9);
      break; }
  }
}

// positive definiteness of a small integer matrix: LDL' pivots in double (entries are small integers; a pivot near zero is rejected)
static bool spd(int n, std::vector<double> M) {
  for (int c = 0; c < n; c++) {
    double p = M[(size_t)c * n + c]; if (!(p > 1e-6)) return false;
    for (int i = c + 1; i < n; i++) { double f = M[(size_t)i * n + c] / p; for (int j = c; j < n; j++) M[(size_t)i * n + j] -= f * M[(size_t)c * n + j]; }
  }
  return true;
}

int main(int argc, char** argv) {
  if (argc >= 3 && std::string(argv[1]) == "check") {
    std::ifstream in(argv[2]); std::string line; int k = 0, hit = 0;
    while (std::getline(in, line)) {
      if (line.empty() || line[0] == '#') continue;
      std::istringstream is(line); int n; is >> n; std::vector<double> A((size_t)n * n), b(n);
      for (auto& v : A) is >> v; for (auto& v : b) is >> v;
      int im = 0; bool ok; int f = solve_and_count(n, A, b, &im, &ok);
      printf("line %d n=%d forced=%d last_index=%d kkt=%d\n", k++, n, f, im, ok ? 1 : 0); if (f) hit++;
    }
    printf("systems=%d with_forced_step=%d\n", k, hit);
    return 0;
  }
  if (argc < 4) { fprintf(stderr, "usage: c11_forced_search <seed> <tries> <family|-1>\n"); return 2; }
  uint64_t seed = strtoull(argv[1], nullptr, 10); long tries = atol(argv[2]); int famsel = atoi(argv[3]);
  Rng r(seed * 0x9e3779b97f4a7c15ULL + 77);
  std::set<std::string> seen; long hits[6] = {0}, cnt[6] = {0};
  for (long t = 0; t < tries; t++) {
    int fam = famsel >= 0 ? famsel : (int)(t % 6);
    int n; std::vector<double> A, b; gen(r, fam, n, A, b);
    if (!spd(n, A)) continue;
    cnt[fam]++;
    int im = 0; bool ok; int f = solve_and_count(n, A, b, &im, &ok);
    if (f > 0) {
      std::ostringstream o; o << n; for (double v : A) o << " " << (long)v; for (double v : b) o << " " << (long)v;
      if (seen.insert(o.str()).second) {
        hits[fam]++;
        printf("# family %d seed %llu try %ld: forced steps %d (last trial index %d), double KKT %s\n%s\n", fam, (unsigned long long)seed, t, f, im, ok ? "ok" : "NOT ok", o.str().c_str());
        fflush(stdout);
      }
    }
  }
  for (int f = 0; f < 6; f++) if (cnt[f]) fprintf(stderr, "family %d: %ld systems, %ld with a forced step (1 in %.0f)\n", f, cnt[f], hits[f], hits[f] ? (double)cnt[f] / hits[f] : 0.0);
  return 0;
}
