#!/usr/bin/env python3
"""Merge a builder's integration/<ID>.json into known_findings.json (findings + fixed lines)."""
import json, os, sys
V = os.path.dirname(os.path.dirname(os.path.abspath(__file__)))
pid = sys.argv[1]
fixed = sys.argv[2:]          # "commit what" strings
d = json.load(open(os.path.join(V, "integration", pid + ".json")))
k = json.load(open(os.path.join(V, "known_findings.json")))
have = {(f["property"], f["signature"]) for f in k["findings"]}
for f in d.get("known_findings", []):
    if (f["property"], f["signature"]) not in have:
        k["findings"].append({"property": f["property"], "signature": f["signature"], "what": f["what"]})
for line in fixed:
    if line not in k["fixed"]: k["fixed"].append(line)
json.dump(k, open(os.path.join(V, "known_findings.json"), "w"), indent=1)
print("known findings now:", len(k["findings"]), "fixed:", len(k["fixed"]))
