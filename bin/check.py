#!/usr/bin/env python3
"""Entry point: python3 bin/check.py <Cxx> --tier quick|thorough [--replay path]"""
import argparse, importlib, os, sys
sys.path.insert(0, os.path.dirname(os.path.abspath(__file__)))
import psvlib

def main():
    ap = argparse.ArgumentParser()
    ap.add_argument("prop")
    ap.add_argument("--tier", default=os.environ.get("VERIF_TIER", "quick"), choices=["quick", "thorough"])
    ap.add_argument("--replay", default=None)
    a = ap.parse_args()
    seed = int(os.environ.get("VERIF_SEED", "1") or 1)
    mod = importlib.import_module("props." + a.prop)
    ctx = psvlib.Ctx(a.prop, a.tier, seed)
    try:
        if a.replay:
            mod.replay(ctx, a.replay)
        else:
            mod.run(ctx)
    except Exception as ex:  # a crash of the machinery is a broken check, never a silent pass
        import traceback; traceback.print_exc()
        ctx.tie_ok = False
        ctx.broken.append({"kind": "check crashed", "error": repr(ex)})
    sys.exit(ctx.finish(getattr(mod, "LEVEL", "proof")))

if __name__ == "__main__":
    main()
