"""C06 — FITS serialisation round-trips every table exactly, in the documented layout.
Proof: PsV/Props/C06.lean (C06_roundtrip, strides_reconstructed, legacy_order_key, missing_extents_defaults,
       be_bits_roundtrip, decode_encode, aux_values_gain_blanks_only — aux values with apostrophes included;
       encoder_meets_layout, layout_file_is_read, independent_reader_arrays, reversed_axes_are_row_major, coefficient_bits_written / _read,
       nan_bits_preserved, period_text_roundtrip, conversions_not_used, accepted_storable, write_key_entries_accepted,
       C06_accepted_roundtrip, aux_extname_breaks_roundtrip, order_2p31_not_read).
Tie (exact): (a) bytes of real write_fits / write_fits_mem → Lean decodeFits = writeCore t, and encodeFits (writeCore t) is
byte-identical to the real file, and so is Layout.layoutBytes t, the independent specification of the documented layout; (b) Lean-encoded files (current layout and legacy variants) → real read_fits and
read_fits_mem = model readCore; (c) real write → real read: operator==, field-by-field bits, identical evaluation — the
property's own oracle, computed here without the model (aux values: 14 classes with apostrophes, see harness/fits_common.h
gen_value_q; read back = written + blanks only); (d) shipped test_data/*.fits: real readers = readCore (decodeFits
bytes), digests committed in bin/props/C06_digests.json."""
import glob, hashlib, json, os
from . import fitscommon as F
import psvlib

DIGESTS = os.path.join(os.path.dirname(os.path.abspath(__file__)), "C06_digests.json")


def lines(path):
    with open(path) as f:
        return [l.rstrip("\n") for l in f]


def run(ctx, n_override=None):
    ctx.audit()
    n, maxcoef = (140, 2500) if ctx.tier == "quick" else (2500, 30000)
    if n_override: n = n_override
    modes = ["san"] if ctx.tier == "quick" else ["san", "shipped"]
    seen = set(); evals = 0; stats_all = {}
    replay_cmd = "VERIF_SEED=%d python3 bin/check.py C06 --tier %s" % (ctx.seed, ctx.tier)

    def broken(kind, **kw):
        ctx.tie_ok = False
        if len(ctx.broken) < 6: ctx.broken.append(dict(kind=kind, **kw))

    # reserved-keyword table: model vs source text
    src_pairs = F.reserved_prefixes_in_source(psvlib.REPO)
    for mode in modes:
        exe = ctx.compile("c06h_" + mode, ["c06_harness.cpp"], mode=mode)
        if not exe:
            broken("harness build failed", mode=mode); continue
        base = os.path.join(ctx.scratch, "c06" + mode)
        cases, impl, stats = base + ".in", base + ".impl", base + ".stats"
        rc, out, err = ctx.run([exe, "gen", str(n), cases, impl, stats, str(maxcoef), ctx.scratch, "quotes"], timeout=1500)
        if rc != 0:
            ctx.tie_ok = False
            ctx.violation({"harness_rc": rc, "stderr": err[-3000:], "replay_cmd": replay_cmd},
                          "write/read harness %s (rc=%d): %s" % ("timed out" if rc == 124 else "aborted (sanitizer / assertion / crash)", rc, san_head(err)))
            continue
        # shipped files + reserved table through the driver as well
        shipped = sorted(glob.glob(os.path.join(psvlib.REPO, "test/test_data/*.fits")))
        with open(cases, "a") as f:
            for p in shipped: f.write("F %s %s\n" % (os.path.basename(p), open(p, "rb").read().hex()))
            f.write("P\n")
        model = base + ".model"
        if not ctx.driver_ok() or not ctx.run_driver("C06", cases, model):
            broken("driver failed"); continue
        impl2 = base + ".impl2"
        rc, out, err = ctx.run([exe, "read", model, impl2, ctx.scratch], timeout=1500)
        if rc != 0:
            ctx.tie_ok = False
            ctx.violation({"harness_rc": rc, "stderr": err[-3000:], "replay_cmd": replay_cmd},
                          "real reader on Lean-encoded files %s (rc=%d): %s" % ("timed out" if rc == 124 else "aborted (sanitizer / assertion / crash)", rc, san_head(err)))
            continue
        rc, fout, err = ctx.run([exe, "file"] + shipped, timeout=300)
        if rc != 0:
            ctx.tie_ok = False
            ctx.violation({"harness_rc": rc, "stderr": err[-3000:]}, "real reader on shipped files aborted: %s" % err[-400:]); continue
        L_c, L_i, L_m, L_2 = lines(cases), lines(impl), lines(model), lines(impl2)
        stats_all[mode] = json.load(open(stats))
        st = stats_all[mode]
        rcmd = "VERIF_SEED=%d python3 bin/check.py C06 --tier %s" % (ctx.seed, ctx.tier)
        if st.get("odd_file_names_failed"):
            ctx.report("file-name-round-trip:" + st.get("first_failing_file_name", "?").split(":")[0], {"mode": mode, "failed": st["odd_file_names_failed"], "tested": st["odd_file_names_tested"], "first": st.get("first_failing_file_name"), "replay_cmd": rcmd},
                       "a table written with write_fits(path) does not come back through read_fits(path) / the path constructor / readsplinefitstable for %d of %d legitimate file names; first: %s" % (st["odd_file_names_failed"], st["odd_file_names_tested"], st.get("first_failing_file_name")))
        co = st.get("concurrent_outcome")
        if co is None:
            ctx.tie_ok = False; ctx.broken.append({"kind": "the concurrent phase of the FITS harness did not run", "mode": mode})
        elif co != 0:
            ctx.report("concurrent-write-differs" if co > 0 else "concurrent-write-crash", {"mode": mode, "calls": st.get("concurrent_write_read_calls"), "outcome": co, "replay_cmd": rcmd},
                       ("%d memory files written (or tables read back) while other threads were serialising const tables differ from what one thread produces alone" % co) if co > 0
                       else "the process serialising const tables from 4 threads at the same time died (signal %d); each of these calls succeeds alone" % (-co))
        if not (len(L_c) == len(L_m) == len(L_2)) or len(L_i) > len(L_c):
            broken("line counts differ", counts=[len(L_c), len(L_i), len(L_m), len(L_2)]); continue
        cur = None
        for k, c in enumerate(L_c):
            m, i2 = L_m[k], L_2[k]
            i = L_i[k] if k < len(L_i) else ""
            w = c.split(" ", 2)
            if w[0] == "T":
                cur = F.parse_table(w[2].split()); cur_line = w[2]; tid = w[1]
                evals += 1
                head, _, rb = i.partition(" | ")
                flags = dict(x.split("=") for x in head.split()[2:])
                # (c) the property, directly on the implementation
                exp = "ok " + F.dump_table(F.expected_after_roundtrip(cur))
                rep = {"table": cur_line[:4000], "impl": i[:4000], "expected": exp[:4000], "replay_cmd": replay_cmd, "line": k + 1,
                       "aux_written": cur["aux"], "aux_read": aux_of(rb)}
                if flags.get("built") != "1": broken("harness could not build the table it generated", line=k + 1)
                elif flags.get("werr") != "-": ctx.report("write-fails", rep, "write_fits%s failed on a well-formed table" % ("" if flags["backend"] == "disk" else "_mem"))
                elif rb != exp:
                    if padding_only(rb, exp, cur): broken("aux values read back with the right text but another number of trailing blanks than the FITS rule gives", impl=aux_diff(rb, cur)[:600], line=k + 1)
                    else: ctx.report("roundtrip-fields:" + first_diff(rb, exp), rep, "table read back differs from the table written (%s back end): %s%s" % (flags["backend"], first_diff(rb, exp), aux_diff(rb, cur)))
                elif flags.get("same_readers") != "1": ctx.report("readers-differ", rep, "read_fits and read_fits_mem return different tables for the same bytes")
                elif flags.get("eq") != "1": ctx.report("operator==", rep, "table read back does not compare equal to the original")
                elif int(flags.get("eval", "0")) < 1: ctx.report("evaluation-differs", rep, "table read back evaluates differently")
                else: seen.add(hashlib.sha1(cur_line.encode()).hexdigest())
                if len(ctx.coverage["samples"]) < 4:
                    ctx.coverage["samples"].append({"ndim": cur["ndim"], "order": cur["order"], "naxes": cur["naxes"], "naux": len(cur["aux"]), "backend": flags.get("backend"), "eq": flags.get("eq"), "eval": flags.get("eval")})
            elif w[0] == "B":
                evals += 1
                if m != "A %s 1 1 1 1" % w[1]:
                    broken("(a) real writer bytes vs model store and vs the independent layout specification (decoded, store-equal, bytes-equal, layout-equal)", model=m, table=cur_line[:1500], line=k + 1)
            elif w[0] == "V":
                evals += 1
                _, single, vm = c.split()[1:4]
                vm = int(vm)
                mh, _, mdump = m.partition(" | ")
                ih, _, idump = i2.partition(" | ")
                if mdump != idump or "same" not in ih:
                    broken("(b) Lean-encoded file: real reader vs model reader", variant=c, model=mdump[:600], impl=idump[:600], readers=ih, table=cur_line[:1500], line=k + 1)
                exp = "ok " + F.dump_table(F.expected_after_roundtrip(cur, drop_ext=bool(vm & 1), drop_per=bool(vm & 2)))
                if idump != exp and padding_only(idump, exp, cur):
                    broken("aux values of a Lean-encoded file read with the right text but another number of trailing blanks than the FITS rule gives", impl=aux_diff(idump, cur)[:600], line=k + 1)
                elif idump != exp:
                    ctx.report("independent-writer:" + first_diff(idump, exp), {"table": cur_line[:4000], "variant": c, "impl": idump[:4000], "expected": exp[:4000], "replay_cmd": replay_cmd, "aux_written": cur["aux"], "aux_read": aux_of(idump)},
                               "a file in the documented layout (single ORDER key: %s, EXTENTS: %s, PERIODn: %s) written by an independent encoder is not read as the table it describes: %s" % (single, not vm & 1, not vm & 2, first_diff(idump, exp) + aux_diff(idump, cur)))
            elif w[0] == "F":
                evals += 1
                name = w[1]
                real = [l for l in fout.splitlines() if l.startswith("F %s " % name)]
                rh, _, rdump = (real[0] if real else "").partition(" | ")
                if not real or "same" not in rh or m != "F %s %s" % (name, rdump):
                    broken("(d) shipped file: real readers vs readCore(decodeFits bytes)", file=name, model=m[:300], impl=(real[0] if real else "")[:300])
                else:
                    dg = hashlib.sha256(rdump.encode()).hexdigest()
                    known = json.load(open(DIGESTS)) if os.path.exists(DIGESTS) else {}
                    if psvlib.REPO == "/repo" or name in known:
                        if known.get(name) != dg:
                            ctx.report("shipped-file-digest:" + name, {"file": name, "digest": dg, "committed": known.get(name)}, "reference file %s no longer decodes to the committed table" % name)
                    t = F.parse_table(rdump.split()[1:])
                    why = F.wf_table(t)
                    if why: ctx.report("shipped-file-not-wf:" + name, {"file": name, "why": why}, "reference file %s does not decode to a well-formed table: %s" % (name, why))
            elif w[0] == "P":
                model_pairs = [(p, len(p)) for p in m.split()[1:]]
                if src_pairs is None or sorted(model_pairs) != sorted(src_pairs):
                    broken("reservedFitsKeyword table: source text vs model", source=src_pairs, model=model_pairs)
    ctx.coverage["evaluations"] = evals
    ctx.coverage["distinct_nontrivial"] = len(seen)
    ctx.coverage["rule"] = ("tables drawn from VERIF_SEED by harness/fits_common.h (1..9 dims, unequal axis lengths, orders 0..5, extreme coefficient bit patterns, "
                            "random/non-default extents, 0..41 aux keys, disk/memory alternating; aux values: plain printable text and — 2 in 5, plus one forced value per table for "
                            "the first 28 tables and every third one after — 14 classes with apostrophes: single inside, leading, trailing, both, adjacent runs inside / at the "
                            "start / at the end, apostrophes only (1..34), stored form at the card limit (length + apostrophes = 66..68), dense mix, around the padding-to-8 "
                            "boundary, next to blank or slash, followed by trailing blanks, ending in '&'; one table in three also gets a key next to a reserved or FITS-semantic name (TYP, ORDE0, MYORDER, EXTNAM, ENDX, HISTOR, ...); counts in input_distribution.aux_values); a table counts as distinct non-trivial when real write → real read "
                            "reproduced every field, compared equal and evaluated identically; each table additionally yields 1 byte-identity check and 4 or 8 Lean-encoded variants")
    ctx.coverage["input_distribution"] = stats_all
    ctx.assumptions += [
        "cfitsio 4.2 is modelled at its API (abstract store), validated each run by byte-identity of encodeFits (writeCore t) with the real file and by the real readers on Lean-encoded files",
        "the documented layout is the executable specification PsV/Model/FitsLayout.lean (layoutBytes), compared byte for byte with every file the real writer produced in this run",
        "aux keys: standard 1..8 character keywords [A-Z0-9] accepted by write_key, not one of the FITS-semantic names (END, HISTORY, CONTINUE, EXTNAME, HDUNAME, BSCALE, BZERO, BLANK, ...); values printable ASCII, apostrophes included, as write_key accepts them for a standard keyword (length + number of apostrophes <= 68); long (HIERARCH) keys: C16",
        "an aux value read back may differ from the value written by trailing blanks only; the number of blanks is checked against the FITS rule (stored form, apostrophes doubled, padded to 8 characters) — a disagreement with that rule alone is reported as a broken tie, not as a property violation",
        "PERIODn values are not part of the property (15-digit decimal text); generated periods are multiples of 0.25 so that they round-trip",
        "array sizes below 2^63 (no wrap-around in the stride products)",
    ]


def san_head(err):
    """the informative lines of a sanitizer report"""
    ls = [l.strip() for l in err.splitlines() if "ERROR:" in l or "runtime error" in l or "SUMMARY" in l or "Assertion" in l or (l.startswith("    #") and "photospline" in l)]
    return " ;; ".join(ls[:8])[:900] or err[-400:]


def first_diff(a, b):
    """name the first field that differs between two dumps of tables"""
    try:
        if a.split()[0] != "ok" or b.split()[0] != "ok": return "verdict %s vs %s" % (" ".join(a.split()[:2]), " ".join(b.split()[:2]))
        ta, tb = F.parse_table(a.split()[1:]), F.parse_table(b.split()[1:])
        for k in ["ndim", "order", "naxes", "strides", "knots", "coef", "ext", "per", "aux"]:
            if ta[k] != tb[k]: return k
    except Exception:
        pass
    return "format"


def padding_only(got, exp, written):
    """the two dumps differ only in the number of trailing blanks of aux values, and C06's wording (value followed by
    blanks only) still holds: a disagreement with the FITS padding rule, not with the property"""
    try:
        if got.split()[0] != "ok" or exp.split()[0] != "ok": return False
        tg, te = F.parse_table(got.split()[1:]), F.parse_table(exp.split()[1:])
        return all(tg[k] == te[k] for k in tg if k != "aux") and F.aux_only_blanks_gained(tg["aux"], written["aux"])
    except Exception:
        return False


def aux_of(dump):
    try: return F.parse_table(dump.split()[1:])["aux"] if dump.split()[0] == "ok" else None
    except Exception: return None


def aux_diff(got, written):
    """the first auxiliary key that did not survive, in readable form"""
    try:
        if got.split()[0] != "ok": return ""
        tg = F.parse_table(got.split()[1:])
        if len(tg["aux"]) != len(written["aux"]): return " (%d keys written, %d read)" % (len(written["aux"]), len(tg["aux"]))
        for (kr, vr), (kw, vw) in zip(tg["aux"], written["aux"]):
            if kr != kw: return " (key %r read as %r)" % (kw, kr)
            if not F.aux_only_blanks_gained([(kr, vr)], [(kw, vw)]): return " (key %s: wrote %r, read %r)" % (kw, vw, vr)
    except Exception:
        pass
    return ""


def replay(ctx, path):
    r = json.load(open(path))
    print(json.dumps(r, indent=1)[:3000])
    run(ctx)
