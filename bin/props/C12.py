"""C12 — monotonic fitting terminates with the same result under every thread schedule.
Proof: PsV/Props/C12.lean (31 theorems) about the transition system PsV.Sync and its data-carrying refinement
PsV.Sync.DState (Model/SyncData.lean):
  safety      C12_inv_preserved, C12_invariants, C12_results_ready_when_read, C12_no_data_race, C12_no_step_before_create,
              C12_teardown_safe
  liveness    C12_no_deadlock, C12_rank_decreases, C12_terminates, C12_step_bound, C12_no_infinite_execution,
              C12_maximal_run_completes, C12_progress_measure, C12_strongly_fair_terminates; weak fairness is not enough:
              C12_spurious_cycle, C12_weak_fairness_not_enough, C12_weakly_fair_infinite_execution
  result      C12_result_is_sequential, C12_select_spec, C12_result_schedule_independent, C12_result_worker_count_independent,
              C12_data_refines_control, C12_compute_inputs_stable, C12_scanned_records, C12_data_result_is_sequential,
              C12_data_schedule_and_worker_count_independent, C12_each_trial_evaluated_once, C12_blocks_started
  published   C12_lost_wakeup_reachable, C12_unrepaired_deadlocks; finding C12_factor_update_depends_on_worker_count
Tie: the real cholesky_solve.c compiled with the forced-include shim harness/c12_shim.h; every pthread call yields to the
deterministic scheduler in harness/c12_harness.cpp (real threads, one runnable at a time).
  (a) code -> model: traces under seeded random / PCT / starvation / non-preemptive schedules (and a sample of the harness's
      own bounded-preemption DFS) are replayed op by op on the DATA model stepD?/spurD? (control part compared with step?/spur?
      at every step): op kind, enabledness, worker states, mutex owner, alpha indices, rank decrease, per-computation data
      (alpha index, x unchanged, record == oracle trial), final outputs == seqD, exactly-once counts, teardown;
      result must equal the thread-free sequential oracle bit for bit.
  (b) model -> code: the driver explores the model's state graph (incl. spurious wake-ups) and emits schedules covering every
      explored transition; each is forced through the real code (a forced thread that is not runnable = mismatch; no runnable
      thread before return = deadlock).
  (A') the code AS PUBLISHED is regenerated on every run (working tree with fixes/C12-1.diff reverse-applied) and tied to the
      model with repaired=false: the schedule of C12_lost_wakeup_reachable, emitted by the driver from the Lean definition, must
      deadlock it; seeded schedules and model-generated (deadlock / covering) schedules both ways.
Supporting evidence: the real nnls_normal_block3 with real threads for OMP_NUM_THREADS 1..32, coefficients bitwise equal; a
difference is attributed by repeating the sweep on a copy with fixes/C12-2.diff applied (modify_factor's thread-dependent
threshold) and by evaluating PsV.Sync.factorUpdate on the solver's own log."""
import hashlib, json, os, subprocess, time
import psvlib

SHIM = os.path.join(psvlib.VERIF, "harness", "c12_shim.h")
SIG_LOST = "walk_descents:coordinator-waits-on-condvar-before-testing-worker-states"


def build(ctx, mode="shipped"):
    return ctx.compile("c12h_" + mode, ["c12_harness.cpp"], mode=mode, defines=["PHOTOSPLINE_INCLUDES_SPGLAM"], repo_cpp=[],
                       repo_c=psvlib.FITTER_C, libs=psvlib.FITTER_LIBS, include_force={"src/fitter/cholesky_solve.c": SHIM})


FIX = os.path.join(psvlib.VERIF, "fixes", "C12-1.diff")


def build_published(ctx):
    """The code AS PUBLISHED, regenerated on every run: the working tree's cholesky_solve.c with fixes/C12-1.diff
    reverse-applied (if the tree is already unrepaired, i.e. the fix applies forwards, the tree's file itself).
    Returns (exe, how) or (None, why)."""
    src = os.path.join(psvlib.REPO, "src/fitter/cholesky_solve.c")
    d = os.path.join(ctx.scratch, "published"); os.makedirs(d, exist_ok=True)
    dst = os.path.join(d, "cholesky_solve.c")
    with open(src) as f: text = f.read()
    with open(dst, "w") as f: f.write(text)
    r = subprocess.run(["patch", "-R", "-s", "--no-backup-if-mismatch", "-F", "0", dst, FIX], stdout=subprocess.PIPE, stderr=subprocess.STDOUT, text=True)
    how = "HEAD with fixes/C12-1.diff reverse-applied"
    if r.returncode != 0:
        with open(dst, "w") as f: f.write(text)
        r2 = subprocess.run(["patch", "-s", "--dry-run", "-F", "0", dst, FIX], stdout=subprocess.PIPE, stderr=subprocess.STDOUT, text=True)
        if r2.returncode != 0:
            return None, "fixes/C12-1.diff applies neither backwards nor forwards to %s: %s" % (src, (r.stdout + r2.stdout)[-300:])
        how = "the working tree itself (fixes/C12-1.diff not applied there)"
    others = [c for c in psvlib.FITTER_C if not c.endswith("cholesky_solve.c")]
    exe = ctx.compile("c12h_published", ["c12_harness.cpp"], mode="shipped", defines=["PHOTOSPLINE_INCLUDES_SPGLAM"], repo_cpp=[],
                      repo_c=others + [dst], libs=psvlib.FITTER_LIBS, include_force={dst: SHIM},
                      extra=["-I" + os.path.join(psvlib.REPO, "src/fitter")])
    return exe, how


def harness(ctx, exe, cmds, timeout=900):
    """Run a command script; returns (rc, list of reply lines)."""
    inp = "\n".join(cmds + ["Q"]) + "\n"
    e = dict(os.environ); e["VERIF_SEED"] = str(ctx.seed); e.setdefault("ASAN_OPTIONS", "detect_leaks=0")
    try:
        r = subprocess.run([exe], input=inp, stdout=subprocess.PIPE, stderr=subprocess.PIPE, text=True, timeout=timeout, env=e, cwd=ctx.scratch)
        return r.returncode, [l for l in r.stdout.splitlines() if l.strip()], r.stderr
    except subprocess.TimeoutExpired as ex:
        out = ex.stdout.decode(errors="replace") if isinstance(ex.stdout, bytes) else (ex.stdout or "")
        return 124, [l for l in out.splitlines() if l.strip()], "TIMEOUT"


def kv(fields):
    d = {}
    for f in fields:
        if "=" in f:
            k, v = f.split("=", 1); d[k] = v
    return d


def parse_tr(line):
    head, toks, end = [p.strip() for p in line.split("|")]
    h = kv(head.split()[1:]); ew = end.split(); e = kv(ew[2:])
    return {"n": int(h["n"]), "m": int(h["m"]), "policy": h.get("policy", "?"), "toks": toks.split(), "status": ew[1],
            "feasible": e.get("feasible", "-"), "calcs": e.get("calcs", "-"), "same": e.get("same", "0"), "diff": e.get("diff", "-"),
            "teardown": e.get("teardown", "?"), "sched": e.get("sched", "")}


def computations(tr):
    """per trial index: how many finished computations the code reported (worker U tokens with a data field)"""
    cnt = [0] * tr["m"]; bad = []
    for t in tr["toks"]:
        f = t.split(":")
        if len(f) == 5 and f[4].startswith("d"):
            k, xdiff, receq = [int(v) for v in f[4][1:].split(",")]
            if 0 <= k < tr["m"]: cnt[k] += 1
            if xdiff != 0 or receq != 1 or not (0 <= k < tr["m"]): bad.append(t)
    return cnt, bad


def driver(ctx, lines, tag):
    fi = os.path.join(ctx.scratch, tag + ".in"); fo = os.path.join(ctx.scratch, tag + ".out")
    with open(fi, "w") as f: f.write("\n".join(lines) + "\n")
    if not ctx.driver_ok() or not ctx.run_driver("C12", fi, fo):
        ctx.tie_ok = False; ctx.broken.append({"kind": "driver failed", "tag": tag}); return None
    return [l.rstrip("\n") for l in open(fo)]


class Tally:
    def __init__(self): self.runs = 0; self.scheds = set(); self.dead = 0; self.bad = 0; self.replayed = 0; self.ops = 0; self.by = {}; self.comps = 0; self.teardowns = 0


def check_runs(ctx, T, prob, replies, what, expect_sched=None, variant=1):
    """prob: dict(pseed,nF,nneg,m,expect,resid). replies: TR lines. Oracle + model replay.
    variant=1: the code under test is the working tree (model of the repaired protocol); variant=0: the regenerated published
    code (model with repaired=false) — deadlocks are then expected behaviour and only the correspondence is checked."""
    rl, trs = [], []
    for line in replies:
        if not line.startswith("TR "): continue
        tr = parse_tr(line); trs.append(tr); T.runs += 1; T.ops += len(tr["toks"])
        T.by[(tr["n"], tr["m"])] = T.by.get((tr["n"], tr["m"]), 0) + 1
        if tr["n"] >= 2: T.scheds.add(hashlib.sha1((str(tr["n"]) + ":" + str(prob["pseed"]) + tr["sched"]).encode()).hexdigest()[:16])
        rep = {"problem": {k: prob[k] for k in ("pseed", "nF", "nneg")}, "n_threads": tr["n"], "n_alpha": tr["m"], "schedule": tr["sched"],
               "harness_cmds": ["P %d %d %d" % (prob["pseed"], prob["nF"], prob["nneg"]), "RUN %d sched %s" % (tr["n"], tr["sched"])],
               "trace": " ".join(tr["toks"][-40:])}
        if tr["status"] == "deadlock" and variant == 0:
            T.dead += 1
        elif tr["status"] == "deadlock":
            T.dead += 1
            ctx.report(SIG_LOST if tr["toks"] and tr["toks"][-1].startswith("0:W") else "deadlock:" + (tr["toks"][-1] if tr["toks"] else "?"), rep,
                       "%s: walk_descents deadlocked with %d worker(s), n_alpha=%d: no thread runnable and the routine has not returned (last ops: %s); schedule %s"
                       % (what, tr["n"], tr["m"], " ".join(tr["toks"][-4:]), tr["sched"]))
        elif tr["status"].startswith("mismatch"):
            T.bad += 1; ctx.tie_ok = False
            if len(ctx.broken) < 5: ctx.broken.append({"kind": "model schedule not executable on the code", "status": tr["status"], **rep})
        elif tr["same"] != "1":
            T.bad += 1
            ctx.report("result-differs:" + tr["diff"], rep, "%s: result of walk_descents with %d worker(s) under schedule %s differs from the sequential result (%s)"
                       % (what, tr["n"], tr["sched"], tr["diff"]))
        if tr["status"] == "ret":
            # exactly-once and per-record determinism, measured on the code: every finished computation used the entry value of x,
            # produced the oracle's record for its index, and no index was computed twice
            cnt, badc = computations(tr); T.comps += sum(cnt)
            if badc or any(v > 1 for v in cnt):
                T.bad += 1
                ctx.report("computation:" + (badc[0].split(":")[4] if badc else "twice"), rep_(prob, tr), "%s: a worker computation is not the single-threaded trial of its index (token %s) or an index was evaluated more than once (%s); %d workers, schedule %s"
                           % (what, badc[:1], cnt, tr["n"], tr["sched"][:120]))
            if tr["teardown"] == "bad":
                T.bad += 1
                ctx.report("teardown", rep_(prob, tr), "%s: pthread_mutex_destroy / pthread_cond_destroy reached while the mutex is owned, a thread waits on the condition variable, or a worker has not exited (%d workers, schedule %s)" % (what, tr["n"], tr["sched"][:120]))
            elif tr["teardown"] == "ok": T.teardowns += 1
            else:
                ctx.tie_ok = False
                if len(ctx.broken) < 5: ctx.broken.append({"kind": "walk_descents returned without destroying mutex and condition variable (teardown=%s)" % tr["teardown"], "schedule": tr["sched"]})
        rl.append("R %d %d %d %s %s %s %s %s %s" % (variant, tr["n"], tr["m"], prob["resid"], tr["status"], tr["feasible"], tr["calcs"], prob["expect"], " ".join(tr["toks"])))
    if not rl: return
    out = driver(ctx, rl, "replay%d" % T.runs)
    if out is None: return
    for tr, o in zip(trs, out):
        T.replayed += 1
        if not o.startswith("ok"):
            ctx.tie_ok = False
            if len(ctx.broken) < 6:
                ctx.broken.append({"kind": "trace of the real code is not a path of the model", "model_says": o, "n_threads": tr["n"], "n_alpha": tr["m"],
                                   "problem": {k: prob[k] for k in ("pseed", "nF", "nneg")}, "schedule": tr["sched"], "trace_tail": " ".join(tr["toks"][-12:])})
            if tr["status"] == "ret" and T.bad < 2:
                T.bad += 1  # the code left the proved protocol although this run returned: report the concrete schedule
                ctx.violation({"problem": {k: prob[k] for k in ("pseed", "nF", "nneg")}, "n_threads": tr["n"], "n_alpha": tr["m"], "schedule": tr["sched"],
                               "harness_cmds": ["P %d %d %d" % (prob["pseed"], prob["nF"], prob["nneg"]), "RUN %d sched %s" % (tr["n"], tr["sched"])], "model_says": o},
                              "%s: the pthread-call trace of walk_descents/evaluate_descent (%d workers, schedule %s) is not a path of the verified protocol: %s" % (what, tr["n"], tr["sched"][:120], o))
        elif tr["status"] == "ret" and kv(o.split()).get("cnt") != ",".join(str(v) for v in computations(tr)[0]):
            ctx.tie_ok = False
            if len(ctx.broken) < 6: ctx.broken.append({"kind": "evaluation counts of the code differ from the model's cnt", "model_says": o, "code": computations(tr)[0], "schedule": tr["sched"]})
        elif len(ctx.coverage["samples"]) < 5:
            ctx.coverage["samples"].append({"n_threads": tr["n"], "n_alpha": tr["m"], "policy": tr["policy"], "ops": len(tr["toks"]), "model": o})


SIG_FACTOR = "modify_factor:update-vs-refactor-threshold-divided-by-get_nthreads"
FIX2 = os.path.join(psvlib.VERIF, "fixes", "C12-2.diff")


def run_sweep(ctx, exe, outname, npb, maxt, quick, gen_seed):
    outp = os.path.join(ctx.scratch, outname)
    rc, so, se = ctx.run([exe, outp, str(npb), str(maxt)], timeout=120 if quick else 600, env={"VERIF_SEED": str(gen_seed)})
    lines = open(outp).read().splitlines() if os.path.exists(outp) else []
    return rc, se, lines, [l.split() for l in lines if l.startswith("N ")]


def build_factor_fixed(ctx):
    """nnls sweep harness on a copy of the tree's cholesky_solve.c with fixes/C12-2.diff applied (regenerated on demand)."""
    src = os.path.join(psvlib.REPO, "src/fitter/cholesky_solve.c")
    d = os.path.join(ctx.scratch, "factorfixed"); os.makedirs(d, exist_ok=True)
    dst = os.path.join(d, "cholesky_solve.c")
    with open(src) as f: text = f.read()
    with open(dst, "w") as f: f.write(text)
    r = subprocess.run(["patch", "-s", "--no-backup-if-mismatch", "-F", "0", dst, FIX2], stdout=subprocess.PIPE, stderr=subprocess.STDOUT, text=True)
    if r.returncode != 0:
        return None, "fixes/C12-2.diff does not apply to %s: %s" % (src, r.stdout[-200:])
    others = [c for c in psvlib.FITTER_C if not c.endswith("cholesky_solve.c")]
    exe = ctx.compile("c12n_fixed", ["c12_nnls_harness.cpp"], mode="shipped", defines=["PHOTOSPLINE_INCLUDES_SPGLAM"], repo_cpp=[],
                      repo_c=others + [dst], libs=psvlib.FITTER_LIBS, extra=["-I" + os.path.join(psvlib.REPO, "src/fitter")])
    return exe, "working tree with fixes/C12-2.diff applied"


def factor_decisions(ctx, exn, pidx, threads, gen_seed):
    """The solver's own log (verbose) of problem pidx with 1 and with `threads` workers: the sequence of modify_factor decisions
    (factor work, modification work, recomputed-from-scratch?).  Returns the first decision on which the two runs differ, with
    PsV.Sync.factorUpdate evaluated by the driver on the logged numbers."""
    import re
    rc, so, se = ctx.run([exn, os.path.join(ctx.scratch, "nnls_verbose.out"), str(pidx + 1), str(threads)], timeout=300,
                         env={"VERIF_SEED": str(gen_seed), "C12_VERBOSE": "1"})
    segs, cur = {}, None
    for l in so.splitlines():
        m = re.match(r"=== P (\d+) T (\d+)", l)
        if m: cur = (int(m.group(1)), int(m.group(2))); segs[cur] = []; continue
        if cur is None: continue
        m = re.search(r"Factor work: (-?\d+) Mod work: (-?\d+)", l)
        if m: segs[cur].append({"fl": int(m.group(1)), "modfl": int(m.group(2)), "update": True}); continue
        m = re.search(r"Recomputing factorization from scratch \(F\[(\d+)\], G\[(\d+)\], H1\[(\d+)\], H2\[(\d+)\]", l)
        if m and segs[cur]: segs[cur][-1].update({"update": False, "nF": int(m.group(1)), "nH": int(m.group(3)) + int(m.group(4))})
    a, b = segs.get((pidx, 1), []), segs.get((pidx, threads), [])
    for i, (x, y) in enumerate(zip(a, b)):
        if (x["fl"], x["modfl"], x["update"]) != (y["fl"], y["modfl"], y["update"]):
            out = {"decision_index": i, "one_thread": x, "%d_threads" % threads: y}
            if x["fl"] == y["fl"] and x["modfl"] == y["modfl"] and x["fl"] > 0 and x["modfl"] > 0:
                known = x if not x["update"] else y          # the run that recomputed printed nF and nH1+nH2
                q = ["F %d %d %d %d %d" % (t, known["nF"], x["fl"], x["modfl"], known["nH"]) for t in (1, threads)]
                r = driver(ctx, q, "factor")
                if r:
                    model = [l.split()[-1] == "1" for l in r]
                    out["model_factorUpdate"] = {"one_thread": model[0], "%d_threads" % threads: model[1]}
                    if model != [x["update"], y["update"]]:
                        ctx.tie_ok = False; ctx.broken.append({"kind": "modify_factor's logged decision differs from PsV.Sync.factorUpdate", "detail": out})
            return out
    return {"note": "no diverging decision found in the verbose logs", "decisions": [len(a), len(b)]}


def sweep_and_report(ctx, exn, outname, npb, maxt, quick, gen_seed, label, quiet_sig=None):
    rc, se, lines, ns = run_sweep(ctx, exn, outname, npb, maxt, quick, gen_seed)
    sweep = {"solves": len(ns), "problems": npb, "threads": "1..%d" % maxt, "generator_seed": gen_seed, "all_equal_to_1_thread": all(w[4] == "1" for w in ns), "finished": bool(lines and lines[-1] == "DONE")}
    cmd = "VERIF_SEED=%d c12_nnls_harness <out> %d %d" % (gen_seed, npb, maxt)
    if rc == 124 or not sweep["finished"]:
        last = ns[-1] if ns else None
        ctx.report("real-threads:hang", {"cmd": cmd, "last_completed": last, "rc": rc, "stderr": se[-500:]},
                   "%s: nnls_normal_block3 with real threads did not return (rc=%s) after problem/thread line %s — monotonic fit hangs" % (label, rc, last))
    differing = [w for w in ns if w[4] != "1"]
    if differing:
        w = differing[0]
        rep = {"problem_index": w[1], "n": w[2], "threads": w[3], "generator_seed": gen_seed, "cmd": cmd,
               "differing_solves": len(differing), "differing_problems": sorted(set(x[1] for x in differing))}
        # attribution: the same sweep on a regenerated copy of the tree in which modify_factor's update-vs-refactor threshold does not
        # depend on get_nthreads() (= fixes/C12-2.diff applied).  If that copy gives identical coefficients for every worker count, the
        # difference is the worker-count dependence of modify_factor (outside the hand-shake), else it is something new.
        exf, how = build_factor_fixed(ctx)
        sig = "real-threads:coefficients-differ"
        if exf:
            rc2, se2, lines2, ns2 = run_sweep(ctx, exf, "fixed_" + outname, npb, maxt, quick, gen_seed)
            same2 = bool(ns2) and len(ns2) == len(ns) and all(x[4] == "1" for x in ns2) and lines2[-1] == "DONE"
            rep["with_thread_independent_threshold"] = {"source": how, "solves": len(ns2), "all_equal_to_1_thread": same2}
            sweep["with_thread_independent_threshold"] = rep["with_thread_independent_threshold"]
            if same2: sig = SIG_FACTOR
        else:
            rep["with_thread_independent_threshold"] = {"unavailable": how}
        if sig == SIG_FACTOR:
            rep["first_diverging_decision"] = factor_decisions(ctx, exn, int(w[1]), int(w[3]), gen_seed)
            sweep["first_diverging_decision"] = rep["first_diverging_decision"]
        sweep["reported"] = sig
        if sig != quiet_sig:
            ctx.report(sig, rep, "%s: coefficients of nnls_normal_block3 with OMP_NUM_THREADS=%s differ bitwise from 1 thread (problem %s, n=%s; %d of %d solves differ)%s"
                       % (label, w[3], w[1], w[2], len(differing), len(ns), "; with modify_factor's update-vs-refactor threshold made independent of get_nthreads() (fixes/C12-2.diff) all worker counts agree" if sig == SIG_FACTOR else ""))
    return sweep


def rep_(prob, tr):
    return {"problem": {k: prob[k] for k in ("pseed", "nF", "nneg")}, "n_threads": tr["n"], "n_alpha": tr["m"], "schedule": tr["sched"],
            "harness_cmds": ["P %d %d %d" % (prob["pseed"], prob["nF"], prob["nneg"]), "RUN %d sched %s" % (tr["n"], tr["sched"])]}


def published_phase(ctx, T, exe_head, quick, dist):
    """Tie of the model with repaired=false (C12_lost_wakeup_reachable, C12_unrepaired_deadlocks) to the code as published."""
    seed = ctx.seed
    exp, how = build_published(ctx)
    info = {"source": how}
    dist["published_code"] = info
    if not exp:
        ctx.tie_ok = False; ctx.broken.append({"kind": "cannot regenerate the published code", "why": how}); return
    lw = driver(ctx, ["L"], "lw")
    if not lw or not lw[0].startswith("LW "):
        ctx.tie_ok = False; ctx.broken.append({"kind": "driver does not emit the lost-wake-up witness", "reply": lw}); return
    w = kv(lw[0].split()[1:]); n, m, sched = int(w["n"]), int(w["m"]), w["sched"]
    info["witness"] = {"n": n, "m": m, "schedule": sched}
    TP = Tally()
    # (a) exactly the schedule of the Lean theorem, on problems with n_alpha = m
    nd = 0
    for ps in range(3):
        p = get_prob(ctx, exp, 300 * seed + ps, 1 + ps, m - 2)
        if not p or p["m"] != m: ctx.tie_ok = False; ctx.broken.append({"kind": "no problem with n_alpha=%d" % m}); return
        rc, out, err = harness(ctx, exp, ["P %d %d %d" % (p["pseed"], p["nF"], p["nneg"]), "RUN %d sched %s" % (n, sched)])
        if rc != 0: return crash(ctx, rc, err, "published code, witness schedule")
        trs = [parse_tr(l) for l in out if l.startswith("TR ")]
        if len(trs) != 1 or trs[0]["status"] != "deadlock" or len(trs[0]["toks"]) != len(sched.split(",")):
            ctx.tie_ok = False; ctx.broken.append({"kind": "the witness schedule of C12_lost_wakeup_reachable does not deadlock the published code", "reply": out[-1][-300:] if out else None})
        else: nd += 1
        check_runs(ctx, TP, p, out, "published code, witness schedule", variant=0)
        # the same schedule on the working tree: executable (every forced step enabled), then runs to completion
        rc, out, err = harness(ctx, exe_head, ["P %d %d %d" % (p["pseed"], p["nF"], p["nneg"]), "RUN %d sched %s" % (n, sched)])
        if rc != 0: return crash(ctx, rc, err, "working tree, witness schedule")
        check_runs(ctx, T, p, out, "lost-wake-up witness schedule of the Lean theorem on the working tree")
    info["witness_deadlocks_published_code"] = nd
    # (b) code -> model(repaired=false): seeded schedules on the published code; returning and deadlocking runs must both be paths
    for k in range(4 if quick else 16):
        nF = 1 + (k * 3 + seed) % 6; nneg = (k * 5 + seed) % (nF + 1)
        p = get_prob(ctx, exp, 2000 * seed + k, nF, nneg)
        if not p: ctx.tie_ok = False; ctx.broken.append({"kind": "published harness failed on P"}); return
        cmds = ["P %d %d %d" % (p["pseed"], nF, nneg)]
        for nn in sorted(set([1, 2, 3, p["m"] + 1])):
            cmds += ["RUN %d np" % nn, "RUN %d delayc %d" % (nn, seed + k)]
            cmds += ["RUN %d rand %d" % (nn, seed * 31 + 7 * k + r) for r in range(3)]
            cmds += ["RUN %d pct %d 3" % (nn, seed * 17 + k)]
        rc, out, err = harness(ctx, exp, cmds)
        if rc != 0: return crash(ctx, rc, err, "published code, seeded schedules")
        check_runs(ctx, TP, p, out, "published code, seeded schedule", variant=0)
    # (c) model(repaired=false) -> code: shortest schedules into deadlocked model states must deadlock the published code,
    #     transition-covering schedules must be executable on it
    for (nn, mm) in ([(1, 2), (2, 3)] if quick else [(1, 2), (1, 3), (2, 3), (2, 4), (3, 4)]):
        p = None
        for ps in range(40):
            q = get_prob(ctx, exp, 7000 * seed + 50 * nn + ps, min(8, max(1, mm - 2 + (ps % 2))), mm - 2)
            if q and q["m"] == mm: p = q; break
        if not p: continue
        ex = driver(ctx, ["E 0 %d %d %s %d %d 0" % (nn, mm, p["resid"], 200000, 300 if quick else 3000)], "expub%d_%d" % (nn, mm))
        if not ex: return
        hd = kv(ex[0].split()[1:]); dls = [l[2:] for l in ex[1:] if l.startswith("D ")]; scheds = [l[2:] for l in ex[1:] if l.startswith("S ")]
        info.setdefault("model_exploration", []).append({"workers": nn, "n_alpha": mm, "states": int(hd["states"]), "model_deadlocks": int(hd["deadlocks"]), "deadlock_schedules_forced": len(dls), "schedules_run": len(scheds)})
        if int(hd["deadlocks"]) == 0 or not dls:
            ctx.tie_ok = False; ctx.broken.append({"kind": "model of the published code has no deadlocked state", "config": [nn, mm]})
        rc, out, err = harness(ctx, exp, ["P %d %d %d" % (p["pseed"], p["nF"], p["nneg"])] + ["RUN %d sched %s" % (nn, s_) for s_ in dls + scheds], timeout=900)
        if rc != 0: return crash(ctx, rc, err, "published code, model schedules")
        trs = [parse_tr(l) for l in out if l.startswith("TR ")]
        for tr in trs[:len(dls)]:
            if tr["status"] != "deadlock":
                ctx.tie_ok = False
                if len(ctx.broken) < 6: ctx.broken.append({"kind": "a deadlock schedule of the model (repaired=false) does not deadlock the published code", "schedule": tr["sched"], "status": tr["status"]})
        check_runs(ctx, TP, p, out, "published code, schedule generated from the model", variant=0)
    info.update({"runs": TP.runs, "deadlocked_runs": TP.dead, "traces_replayed_on_model_repaired_false": TP.replayed, "pthread_ops": TP.ops})
    T.runs += TP.runs; T.ops += TP.ops; T.replayed += TP.replayed
    ctx.note("phase A' (published code = %s): runs=%d deadlocks=%d replayed on the model with repaired=false=%d, witness deadlocks=%d/3" % (how, TP.runs, TP.dead, TP.replayed, nd))


def get_prob(ctx, exe, pseed, nF, nneg):
    rc, out, err = harness(ctx, exe, ["P %d %d %d" % (pseed, nF, nneg)])
    if rc != 0 or not out or not out[0].startswith("PROB"):
        return None
    d = kv(out[0].split()[1:])
    return {"pseed": pseed, "nF": nF, "nneg": nneg, "m": int(d["m"]), "expect": d["expect"], "feasible": d["feasible"], "resid": d["resid"]}


def run(ctx):
    ctx.audit()
    quick = ctx.tier == "quick"
    from concurrent.futures import ThreadPoolExecutor
    with ThreadPoolExecutor(max_workers=2) as tp:   # the two builds (with / without the shim) run side by side
        f1 = tp.submit(build, ctx, "shipped")
        f2 = tp.submit(lambda: ctx.compile("c12n", ["c12_nnls_harness.cpp"], mode="shipped", defines=["PHOTOSPLINE_INCLUDES_SPGLAM"], repo_cpp=[], repo_c=psvlib.FITTER_C, libs=psvlib.FITTER_LIBS))
        exe, exn = f1.result(), f2.result()
    if not exe:
        ctx.tie_ok = False; ctx.broken.append({"kind": "harness build failed (shim)"}); return
    T = Tally(); seed = ctx.seed
    dist = {"policies": {}, "configs": {}}

    # ---- phase A: lost-wake-up witness produced by the model of the code as published -------------------------------
    for n in (1, 2, 3):
        p = get_prob(ctx, exe, 100 * seed + n, 3, 1 + (n % 2))
        if not p: ctx.tie_ok = False; ctx.broken.append({"kind": "harness failed on P"}); return
        w = driver(ctx, ["W 0 %d %d %s" % (n, p["m"], p["resid"])], "wit%d" % n)
        if not w: return
        sched = kv(w[0].split())["sched"]
        if "end=deadlock" not in w[0]:
            ctx.tie_ok = False; ctx.broken.append({"kind": "model of the unrepaired code no longer deadlocks on the starvation schedule", "reply": w[0]})
        rc, out, err = harness(ctx, exe, ["P %d %d %d" % (p["pseed"], p["nF"], p["nneg"]), "RUN %d sched %s" % (n, sched), "RUN %d delayc %d" % (n, seed)])
        if rc != 0: return crash(ctx, rc, err, "witness schedule")
        check_runs(ctx, T, p, out, "lost-wake-up witness schedule (coordinator descheduled between unlock and lock)")
    ctx.note("phase A: witness schedules run=%d deadlocks=%d" % (T.runs, T.dead))

    # ---- phase A': the code as published (regenerated) against the model with repaired=false ---------------------------
    if ctx.violations == 0:
        published_phase(ctx, T, exe, quick, dist)

    # ---- phase B: code -> model under random / PCT / starvation schedules ---------------------------------------------
    nprob = 14 if quick else 60
    for k in range(nprob):
        nF = 1 + (k * 3 + seed) % 8; nneg = (k * 5 + seed) % (nF + 1)
        p = get_prob(ctx, exe, 1000 * seed + k, nF, nneg)
        if not p: ctx.tie_ok = False; ctx.broken.append({"kind": "harness failed on P"}); return
        cmds = ["P %d %d %d" % (p["pseed"], nF, nneg)]
        threads = [1, 2, 3, 4, 5, p["m"], p["m"] + 3] if not quick else [1, 2, 3, 1 + (k % 5), p["m"] + 1]
        for n in sorted(set(t for t in threads if 1 <= t <= 31)):
            cmds.append("RUN %d np" % n)
            for r in range(3 if quick else 6): cmds.append("RUN %d rand %d" % (n, seed * 7919 + 31 * k + r))
            for d in (2, 3, 5): cmds.append("RUN %d pct %d %d" % (n, seed * 104729 + 17 * k + d, d))
            cmds.append("RUN %d delayc %d" % (n, seed + k))
        rc, out, err = harness(ctx, exe, cmds)
        if rc != 0: return crash(ctx, rc, err, "random/PCT schedules, problem %s" % p)
        for l in out:
            if l.startswith("TR "):
                pol = kv(l.split("|")[0].split())["policy"].split(":")[0]; dist["policies"][pol] = dist["policies"].get(pol, 0) + 1
        check_runs(ctx, T, p, out, "seeded schedule")
        if ctx.violations >= 3: break
    ctx.note("phase B: runs=%d ops=%d deadlocks=%d bad=%d replayed=%d" % (T.runs, T.ops, T.dead, T.bad, T.replayed))

    # ---- phase B': the same under ASan+UBSan (thorough only) --------------------------------------------------------------
    if not quick and ctx.violations == 0:
        exs = build(ctx, "san")
        if not exs:
            ctx.tie_ok = False; ctx.broken.append({"kind": "sanitizer build of the scheduler harness failed"})
        else:
            for k in range(8):
                nF = 2 + (k + seed) % 7; nneg = (k * 3 + seed) % (nF + 1)
                p = get_prob(ctx, exs, 77000 * seed + k, nF, nneg)
                if not p: ctx.tie_ok = False; ctx.broken.append({"kind": "sanitizer harness failed on P"}); break
                cmds = ["P %d %d %d" % (p["pseed"], nF, nneg)]
                for n in (1, 2, 3, 5, p["m"] + 1):
                    cmds += ["RUN %d np" % n, "RUN %d rand %d" % (n, seed + k), "RUN %d pct %d 3" % (n, seed + 3 * k), "RUN %d delayc 1" % n]
                rc, out, err = harness(ctx, exs, cmds)
                if rc != 0: return crash(ctx, rc, err, "sanitizer build, problem %s" % p)
                check_runs(ctx, T, p, out, "seeded schedule (ASan+UBSan build)")
            dist["sanitizer_pass"] = True
            ctx.note("phase B': sanitizer build runs done, total runs=%d" % T.runs)

    # ---- phase C: model -> code: schedules covering every explored transition of the model -----------------------------
    configs = [(1, 1), (1, 2), (2, 1), (2, 2)] if quick else [(n, b) for n in (1, 2, 3) for b in (1, 2, 3)]
    cap = 1500 if quick else 12000
    explored = []
    for (n, b) in configs:
        for late in (True, False):
            m = max(2, n * b - (0 if late else 1)) if b > 1 or n > 1 else 2
            if (m + n - 1) // n != b: m = n * b
            if m < 2: continue
            # find a problem with this n_alpha whose chosen index is late (all blocks run) / early (early exit)
            p = None
            for ps in range(40):
                q = get_prob(ctx, exe, 5000 * seed + 50 * n + ps, min(8, max(1, m - 2 + (ps % 2))), m - 2)
                if q and q["m"] == m and ((int(q["expect"]) == m - 1) == late): p = q; break
            if not p: continue
            ex = driver(ctx, ["E 1 %d %d %s %d %d 1" % (n, m, p["resid"], 400000, cap)], "exp%d_%d_%d" % (n, b, late))
            if not ex: return
            hd = kv(ex[0].split()[1:]); scheds = [l[2:] for l in ex[1:] if l.startswith("S ")]
            explored.append({"workers": n, "blocks": b, "n_alpha": m, "late_choice": late, "states": int(hd["states"]), "transitions": int(hd["trans"]),
                             "model_deadlocks": int(hd["deadlocks"]), "complete": hd["complete"], "schedules_needed": int(hd["nsched"]), "schedules_run": len(scheds)})
            if int(hd["deadlocks"]) != 0:
                ctx.proof_ok = False; ctx.broken.append({"kind": "model of the repaired protocol has a deadlocked state", "config": explored[-1]})
            cmds = ["P %d %d %d" % (p["pseed"], p["nF"], p["nneg"])] + ["RUN %d sched %s" % (n, s) for s in scheds]
            rc, out, err = harness(ctx, exe, cmds, timeout=1500)
            if rc != 0: return crash(ctx, rc, err, "model schedules n=%d m=%d" % (n, m))
            check_runs(ctx, T, p, out, "schedule generated from the model (%d workers, %d blocks)" % (n, b))
            if ctx.violations >= 3: break
        if ctx.violations >= 3: break
    dist["model_exploration"] = explored
    ctx.note("phase C: %s" % json.dumps([(e["workers"], e["blocks"], e["states"], e["transitions"], e["schedules_run"], e["schedules_needed"]) for e in explored]))

    # ---- phase D: harness-side stateless DFS with preemption bound (independent of the model) --------------------------
    dfs = [(1, -1, 4000), (2, 1, 4000)] if quick else [(1, -1, 20000), (2, 2, 60000), (3, 1, 200000), (4, 1, 60000)]
    dfs_sum = []
    for (n, bound, maxruns) in dfs:
        if ctx.violations >= 3: break
        p = get_prob(ctx, exe, 9000 * seed + n, 3, 1 if n < 3 else 2)
        rc, out, err = harness(ctx, exe, ["P %d %d %d" % (p["pseed"], p["nF"], p["nneg"]), "DFS %d %d %d %d" % (n, bound, maxruns, 97)], timeout=1500)
        if rc != 0: return crash(ctx, rc, err, "DFS n=%d bound=%d" % (n, bound))
        d = kv([l for l in out if l.startswith("DFS ")][0].split()[1:])
        dfs_sum.append({"workers": n, "n_alpha": int(d["m"]), "preemption_bound": bound, "runs": int(d["runs"]), "complete": d["complete"], "deadlocks": int(d["deadlocks"]), "diffs": int(d["diffs"])})
        T.runs += int(d["runs"])
        check_runs(ctx, T, p, out, "bounded-preemption exhaustive enumeration (bound %d)" % bound)
        if (int(d["deadlocks"]) or int(d["diffs"])) and ctx.violations == 0 and ctx.known == 0:
            ctx.report("dfs:" + d["first_bad_sched"][:40], {"problem": p, "n_threads": n, "schedule": d["first_bad_sched"]}, "DFS found a deadlock/differing result: " + str(d))
    dist["dfs"] = dfs_sum
    ctx.note("phase D: %s" % json.dumps(dfs_sum))

    # ---- phase E: real threads, real solver, OMP_NUM_THREADS 1..32 (supporting evidence) --------------------------------
    sweep = {}
    if not exn:
        ctx.tie_ok = False; ctx.broken.append({"kind": "nnls sweep harness build failed"})
    elif ctx.violations == 0:
        npb, maxt = (8, 32) if quick else (40, 32)
        # fixed regression instance (generator seed 2, problem 2, 1 vs 2 threads): the input on which modify_factor's thread-dependent
        # threshold was found to change the coefficients; then the seeded sweep
        reg = sweep_and_report(ctx, exn, "nnls_reg.out", 3, 2, quick, gen_seed=2, label="regression instance (generator seed 2)")
        sweep = sweep_and_report(ctx, exn, "nnls.out", npb, maxt, quick, gen_seed=seed, label="seeded sweep", quiet_sig=reg.get("reported"))
        sweep["regression_instance"] = reg
        T.runs += sweep.get("solves", 0) + reg.get("solves", 0)
    dist["real_thread_sweep"] = sweep
    ctx.note("phase E: %s" % json.dumps(sweep))

    dist["configs"] = {"%dx%d" % k: v for k, v in sorted(T.by.items())}
    ctx.coverage["evaluations"] = T.runs
    ctx.coverage["distinct_nontrivial"] = len(T.scheds)
    ctx.coverage["rule"] = ("a case is one complete execution of the real walk_descents under a scheduler-controlled interleaving; non-trivial = at least 2 workers; "
                            "distinct = distinct (problem, worker count, executed schedule) triples among the traces replayed on the model (DFS runs are counted in evaluations only)")
    ctx.coverage["input_distribution"] = dist
    ctx.coverage["pthread_ops_replayed"] = T.ops
    ctx.coverage["traces_replayed_on_model"] = T.replayed
    ctx.coverage["worker_computations_compared_with_oracle"] = T.comps
    ctx.coverage["teardowns_checked"] = T.teardowns
    ctx.assumptions += [
        "POSIX semantics of mutex / condition variable / create / join as implemented by the harness scheduler and by PsV.Sync (cond_wait = release+enqueue, then re-acquire after wake; spurious wake-ups allowed)",
        "sequentially consistent memory: data-race freedom on the trial records is proved at the protocol level (C12_no_data_race); races inside CHOLMOD's shared cholmod_common (statistics counters, 'Caution to the wind' in cholesky_solve.h) are not modelled",
        "the shim disables sched_setaffinity (CPU pinning of workers is not part of the protocol)",
        "the three straight-line pieces of floating-point code (worker body incl. calc_residual, residual comparison, copy loop) are deterministic functions of the values they read (Num.trial/lt/put); given that, schedule- and worker-count independence of x/H1/residual/feasible is proved (C12_data_*), and each worker record is compared bit for bit with the thread-free oracle's trial of the same index on every run",
        "modify_factor's update-vs-refactor threshold divides by get_nthreads() in the published tree: a worker-count dependence of the coefficients outside the hand-shake (finding, C12_factor_update_depends_on_worker_count, fixes/C12-2.diff); it is observed through the OMP_NUM_THREADS sweep (fresh cholmod_common per solve) and attributed by repeating the sweep with the threshold fixed",
    ]


def crash(ctx, rc, err, where):
    ctx.tie_ok = False
    what = "scheduler harness %s (rc=%d) during %s: %s" % ("timed out" if rc == 124 else "aborted", rc, where, err[-600:])
    ctx.violation({"harness_rc": rc, "stderr": err[-2000:], "where": where, "replay_cmd": "VERIF_SEED=%d python3 bin/check.py C12 --tier %s" % (ctx.seed, ctx.tier)}, what)


def replay(ctx, path):
    r = json.load(open(path))
    print(json.dumps(r, indent=1)[:3000])
    cmds = r.get("harness_cmds")
    if cmds:
        exe = build(ctx, "shipped")
        if exe:
            rc, out, err = harness(ctx, exe, cmds)
            for l in out: print(l[:2000])
            p = r["problem"]; q = get_prob(ctx, exe, p["pseed"], p["nF"], p["nneg"])
            check_runs(ctx, Tally(), q, out, "replay")
            return
    run(ctx)
