"""C11 — the non-negative least-squares solvers return the constrained optimum.

Proof: PsV/Props/C11.lean (kkt_unique_min, kkt_tol_gap, kkt_tol_dist, kktCheck_sound, refNnls_sound,
block3_nonneg_invariant, block3_exit_kkt ...).  The solvers' convergence for all inputs is NOT claimed: this is
certificate checking with a proved checker.

Tie: harness/nnls_harness.cpp runs the four exported solvers of src/fitter/nnls.c (Lawson-Hanson in both its
normal-equation and least-squares form) in-process on generated SPD systems; the returned vectors enter
`psvdriver C11` as bit patterns, are converted to exact rationals and must
  * pass the verified `kktCheck` with per-component tolerance (tolS = the solver's stated tolerance)
      Cholesky-based solvers: tol_i = tolS + negpart*sum_j|A_ij| + 64 n 2^-53 (sum_j |A_ij| x_j + |b_i|)   (componentwise)
      Lawson-Hanson (QR):     tol_i = tolS + 64 max(n,rows) 2^-53 sum_i(sum_j |A|_ij x_j + |b|_i)           (column-normwise; |A|=|M|'|M|, |b|=|M|'|v| in least-squares form),
  * be >= -tolS (exactly >= 0 for nnls_normal_block3, the solver used by fitting),
  * be within the kkt_tol_dist distance of refNnls (exact active-set enumeration, n <= 12):
      1/2 (x-x*)'A(x-x*) <= sum_i tol_i (x_i + x*_i).
The BLOCK3 state machine (PsV.Nnls.block3Run, the object of block3_nonneg_invariant / block3_exit_kkt) is run
with exact solves on the same systems and its exit kind is compared with the C run; on non-degenerate systems
also its branch trace (full / boundary / walk counts).
Constants (KKT_TOL, max_iter, the BLOCK3 tolerance formula) are re-read from the source on every run.

Input classes (harness/nnls_harness.cpp): kinds 0-7 small (n <= 12, exact SPD certificate + exhaustive reference) and large
sparse banded (n <= 400, kktCheck only).  Kinds 8-10 are DENSE systems with n = 30..220 and small-integer entries
(kktCheck only): they are the classes on which modify_factor (cholesky_solve.c) takes its row-by-row path
(cholmod_rowadd / cholmod_rowdel on the full-size factor) for SEVERAL rows in one call, which needs a nearly dense factor
with n > ~14 x (rows changed), an earlier update request that built the full-size factor, and then >= 2 coefficients
released (or constrained) together:
   8  dense integer Gram B'B+I with random / mostly positive / planted right-hand sides,
   9  staged release: strictly diagonally dominant signed graph Laplacian + I with a dense core and a chain of small groups
      that are released together one iteration after the other (group sizes chosen for nnls_normal_block3 and, with a
      first group >= 8, for the block-switching rule of nnls_normal_block_updown), optionally scaled by powers of two,
  10  overshoot: every coefficient released first, a planted group of slightly negative components constrained together
      (multi-row deletion).
The harness counts, from the solvers' verbose output, the runs whose factor was updated row by row and those with a call
that changed >= 2 rows; the counts are part of the measured coverage (`rowmod`).
The driver's work is quadratic in n on these systems; the systems are dealt to several driver processes.

Two further streams (seeded changes C11-5 / C11-6):
  11  LARGE dense staged release, n = 600..1600 (and 2200..2400 for the block rule of nnls_normal_block_updown): the only sizes at
      which modify_factor still takes its row-by-row path for >= 2 rows after repo fix 20cd6bb (fl / (9*16*rows*modfl) > 1, i.e.
      n > ~216 x rows on a dense factor): core released first, then ONE coefficient (its update request builds the full-size
      factor), then a mutually coupled group of 2..6 released together (multi-row cholmod_rowadd, nH2 >= 2; counted from the
      solver's own "Add <k> rows" lines).  One system in five is the large overshoot variant (everything released at once, a
      planted group of 2..4 negative components constrained in one call: multi-row cholmod_rowdel), one in five has stages of
      9..10 and 8..9 coefficients at n = 2200..2400 (the block rule of nnls_normal_block_updown).  A system is a function of its descriptor (generator seed and sizes), which is what a
      replay carries.  Judged in the harness by the KKT residual in long double with the driver's tolerance formula; the same
      long-double judge is run on every vector of kinds 8-10 and must agree with the exact driver there (tie of the judge).
  12  "no improving trial step" corpus bin/props/C11_forced_corpus.txt (57 small integer systems found by
      tools/c11_forced_search.cpp): some line search of nnls_normal_block3 has no trial that lowers the objective, so
      walk_descents must take its last trial by the rule `i*n_threads + j == n_alpha-1`.  All four solvers at 1 line-search
      worker, updown / block3 also at 2, 3 and 8 workers, each run under the hang watchdog; exact oracle (n <= 7: certificate,
      enumeration, kktCheck).  Forced steps are counted on both sides (C: taken trial with d_res >= 0 in the verbose output;
      model: B3State.nForced of the exact state machine) and must agree.
"""
import json, os, re, struct
import psvlib

SOLVERS = {0: "nnls_lawson_hanson(normaleq=1)", 1: "nnls_normal_block", 2: "nnls_normal_block_updown",
           3: "nnls_normal_block3", 4: "nnls_lawson_hanson(normaleq=0)"}
KINDS = {0: "dense dyadic Gram", 1: "sparse dyadic Gram", 2: "degenerate (exact zeros, ties)", 3: "badly scaled 1e+-6",
         4: "arbitrary doubles", 5: "large sparse", 6: "least-squares form", 7: "extremely scaled (D over 1e+-6), Cholesky-based solvers only",
         8: "dense integer Gram B'B+I, n 40..220",
         9: "staged release (dense signed-Laplacian+I core, chain of small groups freed together), n 30..220",
         10: "overshoot (all freed first, a planted group of negative components constrained together), n 30..220",
         11: "LARGE dense staged release (core, one coefficient, then coupled groups of 2..10 freed together), n 600..2400",
         12: "no-improving-trial-step corpus (forced last step of walk_descents), n 4..7"}


EXPECTED_CONSTANTS = {"KKT_TOL": 1e-6, "max_iter": 120, "block3_factor": 1e5}


def dbl(u): return struct.unpack("d", struct.pack("Q", int(u)))[0]
def bits(d): return struct.unpack("Q", struct.pack("d", float(d)))[0]


def read_constants(ctx):
    """the translator for constants: fail closed when the source no longer has the expected shape"""
    src = open(os.path.join(psvlib.REPO, "src/fitter/nnls.c")).read()
    m1 = re.search(r"#define\s+KKT_TOL\s+([0-9.eE+-]+)", src)
    m2 = re.search(r"max_iter\s*=\s*(\d+)\s*;", src)
    m3 = re.search(r"kkt_tolerance\s*=\s*\(\(double\)\(nvar\)\)\s*\*\s*DBL_EPSILON\s*\*\s*([0-9.eE+-]+)\s*;", src)
    if not (m1 and m2 and m3):
        ctx.tie_ok = False
        ctx.broken.append({"kind": "constant extraction failed (KKT_TOL / max_iter / kkt_tolerance formula) in nnls.c"})
        return None
    consts = {"KKT_TOL": float(m1.group(1)), "max_iter": int(m2.group(1)), "block3_factor": float(m3.group(1))}
    # the tolerances are part of what is claimed ("the solver's stated tolerance"): a changed constant must not silently
    # loosen the check
    if consts != EXPECTED_CONSTANTS:
        ctx.tie_ok = False
        ctx.broken.append({"kind": "solver constants changed in nnls.c; the tolerance of the check is tied to them — re-validate", "found": consts, "expected": EXPECTED_CONSTANTS})
    return consts


NREF = 12


def spd_how(n):
    return "an exactly certified" if n <= NREF else "a by-construction"


def kv(s):
    return dict(p.split("=", 1) for p in s.split() if "=" in p)


def build(ctx, mode):
    return ctx.compile("nnlsh_" + mode, ["nnls_harness.cpp"], mode=mode, defines=["PHOTOSPLINE_INCLUDES_SPGLAM"],
                       repo_cpp=[], repo_c=psvlib.FITTER_C, libs=psvlib.FITTER_LIBS)


def sys_replay(sysline, xline=None, implline=None):
    w = sysline.split()
    # the dense systems of kinds 8-10 need up to ~1.5 MB (bit patterns of every entry); only the first five violations are
    # written to replays/, so the full line is kept: the replay then runs exactly this system
    r = {"system_line": sysline if len(sysline) < 4000000 else sysline[:20000] + " ...", "n": int(w[3]), "kind": KINDS.get(int(w[2]), w[2])}
    if xline: r["call_line"] = xline
    if implline: r["impl_line"] = implline[:4000]
    r["replay_cmd"] = "python3 bin/check.py C11 --replay <this file>"
    return r


def run_driver_parallel(ctx, drv_in, jobs=None):
    """The driver's protocol is stateful only within one system (a SYS line and the X / B3 lines that follow it), and its
    cost is quadratic in n for the dense systems: deal the systems round-robin to a few driver processes and put the
    answers back in input order.  Returns the output lines or None."""
    if not ctx.driver_ok(): return None
    jobs = jobs or max(1, min(6, (os.cpu_count() or 2) // 2))
    blocks = []
    for line in open(drv_in):
        if line.startswith("SYS") or not blocks: blocks.append([])
        blocks[-1].append(line)
    jobs = max(1, min(jobs, len(blocks)))
    names = ["%s.part%d" % (drv_in, k) for k in range(jobs)]
    files = [open(nm, "w") for nm in names]
    for k, blk in enumerate(blocks): files[k % jobs].writelines(blk)
    for f in files: f.close()
    from concurrent.futures import ThreadPoolExecutor
    with ThreadPoolExecutor(jobs) as ex:
        oks = list(ex.map(lambda nm: ctx.run_driver("C11", nm, nm + ".out"), names))
    if not all(oks): return None
    outs = [open(nm + ".out").read().splitlines() for nm in names]
    pos = [0] * jobs; olines = []
    for k, blk in enumerate(blocks):
        j = k % jobs
        olines += outs[j][pos[j]:pos[j] + len(blk)]; pos[j] += len(blk)
    if any(pos[j] != len(outs[j]) for j in range(jobs)): return []      # truncated / surplus output: the caller's length check fails
    return olines


def evaluate(ctx, consts, cases, impl, nref, acc, tag):
    """merge harness output into the driver input, run the driver, judge every line"""
    clines = open(cases).read().splitlines(); ilines = open(impl).read().splitlines()
    if len(clines) != len(ilines):
        ctx.tie_ok = False; ctx.broken.append({"kind": "harness output truncated", "cases": len(clines), "impl": len(ilines)}); return
    drv_in = cases + ".drv"; meta = []
    with open(drv_in, "w") as f:
        cur = None
        for c, i in zip(clines, ilines):
            if c.startswith("SYS"):
                cur = c; f.write(c + " %d\n" % nref); meta.append(("SYS", c, i)); continue
            w = c.split(); solver = int(w[2])
            if i.startswith("ok"):
                xs = i[3:].split("|")[0].split()
                f.write("X %s %s %s %s\n" % (w[1], w[2], w[3], " ".join(xs))); meta.append(("X", c, i, cur))
                if solver == 3 and int(cur.split()[3]) <= nref:
                    f.write("B3 %s %s %d\n" % (w[1], w[3], consts["max_iter"])); meta.append(("B3", c, i, cur))
            else:
                meta.append(("FAIL", c, i, cur))
    live = [m for m in meta if m[0] != "FAIL"]
    olines = run_driver_parallel(ctx, drv_in)
    if olines is None:
        ctx.tie_ok = False; ctx.broken.append({"kind": "driver failed"}); return
    if len(olines) != len(live):
        ctx.tie_ok = False; ctx.broken.append({"kind": "driver output truncated", "want": len(live), "got": len(olines)}); return
    out_of = {}
    k = 0
    for idx, m in enumerate(meta):
        if m[0] != "FAIL": out_of[idx] = olines[k]; k += 1
    sys_ok = True; sysinfo = {}
    for idx, m in enumerate(meta):
        if m[0] == "SYS":
            o = kv(out_of[idx]); sysinfo = o; kind = int(m[1].split()[2])
            acc["systems"] += 1
            sys_ok = True
            if o.get("symm") != "1":
                ctx.tie_ok = False; ctx.broken.append({"kind": "generator produced a non-symmetric matrix", "line": m[1][:200]}); sys_ok = False
            if o.get("spd") == "0":
                sys_ok = False; acc["not_spd_skipped"] += 1
                if kind != 4:   # dyadic Gram matrices are SPD by construction: the certificate must agree
                    ctx.tie_ok = False; ctx.broken.append({"kind": "exact SPD certificate failed on an SPD-by-construction system", "line": m[1][:300]})
            if o.get("spd") == "1" and o.get("ref") != "1":
                ctx.tie_ok = False; ctx.broken.append({"kind": "refNnls found no KKT point on a certified SPD system", "line": m[1][:300]}); sys_ok = False
            continue
        if not sys_ok: continue
        c, i, cur = m[1], m[2], m[3]
        w = c.split(); solver = int(w[2]); kind = int(cur.split()[2]); n = int(cur.split()[3])
        name = SOLVERS[solver]
        if m[0] == "FAIL":
            acc["evaluations"] += 1
            what = "%s %s on %s SPD system (n=%d, %s)" % (name, "did not terminate within the time limit (%s line-search worker(s); every attempt)" % (w[4] if len(w) > 4 else "1") if i.startswith("hang") else "aborted: " + i, spd_how(n), n, KINDS[kind])
            ctx.report("%s:%s" % (name, i.split()[0]), sys_replay(cur, c, i), what)
            continue
        o = kv(out_of[idx]); info = kv(i.split("|")[1]) if "|" in i else {}
        if m[0] == "B3":
            acc["b3_runs"] += 1
            cexit = "iterCap" if info.get("cap") == "1" else "converged"
            if o.get("exit") == "innerFuel":
                # impossible on a certified system with innerFuel = 4n+8 > n (theorem block3_inner_terminates): driver and theorem disagree
                ctx.tie_ok = False; ctx.broken.append({"kind": "BLOCK3 state machine left through the model-only innerFuel exit on a certified system (contradicts block3_inner_terminates)", "model": out_of[idx], "system": cur[:300]})
            if o.get("exit") != cexit:
                acc["b3_exit_mismatch"] += 1
                if kind in (0, 1, 4):
                    ctx.tie_ok = False
                    if len(ctx.broken) < 5: ctx.broken.append({"kind": "BLOCK3 state machine exit differs from the C run", "model": out_of[idx], "impl": i.split("|")[1], "system": cur[:300]})
            if o.get("exit") == "converged" and (o.get("kkt") != "1" or o.get("dist") == "0"):
                ctx.tie_ok = False; ctx.broken.append({"kind": "block3_exit_kkt instance failed in the driver", "model": out_of[idx], "system": cur[:300]})
            tr_m = (o.get("full"), o.get("boundary"), o.get("walk")); tr_c = (info.get("full"), info.get("boundary"), info.get("walk"))
            if tr_m == tr_c: acc["b3_trace_equal"] += 1
            else:
                acc["b3_trace_diff"] += 1
                # kind 12 is degenerate by selection: its runs pass through an accepted constraint-crossing step, after which the crossing
                # coefficient is exactly 0 in exact arithmetic (stays passive, "descent at boundary" next) and +-1e-17 in the C run
                if kind not in (2, 12):
                    acc["b3_trace_diff_nondegenerate"] += 1
                    if len(acc["b3_trace_diff_samples"]) < 3: acc["b3_trace_diff_samples"].append({"model": out_of[idx], "impl": i.split("|")[1].strip(), "system": cur[:400]})
                acc["b3_trace_diff_by_kind"][KINDS[kind]] = acc["b3_trace_diff_by_kind"].get(KINDS[kind], 0) + 1
            if o.get("walk") not in (None, "0"): acc["b3_model_walks"] += 1
            # forced last step of walk_descents (no trial reduced the residual): counted by the exact state machine and, from the
            # verbose output, in the C run; on the corpus (kind 12) the two must agree for every worker count
            mf, cf = int(o.get("forced", "0")), int(info.get("forced", "0"))
            thr = info.get("threads", "1")
            if mf > 0: acc["forced_model_runs"] += 1
            if kind == 12:
                fs = acc["forced_by_threads"].setdefault(thr, {"block3_runs": 0, "runs_with_forced_step_C": 0, "runs_with_forced_step_model": 0, "forced_steps_C": 0, "forced_steps_model": 0, "count_differs": 0})
                fs["block3_runs"] += 1; fs["forced_steps_C"] += cf; fs["forced_steps_model"] += mf
                if cf > 0: fs["runs_with_forced_step_C"] += 1
                if mf > 0: fs["runs_with_forced_step_model"] += 1
                if (cf > 0) != (mf > 0) or (tr_m == tr_c and cf != mf):
                    fs["count_differs"] += 1
                    if len(acc["forced_diff_samples"]) < 3: acc["forced_diff_samples"].append({"model": out_of[idx], "impl": i.split("|")[1].strip(), "system": cur[:400]})
            continue
        # X line
        acc["evaluations"] += 1
        acc["by_solver"][name] = acc["by_solver"].get(name, 0) + 1
        if int(info.get("retries", "0")): acc["hang_retries"] += int(info["retries"])
        if solver == 3 and int(info.get("forced", "0")) > 0: acc["block3_forced_step_runs"] += 1
        if "ldkkt" in info and o.get("finite") == "1":
            # the long-double judge of the large stream against the exact driver, on the same vector
            acc["ld_judge_compared"] += 1
            same = (info.get("ldkkt") == o.get("kkt") and info.get("ldnonneg") == o.get("nonneg") and info.get("ldnegok") == o.get("negok"))
            if not same:
                acc["ld_judge_differs"] += 1
                ctx.tie_ok = False
                if len(ctx.broken) < 5: ctx.broken.append({"kind": "long-double KKT judge of the harness disagrees with the exact driver", "harness": {k: v for k, v in info.items() if k.startswith("ld")}, "driver": out_of[idx], "system": cur[:300]})
        cap = info.get("cap") == "1"
        if cap: acc["cap_exits"][name] = acc["cap_exits"].get(name, 0) + 1
        for key in ("walk", "boundary"):
            if solver == 3 and info.get(key, "0") != "0": acc["block3_" + key + "_cases"] += 1
        if solver in (2, 3):
            # measured coverage of modify_factor's row-by-row path (cholmod_rowadd / rowdel on the full-size factor):
            # runs with at least one call / with a call that changed >= 2 rows at once
            ru = acc["rowmod"].setdefault(name, {"runs_with_row_updates": 0, "runs_with_multirow_add": 0, "runs_with_multirow_delete": 0, "max_rows_in_one_call": 0})
            if int(info.get("rowadd", "0")) + int(info.get("rowdel", "0")) > 0: ru["runs_with_row_updates"] += 1
            if int(info.get("madd", "0")) > 0: ru["runs_with_multirow_add"] += 1
            if int(info.get("mdel", "0")) > 0: ru["runs_with_multirow_delete"] += 1
            ru["max_rows_in_one_call"] = max(ru["max_rows_in_one_call"], int(info.get("maxrows", "0")))
        if o.get("finite") != "1":
            ctx.report("%s:nonfinite" % name, sys_replay(cur, c, i), "%s returned a non-finite vector on %s SPD system (n=%d, %s)" % (name, spd_how(n), n, KINDS[kind])); continue
        rel = float(o.get("rel", "nan")); acc["worst_rel"][name] = max(acc["worst_rel"].get(name, 0.0), rel if o.get("kkt") == "1" else 0.0)
        if kind >= 8 and o.get("kkt") == "1":
            # margin of the tolerance on the dense medium classes (largest violation / largest tolerance component; indicative)
            try: acc["medium_worst_need_over_tol"][name] = max(acc["medium_worst_need_over_tol"].get(name, 0.0), float(o.get("need", "0")) / float(o.get("tolmax", "1")))
            except (ValueError, ZeroDivisionError): pass
        bad = None
        if solver == 3 and o.get("nonneg") != "1": bad = "returned a negative component (negpart=%s): the solver used by fitting must be exactly non-negative" % o.get("negpart")
        elif o.get("negok") != "1": bad = "returned a component below -tolerance (negpart=%s)" % o.get("negpart")
        elif o.get("kkt") != "1": bad = "returned a point that is not a KKT point within the tolerance (violation %s > tolerance %s; componentwise relative %s)" % (o.get("need"), o.get("tolmax"), o.get("rel"))
        elif o.get("dist") == "0": bad = "returned a point outside the kkt_tol_dist distance of the exact minimiser (max |x - x*| = %s)" % o.get("maxdiff")
        if bad:
            if cap and solver != 3:
                acc["cap_nonkkt"][name] = acc["cap_nonkkt"].get(name, 0) + 1   # non-convergence exit: reported separately, no optimality claim
                continue
            acc["violations_by_kind"][KINDS[kind]] = acc["violations_by_kind"].get(KINDS[kind], 0) + 1
            acc["violations_by_solver"][name] = acc["violations_by_solver"].get(name, 0) + 1
            sig = "%s:%s" % (name, "nonkkt-after-walk" if (solver == 3 and info.get("walk", "0") != "0") else "nonkkt")
            ctx.report(sig, sys_replay(cur, c, i + " || driver: " + out_of[idx]),
                       "%s %s on %s SPD system (n=%d, %s; trace %s)%s" % (name, bad, spd_how(n), n, KINDS[kind], i.split("|")[1].strip() if "|" in i else "", "; iteration cap reached" if cap else ""))
        else:
            nz = tuple(z != "0" for z in i[3:].split("|")[0].split())
            acc["distinct"].add((cur.split()[1], tag, solver, nz))
            if len(ctx.coverage["samples"]) < 5 and solver == 3:
                ctx.coverage["samples"].append({"solver": name, "n": n, "kind": KINDS[kind], "trace": i.split("|")[1].strip(), "driver": out_of[idx]})


def new_acc():
    return {"systems": 0, "evaluations": 0, "not_spd_skipped": 0, "by_solver": {}, "cap_exits": {}, "cap_nonkkt": {}, "hang_retries": 0,
            "worst_rel": {}, "distinct": set(), "b3_runs": 0, "b3_exit_mismatch": 0, "b3_trace_equal": 0, "b3_trace_diff": 0,
            "b3_trace_diff_by_kind": {}, "b3_trace_diff_nondegenerate": 0, "b3_trace_diff_samples": [], "b3_model_walks": 0, "block3_walk_cases": 0, "block3_boundary_cases": 0, "rowmod": {}, "violations_by_kind": {}, "violations_by_solver": {}, "medium_worst_need_over_tol": {},
            "forced_model_runs": 0, "forced_by_threads": {}, "forced_diff_samples": [], "block3_forced_step_runs": 0, "ld_judge_compared": 0, "ld_judge_differs": 0,
            "model_instances": {"block_loop_cases": 0, "n_blocks_variant": {}, "add_rows_cases": 0, "add_rows_coupled": 0},
            "big": {"systems": 0, "runs": 0, "by_solver": {}, "n": [], "worst_need_over_tol": 0.0, "secs": 0.0}}


def run(ctx):
    ctx.audit()
    consts = read_constants(ctx)
    if consts is None: return
    nsmall, nlarge, nmed = (420, 9, 128) if ctx.tier == "quick" else (6000, 60, 900)
    modes = ["shipped"] if ctx.tier == "quick" else ["shipped", "san"]
    acc = new_acc(); dist = {}
    for mode in modes:
        exe = build(ctx, mode)
        if not exe:
            ctx.tie_ok = False; ctx.broken.append({"kind": "harness build failed", "mode": mode}); continue
        base = os.path.join(ctx.scratch, "c11_" + mode)
        ns, nl, nm = (nsmall, nlarge, nmed) if mode == "shipped" else (nsmall // 4, nlarge // 4, nmed // 4)
        rc, out, err = ctx.run([exe, str(ns), str(nl), base + ".in", base + ".impl", base + ".stats", repr(consts["KKT_TOL"]), "20", str(nm)],
                               timeout=3000, env={"OMP_NUM_THREADS": "1", "GOTO_NUM_THREADS": "1", "PSV_B3_FACTOR": repr(consts["block3_factor"])})
        if rc != 0:
            ctx.tie_ok = False
            ctx.violation({"harness_rc": rc, "stderr": err[-2000:], "replay_cmd": "VERIF_SEED=%d python3 bin/check.py C11 --tier %s" % (ctx.seed, ctx.tier)},
                          "NNLS harness %s (rc=%d): %s" % ("timed out" if rc == 124 else "aborted", rc, err[-600:]))
            continue
        dist[mode] = json.load(open(base + ".stats"))
        evaluate(ctx, consts, base + ".in", base + ".impl", NREF, acc, mode)
        if ctx.violations >= 5: continue
        corpus_stream(ctx, consts, exe, mode, acc, dist)
        if mode == "shipped": big_stream(ctx, consts, exe, acc, dist, 10 if ctx.tier == "quick" else 40)
    finish(ctx, acc, dist, consts)


CORPUS = os.path.join(psvlib.VERIF, "bin", "props", "C11_forced_corpus.txt")
CORPUS_THREADS = "2,3,8"


def corpus_stream(ctx, consts, exe, mode, acc, dist):
    """kind 12: the no-improving-trial-step corpus, every solver, 1 and several line-search workers, hang watchdog 6 s x 2"""
    base = os.path.join(ctx.scratch, "c11_corpus_" + mode)
    rc, out, err = ctx.run([exe, "corpus", CORPUS, base + ".in", base + ".impl", base + ".stats", repr(consts["KKT_TOL"]), "6", CORPUS_THREADS],
                           timeout=1200, env={"OMP_NUM_THREADS": "1", "GOTO_NUM_THREADS": "1"})
    if rc != 0:
        ctx.tie_ok = False
        ctx.violation({"harness_rc": rc, "stderr": err[-2000:], "replay_cmd": "python3 bin/check.py C11 --tier %s" % ctx.tier},
                      "NNLS harness (corpus stream) %s (rc=%d): %s" % ("timed out" if rc == 124 else "aborted", rc, err[-600:]))
        return
    st = json.load(open(base + ".stats")); dist["corpus_" + mode] = st
    if st.get("kind12", 0) + st.get("corpus_skipped_after_hangs", 0) < 20 or st.get("corpus_bad_lines", 0):
        ctx.tie_ok = False; ctx.broken.append({"kind": "forced-step corpus missing or unreadable", "file": CORPUS, "stats": st})
    evaluate(ctx, consts, base + ".in", base + ".impl", NREF, acc, "corpus-" + mode)
    model_instances(ctx, base, acc)


def model_instances(ctx, base, acc):
    """The two small models behind the new theorems, executed by the driver on what the C runs of the corpus showed:
    BL: for every (line-search workers T, index k of a forced step printed by walk_descents) the result loop as written
        (blockLoop, T workers, n_alpha = k+1, no trial reduces the residual) must choose k with feasible = 0 - the index the C code
        took; the variant with the multiplier n_blocks (seeded change C11-6) is evaluated too and its verdict recorded;
    AR: rows added to the full-size factor of each corpus matrix (addRows: two and three rows, passive set = the rest): every
        cholmod_rowadd inside its precondition and the represented matrix equal to A on the enlarged set; with the sets settled
        first (addRowsSettled, C11-2 / C11-5) the second rowadd is outside its precondition exactly when the first two rows are coupled."""
    if not ctx.driver_ok(): return
    pairs = set(); systems = []
    for c, i in zip(open(base + ".in").read().splitlines(), open(base + ".impl").read().splitlines()):
        if c.startswith("SYS"): systems.append(c); continue
        if not i.startswith("ok") or "|" not in i: continue
        info = kv(i.split("|")[1])
        if info.get("fidx", "-") != "-":
            for k in info["fidx"].split(","): pairs.add((int(info.get("threads", "1")), int(k)))
    lines = []; expect = []
    for (t, k) in sorted(pairs):
        m = k + 1
        lines.append("BL %d %d %d 0" % (t, m, t)); expect.append(("bl", t, k, "written"))
        lines.append("BL %d %d %d 0" % (t, m, (m + t - 1) // t)); expect.append(("bl", t, k, "n_blocks"))
    for sl in systems:
        n = int(sl.split()[3])
        if n < 4: continue
        lines.append(sl + " 0"); expect.append(("sys",))
        lines.append("AR %s %d %d %d" % (sl.split()[1], n, n - 2, n - 1)); expect.append(("ar", 2))
        lines.append("AR %s %d %d %d %d" % (sl.split()[1], n, 1, n - 1, 2)); expect.append(("ar", 3))
    fn = base + ".inst"
    open(fn, "w").write("\n".join(lines) + "\n")
    if not ctx.run_driver("C11", fn, fn + ".out"):
        ctx.tie_ok = False; ctx.broken.append({"kind": "driver failed on the model instance checks"}); return
    out = open(fn + ".out").read().splitlines()
    if len(out) != len(lines):
        ctx.tie_ok = False; ctx.broken.append({"kind": "driver output truncated (model instance checks)", "want": len(lines), "got": len(out)}); return
    inst = acc["model_instances"]
    for ln, ex, o in zip(lines, expect, out):
        r = kv(o)
        if ex[0] == "bl":
            if ex[3] == "written":
                inst["block_loop_cases"] += 1
                if not (r.get("chosen") == str(ex[2]) and r.get("feasible") == "0" and r.get("base") == "0"):
                    ctx.tie_ok = False; ctx.broken.append({"kind": "blockLoop (result loop of walk_descents as written) does not choose the forced index the C run took", "input": ln, "model": o, "workers": ex[1], "index": ex[2]})
            else:
                key = "T=%d n_alpha=%d" % (ex[1], ex[2] + 1)
                inst["n_blocks_variant"][key] = "never steps (hang)" if r.get("chosen") == "none" else ("steps at %s" % r.get("chosen"))
        elif ex[0] == "ar":
            inst["add_rows_cases"] += 1
            ok = r.get("written") == "some" and r.get("represents") == "1" and ((r.get("settled") == "none") == (r.get("coupled") == "1"))
            if r.get("coupled") == "1": inst["add_rows_coupled"] += 1
            if not ok:
                ctx.tie_ok = False; ctx.broken.append({"kind": "addRows / addRowsSettled instance contradicts modify_factor_add_rows_represents / modify_factor_settle_first_breaks_rowadd", "input": ln[:200], "model": o})


BIG_CONSTRUCTION = ("integer symmetric matrix, strictly diagonally dominant with a_ii = 1 + sum_j |a_ij| (+ ridge on the staged coefficients): dense core with "
                    "couplings -(1..3) and b = 1..16, then stages Q_1, Q_2, ...: every member coupled by -(1..3) to 1..3 members of the previous stage and "
                    "(probability 0.9) to every other member of its own stage, b = 0 or -(1..4)/16; optional scaling D A D by powers of two; indices "
                    "permuted; all drawn from Rng(2*gseed+1) in harness/nnls_harness.cpp: gen_big. descriptor = gseed n perm_style scaled core_density/10 ridge #planted_negative #stages sizes...; with a planted negative group (overshoot) the last members of the core get x0 = -(1..7)/8, positive couplings to the rest of the core and b = A x0 on the core")


def big_report(ctx, name, solver, tolbits, desc, status, info, ld, vec, what):
    d = desc.split()
    rep = {"stream": KINDS[11], "descriptor": desc, "n": int(d[1]), "planted_negative_group": int(d[6]), "stage_sizes": [int(v) for v in d[8:]], "construction": BIG_CONSTRUCTION,
           "solver": solver, "tolbits": tolbits, "impl_line": (status + " | " + info)[:2000], "judge": ld,
           "replay_cmd": "python3 bin/check.py C11 --replay <this file>",
           "all_entries": "PSV_NNLS_DUMPSYS=<file> nnls_harness bigreplay <out> <kkt_tol> <hang_s> <solver> <descriptor> writes the full system (SYS line, bit patterns)"}
    if vec: rep["returned_vector_bits"] = vec
    ctx.report(name, rep, what)


def big_judge(ctx, consts, lines, acc):
    for line in lines:
        f = [p.strip() for p in line.split(";")]
        if len(f) < 6 or not f[0].startswith("BIG"): continue
        w = f[0].split(); solver = int(w[2]); tolbits = w[3]; desc = f[1]; status = f[2]; info = kv(f[3]); ld = kv(f[4]); n = int(desc.split()[1])
        name = SOLVERS[solver]; big = acc["big"]
        big["runs"] += 1; acc["evaluations"] += 1; acc["by_solver"][name] = acc["by_solver"].get(name, 0) + 1
        try: big["secs"] += float(kv(f[5]).get("secs", "0"))
        except ValueError: pass
        where = "a by-construction SPD system (n=%d, %s; planted negative group %s, stages %s)" % (n, KINDS[11], desc.split()[6], desc.split()[8:])
        if status != "ok":
            big_report(ctx, "%s:%s" % (name, status.split()[0]), solver, tolbits, desc, status, f[3], ld, "",
                       "%s %s on %s" % (name, "did not terminate within the time limit" if status.startswith("hang") else "aborted: " + status, where))
            continue
        bs = big["by_solver"].setdefault(name, {"runs": 0, "runs_with_row_updates": 0, "runs_with_multirow_add": 0, "multirow_add_calls": 0, "max_rows_in_one_call": 0, "runs_with_multirow_delete": 0})
        bs["runs"] += 1
        if int(info.get("rowadd", "0")) + int(info.get("rowdel", "0")) > 0: bs["runs_with_row_updates"] += 1
        if int(info.get("madd", "0")) > 0: bs["runs_with_multirow_add"] += 1
        bs["multirow_add_calls"] += int(info.get("madd", "0"))
        if int(info.get("mdel", "0")) > 0: bs["runs_with_multirow_delete"] += 1
        bs["max_rows_in_one_call"] = max(bs["max_rows_in_one_call"], int(info.get("maxrows", "0")))
        if info.get("cap") == "1": acc["cap_exits"][name] = acc["cap_exits"].get(name, 0) + 1
        vec = f[6] if len(f) > 6 else ""
        bad = None
        if ld.get("ldfinite") != "1": bad = "returned a non-finite vector"
        elif solver == 3 and ld.get("ldnonneg") != "1": bad = "returned a negative component (negpart=%s): the solver used by fitting must be exactly non-negative" % ld.get("ldnegpart")
        elif ld.get("ldnegok") != "1": bad = "returned a component below -tolerance (negpart=%s)" % ld.get("ldnegpart")
        elif ld.get("ldkkt") != "1": bad = "returned a point that is not a KKT point within the tolerance (violation %s > tolerance %s; componentwise relative %s; worst index %s in stage %s)" % (ld.get("ldneed"), ld.get("ldtol"), ld.get("ldrel"), ld.get("ldworst"), ld.get("worstrole"))
        if bad and info.get("cap") == "1" and solver != 3:
            acc["cap_nonkkt"][name] = acc["cap_nonkkt"].get(name, 0) + 1; continue
        if bad:
            acc["violations_by_kind"][KINDS[11]] = acc["violations_by_kind"].get(KINDS[11], 0) + 1
            acc["violations_by_solver"][name] = acc["violations_by_solver"].get(name, 0) + 1
            big_report(ctx, "%s:%s" % (name, "nonfinite" if "non-finite" in bad else "nonkkt"), solver, tolbits, desc, status, f[3], ld, vec,
                       "%s %s on %s; trace %s" % (name, bad, where, f[3]))
        else:
            try:
                big["worst_need_over_tol"] = max(big["worst_need_over_tol"], float(ld.get("ldneed", "0")) / float(ld.get("ldtol", "1")))
                acc["worst_rel"][name] = max(acc["worst_rel"].get(name, 0.0), float(ld.get("ldrel", "0")))
            except (ValueError, ZeroDivisionError): pass
            acc["distinct"].add((desc, "big", solver, ld.get("positive")))
    descs = sorted(set(l.split(";")[1].strip() for l in lines if l.startswith("BIG") and ";" in l))
    acc["big"]["systems"] += len(descs); acc["big"]["n"] += [int(d.split()[1]) for d in descs]


def big_stream(ctx, consts, exe, acc, dist, count):
    """kind 11: large dense staged-release systems; nnls_normal_block_updown and nnls_normal_block3; judged by the harness's long-double KKT residual"""
    out = os.path.join(ctx.scratch, "c11_big.out")
    rc, so, err = ctx.run([exe, "big", str(count), out, repr(consts["KKT_TOL"]), "90"], timeout=2400, env={"OMP_NUM_THREADS": "1", "GOTO_NUM_THREADS": "1"})
    lines = open(out).read().splitlines() if os.path.exists(out) else []
    if rc != 0 or len(lines) != 2 * count:
        ctx.tie_ok = False
        ctx.violation({"harness_rc": rc, "stderr": err[-2000:], "lines": len(lines), "replay_cmd": "VERIF_SEED=%d python3 bin/check.py C11 --tier %s" % (ctx.seed, ctx.tier)},
                      "NNLS harness (large dense stream) %s (rc=%d, %d of %d result lines): %s" % ("timed out" if rc == 124 else "aborted or truncated", rc, len(lines), 2 * count, err[-600:]))
    big_judge(ctx, consts, lines, acc)


def finish(ctx, acc, dist, consts):
    # branch trace (accepted solves / boundary bindings / projected walks) of the state machine with exact solves vs the C run:
    # exact and floating-point decisions may differ at ties (degenerate systems are excluded, isolated near-ties tolerated);
    # a systematic difference means the model no longer describes the code
    if acc["b3_trace_diff_nondegenerate"] > max(3, acc["b3_runs"] // 100):
        ctx.tie_ok = False
        ctx.broken.append({"kind": "BLOCK3 state machine branch trace differs from the C run on non-degenerate systems",
                           "count": acc["b3_trace_diff_nondegenerate"], "runs": acc["b3_runs"], "samples": acc["b3_trace_diff_samples"]})
    ctx.coverage["evaluations"] = acc["evaluations"]
    ctx.coverage["distinct_nontrivial"] = len(acc["distinct"])
    ctx.coverage["rule"] = ("systems drawn from VERIF_SEED by harness/nnls_harness.cpp; every system is solved by each exported solver; a case is "
                            "non-trivial when the solver terminated and its vector passed all exact checks; distinct = distinct (system, solver, support pattern)")
    d = {k: v for k, v in acc.items() if k != "distinct"}
    ctx.coverage["input_distribution"] = {"harness": dist, "kinds": KINDS, "constants_from_source": consts}
    ctx.coverage["measured"] = d
    ctx.assumptions += [
        "positive definiteness of the generated systems: exact certificate (symmetric, all elimination pivots > 0 in Rat) for n <= 12, proved equivalent to v'Av > 0 (spdCert_iff); larger systems are B'B + I in exact integer arithmetic (not certified by the driver)",
        "the exact solves of the BLOCK3 state machine (exactEnv: Gauss-Jordan on the passive set) are proved correct and total on certified systems (solveOn_solves, solveOn_returns, exactEnv_ExactEnv); the model-only exit innerFuel is proved unreachable there (block3_inner_terminates) and is reported as a broken tie if the driver ever prints it",
        "the matrix is handed to the solvers in full storage (both triangles, stype 0) as glamfit does; CHOLMOD's symmetric storage (stype != 0) is outside the checked input space (the solvers do not support it: see design notes)",
        "systems with n > 12: B'B + I, or (kinds 9/10) symmetric strictly diagonally dominant with positive diagonal (weighted signed-graph Laplacian + I, possibly scaled D A D by powers of two); symmetry is re-checked exactly by the driver, definiteness of these is by construction",
        "certificate checking: the solvers' convergence for all inputs is not proved (and is false at the iteration caps); iteration-cap exits are counted separately",
        "tolerance tol_i = tolS + negpart*sum|A_ij| + 64 n 2^-53 (sum_j |A_ij| x_j + |b_i|) (Cholesky-based solvers) / tolS + 64 max(n,rows) 2^-53 sum_i(sum_j |A|_ij x_j + |b|_i) (Lawson-Hanson: QR is not invariant under scaling; |A|=|M|'|M|, |b|=|M|'|v| in least-squares form): the rounding term is an envelope for CHOLMOD/SPQR backward error, measured worst componentwise ratio reported per solver",
        "large dense stream (kind 11, n = 600..2400): the KKT residual is evaluated by the harness in long double (64-bit significand; entries are small integers times powers of two, so every product is exact up to 2^-64 and the sums carry <= n 2^-64 relative to the magnitude, five orders below the rounding term 64 n 2^-53 of the tolerance), not by the verified kktCheck; the same judge is run on every vector of kinds 8-10 and compared with the exact driver (ld_judge_compared / ld_judge_differs)",
        "OMP_NUM_THREADS=1 (line-search workers and BLAS threads) except on the forced-step corpus, where nnls_normal_block_updown / nnls_normal_block3 also run with 2, 3 and 8 line-search workers; a scheduling-dependent hang of walk_descents (property C12) is retried up to 3 times and counted",
        "Lawson-Hanson relies on SuiteSparseQR's default rank tolerance; badly scaled systems keep column norms within 1e6 of each other (A entries over 1e+-6)",
    ]
    # forced-step stream: the corpus must still do what it is kept for (otherwise the stream has silently lost its subject), and the
    # exact state machine must see the forced step where the C run takes it
    fb = acc["forced_by_threads"]
    if fb:
        tot = sum(v["block3_runs"] for v in fb.values()); took = sum(v["runs_with_forced_step_C"] for v in fb.values()); differs = sum(v["count_differs"] for v in fb.values())
        if ctx.violations == 0 and took < tot // 2:
            ctx.tie_ok = False; ctx.broken.append({"kind": "forced-step corpus: fewer than half of the nnls_normal_block3 runs took the forced last step of walk_descents", "runs": tot, "took": took})
        if differs > max(2, tot // 20):
            ctx.tie_ok = False; ctx.broken.append({"kind": "forced-step corpus: forced steps counted by the exact state machine differ from the C run", "runs": tot, "differ": differs, "samples": acc["forced_diff_samples"]})
        ctx.note("forced last step of walk_descents on the corpus, by line-search workers (block3 runs / took it in C / in the model / counts differ): %s" % {
            k: "%d/%d/%d/%d" % (v["block3_runs"], v["runs_with_forced_step_C"], v["runs_with_forced_step_model"], v["count_differs"]) for k, v in sorted(fb.items(), key=lambda kv_: int(kv_[0]))})
    big = acc["big"]
    if big["runs"]:
        b3 = big["by_solver"].get(SOLVERS[3], {})
        if ctx.violations == 0 and b3.get("runs_with_multirow_add", 0) < max(1, b3.get("runs", 0) // 2):
            ctx.tie_ok = False; ctx.broken.append({"kind": "large dense stream: modify_factor's multi-row add path (nH2 >= 2 on the full-size factor) is no longer reached by nnls_normal_block3 on most systems", "measured": big["by_solver"]})
        ctx.note("large dense stream: systems=%d n=%s runs=%d; multi-row adds (runs with a call adding >= 2 rows / calls / max rows / runs with a call deleting >= 2 rows): %s; worst violation/tolerance %.2e; solver time %.1fs" % (
            big["systems"], sorted(big["n"]), big["runs"], {k.replace("nnls_normal_", ""): "%d of %d/%d/%d/%d" % (v["runs_with_multirow_add"], v["runs"], v["multirow_add_calls"], v["max_rows_in_one_call"], v["runs_with_multirow_delete"]) for k, v in big["by_solver"].items()},
            big["worst_need_over_tol"], big["secs"]))
    mi = acc["model_instances"]
    if mi["block_loop_cases"] or mi["add_rows_cases"]:
        ctx.note("model instances run by the driver: blockLoop on %d observed (workers, forced index) pairs, n_blocks variant: %s; addRows on %d row sets (%d coupled)" % (
            mi["block_loop_cases"], mi["n_blocks_variant"], mi["add_rows_cases"], mi["add_rows_coupled"]))
    ctx.note("long-double judge vs exact driver on kinds 8-10: compared=%d differ=%d; block3 runs that took a forced step (all streams)=%d" % (acc["ld_judge_compared"], acc["ld_judge_differs"], acc["block3_forced_step_runs"]))
    if acc["violations_by_kind"]: ctx.note("not-KKT results by input class: %s by solver: %s" % (acc["violations_by_kind"], acc["violations_by_solver"]))
    ctx.note("row-by-row factor updates (runs with any / with >= 2 rows added / deleted in one call): %s" % {
        k.replace("nnls_normal_", ""): "%d/%d/%d" % (v["runs_with_row_updates"], v["runs_with_multirow_add"], v["runs_with_multirow_delete"]) for k, v in acc["rowmod"].items()})
    ctx.note("systems=%d evaluations=%d cap_exits=%s cap_nonkkt=%s hang_retries=%d worst_rel=%s b3: runs=%d exit_mismatch=%d trace_equal=%d trace_diff=%d C-walk-cases=%d" % (
        acc["systems"], acc["evaluations"], acc["cap_exits"], acc["cap_nonkkt"], acc["hang_retries"],
        {k: "%.1e" % v for k, v in acc["worst_rel"].items()}, acc["b3_runs"], acc["b3_exit_mismatch"], acc["b3_trace_equal"], acc["b3_trace_diff"], acc["block3_walk_cases"]))


def replay(ctx, path):
    r = json.load(open(path))
    print(json.dumps({k: (v if len(str(v)) < 600 else str(v)[:600] + "...") for k, v in r.items()}, indent=1))
    ctx.audit()
    consts = read_constants(ctx)
    if consts is not None and "descriptor" in r:
        # large dense stream: regenerate the system from its descriptor, run the one solver, judge
        exe = build(ctx, "shipped")
        if not exe:
            ctx.tie_ok = False; ctx.broken.append({"kind": "harness build failed"}); return
        out = os.path.join(ctx.scratch, "bigreplay.out")
        rc, so, err = ctx.run([exe, "bigreplay", out, repr(consts["KKT_TOL"]), "90", str(r["solver"])] + r["descriptor"].split(), timeout=600,
                              env={"OMP_NUM_THREADS": "1", "GOTO_NUM_THREADS": "1"})
        acc = new_acc()
        lines = open(out).read().splitlines() if os.path.exists(out) else []
        if rc != 0 or not lines:
            ctx.tie_ok = False; ctx.broken.append({"kind": "bigreplay failed", "rc": rc, "stderr": err[-500:]})
        big_judge(ctx, consts, lines, acc)
        finish(ctx, acc, {}, consts); return
    if consts is None or "system_line" not in r or r["system_line"].endswith("..."):
        run(ctx); return
    exe = build(ctx, "shipped")
    if not exe:
        ctx.tie_ok = False; ctx.broken.append({"kind": "harness build failed"}); return
    base = os.path.join(ctx.scratch, "replay")
    with open(base + ".in", "w") as f:
        f.write(r["system_line"] + "\n")
        sid = r["system_line"].split()[1]; n = int(r["system_line"].split()[3]); ls = r["system_line"].split()[4] == "1"
        if "call_line" in r: f.write(r["call_line"] + "\n")
        else:
            for s in ([4] if ls else [0, 1, 2, 3]):
                tol = n * 2.220446049250313e-16 * consts["block3_factor"] if s == 3 else (consts["KKT_TOL"] if s in (1, 2) else 1e-9)
                f.write("X %s %d %d\n" % (sid, s, bits(tol)))
    rc, out, err = ctx.run([exe, "replay", base + ".in", base + ".impl", "20"], timeout=600, env={"OMP_NUM_THREADS": "1"})
    acc = new_acc()
    evaluate(ctx, consts, base + ".in", base + ".impl", NREF, acc, "replay")
    finish(ctx, acc, {}, consts)
