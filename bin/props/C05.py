"""C05 — lookup and evaluation are memory-safe for every coordinate vector.
Proof: PsV/Props/C05.lean. Tie: ASan+UBSan+assert build of the real code on exact-size allocations (red zones at
+-order around every knot array, directly after the coefficient array), arbitrary IEEE doubles, every entry point;
lookup results and all returned bits are also compared with the executable model."""
import json, os
from . import evalcommon as E

def run(ctx):
    ctx.audit()
    n_t, n_p = (260, 30) if ctx.tier == "quick" else (4000, 80)
    st = {"points": 0, "bits": 0, "mismatch": 0, "nan_lookups": 0, "refused": 0}
    dist = {}
    exe = E.build(ctx, "san")
    if not exe:
        ctx.tie_ok = False; ctx.broken.append({"kind": "harness build failed"}); return
    rc, out, err, cases, impl, stats = E.generate(ctx, exe, "C05", n_t, n_p, 3000)
    if rc != 0:
        # find the last case written before the abort: that is the offending input
        last_table, last_case = None, None
        try:
            for line in open(cases):
                if line.startswith("T "): last_table = line
                elif line[:1] in "SBEG": last_case = line
        except Exception: pass
        tbl = E.parse_table(last_table.split()) if last_table else None
        ctx.violation({"harness_rc": rc, "stderr": err[-4000:], "last_table": tbl, "last_case_line": (last_case or "").strip(), "last_table_line": (last_table or "").strip(), "mode": "san",
                       "replay_cmd": "VERIF_SEED=%d python3 bin/check.py C05 --tier %s" % (ctx.seed, ctx.tier)},
                      "sanitizer build %s (rc=%d) on the case after %s: %s" % ("hung (timeout)" if rc == 124 else "aborted: memory error / UB / assertion", rc, (last_case or "")[:120], err[-700:]))
        return
    model = cases + ".model"
    if not ctx.driver_ok() or not ctx.run_driver("EV", cases, model):
        ctx.tie_ok = False; ctx.broken.append({"kind": "driver failed"}); return
    dist = json.load(open(stats))
    table = None; seen = set()
    for n, tw, c, i, m in E.triples(cases, impl, model):
        k = c[:1]
        if k == "T": table = E.parse_table(tw.split()); continue
        if k == "X":
            ctx.violation({"table": table, "case": c, "impl": i, "line": n}, "entry points disagree: %s %s" % (c, i)); continue
        if k == "S":
            st["points"] += 1
            xs = [E.dbl(z) for z in c.split()[1:]]
            if any(x != x for x in xs):
                st["nan_lookups"] += 1
                if i != "reject":
                    # NaN accepted: legal only if the centres are in range (safety); model rejects NaN
                    cs = [int(z) for z in i.split()[1:]]
                    bad = [cc for cc, d in zip(cs, table["dims"]) if not (d["order"] <= cc <= d["nknots"] - d["order"] - 2)]
                    if bad: ctx.report("nan-centre-out-of-range", {"table": table, "x_bits": c.split()[1:], "impl": i}, "NaN coordinate accepted with centre outside [order, nknots-order-2]: %s" % i)
            if i != m:
                ctx.tie_ok = False
                if len(ctx.broken) < 5: ctx.broken.append({"kind": "correspondence searchCenters", "table": table, "case": c, "impl": i, "model": m})
            bad = E.lookup_oracle(table, xs, i)
            if bad: ctx.report("lookup:" + bad, {"table": table, "x": xs, "impl": i}, "lookup oracle: " + bad)
            if len(ctx.coverage["samples"]) < 5: ctx.coverage["samples"].append({"x_bits": c.split()[1:], "x": [repr(x) for x in xs], "impl": i, "orders": [d["order"] for d in table["dims"]]})
        elif k in "BEG":
            st["bits"] += 1
            if i == "refused": st["refused"] += 1
            if i != m.strip():
                st["mismatch"] += 1; ctx.tie_ok = False
                if len(ctx.broken) < 5: ctx.broken.append({"kind": "correspondence bits (%s line)" % k, "case": c[:300], "impl": i, "model": m, "table": table})
            else: seen.add(c)
    ctx.coverage["evaluations"] = st["points"] + st["bits"]
    ctx.coverage["distinct_nontrivial"] = len(seen)
    ctx.coverage["rule"] = "sanitizer (ASan+UBSan, assertions on) run of every entry point (searchcenters, C/evaluator lookups, operator(), ndsplineeval<float|double> with random bitmasks, ndsplineeval_deriv with derivative orders 0..order+1, gradients (refusal for ndim+1 > 8), evaluator objects, C wrappers) on tables built with the library's own allocation idiom; coordinates: knots, float neighbours, margins, beyond both ends, +-inf, NaN with random payloads, random bit patterns; non-trivial = an evaluation after a successful lookup whose returned bits equal the model's; distinct = distinct case lines"
    ctx.coverage["input_distribution"] = dist
    ctx.coverage["stats"] = st
    ctx.assumptions += ["absence of UB is observed under ASan/UBSan on the explored inputs, the theorem is about the index arithmetic of the model",
                        "MSan is not used (uninstrumented cfitsio); reads of uninitialised-but-owned padding are allowed by the property"]

def replay(ctx, path):
    """Re-execute the recorded input under the sanitizer build: the lookup line first; if it succeeds, every entry
    point at that point with the returned centres."""
    import json, os
    r = json.load(open(path))
    tl = r.get("last_table_line") or r.get("table_line"); cl = r.get("last_case_line") or r.get("case_line")
    if not tl or not cl: return run(ctx)
    ctx.audit()
    exe = E.build(ctx, "san")
    table = E.parse_table(tl.split()); nd = table["ndim"]
    w = cl.split()
    xbits = w[1:1 + nd] if w[0] == "S" else (w[3:3 + nd] if w[0] in "VB" else (w[2 + nd:2 + 2 * nd] if w[0] in "DE" else w[2:2 + nd]))
    cases = os.path.join(ctx.scratch, "replay.in"); impl = cases + ".impl"
    def execute(lines):
        with open(cases, "w") as f: f.write(tl.strip() + "\n" + "\n".join(lines) + "\n")
        rc, out, err = ctx.run([exe, "REPLAY", cases, impl], timeout=120)
        res = open(impl).read().split("\n") if os.path.exists(impl) else []
        return rc, err, res
    rc, err, res = execute(["S " + " ".join(xbits)])
    print("replay lookup:", res[1:2], "rc", rc)
    lines = []
    if rc == 0 and len(res) > 1 and res[1].startswith("ok"):
        cs = res[1].split()[1:]
        xc = " ".join(xbits) + " " + " ".join(cs)
        for mask in sorted(set([0, (1 << nd) - 1] + [1 << d for d in range(nd)])): lines += ["B f %d %s" % (mask, xc), "B d %d %s" % (mask, xc)]
        for k in (1, 2, 7): lines += ["E f " + " ".join([str(k)] * nd) + " " + xc, "E d " + " ".join([str(k)] * nd) + " " + xc]
        lines += ["G f " + xc, "G d " + xc]
        rc, err, res = execute(lines)
    ctx.coverage["evaluations"] = 1 + len(lines); ctx.coverage["distinct_nontrivial"] = max(2, len(lines)); ctx.coverage["rule"] = "replay of one recorded input at every entry point"
    ctx.coverage["samples"].append({"replayed_x_bits": xbits, "lines": lines[:4]})
    if rc != 0:
        ctx.violation({"last_table_line": tl, "last_case_line": cl, "harness_rc": rc, "stderr": err[-3000:], "mode": "san"},
                      "replay: sanitizer build %s (rc=%d): %s" % ("hung" if rc in (124, -14) else "aborted", rc, err[-500:]))
    else:
        print("replay: no memory error, assertion or hang on this input")
