"""Shared runner for the evaluation correspondences (C01..C05): harness/eval_harness.cpp vs `psvdriver EV`."""
import json, os, struct
from fractions import Fraction

def dbl(u): return struct.unpack("d", struct.pack("Q", int(u)))[0]

def parse_table(w):
    nd = int(w[1]); p = 2; dims = []
    for _ in range(nd):
        o, nk, st = int(w[p]), int(w[p+1]), int(w[p+2])
        ks = [dbl(z) for z in w[p+3:p+3+nk+2*o]]
        dims.append({"order": o, "nknots": nk, "stride": st, "knots": ks[o:o+nk], "pad_lo": ks[:o], "pad_hi": ks[o+nk:]})
        p += 3 + nk + 2*o
    return {"ndim": nd, "dims": dims, "ncoef": int(w[p])}

def build(ctx, mode="shipped", defines=()):
    return ctx.compile("evh_" + mode + "".join(defines), ["eval_harness.cpp"], mode=mode, defines=defines)

def generate(ctx, exe, profile, ntables, npoints, maxcoef, tag=""):
    base = os.path.join(ctx.scratch, profile + tag)
    cases, impl, stats = base + ".in", base + ".impl", base + ".stats"
    rc, out, err = ctx.run([exe, profile, str(ntables), str(npoints), cases, impl, stats, str(maxcoef)], timeout=(240 if ctx.tier == "quick" else 2400))
    if rc == 0:
        try: st = json.load(open(stats))
        except Exception: st = {}
        co = st.get("concurrent_outcome")
        if co is None:
            ctx.tie_ok = False; ctx.broken.append({"kind": "the concurrent phase of the evaluation harness did not run", "profile": profile + tag})
        elif co != 0:
            ctx.report("concurrent-evaluation-differs" if co > 0 else "concurrent-evaluation-crash",
                       {"profile": profile + tag, "threads": st.get("concurrent_threads"), "tables": st.get("concurrent_tables"), "points": st.get("concurrent_points_evaluated"), "outcome": co,
                        "replay_cmd": "VERIF_SEED=%d python3 bin/check.py %s --tier %s" % (ctx.seed, ctx.prop, ctx.tier)},
                       ("%d sets of lookups / evaluations made on const tables while other threads were evaluating the same tables differ from the same calls made alone" % co) if co > 0
                       else "the process evaluating const tables from %s threads at the same time died (signal %d); each of these calls succeeds alone" % (st.get("concurrent_threads"), -co))
        ho = st.get("history_outcome")
        if ho is not None and ho < 0:
            ctx.report("evaluation-after-in-place-change-crash", {"profile": profile + tag, "outcome": ho, "replay_cmd": "VERIF_SEED=%d python3 bin/check.py %s --tier %s" % (ctx.seed, ctx.prop, ctx.tier)},
                       "evaluating a table after it had been evaluated and then convolved / permuted in place (C++ member or C wrapper) killed the process (signal %d)" % (-ho))
        elif ho is None or not st.get("history_points_compared"):
            ctx.tie_ok = False; ctx.broken.append({"kind": "the history phase of the evaluation harness did not run or compared nothing", "profile": profile + tag, "stats": {k: v for k, v in st.items() if k.startswith("history")}})
        elif ho != 0:
            ctx.report("evaluation-depends-on-history" if ho > 0 else "evaluation-after-in-place-change-crash",
                       {"profile": profile + tag, "outcome": ho, "stats": {k: v for k, v in st.items() if k.startswith("history")},
                        "replay_cmd": "VERIF_SEED=%d python3 bin/check.py %s --tier %s" % (ctx.seed, ctx.prop, ctx.tier)},
                       ("%d tables which were evaluated, then convolved or permuted in place, evaluate differently from a fresh object holding the same content (something the first evaluations left behind is stale)" % ho) if ho > 0
                       else "evaluating a table after it had been evaluated and then convolved / permuted in place killed the process (signal %d)" % (-ho))
    return rc, out, err, cases, impl, stats

def last_case(cases):
    """(table dict, last case line) written before the harness stopped: the offending input of a crash or hang"""
    last_table, last = None, None
    try:
        for line in open(cases):
            if line.startswith("T "): last_table = line
            elif line[:1] in "SBEGVD": last = line
    except Exception: pass
    tbl = None
    try: tbl = parse_table(last_table.split()) if last_table else None
    except Exception: pass
    return tbl, (last or "").strip()[:1500]

def triples(cases, impl, model):
    """yield (line_no, table_words, case_line, impl_line, model_line)"""
    cur = None
    with open(cases) as fc, open(impl) as fi, open(model) as fm:
        for n, (c, i, m) in enumerate(zip(fc, fi, fm), 1):
            c = c.rstrip("\n"); i = i.rstrip("\n"); m = m.rstrip("\n")
            if c.startswith("T "): cur = c
            yield n, cur, c, i, m

def lookup_oracle(table, xs, impl_line):
    """C04's statement evaluated directly on the implementation's answer. Returns None if fine, else text."""
    nd = table["ndim"]
    nan = any(x != x for x in xs)
    inrange = all((d["knots"][0] < x <= d["knots"][-1]) for d, x in zip(table["dims"], xs))
    if nan: return None   # C04 quantifies over non-NaN coordinates only (NaN is C05's business)
    if impl_line == "reject":
        return None if not inrange else "lookup rejected a point inside (first, last] in every dimension"
    if not impl_line.startswith("ok"):
        return "unexpected lookup output %r" % impl_line
    cs = [int(z) for z in impl_line.split()[1:]]
    if not inrange: return "lookup accepted a point outside (first, last]"
    for d, x, c in zip(table["dims"], xs, cs):
        o, nk, k = d["order"], d["nknots"], d["knots"]
        if not (o <= c <= nk - o - 2): return "centre %d outside [order, nknots-order-2]" % c
        if x < k[o]:
            if c != o: return "lower margin: centre %d is not the first fully supported interval" % c
        elif x >= k[nk - o - 1]:
            if c != nk - o - 2: return "upper margin: centre %d is not the last fully supported interval" % c
        elif not (k[c] <= x < k[c + 1]): return "centre %d does not bracket x" % c
    return None


def replay_case(ctx, path, handler, mode="shipped"):
    """Re-execute the single failing input of a replay file on the real code (REPLAY mode of the harness) and on
    the model, then hand the lines to the property's own line handler (which reports a violation if it persists)."""
    import json
    r = json.load(open(path))
    tl, cl = r.get("table_line"), r.get("case_line") or r.get("last_case_line")
    if not tl and r.get("last_table_line"): tl = r["last_table_line"]
    if not tl or not cl:
        print("replay file has no single input (%s); re-running the check instead" % r.get("what", "")[:200])
        return False
    ctx.audit()
    exe = build(ctx, r.get("mode", mode))
    cases = os.path.join(ctx.scratch, "replay.in"); impl = cases + ".impl"; model = cases + ".model"
    with open(cases, "w") as f: f.write(tl.strip() + "\n" + cl.strip() + "\n")
    rc, out, err = ctx.run([exe, "REPLAY", cases, impl], timeout=120)
    if rc != 0:
        ctx.violation({"table_line": tl, "case_line": cl, "harness_rc": rc, "stderr": err[-2000:]}, "replay: the implementation %s on this input (rc=%d): %s" % ("hung" if rc in (124, -14) else "aborted", rc, err[-300:]))
        return True
    ctx.run_driver("EV", cases, model)
    table = parse_table(tl.split())
    for n, tw, c, i, m in triples(cases, impl, model):
        if c.startswith("T "): continue
        print("replay input : %s" % c[:300]); print("implementation: %s" % i); print("model/oracle  : %s" % m[:300])
        handler(table, tw, c, i, m)
        ctx.coverage["evaluations"] += 1; ctx.coverage["distinct_nontrivial"] = max(ctx.coverage["distinct_nontrivial"], 2)
        ctx.coverage["samples"].append({"replayed": c[:300], "impl": i, "model": m[:200]})
    ctx.coverage["rule"] = "replay of one recorded input"
    return True
