"""Shared by C06 / C07: table token syntax (same as harness/fits_common.h and PsV/Driver/C06.lean), the
property-level oracles, reserved-prefix extraction from the source text."""
import os, re, struct


def parse_table(w):
    """w: list of tokens → dict"""
    p = 0
    nd = int(w[p]); p += 1
    t = {"ndim": nd}
    t["order"] = [int(x) for x in w[p:p+nd]]; p += nd
    t["naxes"] = [int(x) for x in w[p:p+nd]]; p += nd
    t["strides"] = [int(x) for x in w[p:p+nd]]; p += nd
    t["knots"] = []
    for _ in range(nd):
        nk = int(w[p]); p += 1
        t["knots"].append([int(x) for x in w[p:p+nk]]); p += nk
    nc = int(w[p]); p += 1
    t["coef"] = [int(x) for x in w[p:p+nc]]; p += nc
    he = int(w[p]); p += 1
    t["ext"] = [int(x) for x in w[p:p+2*nd]] if he else None
    p += 2*nd if he else 0
    hp = int(w[p]); p += 1
    t["per"] = [int(x) for x in w[p:p+nd]] if hp else None
    p += nd if hp else 0
    na = int(w[p]); p += 1
    t["aux"] = [(bytes.fromhex(w[p+2*i][1:]).decode("latin1"), bytes.fromhex(w[p+2*i+1][1:]).decode("latin1")) for i in range(na)]
    p += 2*na
    assert p == len(w), "trailing tokens in table"
    return t


def dump_table(t):
    o = [t["ndim"]] + t["order"] + t["naxes"] + t["strides"]
    for k in t["knots"]: o += [len(k)] + k
    o += [len(t["coef"])] + t["coef"]
    o += [1] + t["ext"] if t["ext"] is not None else [0]
    o += [1] + t["per"] if t["per"] is not None else [0]
    o += [len(t["aux"])]
    for k, v in t["aux"]: o += ["h" + k.encode("latin1").hex(), "h" + v.encode("latin1").hex()]
    return " ".join(str(x) for x in o)


def dbl(u): return struct.unpack("<d", struct.pack("<Q", u))[0]
def flt(u): return struct.unpack("<f", struct.pack("<I", u))[0]


def expected_after_roundtrip(t, drop_ext=False, drop_per=False):
    """C06's statement, written out: what a table must look like after write → read."""
    e = dict(t)
    if t["ext"] is None or drop_ext:
        e["ext"] = []
        for o, k in zip(t["order"], t["knots"]): e["ext"] += [k[o], k[len(k) - o - 1]]
    if t["per"] is None or drop_per:
        e["per"] = [0] * t["ndim"]
    e["aux"] = [(k, fits_padded(v)) for k, v in t["aux"]]
    return e


def fits_padded(v):
    """A FITS string value occupies at least 8 characters between its quotes; an apostrophe occupies two (it is
    stored doubled), so the blanks added are 8 - (length + number of apostrophes).  For values without apostrophes
    this is v.ljust(8)."""
    return v + " " * max(0, 8 - len(v) - v.count("'"))


def aux_only_blanks_gained(read, written):
    """C06's own wording for the auxiliary keys: same keys in the same order, each value is the value written followed
    by nothing but blanks (at most up to 8 characters in all).  Independent of how many blanks FITS adds."""
    if [k for k, _ in read] != [k for k, _ in written]: return False
    for (_, r), (_, w) in zip(read, written):
        if not r.startswith(w) or r[len(w):].strip(" ") != "" or (len(r) > len(w) and len(r) > 8): return False
    return True


def is_nan32(u): return (u & 0x7f800000) == 0x7f800000 and (u & 0x7fffff) != 0


def wf_table(t):
    """C07's well-formedness, written out.  Returns None or a reason."""
    nd = t["ndim"]
    if nd < 1: return "ndim < 1"
    if not (len(t["order"]) == len(t["naxes"]) == len(t["strides"]) == len(t["knots"]) == nd): return "array lengths"
    for i in range(nd):
        nk, o, na = len(t["knots"][i]), t["order"][i], t["naxes"][i]
        if na != nk - o - 1: return "dim %d: naxes %d != nknots %d - order %d - 1" % (i, na, nk, o)
        if na < o + 1: return "dim %d: naxes %d < order+1 = %d" % (i, na, o + 1)
        ks = [dbl(u) for u in t["knots"][i]]
        for x in ks:
            if x != x or x in (float("inf"), float("-inf")): return "dim %d: non-finite knot" % i
        for a, b in zip(ks, ks[1:]):
            if a > b: return "dim %d: knots decrease" % i
    st = 1
    for i in range(nd - 1, -1, -1):
        if t["strides"][i] != st: return "strides not row-major"
        st *= t["naxes"][i]
    if len(t["coef"]) != st: return "coefficient count %d != product of naxes %d" % (len(t["coef"]), st)
    if t["ext"] is not None and len(t["ext"]) != 2 * nd: return "extents size"
    if t["per"] is not None and len(t["per"]) != nd: return "periods size"
    return None


def reserved_prefixes_in_source(repo):
    """(literal, n) pairs of reservedFitsKeyword in src/core/fitsio.cpp — the model's table is compared with this."""
    src = open(os.path.join(repo, "src/core/fitsio.cpp")).read()
    m = re.search(r"bool\s+reservedFitsKeyword\s*\([^)]*\)\s*\{(.*?)\n\}", src, re.S)
    if not m: return None
    pairs = re.findall(r'strncmp\(\s*"([^"]*)"\s*,\s*key\s*,\s*(\d+)\s*\)\s*==\s*0', m.group(1))
    n_terms = len(re.findall(r"strncmp", m.group(1)))
    if len(pairs) != n_terms: return None
    return [(a, int(b)) for a, b in pairs]
