"""C20 — a table object stays valid and leak-free across any history, even failed calls.

Proof: PsV/Props/C20.lean (C20_ownership_inv, C20_ledger_balanced, C20_ledger_empty_after_destroy,
C20_failed_op_unchanged_or_empty, C20_moved_from_empty about `Lifecycle.step Cfg.repaired`; decided witnesses
C20_asIs_* and C20_asIs_partial for the snapshot code).
Tie: harness/c20_harness.cpp runs random histories (<= 25 ops, 3 object slots, valid and invalid arguments) on
splinetable<CountingAlloc> built from the working tree, every position of one injected std::bad_alloc and every
stage of a failing read; after every call the result, the allocator event sequence, the abstract state of every
object and the ledger totals must equal what `psvdriver C20` (the same Lean definitions) computes.
Oracle (independent of the model): ownership invariant on the real pointers, failed call => content digest
unchanged or object empty, moved-from object empty, no bad release, ledger empty at the end, no sanitizer /
LeakSanitizer report."""
import json, os, re
import psvlib

OPNAMES = {"C": "construct", "F": "construct_from_file", "R": "read_fits", "M": "read_fits_mem", "T": "fit", "W": "write_key",
           "K": "remove_key", "G": "read_key", "V": "convolve", "P": "permuteDimensions", "X": "move_construct",
           "A": "move_assign", "E": "operator==", "O": "write_fits", "Q": "write_fits_mem", "D": "destroy", "Z": "destroy_all"}


def canon_events(ev):
    """order of releases inside a run of consecutive releases is immaterial; order of everything else is compared"""
    if ev.strip() == "-": return []
    out, run = [], []
    for e in ev.split():
        if e[0] == "d": run.append(e)
        else:
            out += sorted(run); run = []; out.append(e)
    return out + sorted(run)


def build(ctx):
    kw = dict(mode="san", defines=["PHOTOSPLINE_INCLUDES_SPGLAM"], repo_c=psvlib.FITTER_C, libs=psvlib.FITTER_LIBS)
    exe = ctx.compile("c20", ["c20_harness.cpp"], **kw)
    if exe: return exe, True
    kw["defines"] = kw["defines"] + ["PSV_NO_REMOVE_KEY"]
    exe = ctx.compile("c20nrk", ["c20_harness.cpp"], **kw)
    return exe, False


def run_harness(ctx, exe, tag, first, n, extra_env=None, timeout=1500):
    d = os.path.join(ctx.scratch, "w_" + tag); os.makedirs(d, exist_ok=True)
    cases, impl, stats = [os.path.join(d, x) for x in ("cases.txt", "impl.txt", "stats.json")]
    env = {"ASAN_OPTIONS": "detect_leaks=1:abort_on_error=0", "LSAN_OPTIONS": "print_suppressions=0:exitcode=0"}
    if extra_env: env.update(extra_env)
    rc, out, err = ctx.run([exe, cases, impl, stats, str(first), str(n), d], timeout=timeout, env=env)
    return rc, err, cases, impl, stats


def parse(cases, impl, model):
    """-> list of variants: {'head': S-line, 'rows': [(opline, impl fields, model fields)], 'pending': opline or None}"""
    cl = [l.rstrip("\n") for l in open(cases)]
    il_all = [l.rstrip("\n") for l in open(impl)]
    il = [l for l in il_all if not l.startswith("#")]
    ml = [l.rstrip("\n") for l in open(model)] if model and os.path.exists(model) else []
    variants, cur = [], None
    for n, c in enumerate(cl):
        i = il[n] if n < len(il) else None
        m = ml[n] if n < len(ml) else None
        if c.startswith("S "):
            cur = {"head": c, "rows": [], "pending": None, "leak": False}; variants.append(cur); continue
        if c == "Y":
            variants.append({"head": "Y", "rows": [], "pending": None, "leak": False, "stack": i}); cur = None; continue
        if c.startswith("LEAK"):
            if cur: cur["leak"] = True
            continue
        if cur is None: continue
        if i is None: cur["pending"] = c; continue
        cur["rows"].append((c, i, m))
    return variants


def fields(line):
    p = [x.strip() for x in line.split(" | ")]
    return p if len(p) >= 4 else None


def slot_ok(s):
    if s == "-": return None
    ndim, naux, core, per, arr = s.split(",")
    if ndim == "0":
        if (naux, core, per, arr) != ("0", "n", "0", "0"): return "ndim=0 but storage is owned (naux=%s core=%s periods=%s aux=%s)" % (naux, core, per, arr)
    elif core != "y": return "ndim=%s but arrays are missing (core=%s)" % (ndim, core)
    return None


def check_variant(v):
    """oracle + correspondence for one executed history; returns (violations, tie_breaks) where each violation is
    (base_signature, text, row_index)"""
    viol, tie = [], []
    prev_bad = 0; own_bad = False
    for k, (c, i, m) in enumerate(v["rows"]):
        tag = c.split()[0]; fi = fields(i); fm = fields(m) if m else None
        if fi is None:
            tie.append((k, c, i, m, "unparsable impl line")); continue
        res, ev, st, tot = fi[0], fi[1], fi[2], fi[3]
        extra = fi[4].split() if len(fi) > 4 else ["-", "-", "0"]
        name = OPNAMES.get(tag, tag)
        # ---- oracle
        if res == "inconsistent": viol.append(("%s:inconsistent-answers" % name, "%s gives contradictory answers" % name, k))
        for sl, s in enumerate(st.split()):
            why = slot_ok(s)
            if why and not own_bad: own_bad = True; viol.append(("%s:ownership" % name, "after %s (%s) object %d violates the ownership invariant: %s" % (name, res, sl, why), k)); break
        if extra[0] == "CHANGED": viol.append(("%s:failed-call-changed-object" % name, "%s threw but left the object neither unchanged nor empty" % name, k))
        if tag in "XA" and res == "ok" and extra[1] not in ("-", "empty"): viol.append(("%s:moved-from-not-empty" % name, "after %s the source object is not empty (%s)" % (name, extra[1]), k))
        b = int(tot.split()[2])
        if b > prev_bad: viol.append(("%s:bad-release" % name, "%s released a block that is not live or with a different size than allocated (events: %s)" % (name, ev), k))
        prev_bad = b
        if "x" in [e[0] for e in ev.split() if e != "-"]: pass
        if tag == "Z" and tot.split()[:2] != ["0", "0"]:
            viol.append(("end:leak", "after destroying every object %s block(s) / %s byte(s) obtained from the allocator were never returned" % tuple(tot.split()[:2]), k))
        # ---- correspondence
        if fm is None: tie.append((k, c, i, m, "no model line")); continue
        same = (res == fm[0] or (tag == "E" and fm[0] == "ok" and res in ("tt", "ff"))) and canon_events(ev) == canon_events(fm[1]) and st == fm[2] and tot == fm[3]
        if not same: tie.append((k, c, i, m, "differs"))
        if len(fm) > 4 and fm[4] != "1": tie.append((k, c, i, m, "model invariant self-check failed"))
    return viol, tie


def history(v, upto=None):
    rows = v["rows"] if upto is None else v["rows"][:upto + 1]
    return [c for c, _, _ in rows]


def shrink(ctx, exe, head, sig, opsdir, nops_guess=26):
    """greedy op removal while the same base signature reproduces; returns (kept op lines, tags)"""
    _, seq, fail, rfop, rfk, rfa = head.split()
    only = "%s %s %s %s %s" % (seq, fail, rfop, rfk, rfa)
    opsfile = os.path.join(opsdir, "ops_%s.txt" % seq)
    if not os.path.exists(opsfile): return None
    keep = ["1"] * nops_guess
    def attempt(mask, n):
        rc, err, cases, impl, _ = run_harness(ctx, exe, "shr%d" % n, 0, 0, {"PSV_ONLY": only, "PSV_KEEP": "".join(mask), "PSV_OPSFILE": opsfile}, timeout=120)
        model = cases + ".model"; ctx.run_driver("C20", cases, model)
        vs = parse(cases, impl, model)
        if not vs: return None
        v = vs[-1]
        if rc != 0:
            s = crash_signature(err, v)
            return v if s == sig else None
        viol, _ = check_variant(v)
        return v if any(b == sig for b, _, _ in viol) else None
    best = attempt(keep, 0)
    if best is None: return None
    n = 1
    for k in range(nops_guess - 1, -1, -1):
        if n > 45: break
        trial = list(keep); trial[k] = "0"
        r = attempt(trial, n); n += 1
        if r is not None: keep, best = trial, r
    return best


def crash_signature(err, v):
    m = re.search(r"ERROR: AddressSanitizer: ([\w-]+)", err) or re.search(r"runtime error: ([^\n]{0,60})", err) or re.search(r"ERROR: (LeakSanitizer)", err)
    kind = m.group(1).strip() if m else ("timeout" if "TIMEOUT" in err else "abort")
    kind = re.sub(r"0x[0-9a-f]+", "", kind).replace(" ", "-")
    op = v["pending"].split()[0] if v and v.get("pending") else "?"
    return "%s:crash:%s" % (OPNAMES.get(op, op), kind)


def run(ctx, only_seq=None):
    ctx.audit()
    nseq = 30 if ctx.tier == "quick" else 240
    exe, has_rk = build(ctx)
    if not exe:
        ctx.tie_ok = False; ctx.broken.append({"kind": "harness build failed"}); return
    if not has_rk:
        ctx.report("remove_key:does-not-compile", {"what": "splinetable<Alloc>::remove_key cannot be instantiated", "replay_cmd": "python3 bin/check.py C20"},
                   "remove_key does not compile when instantiated (tmp_aux has the wrong pointer type); see C16-4")
    evals, seen, reported = 0, set(), set()
    stats_all, first, crashes, tie_n = {}, 0, 0, 0
    end = nseq
    while first < end and crashes <= 6:
        rc, err, cases, impl, stats = run_harness(ctx, exe, "m%d" % first, first, end - first)
        model = cases + ".model"
        if not ctx.driver_ok() or not ctx.run_driver("C20", cases, model):
            ctx.tie_ok = False; ctx.broken.append({"kind": "driver failed"}); return
        variants = parse(cases, impl, model)
        if os.path.exists(stats):
            for k, v in json.load(open(stats)).items(): stats_all[k] = stats_all.get(k, 0) + v
        for v in variants:
            if v["head"] == "Y":
                st = (v.get("stack") or "STACK missing 0 0 0").split()
                if st[1] != "ok" or st[2:4] != ["0", "0"] or st[4] != "0":
                    ctx.report("stacking_constructor:leak", {"history": "a(f), b(f), c(f); splinetable s({&a,&b,&c},{0,1,2},2); destroy all", "impl": " ".join(st)},
                               "C20 oracle: after the stacking constructor and destruction of every object %s block(s) / %s byte(s) from the allocator were never returned (result %s): the two extrapolated padding tables are never deleted" % (st[2], st[3], st[1]))
                continue
            viol, tie = check_variant(v)
            evals += len(v["rows"])
            prev_state = ""
            for c, i, m in v["rows"]:
                f = fields(i)
                if f and (f[1] != "-" or f[0] == "threw"): seen.add((c, prev_state))
                prev_state = f[2] if f else ""
            if v["leak"]:
                fn = re.findall(r"#\d+ 0x[0-9a-f]+ in (?:photospline::)?([\w:<>~ ,]+?)[\(\s]", err)
                fn = [x for x in fn if "operator new" not in x and "interceptor" not in x and "malloc" not in x]
                viol.append(("lsan:%s" % (fn[0].split("::")[-1] if fn else "unknown"), "LeakSanitizer: memory obtained outside the table's allocator was never released: " + err[-800:], len(v["rows"]) - 1))
            for base, text, k in viol:
                if base in reported: continue
                reported.add(base)
                sv = shrink(ctx, exe, v["head"], base, os.path.dirname(cases)) if not base.startswith("lsan:") else None
                hist = history(sv) if sv else history(v, k)
                tags = "".join(h.split()[0] for h in hist if h.split()[0] != "Z")
                sig = base + ":" + tags if sv else base
                ctx.report(sig, {"variant": v["head"], "history": hist, "impl": [i for _, i, _ in (sv or v)["rows"]][-6:],
                                 "replay_cmd": "VERIF_SEED=%d PSV_ONLY='%s' (see bin/props/C20.py shrink)" % (ctx.seed, " ".join(v["head"].split()[1:]))},
                           "C20 oracle: " + text + " | minimal history: " + " ; ".join(hist))
            for k, c, i, m, why in tie:
                tie_n += 1
                ctx.tie_ok = False
                if len(ctx.broken) < 5: ctx.broken.append({"kind": "correspondence Lifecycle.step", "why": why, "variant": v["head"], "history": history(v, k)[-8:], "impl": i, "model": m})
            if len(ctx.coverage["samples"]) < 4 and len(v["rows"]) > 5:
                c, i, m = v["rows"][len(v["rows"]) // 2]
                ctx.coverage["samples"].append({"variant": v["head"], "op": c, "impl": i, "model": m})
        if rc == 0 and "ERROR: LeakSanitizer" in err and not any(x.startswith("lsan:") for x in reported):
            fn = [x for x in re.findall(r"#\d+ 0x[0-9a-f]+ in ([^\n(]+)", err) if not re.search(r"operator new|interceptor|malloc|allocate", x)]
            sig = "lsan:" + (fn[0].strip().split("::")[-1] if fn else "unknown"); reported.add(sig)
            ctx.report(sig, {"stderr": err[-3000:]}, "C20 oracle: LeakSanitizer at exit: memory obtained outside the counting allocator was never released: " + err[-700:])
        if rc == 0: break
        # the harness died (sanitizer abort, signal, timeout): a result, reported with the offending history
        crashes += 1
        last = variants[-1] if variants else None
        sig = crash_signature(err, last)
        if sig not in reported:
            reported.add(sig)
            sv = shrink(ctx, exe, last["head"], sig, os.path.dirname(cases)) if last else None
            hist = (history(sv) + [sv["pending"]]) if sv and sv.get("pending") else ((history(last) + [last["pending"] or "?"]) if last else [])
            tags = "".join(h.split()[0] for h in hist)
            ctx.report(sig + ":" + tags, {"variant": last["head"] if last else None, "history": hist, "stderr": err[-2500:], "harness_rc": rc},
                       "C20: harness aborted (rc=%d) in %s | minimal history: %s | %s" % (rc, sig, " ; ".join(hist), (re.search(r"(ERROR: AddressSanitizer[^\n]*|runtime error[^\n]*)", err) or [""])[0]))
        first = int(last["head"].split()[1]) + 1 if last else end
    ctx.coverage["evaluations"] = evals
    ctx.coverage["distinct_nontrivial"] = len(seen)
    ctx.coverage["rule"] = ("histories of 6..25 calls over 3 object slots drawn from VERIF_SEED by harness/c20_harness.cpp; each history is run without fault, with "
                            "std::bad_alloc injected at every allocation position, and with every read replaced by each failing-read stage; an evaluation is one executed call "
                            "compared with the model; non-trivial = the call moved memory through the allocator or threw; distinct = distinct (call line, state of all objects before)")
    ctx.coverage["input_distribution"] = stats_all
    ctx.coverage["tie_mismatches"] = tie_n
    ctx.coverage["harness_crashes"] = crashes
    ctx.assumptions += [
        "model = code with fixes/C20-1..C20-11 and C16-4 applied (C20-11 stands in for the C07 read guard); on a tree without them the oracle reports the defects",
        "allocation failures are injected only through the Alloc template parameter; plain new[]/malloc temporaries (convolve, permuteDimensions, fit, cfitsio, CHOLMOD) are not failed, their leaks are watched by LeakSanitizer",
        "GLAM failure inside fit and I/O failure inside write_fits(_mem) are in the model/theorems but not produced by the harness (write failures: C08)",
        "the stacking constructor splinetable(vector<splinetable*>, ...) is outside the modelled operation set",
        "aux values contain no quote characters and no embedded NUL (quote handling: C16); tables are well-formed (nknots >= 2*order+2)",
        "deallocate(nullptr, n) calls made by write_key's failure path are tolerated by the counting allocator and counted (evidence: null_deallocs)",
    ]


def replay(ctx, path):
    r = json.load(open(path))
    print(json.dumps(r, indent=1)[:3000])
    run(ctx)
