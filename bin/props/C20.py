"""C20 — a table object stays valid and leak-free across any history, even failed calls.

Proof: PsV/Props/C20.lean (C20_ownership_inv, C20_ledger_balanced, C20_ledger_empty_after_destroy,
C20_failed_op_unchanged_or_empty, C20_moved_from_empty about `Lifecycle.step Cfg.repaired`; C20_anyCfg_* about
`Lifecycle.step c` for every configuration under per-call conditions; C20_head_* about `Cfg.head`, the configuration
the driver runs; decided witnesses C20_asIs_* / C20_head_* for the defects).
Tie: harness/c20_harness.cpp runs random histories (<= 25 ops, 3 object slots, valid and invalid arguments, including
the stacking constructor, fits whose GLAM step fails and writes which hit an I/O error) on
splinetable<CountingAlloc> built from the working tree, every position of one injected std::bad_alloc and every
stage of a failing read (read_fits, read_fits_mem and the path constructor: damaged real files, the real file cut
short at and inside every FITS block, every cfitsio call of the reader failing once / for good; the stage such a
read ends in is worked out by the harness' own restatement of the reader, `ref_walk`); after every call the result, the allocator event sequence, the abstract state of every
object and the ledger totals must equal what `psvdriver C20` (the same Lean definitions) computes.
PSV_C20_CFG=repaired (default: /repo with fixes C20-13..16, as it is now) | head (a tree without them) selects the configuration
on both sides.
Oracle (independent of the model): ownership invariant on the real pointers, failed call => content digest
unchanged or object empty, moved-from object empty, no bad release, ledger empty at the end, no sanitizer /
LeakSanitizer report."""
import json, os, re
import psvlib

OPNAMES = {"C": "construct", "F": "construct_from_file", "R": "read_fits", "M": "read_fits_mem", "T": "fit", "W": "write_key",
           "K": "remove_key", "G": "read_key", "V": "convolve", "P": "permuteDimensions", "X": "move_construct",
           "A": "move_assign", "E": "operator==", "O": "write_fits", "Q": "write_fits_mem", "D": "destroy", "Z": "destroy_all",
           "Y": "construct_by_stacking"}
CFG = os.environ.get("PSV_C20_CFG", "repaired")
# base signatures which are a class of their own (not refined by the tags of a shrunk history)
STABLE = {"construct_by_stacking:no-extents", "construct_by_stacking:crash:unusable-arguments", "construct_by_stacking:alloc-failure-leak",
          "permuteDimensions:crash:null-extents-after-stacking", "convolve:crash:null-extents-after-stacking",
          "extent_accessors:crash:null-extents-after-stacking", "write_fits_mem:failed-write-leaks-buffer"}
PROBES = [  # (probe, signature when it shows the defect, text)
    ("stack-then-permute", "permuteDimensions:crash:null-extents-after-stacking", "s = splinetable({&a,&b,&c},{0,1,2},2); s.permuteDimensions({1,0})"),
    ("stack-then-convolve", "convolve:crash:null-extents-after-stacking", "s = splinetable({&a,&b,&c},{0,1,2},2); s.convolve(0,k,3)"),
    ("stack-then-extent", "extent_accessors:crash:null-extents-after-stacking", "s = splinetable({&a,&b,&c},{0,1,2},2); s.lower_extent(0)"),
    ("stack-alloc-failure", "construct_by_stacking:alloc-failure-leak", "splinetable({&a,&b,&c},{0,1,2},2) with std::bad_alloc at each of its allocations in turn"),
    ("write-mem-failure", "write_fits_mem:failed-write-leaks-buffer", "write_fits_mem() with a cfitsio output step reporting an error"),
    ("read-keyn-transient", "read_fits:null-aux-entry:key-unreadable-in-second-pass", "splinetable t(path) with fits_read_keyn failing for one header key, in the counting pass or in the storing pass of read_fits_core only; then read_key, destruction"),
    ("stack-single-table", "construct_by_stacking:crash:unusable-arguments", "splinetable({&a},{0},2)"),
    ("stack-mismatched-shapes", "construct_by_stacking:crash:unusable-arguments", "splinetable({&b,&a,&b},{0,1,2},2) with a smaller than b"),
    ("stack-empty-table", "construct_by_stacking:crash:unusable-arguments", "splinetable({&a,&e,&a},{0,1,2},2) with e empty"),
]


READ_CLASS = {1: "unreadable file (garbage / no such file)", 2: "file without ORDERi keys", 3: "file without the KNOTS%(a)d extension", 4: "file whose primary array is empty (NAXIS = 0)",
              5: "file whose KNOTS%(a)d are not finite and non-decreasing", 6: "file whose KNOTS%(a)d vector has the wrong length", 7: "file without EXTENTS extension",
              10: "the file cut to its first %(a)d bytes", 11: "cfitsio call number %(a)d of the reader reporting an error", 12: "cfitsio call number %(a)d of the reader and every later one reporting an error"}
STAGE = {0: "none (the read succeeds)", 1: "before ndim is assigned (open / first HDU / dimension count)", 2: "ORDERi keys", 3: "header or size of a knot vector", 4: "size of the coefficient image",
         5: "coefficient pixels", 6: "data of a knot vector", 7: "extents data"}


def describe_variant(head, hist):
    """S-line of a variant -> what was injected, in words"""
    try:
        _, seq, fail, rfop, rfk, rfa = head.split(); fail, rfop, rfk, rfa = int(fail), int(rfop), int(rfk), int(rfa)
    except Exception:
        return ""
    out = []
    if fail > 0: out.append("allocation number %d of the history throws std::bad_alloc" % fail)
    if rfop >= 0: out.append("the read at position %d of the generated history is given: %s" % (rfop, READ_CLASS.get(rfk, "class %d" % rfk) % {"a": rfa}))
    for h in hist:
        w = h.split()
        if w[0] in "FRM" and len(w) > 3 and w[2] != "0": out.append("%s: the reader fails at stage %s = %s" % (OPNAMES[w[0]], w[2], STAGE.get(int(w[2]), "?")))
    return "; ".join(out)


def local_known():
    """findings recorded in integration/C20.json (the integrator copies them to known_findings.json, which this
    property must not edit); a listed signature is announced as KNOWN-FINDING instead of VIOLATION"""
    try:
        return {k["signature"]: k for k in json.load(open(os.path.join(psvlib.VERIF, "integration", "C20.json"))).get("known_findings", []) if k.get("property") == "C20"}
    except Exception:
        return {}


def report(ctx, sig, replay, what):
    if any(k["signature"] == sig for k in ctx.known_findings()): return ctx.report(sig, replay, what)
    k = local_known().get(sig)
    if k is None: return ctx.report(sig, replay, what)
    if sig not in ctx._c20_printed:
        ctx._c20_printed.add(sig)
        print("KNOWN-FINDING: property=C20 %s" % k["what"], flush=True)
    ctx.known += 1
    return False


def canon_events(ev):
    """order of releases inside a run of consecutive releases is immaterial; order of everything else is compared"""
    if ev.strip() == "-": return []
    out, run = [], []
    for e in ev.split():
        if e[0] == "d": run.append(e)
        else:
            out += sorted(run); run = []; out.append(e)
    return out + sorted(run)


def build(ctx):
    # -rdynamic: libcfitsio must bind fwrite / its own entry points to the interposed definitions in the executable;
    # --wrap: the call of glamfit_complex inside fit() goes through the harness (injected GLAM failure)
    kw = dict(mode="san", defines=["PHOTOSPLINE_INCLUDES_SPGLAM"], repo_c=psvlib.FITTER_C, libs=psvlib.FITTER_LIBS,
              extra=["-rdynamic", "-Wl,--wrap=glamfit_complex"])
    exe = ctx.compile("c20", ["c20_harness.cpp"], **kw)
    if exe: return exe, True
    kw["defines"] = kw["defines"] + ["PSV_NO_REMOVE_KEY"]
    exe = ctx.compile("c20nrk", ["c20_harness.cpp"], **kw)
    return exe, False


def run_harness(ctx, exe, tag, first, n, extra_env=None, timeout=1500):
    d = os.path.join(ctx.scratch, "w_" + tag); os.makedirs(d, exist_ok=True)
    cases, impl, stats = [os.path.join(d, x) for x in ("cases.txt", "impl.txt", "stats.json")]
    env = {"ASAN_OPTIONS": "detect_leaks=1:abort_on_error=0", "LSAN_OPTIONS": "print_suppressions=0:exitcode=0", "PSV_C20_CFG": CFG}
    if getattr(ctx, "_c20_memleak", False):
        # the probe has shown (and reported) that a failed write_fits_mem abandons its buffer; only what is allocated
        # inside write_fits_mem / by cfitsio's mem_truncate (the buffer) is taken out of the leak reports of the history runs
        sup = os.path.join(ctx.scratch, "lsan.supp"); open(sup, "w").write("leak:mem_truncate\nleak:write_fits_mem\n")
        env["LSAN_OPTIONS"] += ":suppressions=" + sup
    if extra_env: env.update(extra_env)
    if os.path.exists(stats): os.remove(stats)
    rc, out, err = ctx.run([exe, cases, impl, stats, str(first), str(n), d], timeout=timeout, env=env)
    # LSAN_OPTIONS=exitcode=0 also silences the exit status of an AddressSanitizer / UBSan abort: a run which did not get as
    # far as writing its statistics (the last thing the harness does) has died, whatever its exit status
    if rc == 0 and not os.path.exists(stats): rc = 86
    return rc, err, cases, impl, stats


def parse(cases, impl, model):
    """-> list of variants: {'head': S-line, 'rows': [(opline, impl fields, model fields)], 'pending': opline or None}"""
    cl = [l.rstrip("\n") for l in open(cases)]
    il_all = [l.rstrip("\n") for l in open(impl)]
    il = [l for l in il_all if not l.startswith("#")]
    ml = [l.rstrip("\n") for l in open(model)] if model and os.path.exists(model) else []
    variants, cur = [], None
    for n, c in enumerate(cl):
        i = il[n] if n < len(il) else None
        m = ml[n] if n < len(ml) else None
        if c.startswith("S "):
            cur = {"head": c, "rows": [], "pending": None, "leak": False}; variants.append(cur); continue
        if c.startswith("CFG"): continue
        if c.startswith("LEAK"):
            if cur: cur["leak"] = True
            continue
        if cur is None: continue
        if i is None: cur["pending"] = c; continue
        cur["rows"].append((c, i, m))
    return variants


def fields(line):
    p = [x.strip() for x in line.split(" | ")]
    return p if len(p) >= 4 else None


def slot_ok(s):
    if s == "-": return None
    ndim, naux, core, per, arr, ext = s.split(",")
    if ndim == "0":
        if (naux, core, per, arr, ext) != ("0", "n", "0", "0", "0"): return "ndim=0 but storage is owned (naux=%s core=%s periods=%s aux=%s extents=%s)" % (naux, core, per, arr, ext)
    elif core != "y": return "ndim=%s but arrays are missing (core=%s)" % (ndim, core)
    elif ext != "1": return "NOEXT ndim=%s but the extents arrays are missing (null): permuteDimensions, convolve, lower_extent and upper_extent read through them" % ndim
    return None


def check_variant(v):
    """oracle + correspondence for one executed history; returns (violations, tie_breaks) where each violation is
    (base_signature, text, row_index)"""
    viol, tie = [], []
    prev_bad = 0; own_bad = False
    for k, (c, i, m) in enumerate(v["rows"]):
        tag = c.split()[0]; fi = fields(i); fm = fields(m) if m else None
        if fi is None:
            tie.append((k, c, i, m, "unparsable impl line")); continue
        res, ev, st, tot = fi[0], fi[1], fi[2], fi[3]
        extra = fi[4].split() if len(fi) > 4 else ["-", "-", "0"]
        name = OPNAMES.get(tag, tag)
        # ---- oracle
        if res == "inconsistent": viol.append(("%s:inconsistent-answers" % name, "%s gives contradictory answers" % name, k))
        for sl, s in enumerate(st.split()):
            why = slot_ok(s)
            if why and why.startswith("NOEXT") and tag != "Y": continue   # reported where the object was made
            if why and why.startswith("NOEXT"): viol.append(("%s:no-extents" % name, "after %s (%s) object %d violates the ownership invariant: %s" % (name, res, sl, why[6:]), k)); break
            if why and not own_bad: own_bad = True; viol.append(("%s:ownership" % name, "after %s (%s) object %d violates the ownership invariant: %s" % (name, res, sl, why), k)); break
        if res == "avoided":
            viol.append(("%s:crash:%s" % (name, "unusable-arguments" if tag == "Y" else "null-extents-after-stacking"),
                         "%s was not executed: it %s (undefined behaviour that would end the process; demonstrated by the probes)" % (name, "would be given tables it cannot digest, which it examines by assert only" if tag == "Y" else "would read through the null extents pointer of a table made by the stacking constructor"), k))
        if res == "nofire": tie.append((k, c, i, m, "the injected output failure did not make the call throw"))
        if extra[0] == "CHANGED": viol.append(("%s:failed-call-changed-object" % name, "%s threw but left the object neither unchanged nor empty" % name, k))
        if tag in "XA" and res == "ok" and extra[1] not in ("-", "empty"): viol.append(("%s:moved-from-not-empty" % name, "after %s the source object is not empty (%s)" % (name, extra[1]), k))
        b = int(tot.split()[2])
        if b > prev_bad: viol.append(("%s:bad-release" % name, "%s released a block that is not live or with a different size than allocated (events: %s)" % (name, ev), k))
        prev_bad = b
        if "x" in [e[0] for e in ev.split() if e != "-"]: pass
        if tag == "Z" and tot.split()[:2] != ["0", "0"]:
            viol.append(("end:leak", "after destroying every object %s block(s) / %s byte(s) obtained from the allocator were never returned" % tuple(tot.split()[:2]), k))
        # ---- correspondence
        if fm is None: tie.append((k, c, i, m, "no model line")); continue
        same = (res == fm[0] or (tag == "E" and fm[0] == "ok" and res in ("tt", "ff")) or (res == "avoided" and fm[0] == "crash")) and canon_events(ev) == canon_events(fm[1]) and st == fm[2] and tot == fm[3]
        if not same: tie.append((k, c, i, m, "differs"))
        if len(fm) > 4 and fm[4] != "1": tie.append((k, c, i, m, "model invariant self-check failed"))
    return viol, tie


def history(v, upto=None):
    rows = v["rows"] if upto is None else v["rows"][:upto + 1]
    return [c for c, _, _ in rows]


def shrink(ctx, exe, head, sig, opsdir, nops_guess=26):
    """greedy op removal while the same base signature reproduces; returns (kept op lines, tags)"""
    _, seq, fail, rfop, rfk, rfa = head.split()
    only = "%s %s %s %s %s" % (seq, fail, rfop, rfk, rfa)
    opsfile = os.path.join(opsdir, "ops_%s.txt" % seq)
    if not os.path.exists(opsfile): return None
    keep = ["1"] * nops_guess
    def attempt(mask, n):
        rc, err, cases, impl, _ = run_harness(ctx, exe, "shr%d" % n, 0, 0, {"PSV_ONLY": only, "PSV_KEEP": "".join(mask), "PSV_OPSFILE": opsfile}, timeout=120)
        model = cases + ".model"; ctx.run_driver("C20", cases, model)
        vs = parse(cases, impl, model)
        if not vs: return None
        v = vs[-1]
        if rc != 0:
            s = crash_signature(err, v)
            return v if s == sig else None
        viol, _ = check_variant(v)
        return v if any(b == sig for b, _, _ in viol) else None
    best = attempt(keep, 0)
    if best is None: return None
    n = 1
    for k in range(nops_guess - 1, -1, -1):
        if n > 45: break
        trial = list(keep); trial[k] = "0"
        r = attempt(trial, n); n += 1
        if r is not None: keep, best = trial, r
    return best


def crash_signature(err, v):
    m = re.search(r"ERROR: AddressSanitizer: ([\w-]+)", err) or re.search(r"runtime error: ([^\n]{0,60})", err) or re.search(r"ERROR: (LeakSanitizer)", err)
    kind = m.group(1).strip() if m else ("timeout" if "TIMEOUT" in err else "abort")
    kind = re.sub(r"0x[0-9a-f]+", "", kind).replace(" ", "-")
    op = v["pending"].split()[0] if v and v.get("pending") else "?"
    return "%s:crash:%s" % (OPNAMES.get(op, op), kind)


def run_probes(ctx, exe):
    """known-defect demonstrations, each in a process of its own (they end in a sanitizer report / assertion when the
    defect is there); a probe that runs through shows the defect is gone"""
    d = os.path.join(ctx.scratch, "probes"); os.makedirs(d, exist_ok=True)
    out = {}
    for name, sig, text in PROBES:
        leakprobe = name == "write-mem-failure"
        rc, so, err = ctx.run([exe, "probe", name, d], timeout=120, env={"ASAN_OPTIONS": "detect_leaks=%d:abort_on_error=0" % leakprobe, "LSAN_OPTIONS": "print_suppressions=0:exitcode=0", "PSV_C20_CFG": CFG})
        m = re.search(r"PROBE \S+ (\S+) (\d+) (\d+) (\d+)", so)
        why = None
        if leakprobe and m and "LeakSanitizer" in err and re.search(r"mem_truncate|mem_create|write_fits_mem", err):
            lk = re.search(r"SUMMARY: AddressSanitizer: (\d+) byte\(s\) leaked in (\d+) allocation", err)
            why = "the output buffer is never freed when the write fails (the catch block rethrows without free(buf)): %s byte(s) in %s allocation(s) after 4 failed calls" % (lk.groups() if lk else ("?", "?"))
            ctx._c20_memleak = True
        elif m is None:
            e = re.search(r"(ERROR: AddressSanitizer: [\w-]+|runtime error: [^\n]{0,80}|Assertion [^\n]{0,80} failed)", err)
            why = "the process ended with: %s (rc=%d)" % (e.group(1) if e else "no result line", rc)
        elif m.group(1).startswith("leaked") or m.group(1) in ("nothrow", "wrong") or m.group(4) != "0":
            why = "result %s, %s block(s) / %s byte(s) obtained from the allocator never returned, %s bad release(s)" % m.groups()
        elif name.startswith("stack-") and name not in ("stack-then-permute", "stack-then-convolve", "stack-then-extent", "stack-alloc-failure") and m.group(1) != "threw":
            why = "unusable arguments were accepted silently (result %s)" % m.group(1)
        out[name] = why or "clean"
        if why: report(ctx, sig, {"probe": name, "call": text, "replay_cmd": "c20_harness probe %s <dir> (built by bin/props/C20.py)" % name},
                       "C20 oracle (probe %s): %s: %s" % (name, text, why))
    ctx.coverage["probes"] = out


def run(ctx, only_seq=None):
    ctx._c20_printed = set(); ctx._c20_memleak = False
    ctx.audit()
    nseq = 30 if ctx.tier == "quick" else 240
    exe, has_rk = build(ctx)
    if not exe:
        ctx.tie_ok = False; ctx.broken.append({"kind": "harness build failed"}); return
    run_probes(ctx, exe)
    if not has_rk:
        ctx.report("remove_key:does-not-compile", {"what": "splinetable<Alloc>::remove_key cannot be instantiated", "replay_cmd": "python3 bin/check.py C20"},
                   "remove_key does not compile when instantiated (tmp_aux has the wrong pointer type); see C16-4")
    evals, seen, reported = 0, set(), set()
    stats_all, first, crashes, tie_n = {}, 0, 0, 0
    end = nseq
    while first < end and crashes <= 6:
        rc, err, cases, impl, stats = run_harness(ctx, exe, "m%d" % first, first, end - first)
        model = cases + ".model"
        if not ctx.driver_ok() or not ctx.run_driver("C20", cases, model):
            ctx.tie_ok = False; ctx.broken.append({"kind": "driver failed"}); return
        variants = parse(cases, impl, model)
        if os.path.exists(stats):
            for k, v in json.load(open(stats)).items(): stats_all[k] = stats_all.get(k, 0) + v
        for v in variants:
            viol, tie = check_variant(v)
            evals += len(v["rows"])
            prev_state = ""
            for c, i, m in v["rows"]:
                f = fields(i)
                if f and (f[1] != "-" or f[0] == "threw"): seen.add((c, prev_state))
                prev_state = f[2] if f else ""
            if v["leak"]:
                fn = re.findall(r"#\d+ 0x[0-9a-f]+ in (?:photospline::)?([\w:<>~ ,]+?)[\(\s]", err)
                fn = [x for x in fn if "operator new" not in x and "interceptor" not in x and "malloc" not in x]
                viol.append(("lsan:%s" % (fn[0].split("::")[-1] if fn else "unknown"), "LeakSanitizer: memory obtained outside the table's allocator was never released: " + err[-800:], len(v["rows"]) - 1))
            for base, text, k in viol:
                if base in reported: continue
                reported.add(base)
                known_class = base in STABLE
                sv = shrink(ctx, exe, v["head"], base, os.path.dirname(cases)) if not (base.startswith("lsan:") or known_class) else None
                hist = history(sv) if sv else history(v, k)
                tags = "".join(h.split()[0] for h in hist if h.split()[0] != "Z")
                sig = base + ":" + tags if sv else base
                report(ctx, sig, {"variant": v["head"], "history": hist, "impl": [i for _, i, _ in (sv or v)["rows"]][-6:],
                                 "replay_cmd": "VERIF_SEED=%d PSV_ONLY='%s' (see bin/props/C20.py shrink)" % (ctx.seed, " ".join(v["head"].split()[1:]))},
                           "C20 oracle: " + text + " | minimal history: " + " ; ".join(hist) + " | " + describe_variant(v["head"], hist))
            for k, c, i, m, why in tie:
                tie_n += 1
                ctx.tie_ok = False
                if len(ctx.broken) < 5: ctx.broken.append({"kind": "correspondence Lifecycle.step", "why": why, "variant": v["head"], "history": history(v, k)[-8:], "impl": i, "model": m})
            if len(ctx.coverage["samples"]) < 4 and len(v["rows"]) > 5:
                c, i, m = v["rows"][len(v["rows"]) // 2]
                ctx.coverage["samples"].append({"variant": v["head"], "op": c, "impl": i, "model": m})
        if rc == 0 and "ERROR: LeakSanitizer" in err and not any(x.startswith("lsan:") for x in reported):
            fn = [x for x in re.findall(r"#\d+ 0x[0-9a-f]+ in ([^\n(]+)", err) if not re.search(r"operator new|interceptor|malloc|allocate", x)]
            sig = "lsan:" + (fn[0].strip().split("::")[-1] if fn else "unknown"); reported.add(sig)
            report(ctx, sig, {"stderr": err[-3000:]}, "C20 oracle: LeakSanitizer at exit: memory obtained outside the counting allocator was never released: " + err[-700:])
        if rc == 0: break
        # the harness died (sanitizer abort, signal, timeout): a result, reported with the offending history
        crashes += 1
        last = variants[-1] if variants else None
        sig = crash_signature(err, last)
        if sig not in reported:
            reported.add(sig)
            sv = shrink(ctx, exe, last["head"], sig, os.path.dirname(cases)) if last else None
            hist = (history(sv) + [sv["pending"]]) if sv and sv.get("pending") else ((history(last) + [last["pending"] or "?"]) if last else [])
            tags = "".join(h.split()[0] for h in hist)
            report(ctx, sig + ":" + tags, {"variant": last["head"] if last else None, "history": hist, "stderr": err[-2500:], "harness_rc": rc},
                       "C20: harness aborted (rc=%d) in %s | minimal history: %s | %s | %s" % (rc, sig, " ; ".join(hist), (re.search(r"(ERROR: AddressSanitizer[^\n]*|runtime error[^\n]*)", err) or [""])[0], describe_variant(last["head"], hist) if last else ""))
        first = int(last["head"].split()[1]) + 1 if last else end
    ctx.coverage["evaluations"] = evals
    ctx.coverage["distinct_nontrivial"] = len(seen)
    ctx.coverage["rule"] = ("histories of 6..25 calls over 3 object slots drawn from VERIF_SEED by harness/c20_harness.cpp; each history is run without fault, with "
                            "std::bad_alloc injected at every allocation position, and with every read (read_fits, read_fits_mem, path constructor) of an intact file replaced in turn by: each damaged file (garbage / missing, no ORDERi, empty primary array, per dimension: no KNOTSi, KNOTSi not non-decreasing, KNOTSi of the wrong length; no EXTENTS), the file cut at every FITS block boundary and at a random offset inside every block, and each cfitsio call of the reader reporting an error (once; from then on) - every stage of read_fits_core on the disk and the memory route; an evaluation is one executed call "
                            "compared with the model; non-trivial = the call moved memory through the allocator or threw; distinct = distinct (call line, state of all objects before)")
    ctx.coverage["input_distribution"] = stats_all
    # the failure classes the tie is claimed to cover must actually have been produced
    if stats_all.get("refwalk_disagrees", 0):
        ctx.tie_ok = False; ctx.broken.append({"kind": "harness self-check", "why": "ref_walk (the harness' restatement of the reader) disagrees %d time(s) with the stage a damaged file has by construction" % stats_all["refwalk_disagrees"]})
    need = {"op_Y": "stacking constructor calls", "glam_failures": "fits whose GLAM step failed", "write_fits_io_failures": "write_fits calls hitting an I/O error",
            "write_fits_mem_io_failures": "write_fits_mem calls hitting an I/O error",
            "readfail_cut_disk_stage5": "reads of a disk file cut short inside the primary data (failing while the coefficient pixels are read)",
            "readfail_cut_disk_stage6": "reads of a disk file cut short inside the data of a knot vector",
            "readfail_cut_mem_stage3": "reads of a memory image cut short"}
    for route, rname in (("disk", "read_fits"), ("ctor", "the path constructor"), ("mem", "read_fits_mem")):
        for st in range(1, 8): need["readfail_%s_stage%d" % (route, st)] = "calls of %s failing at stage %d (%s)" % (rname, st, STAGE[st])
    for cls, cname in (("call", "one cfitsio call failing once"), ("callsticky", "every cfitsio call failing from some call on")):
        for st in range(1, 8): need["readfail_%s_disk_stage%d" % (cls, st)] = "disk reads with %s, ending at stage %d" % (cname, st)
    for k, what in need.items():
        if crashes == 0 and stats_all.get(k, 0) == 0:
            ctx.tie_ok = False; ctx.broken.append({"kind": "coverage", "why": "no %s were produced by the harness" % what})
    ctx.coverage["tie_mismatches"] = tie_n
    ctx.coverage["harness_crashes"] = crashes
    ctx.assumptions += [
        "model configuration run: Cfg.%s = code with fixes/C20-1..C20-12 and C16-4 applied (C20-11 stands in for the C07 read guard)%s; on a tree without them the oracle reports the defects" % (CFG, " plus the proposed C20-13..15" if CFG == "repaired" else ", stacking constructor as it is in /repo (three known findings: no extents, leak on allocation failure, unusable arguments are undefined behaviour)"),
        "allocation failures are injected only through the Alloc template parameter; plain new[]/malloc temporaries (convolve, permuteDimensions, fit, cfitsio, CHOLMOD) are not failed, their leaks are watched by LeakSanitizer",
        "GLAM failure is injected by redirecting the call of glamfit_complex inside fit() (-Wl,--wrap) to a wrapper returning 1; no input was found that makes the real solver report failure (zero or NaN weights return success)",
        "failing reads: besides damaged and truncated real files, input failures are injected at the cfitsio entry points read_fits / read_fits_mem / read_fits_core call (ffdkopn, ffomem, ffthdu, ffmahd, ffgidm, ffghsp, ffgky, ffgisz, ffgpxv, ffmnhd, ffclos; the n-th call of the reader reports READ_ERROR, once or from then on); fits_read_keyn (the two loops over the header keys) is not made to fail; the stage at which a read ends is worked out by harness/c20_harness.cpp ref_walk, an independent restatement of the reader as its cfitsio call sequence, checked against the stage the damaged files have by construction (evidence: refwalk_disagrees absent)",
        "output failures are injected at the cfitsio entry points write_fits_core / write_fits(_mem) call (ffcrim, ffppx, ffpky, ffclos), at libc fwrite (ENOSPC) and by a path in a missing directory; what is left on disk is C08's subject",
        "Cfg.head: calls which are undefined behaviour in /repo as it is (convolve / valid permuteDimensions on a table made by the stacking constructor, stacking constructor with unusable arguments) are not executed inside the history runs (result `avoided`, the model must say `crash`); each is executed once in a process of its own (probes); allocation-failure positions inside the stacking constructor are run by a probe only (every one of them leaks)",
        "stacking constructor: inputs are live tables of one shape with 1-2 dimensions and <= 400 coefficients, 2-3 of them (repetition allowed), stackOrder 1-2",
        "aux values contain no quote characters and no embedded NUL (quote handling: C16); tables are well-formed (nknots >= 2*order+2)",
        "deallocate(nullptr, n) calls made by write_key's failure path are tolerated by the counting allocator and counted (evidence: null_deallocs)",
    ]


def replay(ctx, path):
    r = json.load(open(path))
    print(json.dumps(r, indent=1)[:3000])
    run(ctx)
